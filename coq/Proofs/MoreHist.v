(* MoreHist.v — second audit round for C02 / C04 / C17: a RICHER history
   interpreter [cstep] for ARBITRARY environments (stateful, panicking retain
   predicates and entry closures, get_disjoint_mut, clone_from, collect with a
   panicking source, PartialEq, consuming iterator sessions dropped or forgotten,
   forgotten drains, interleaved with the Dict2 operations), its any-environment
   safety and its ledger along a history (identities created by Clone / closures
   are accounted for dynamically); exact accounting for calm (unlawful)
   environments; Tidy / exactness for Dict2 histories; provenance; len matches
   iteration for any environment. *)
Require Import Model.Base Model.Slots Model.MapOps Model.EntryOps Model.SetOps Model.Fmt Model.Exec.
Require Import Proofs.Hoare Proofs.Inv Proofs.Safety Proofs.Safety2 Proofs.Safety3 Proofs.Spec
               Proofs.Lawful Proofs.Lawful2 Proofs.Lawful3 Proofs.IterSpec Proofs.EqClone Proofs.Disjoint
               Proofs.EntrySpec Proofs.Dict Proofs.Bulk Proofs.SetDict Proofs.Dict2 Proofs.Owned Proofs.Owned2
               Proofs.FmtSerde Proofs.ExecSafe Proofs.ExecUniq Proofs.Legacy Proofs.Gaps
               Proofs.MoreOwned.
From Coq Require Import Permutation.

(* ====================================================================== *)
(* 1. histories whose handed-in identities depend on the state (objects   *)
(*    made by Clone / closures from the current callback state)           *)
(* ====================================================================== *)
Section DynHistory.
Context {K V Q T : Type} (E : env K V Q T).
Notation M := (M K V T). Notation world := (world K V T).
Context {O R : Type} (stp : O -> M R).
Context (d_ins : O -> world -> list N) (d_outs : O -> R -> list N) (d_ok : O -> Prop).

(* the identities the history takes in: arguments, and objects created by user
   code, step by step along the actual run *)
Fixpoint dins (ops : list O) (w : world) : list N :=
  match ops with
  | [] => []
  | o :: t => d_ins o w ++ match stp o w with Ok _ w' => dins t w' | Panic w' => dins t w' | UB => [] end
  end.

Definition dconserves (o : O) : Prop :=
  forall w, WF (self w) ->
    wp (stp o)
       (fun a w' => WF (self w') /\ cap (self w') = cap (self w) /\ exists lost, acct E w w' (d_ins o w) (d_outs o a) lost)
       (fun w' => WF (self w') /\ cap (self w') = cap (self w) /\ exists lost, acct E w w' (d_ins o w) [] lost) w.

Lemma d_run_acct (Hc : forall o, d_ok o -> dconserves o) ops : forall w,
  WF (self w) -> Forall d_ok ops ->
  exists wf lost, gfinal stp ops w = Some wf /\ WF (self wf) /\ cap (self wf) = cap (self w) /\
    Permutation (owned E (self wf) ++ gouts stp d_outs (fun _ => []) ops w ++ lost ++ dropped (log wf))
                (owned E (self w) ++ dins ops w ++ dropped (log w)).
Proof.
  induction ops as [|o t IH]; intros w Hw Hok; cbn [gfinal gouts dins].
  - exists w, []. split; [reflexivity|]. split; [exact Hw|]. split; [reflexivity|]. perm_ids.
  - inversion Hok as [|o' t' Ho Ht]; subst.
    pose proof (Hc o Ho w Hw) as Hs. unfold wp in Hs.
    destruct (stp o w) as [r w'|w'|]; [| |destruct Hs].
    + destruct Hs as (Hw' & Hc' & lost1 & HP1). destruct (IH w' Hw' Ht) as (wf & lost2 & H1 & H2 & H3 & HP2).
      exists wf, (lost1 ++ lost2). split; [exact H1|]. split; [exact H2|]. split; [congruence|].
      unfold acct in HP1. perm_ids.
    + destruct Hs as (Hw' & Hc' & lost1 & HP1). destruct (IH w' Hw' Ht) as (wf & lost2 & H1 & H2 & H3 & HP2).
      exists wf, (lost1 ++ lost2). split; [exact H1|]. split; [exact H2|]. split; [congruence|].
      unfold acct in HP1. cbn [app]. perm_ids.
Qed.

Lemma d_run_NoDup (Hc : forall o, d_ok o -> dconserves o) ops w wf extra :
  WF (self w) -> Forall d_ok ops ->
  NoDup (owned E (self w) ++ dins ops w ++ extra ++ dropped (log w)) ->
  gfinal stp ops w = Some wf ->
  NoDup (owned E (self wf) ++ gouts stp d_outs (fun _ => []) ops w ++ extra ++ dropped (log wf)).
Proof.
  intros Hw Hok Hn Hf. destruct (d_run_acct Hc ops w Hw Hok) as (wf' & lost & H1 & _ & _ & HP).
  rewrite Hf in H1. injection H1 as <-. perm_ids.
Qed.

(* safety with a contract that may depend on nothing but the operation *)
Lemma d_run_safe (c_safe : O -> Prop) (Hk : forall o, c_safe o -> keeps (stp o)) ops : forall w,
  WF (self w) -> Forall c_safe ops ->
  exists wf, gfinal stp ops w = Some wf /\ WF (self wf) /\ cap (self wf) = cap (self w).
Proof.
  induction ops as [|o t IH]; intros w Hw Hok; cbn [gfinal].
  - exists w. auto.
  - inversion Hok as [|o' t' Ho Ht]; subst.
    pose proof (Hk o Ho w Hw) as Hs. unfold wp in Hs.
    destruct (stp o w) as [r w'|w'|]; [| |destruct Hs].
    + destruct Hs as [Hw' Hc']. destruct (IH w' Hw' Ht) as (wf & H1 & H2 & H3).
      exists wf. split; [exact H1|]. split; [exact H2 | congruence].
    + destruct Hs as [Hw' Hc']. destruct (IH w' Hw' Ht) as (wf & H1 & H2 & H3).
      exists wf. split; [exact H1|]. split; [exact H2 | congruence].
Qed.

End DynHistory.

(* ====================================================================== *)
(* 2. generic forms of Exec.swap_self / replace_with / the detached        *)
(*    container of a consuming iterator, and their ledger                  *)
(* ====================================================================== *)
Section Detach.
Context {K V Q T : Type} (E : env K V Q T).
Notation M := (M K V T). Notation world := (world K V T). Notation map := (map K V).

(* run [c] on a detached container [m0] (a local of the caller) *)
Definition swap_g {A} (m0 : map) (c : M A) : M (A * map) :=
  fun w => match c {| cb := cb w; log := log w; self := m0 |} with
           | Ok a w' => Ok (a, self w') {| cb := cb w'; log := log w'; self := self w |}
           | Panic w' => Panic {| cb := cb w'; log := log w'; self := self w |}
           | UB => UB
           end.

(* *self = <container built by [build] from Map::new()>; then the old value is dropped *)
Definition replace_g (build : M unit) : M unit :=
  c <- get_cap ;;
  '(_, fresh) <- swap_g (new_map c) build ;;
  old <- get_self ;;
  put_self fresh ;;
  '(_, _) <- swap_g old (drop_map E) ;;
  ret tt.

(* a consuming iterator takes the container away; the register is left empty *)
Definition detach_g {A} (sess : M A) : M A :=
  c <- get_cap ;; old <- get_self ;; put_self (new_map c) ;;
  '(r, _) <- swap_g old sess ;; ret r.

Definition fresh_w (w : world) : world := {| cb := cb w; log := log w; self := new_map (cap (self w)) |}.

Lemma replace_g_panic (build : M unit) (w w1 : world) :
  build (fresh_w w) = Panic w1 -> replace_g build w = Panic {| cb := cb w1; log := log w1; self := self w |}.
Proof. intros H. unfold replace_g, bind, get_cap, swap_g, fresh_w in *. cbn [cb log self]. rewrite H. reflexivity. Qed.

Lemma replace_g_ok (build : M unit) (w w1 : world) :
  build (fresh_w w) = Ok tt w1 ->
  replace_g build w =
    match drop_map E {| cb := cb w1; log := log w1; self := self w |} with
    | Ok _ w2 => Ok tt {| cb := cb w2; log := log w2; self := self w1 |}
    | Panic w2 => Panic {| cb := cb w2; log := log w2; self := self w1 |}
    | UB => UB
    end.
Proof.
  intros H. unfold replace_g, bind, get_cap, swap_g, get_self, put_self, fresh_w, ret in *. cbn [cb log self]. rewrite H.
  cbn [cb log self]. destruct (drop_map E _) as [[] w2|w2|]; reflexivity.
Qed.

Lemma replace_g_ub (build : M unit) (w : world) : build (fresh_w w) = UB -> replace_g build w = UB.
Proof. intros H. unfold replace_g, bind, get_cap, swap_g, fresh_w in *. cbn [cb log self]. rewrite H. reflexivity. Qed.

(* the ledger of a replacement: [ins] = what the build is handed or creates *)
Lemma replace_g_acct (build : M unit) (ins : list N) (w : world) :
  WF (self w) ->
  wp build
     (fun _ w1 => WF (self w1) /\ cap (self w1) = cap (self w) /\
                  exists lost, Permutation (owned E (self w1) ++ lost ++ dropped (log w1)) (ins ++ dropped (log w)))
     (fun w1 => exists lost, Permutation (lost ++ dropped (log w1)) (ins ++ dropped (log w)))
     (fresh_w w) ->
  wp (replace_g build)
     (fun _ w' => WF (self w') /\ cap (self w') = cap (self w) /\ exists lost, acct E w w' ins [] lost)
     (fun w' => WF (self w') /\ cap (self w') = cap (self w) /\ exists lost, acct E w w' ins [] lost) w.
Proof.
  intros Hw Hb. unfold wp in Hb.
  destruct (build (fresh_w w)) as [[] w1|w1|] eqn:Hbe; [| |contradiction].
  - destruct Hb as (Hw1 & Hc1 & lost1 & HP1).
    unfold wp. rewrite (replace_g_ok build w w1 Hbe).
    set (w1' := {| cb := cb w1; log := log w1; self := self w |}).
    assert (Hw' : WF (self w1')) by exact Hw.
    pose proof (cf_drop_map_old E w1' Hw') as Hd. unfold wp in Hd.
    destruct (drop_map E w1') as [[] w2|w2|]; [| |contradiction]; cbn [self log cb].
    + destruct Hd as (d & Hd1 & Hd2 & _). split; [exact Hw1|]. split; [exact Hc1|].
      exists (lost1 ++ owned E (self w2)). unfold acct. cbn [self log]. cbn [w1' self log] in Hd1, Hd2. perm_ids.
    + destruct Hd as (d & Hd1 & Hd2). split; [exact Hw1|]. split; [exact Hc1|].
      exists (lost1 ++ owned E (self w2)). unfold acct. cbn [self log]. cbn [w1' self log] in Hd1, Hd2. perm_ids.
  - destruct Hb as (lost & HP). unfold wp. rewrite (replace_g_panic build w w1 Hbe).
    cbn [self]. split; [exact Hw|]. split; [reflexivity|]. exists lost. unfold acct. cbn [self log]. perm_ids.
Qed.

(* when the build panics the register keeps its old contents *)
Lemma replace_g_build_panic_keeps_self (build : M unit) (w w1 : world) :
  build (fresh_w w) = Panic w1 -> exists w', replace_g build w = Panic w' /\ self w' = self w.
Proof. intros H. rewrite (replace_g_panic build w w1 H). eexists. split; reflexivity. Qed.

Lemma detach_g_eq {A} (sess : M A) (w : world) :
  detach_g sess w =
    match sess w with
    | Ok r w1 => Ok r {| cb := cb w1; log := log w1; self := new_map (cap (self w)) |}
    | Panic w1 => Panic {| cb := cb w1; log := log w1; self := new_map (cap (self w)) |}
    | UB => UB
    end.
Proof.
  destruct w as [c l m]. unfold detach_g, bind, get_cap, get_self, put_self, swap_g, ret. cbn [cb log self].
  destruct (sess _) as [r w1|w1|]; reflexivity.
Qed.

(* the ledger of a consuming session: whatever is left in the detached container
   at the end (forgotten iterator; Drop that panicked) is leaked *)
Lemma detach_g_acct {A} (sess : M A) (outs : A -> list N) (w : world) :
  WF (self w) ->
  wp sess (fun r w1 => exists lost, acct E w w1 [] (outs r) lost) (fun w1 => exists lost, acct E w w1 [] [] lost) w ->
  wp (detach_g sess)
     (fun r w' => WF (self w') /\ cap (self w') = cap (self w) /\ exists lost, acct E w w' [] (outs r) lost)
     (fun w' => WF (self w') /\ cap (self w') = cap (self w) /\ exists lost, acct E w w' [] [] lost) w.
Proof.
  intros Hw Hs. unfold wp in *. rewrite detach_g_eq.
  destruct (sess w) as [r w1|w1|]; [| |contradiction]; cbn [self log];
    (split; [apply WF_new|]); (split; [apply cap_new|]); destruct Hs as (lost & HP);
    exists (lost ++ owned E (self w1)); unfold acct in *; cbn [self log]; rewrite (cf_owned_new E); perm_ids.
Qed.

End Detach.

(* these ARE the compositions of the interpreter of Model/Exec.v *)
Lemma swap_g_is_swap_self {V A} (m0 : map key V) (c : M key V cstate A) w : swap_g m0 c w = swap_self m0 c w.
Proof. reflexivity. Qed.

Lemma replace_g_is_replace_with {V} (E : env key V query cstate) build body w :
  (replace_g E build ;; ret body) w = replace_with E build body w.
Proof.
  unfold replace_g, replace_with, bind, get_cap, swap_g, swap_self, get_self, put_self, ret. cbn [cb log self].
  destruct (build _) as [[] w1|w1|]; [|reflexivity|reflexivity]. cbn [cb log self].
  destruct (drop_map E _) as [[] w2|w2|]; reflexivity.
Qed.

(* ====================================================================== *)
(* 3. computations that destroy nothing (callbacks, reads), no liveness    *)
(*    needed: whenever they terminate the destroyed-list is unchanged      *)
(* ====================================================================== *)
Section DropQuiet.
Context {K V Q T : Type} (E : env K V Q T).
Notation M := (M K V T). Notation world := (world K V T). Notation map := (map K V).

Definition ldq {A} (c : M A) : Prop :=
  forall w, match c w with Ok _ w' | Panic w' => dropped (log w') = dropped (log w) | UB => True end.

Lemma ldq_ret {A} (a : A) : ldq (@ret K V T A a).
Proof. intros w. reflexivity. Qed.
Lemma ldq_panic {A} : ldq (@panic K V T A).
Proof. intros w. reflexivity. Qed.
Lemma ldq_ub {A} : ldq (@ub K V T A).
Proof. intros w. exact I. Qed.
Lemma ldq_bind {A B} (c : M A) (f : A -> M B) : ldq c -> (forall a, ldq (f a)) -> ldq (bind c f).
Proof.
  intros Hc Hf w. unfold bind. specialize (Hc w). destruct (c w) as [a w1|w1|]; [|exact Hc|exact I].
  specialize (Hf a w1). destruct (f a w1); try exact I; congruence.
Qed.
Lemma ldq_if {A} (b : bool) (c1 c2 : M A) : ldq c1 -> ldq c2 -> ldq (if b then c1 else c2).
Proof. destruct b; auto. Qed.
Lemma ldq_cbk f : ldq (@cbk K V T f).
Proof. intros w. unfold cbk. destruct (f (cb w)) as [[| |] s]; reflexivity. Qed.
Lemma ldq_get_len : ldq (@get_len K V T).
Proof. intros w. reflexivity. Qed.
Lemma ldq_get_cap : ldq (@get_cap K V T).
Proof. intros w. reflexivity. Qed.
Lemma ldq_get_self : ldq (@get_self K V T).
Proof. intros w. reflexivity. Qed.
Lemma ldq_p_ref i : ldq (@p_ref K V T i).
Proof. intros w. unfold p_ref. destruct (nth_error (slots (self w)) i) as [[p|]|]; try exact I. reflexivity. Qed.
Lemma ldq_p_prefix : ldq (@p_prefix K V T).
Proof. unfold p_prefix. apply ldq_bind; [apply ldq_get_len|]. intros n. apply ldq_bind; [apply ldq_get_cap|]. intros c.
  apply ldq_if; [apply ldq_ret | apply ldq_panic]. Qed.
Lemma ldq_scan_loop (test : K * V -> M bool) : (forall p, ldq (test p)) -> forall n i, ldq (scan_loop test n i).
Proof.
  intros Ht. induction n as [|n IH]; intros i; cbn [scan_loop]; [apply ldq_ret|].
  apply ldq_bind; [apply ldq_p_ref|]. intros p. apply ldq_bind; [apply Ht|]. intros b.
  apply ldq_if; [apply ldq_ret | apply IH].
Qed.
Lemma ldq_scan (test : K * V -> M bool) : (forall p, ldq (test p)) -> ldq (scan test).
Proof.
  intros Ht. unfold scan. apply ldq_bind; [apply ldq_p_prefix|]. intros _.
  apply ldq_bind; [apply ldq_get_len|]. intros n. apply ldq_scan_loop. exact Ht.
Qed.
Lemma ldq_on_map {A} (m : map) (c : M A) : ldq c -> ldq (on_map m c).
Proof.
  intros Hc w. unfold on_map. specialize (Hc {| cb := cb w; log := log w; self := m |}).
  destruct (c _) as [a w1|w1|]; cbn [log] in *; auto.
Qed.

(* PartialEq *)
Lemma ldq_eq_loop (a b : map) : forall n i, ldq (eq_loop E a b n i).
Proof.
  induction n as [|n IH]; intros i; cbn [eq_loop]; [apply ldq_ret|].
  destruct (nth_error (slots a) i) as [[[k v]|]|]; try apply ldq_ub.
  apply ldq_bind; [apply ldq_on_map; apply ldq_scan; intros p; apply ldq_cbk|]. intros [j|]; [|apply ldq_ret].
  destruct (nth_error (slots b) j) as [[[k' v']|]|]; try apply ldq_ub.
  apply ldq_bind; [apply ldq_cbk|]. intros e. apply ldq_if; [apply IH | apply ldq_ret].
Qed.
Lemma ldq_map_eq (a b : map) : ldq (map_eq E a b).
Proof.
  unfold map_eq. apply ldq_if; [|apply ldq_ret]. apply ldq_if; [apply ldq_eq_loop | apply ldq_panic].
Qed.

(* get_disjoint_mut / get_disjoint_unchecked_mut *)
Lemma ldq_assert_ne_all k rest : ldq (assert_ne_all E k rest).
Proof.
  induction rest as [|k' rest IH]; cbn [assert_ne_all]; [apply ldq_ret|].
  apply ldq_bind; [apply ldq_cbk|]. intros b. apply ldq_if; [apply ldq_panic | exact IH].
Qed.
Lemma ldq_assert_distinct ks : ldq (assert_distinct E ks).
Proof.
  induction ks as [|k rest IH]; cbn [assert_distinct]; [apply ldq_ret|].
  apply ldq_bind; [apply ldq_assert_ne_all | intros _; exact IH].
Qed.
Lemma ldq_position ks p : forall j, ldq (position E ks p j).
Proof.
  induction ks as [|k ks IH]; intros j; cbn [position]; [apply ldq_ret|].
  apply ldq_bind; [apply ldq_cbk|]. intros b. apply ldq_if; [apply ldq_ret | apply IH].
Qed.
Lemma ldq_fill_stack ks J : forall n i stack, ldq (fill_stack E ks J n i stack).
Proof.
  induction n as [|n IH]; intros i stack; cbn [fill_stack]; [apply ldq_ret|].
  apply ldq_bind; [apply ldq_p_ref|]. intros p. apply ldq_bind; [apply ldq_position|]. intros [j|]; [|apply IH].
  apply ldq_if; [apply IH | apply ldq_panic].
Qed.
Lemma ldq_split_back J : forall st rest out, ldq (@split_back K V T J st rest out).
Proof.
  induction st as [|[pair_i ks_i] st IH]; intros rest out; cbn [split_back]; [apply ldq_ret|].
  apply ldq_if; [|apply ldq_panic]. apply ldq_if; [|apply ldq_panic].
  apply ldq_bind; [apply ldq_p_ref|]. intros _. apply ldq_if; [apply IH | apply ldq_panic].
Qed.
Lemma ldq_get_disjoint_unchecked_mut ks : ldq (get_disjoint_unchecked_mut E ks).
Proof.
  unfold get_disjoint_unchecked_mut. destruct ks as [|k [|k' ks]]; [apply ldq_ret | |].
  - apply ldq_bind; [unfold get_mut; apply ldq_scan; intros p; apply ldq_cbk | intros r; apply ldq_ret].
  - apply ldq_bind; [apply ldq_get_len|]. intros n. apply ldq_bind; [apply ldq_fill_stack|]. intros stack.
    apply ldq_bind; [apply ldq_p_prefix|]. intros _. apply ldq_split_back.
Qed.
Lemma ldq_get_disjoint_mut ks : ldq (get_disjoint_mut E ks).
Proof.
  unfold get_disjoint_mut. destruct ks as [|k ks]; [apply ldq_ret|].
  apply ldq_bind; [apply ldq_assert_distinct | intros _; apply ldq_get_disjoint_unchecked_mut].
Qed.

(* a computation that leaves the container alone and destroys nothing conserves everything *)
Lemma frame_ldq_acct {A} (c : M A) (w : world) (Qn : A -> world -> Prop) (Qp : world -> Prop) :
  WF (self w) -> ldq c -> wp c Qn Qp w ->
  (forall a w', Qn a w' -> self w' = self w) -> (forall w', Qp w' -> self w' = self w) ->
  wp c (fun a w' => WF (self w') /\ cap (self w') = cap (self w) /\ exists lost, acct E w w' [] [] lost)
       (fun w' => WF (self w') /\ cap (self w') = cap (self w) /\ exists lost, acct E w w' [] [] lost) w.
Proof.
  intros Hw Hq Hc Hn Hp. specialize (Hq w). unfold wp in *.
  destruct (c w) as [a w'|w'|]; [| |exact Hc].
  - rewrite (Hn a w' Hc). split; [exact Hw|]. split; [reflexivity|]. exists []. unfold acct. rewrite (Hn a w' Hc), Hq. perm_ids.
  - rewrite (Hp w' Hc). split; [exact Hw|]. split; [reflexivity|]. exists []. unfold acct. rewrite (Hp w' Hc), Hq. perm_ids.
Qed.

End DropQuiet.

(* ====================================================================== *)
(* 4. the richer history interpreter, ARBITRARY environment                *)
(* ====================================================================== *)
Section CopHistory.
Context {K V Q T : Type} (E : env K V Q T) (debug : bool).
Notation M := (M K V T). Notation world := (world K V T). Notation map := (map K V). Notation kv := (K * V)%type.
Notation dop2 := (@Dict2.dop2 K V Q). Notation dres2 := (@Dict2.dres2 K V).
Local Notation F := (flat_map (ids_pair E)).

Inductive ikind := IPairs | IKeys | IVals.     (* into_iter | into_keys | into_values *)

Inductive cop :=
| CBase (o : dop2)                                   (* the 13 operations, drain+drop, iteration, entry().or_insert, extend *)
| CRetainF (f : @pred_t K V T)                       (* retain with a STATEFUL predicate that may panic *)
| CEntryWith (k : K) (f : T -> option V * T)         (* *entry(k).or_insert_with(f): f may panic *)
| CEntryWithKey (k : K) (f : K -> T -> option V * T) (* *entry(k).or_insert_with_key(f) *)
| CAndModify (k : K) (f : @modf_t V T) (v : V)       (* *entry(k).and_modify(f).or_insert(v): f may panic *)
| CDisjoint (ks : list Q) (unchecked : bool)         (* get_disjoint_mut / get_disjoint_unchecked_mut *)
| CCloneFrom (src : map)                             (* self.clone_from(&src) = *self = src.clone() *)
| CFromIter (nx : T -> ans * T) (items : list kv)    (* *self = items.collect(): the source may panic *)
| CEq (other : map)                                  (* *self == other *)
| CIntoRun (kind : ikind) (n : nat) (forget : bool)  (* mem::take(self).into_*(): n items, then dropped / forgotten *)
| CDrainForget (n : nat).                            (* drain(), n items, mem::forget(drain) *)

Inductive cres :=
| XBase (r : dres2) | XUnit | XVal (v : V) | XSlots (l : list (option nat)) | XBool (b : bool)
| XItems (l : list kv) | XKeys (l : list K) | XVals (l : list V).

(* one consuming session on the detached container: the iterator is a local whose
   destructor runs when a step panics (finally_drop), then it is dropped or forgotten *)
Definition into_sess {A} (run : M A) (X : A -> cres) (forget : bool) : M cres :=
  r <- finally_drop E run ;; (if forget then ret tt else drop_map E) ;; ret (X r).

(* the compositions are those of Exec.step *)
Definition cstep (o : cop) : M cres :=
  match o with
  | CBase o => r <- Dict2.mstep2 E debug o ;; ret (XBase r)
  | CRetainF f => retain E debug f ;; ret XUnit
  | CEntryWith k f => e <- entry_of E k ;; i <- or_insert_with E debug e f ;; p <- p_ref i ;; ret (XVal (snd p))
  | CEntryWithKey k f => e <- entry_of E k ;; i <- or_insert_with_key E debug e f ;; p <- p_ref i ;; ret (XVal (snd p))
  | CAndModify k f v =>
      e <- entry_of E k ;; e' <- and_modify e f ;; i <- or_insert E debug e' v ;; p <- p_ref i ;; ret (XVal (snd p))
  | CDisjoint ks u =>
      l <- (if u then get_disjoint_unchecked_mut E ks else get_disjoint_mut E ks) ;; ret (XSlots l)
  | CCloneFrom src =>
      c <- get_cap ;; if Nat.eqb (cap src) c then (replace_g E (clone_from_src E src) ;; ret XUnit) else ret XUnit
  | CFromIter nx items => replace_g E (from_iter E debug nx items) ;; ret XUnit
  | CEq other => a <- get_self ;; b <- map_eq E a other ;; ret (XBool b)
  | CIntoRun IPairs n forget => detach_g (into_sess (into_run n) XItems forget)
  | CIntoRun IKeys n forget => detach_g (into_sess (ss_into_keys_run E n) XKeys forget)
  | CIntoRun IVals n forget => detach_g (into_sess (ss_into_values_run E n) XVals forget)
  | CDrainForget n => c <- drain ;; x <- drain_run n c ;; ret (XItems (fst x))
  end.

(* identities a step takes in: arguments, and the objects user code CREATES
   during the step (the value an entry closure returns; the clones), as a
   function of the state the step starts from *)
Definition c_ins (o : cop) (w : world) : list N :=
  match o with
  | CBase o => op2_ins E o
  | CEntryWith k f => idK E k ++ match entry_of E k w with Ok e w1 => made_entry E e f w1 | _ => [] end
  | CEntryWithKey k f =>
      idK E k ++ match entry_of E k w with Ok (Vacant k') w1 => made_val E (f k') w1 | _ => [] end
  | CAndModify k f v => ids_pair E (k, v)
  | CCloneFrom src =>
      if Nat.eqb (cap src) (cap (self w))
      then F (clone_made E src (len src) 0 (cb w)) ++ clone_orphans E src (len src) 0 (cb w) else []
  | CFromIter nx items => F items
  | _ => []
  end.
Definition c_outs (o : cop) (r : cres) : list N :=
  match o, r with
  | CBase o, XBase r => op2_outs E o r
  | CIntoRun _ _ _, XItems l | CDrainForget _, XItems l => F l
  | CIntoRun _ _ _, XKeys l => flat_map (idK E) l
  | CIntoRun _ _ _, XVals l => flat_map (idV E) l
  | _, _ => []
  end.
(* what the ledger needs: value-rewriting closures keep the value's identity (the
   objects a replacing closure makes are created inside the loop; the model has no
   function naming them: MoreOwned.retain_conserves_gen gives them existentially);
   the other container of clone_from / == is well-formed *)
Definition c_ok (o : cop) : Prop :=
  match o with
  | CBase o => op2_ok E o
  | CRetainF f => forall s k v, idV E (snd (fst (f s k v))) = idV E v
  | CAndModify _ f _ => forall s v, idV E (snd (fst (f s v))) = idV E v
  | CCloneFrom src => WF src
  | CEq other => WF other
  | _ => True
  end.
(* what safety needs: only that the OTHER container is a well-formed one *)
Definition c_safe (o : cop) : Prop :=
  match o with CCloneFrom src => WF src | CEq other => WF other | _ => True end.

Lemma clone_orphans_nil (src : map) n : forall i s,
  length (clone_made E src n i s) = n -> clone_orphans E src n i s = [].
Proof.
  induction n as [|n IH]; intros i s H; cbn [clone_made clone_orphans] in *; [reflexivity|].
  destruct (nth_error (slots src) i) as [[p|]|]; try discriminate H.
  destruct (clone_pair_res E p s) as [[p'|] s']; [|discriminate H].
  cbn [length] in H. apply IH. lia.
Qed.

Lemma cpostN_trans0 (w w1 w2 : world) ins mid outs :
  cpostN E w ins mid w1 -> cpostN E w1 mid outs w2 -> cpostN E w ins outs w2.
Proof.
  intros (Hw1 & Hc1 & lost1 & HP1 & Ht1) (Hw2 & Hc2 & lost2 & HP2 & Ht2).
  split; [exact Hw2|]. split; [congruence|]. exists (lost1 ++ lost2). split.
  - unfold acct in *. perm_ids.
  - intros Ht. destruct (Ht1 Ht) as [-> Ht']. destruct (Ht2 Ht') as [-> Ht'']. auto.
Qed.
Lemma cpostNP_trans0 (w w1 w2 : world) ins mid :
  cpostN E w ins mid w1 -> cpostP E w1 mid w2 -> cpostP E w ins w2.
Proof.
  intros (Hw1 & Hc1 & lost1 & HP1 & Ht1) (Hw2 & Hc2 & lost2 & HP2).
  split; [exact Hw2|]. split; [congruence|]. exists (lost1 ++ lost2). unfold acct in *. perm_ids.
Qed.

Lemma into_sess_acct {A} (run : M A) (outs : A -> list N) (X : A -> cres) forget (w : world) :
  conserves E run [] outs -> WF (self w) ->
  wp (into_sess run X forget) (fun x w1 => exists r lost, x = X r /\ acct E w w1 [] (outs r) lost)
     (fun w1 => exists lost, acct E w w1 [] [] lost) w.
Proof.
  intros Hc Hw. unfold into_sess. apply wp_bind.
  apply (Owned.wp_finally_drop_gen E run _ (cpostP E w [])).
  - eapply wp_mono; [apply Hc; exact Hw | |]; cbn beta; [|auto].
    intros r w1 (Hw1 & _ & lost1 & HP1 & _). apply wp_bind. destruct forget.
    + apply wp_ret. apply wp_ret. exists r, lost1. split; [reflexivity | exact HP1].
    + eapply wp_mono; [apply (drop_map_acct_nolost E w1 Hw1) | |]; cbn beta.
      * intros _ w2 HA. apply wp_ret. exists r, lost1. split; [reflexivity|]. unfold acct in *. perm_ids.
      * intros w2 HA. exists (outs r ++ lost1). unfold acct in *. perm_ids.
  - intros w1 (Hw1 & _ & lost1 & HP1).
    eapply wp_mono; [apply (unwind_map_acct_nolost E w1 Hw1) | |]; cbn beta.
    + intros _ w2 HA. exists lost1. unfold acct in *. perm_ids.
    + intros w2 HA. exists lost1. unfold acct in *. perm_ids.
Qed.

Lemma cstep_into_acct {A} (run : M A) (outs : A -> list N) (X : A -> cres) (o : cop) forget (w : world) :
  conserves E run [] outs -> (forall r, c_outs o (X r) = outs r) -> c_ins o w = [] -> WF (self w) ->
  wp (detach_g (into_sess run X forget))
     (fun a w' => WF (self w') /\ cap (self w') = cap (self w) /\ exists lost, acct E w w' (c_ins o w) (c_outs o a) lost)
     (fun w' => WF (self w') /\ cap (self w') = cap (self w) /\ exists lost, acct E w w' (c_ins o w) [] lost) w.
Proof.
  intros Hc Ho Hi Hw. rewrite Hi.
  eapply wp_mono; [apply (detach_g_acct E (into_sess run X forget) (c_outs o) w Hw) | |]; cbn beta; auto.
  eapply wp_mono; [apply (into_sess_acct run outs X forget w Hc Hw) | |]; cbn beta; auto.
  intros x w1 (r & lost & -> & HA). exists lost. rewrite Ho. exact HA.
Qed.

(* every step conserves the ledger, for EVERY environment *)
Lemma cstep_dconserves (o : cop) : c_ok o -> dconserves E cstep c_ins c_outs o.
Proof.
  destruct o as [o|f|k f|k f|k f v|ks u|src|nx items|other|kind n forget|n]; intros Hok w Hw; cbn [cstep].
  - (* CBase *)
    apply wp_bind. eapply wp_mono; [apply (mstep2_conservesW E debug o Hok w Hw) | |]; cbn beta; [|auto].
    intros r w' H. apply wp_ret. exact H.
  - (* retain, stateful / panicking predicate *)
    apply wp_bind. eapply wp_mono; [apply (conserves_retain E debug f Hok w Hw) | |]; cbn beta.
    + intros _ w' (H1 & H2 & lost & H3 & _). apply wp_ret. eauto.
    + intros w' H. exact H.
  - (* entry(k).or_insert_with(f) *)
    cbn [c_ins]. pose proof (wp_conj _ _ _ _ _ _ (conserves_entry_of E k w Hw) (entry_of_spec E k w Hw)) as H0.
    unfold wp at 1. unfold bind at 1. unfold wp in H0.
    destruct (entry_of E k w) as [e w1|w1|]; [| |destruct H0].
    + destruct H0 as [H1 [Hs He]]. assert (Hw1 : WF (self w1)) by apply H1. rewrite <- Hs in He.
      change (wp (i <- or_insert_with E debug e f ;; p <- p_ref i ;; ret (XVal (snd p)))
                (fun a w' => WF (self w') /\ cap (self w') = cap (self w) /\
                             exists lost, acct E w w' (idK E k ++ made_entry E e f w1) (c_outs (CEntryWith k f) a) lost)
                (fun w' => WF (self w') /\ cap (self w') = cap (self w) /\
                           exists lost, acct E w w' (idK E k ++ made_entry E e f w1) [] lost) w1).
      apply wp_bind. eapply wp_mono; [apply (conserves_or_insert_with E debug e f w1 Hw1 He) | |]; cbn beta.
      * intros i w2 [H2 Hi]. pose proof (cpostN_trans E (made_entry E e f w1) _ _ _ _ _ _ H1 H2) as H12.
        destruct H12 as (A & B & lost & C & _).
        destruct (WF_live _ _ A Hi) as [p Hp]. apply wp_bind. eapply wp_p_ref; [exact Hp|]. apply wp_ret.
        split; [exact A|]. split; [exact B|]. exists lost. exact C.
      * intros w2 [H2 _]. exact (cpostNP_trans E (made_entry E e f w1) _ _ _ _ _ H1 H2).
    + destruct H0 as [H1 _]. rewrite app_nil_r. exact H1.
  - (* entry(k).or_insert_with_key(f) *)
    cbn [c_ins]. pose proof (wp_conj _ _ _ _ _ _ (conserves_entry_of E k w Hw) (entry_of_spec E k w Hw)) as H0.
    unfold wp at 1. unfold bind at 1. unfold wp in H0.
    destruct (entry_of E k w) as [e w1|w1|]; [| |destruct H0].
    + destruct H0 as [H1 [Hs He]]. assert (Hw1 : WF (self w1)) by apply H1. rewrite <- Hs in He.
      set (made := match e with Occupied _ => [] | Vacant k' => made_val E (f k') w1 end).
      change (wp (i <- or_insert_with_key E debug e f ;; p <- p_ref i ;; ret (XVal (snd p)))
                (fun a w' => WF (self w') /\ cap (self w') = cap (self w) /\
                             exists lost, acct E w w' (idK E k ++ made) (c_outs (CEntryWithKey k f) a) lost)
                (fun w' => WF (self w') /\ cap (self w') = cap (self w) /\
                           exists lost, acct E w w' (idK E k ++ made) [] lost) w1).
      apply wp_bind. eapply wp_mono; [apply (conserves_or_insert_with_key E debug e f w1 Hw1 He) | |]; cbn beta; fold made.
      * intros i w2 [H2 Hi]. pose proof (cpostN_trans E made _ _ _ _ _ _ H1 H2) as H12.
        destruct H12 as (A & B & lost & C & _).
        destruct (WF_live _ _ A Hi) as [p Hp]. apply wp_bind. eapply wp_p_ref; [exact Hp|]. apply wp_ret.
        split; [exact A|]. split; [exact B|]. exists lost. exact C.
      * intros w2 [H2 _]. exact (cpostNP_trans E made _ _ _ _ _ H1 H2).
    + destruct H0 as [H1 _]. rewrite app_nil_r. exact H1.
  - (* entry(k).and_modify(f).or_insert(v) *)
    cbn [c_ins]. apply wp_bind.
    eapply wp_mono; [apply wp_conj; [apply (conserves_entry_of E k w Hw) | apply (entry_of_spec E k w Hw)] | |]; cbn beta.
    + intros e w1 [H1 [Hs He]]. assert (Hw1 : WF (self w1)) by apply H1. rewrite <- Hs in He.
      apply wp_bind. eapply wp_mono; [apply (conserves_and_modify E e f w1 Hok Hw1 He) | |]; cbn beta.
      * intros e' w2 (H2 & -> & He2). pose proof (cpostN_trans0 _ _ _ _ _ _ H1 H2) as H12.
        assert (Hw2 : WF (self w2)) by apply H2.
        apply wp_bind. eapply wp_mono; [apply (conserves_or_insert E debug e v w2 Hw2 He2) | |]; cbn beta.
        -- intros i w3 [H3 Hi]. pose proof (cpostN_trans E (idV E v) _ _ _ _ _ _ H12 H3) as H123.
           destruct H123 as (A & B & lost & C & _).
           destruct (WF_live _ _ A Hi) as [p Hp]. apply wp_bind. eapply wp_p_ref; [exact Hp|]. apply wp_ret.
           split; [exact A|]. split; [exact B|]. exists lost. exact C.
        -- intros w3 H3. exact (cpostNP_trans E (idV E v) _ _ _ _ _ H12 H3).
      * intros w2 H2. pose proof (cpostNP_trans0 _ _ _ _ _ H1 H2) as H12.
        apply (cpostP_weaken E _ _ _ (idV E v)) in H12. exact H12.
    + intros w1 [H1 _]. apply (cpostP_weaken E _ _ _ (idV E v)) in H1. exact H1.
  - (* get_disjoint_mut: the container is not touched, nothing is destroyed *)
    apply wp_bind. destruct u.
    + eapply wp_mono; [apply (frame_ldq_acct E _ w _ _ Hw (ldq_get_disjoint_unchecked_mut E ks)
                                (disjoint_unchecked_safe E ks w Hw)); cbn beta; [intros a w' H; apply H | auto] | |];
        cbn beta; [|auto]. intros l w' H. apply wp_ret. exact H.
    + eapply wp_mono; [apply (frame_ldq_acct E _ w _ _ Hw (ldq_get_disjoint_mut E ks)
                                (disjoint_safe E ks w Hw)); cbn beta; [intros a w' H; apply H | auto] | |];
        cbn beta; [|auto]. intros l w' H. apply wp_ret. exact H.
  - (* clone_from *)
    cbn [c_ins c_ok] in *. apply wp_bind. apply wp_get_cap.
    destruct (Nat.eqb_spec (cap src) (cap (self w))) as [Hc|Hc].
    + apply wp_bind.
      eapply wp_mono; [apply (replace_g_acct E (clone_from_src E src)
                                (F (clone_made E src (len src) 0 (cb w)) ++ clone_orphans E src (len src) 0 (cb w)) w Hw) | |];
        cbn beta; [| intros _ w' H; apply wp_ret; exact H | auto].
      pose proof (clone_acct_gen E src (fresh_w w) Hok (WF_new _) eq_refl) as Hb.
      cbn [fresh_w self] in Hb. rewrite cap_new in Hb. specialize (Hb (eq_sym Hc)). cbv zeta in Hb.
      unfold fresh_w in Hb. cbn [cb log self] in Hb. rewrite (cf_owned_new E) in Hb. cbn [app] in Hb.
      eapply wp_mono; [exact Hb | |]; cbn beta.
      * intros _ w1 (H1 & H2 & _ & H4 & H5 & lost & H6 & _).
        split; [exact H1|]. split; [exact H2|]. exists lost.
        rewrite (clone_orphans_nil src _ _ _ H4), app_nil_r. rewrite H5. perm_ids.
      * intros w1 (d & lost & H1 & H2 & _). exists (owned E (self w1) ++ lost). rewrite H1. perm_ids.
    + apply wp_ret. cbn [c_outs]. split; [exact Hw|]. split; [reflexivity|]. exists []. unfold acct. perm_ids.
  - (* collect: the source iterator may panic at any call *)
    cbn [c_ins]. apply wp_bind.
    eapply wp_mono; [apply (replace_g_acct E (from_iter E debug nx items) (F items) w Hw) | |];
      cbn beta; [| intros _ w' H; apply wp_ret; exact H | auto].
    pose proof (from_iter_acct E debug nx items (fresh_w w) (WF_new _)) as Hb.
    eapply wp_mono; [exact Hb | |]; cbn beta.
    + intros _ w1 (H1 & H2 & lost & H3 & _). cbn [fresh_w self] in H2. rewrite cap_new in H2.
      split; [exact H1|]. split; [exact H2|]. exists lost. unfold acct in H3. cbn [fresh_w self log] in H3.
      rewrite (cf_owned_new E) in H3. perm_ids.
    + intros w1 (lost & H3). exists (owned E (self w1) ++ lost). unfold acct in H3. cbn [fresh_w self log] in H3.
      rewrite (cf_owned_new E) in H3. perm_ids.
  - (* PartialEq *)
    apply wp_bind. apply wp_get_self. apply wp_bind.
    eapply wp_mono; [apply (frame_ldq_acct E _ w _ _ Hw (ldq_map_eq E (self w) other)
                              (map_eq_frame E (self w) other w Hw Hok)); cbn beta; auto | |]; cbn beta; [|auto].
    intros b w' H. apply wp_ret. exact H.
  - (* consuming iterator sessions *)
    destruct kind.
    + apply (cstep_into_acct _ (fun r => F r) XItems (CIntoRun IPairs n forget)); auto. apply ss_into_run_conserves.
    + apply (cstep_into_acct _ (fun r => flat_map (idK E) r) XKeys (CIntoRun IKeys n forget)); auto.
      apply ss_into_keys_run_conserves.
    + apply (cstep_into_acct _ (fun r => flat_map (idV E) r) XVals (CIntoRun IVals n forget)); auto.
      apply ss_into_values_run_conserves.
  - (* a forgotten drain *)
    apply (wp_bind_assoc drain (fun c => drain_run n c) (fun x => ret (XItems (fst x)))). apply wp_bind.
    eapply wp_mono; [apply (drain_forgotten_log E n w Hw) | | intros ? []]; cbn beta.
    intros x w' (H1 & _ & H3 & H4 & _ & H6). apply wp_ret. cbn [c_outs c_ins].
    split; [exact H1|]. split; [exact H3|]. exists []. unfold acct. rewrite H4. perm_ids.
Qed.

(* every step is UB-free and keeps the invariant, for EVERY environment and EVERY
   closure (no identity hypothesis): only the other container of clone_from / ==
   has to be well-formed *)
Lemma cstep_keeps (o : cop) : c_safe o -> keeps (cstep o).
Proof.
  assert (Hd : forall o', c_ok o' -> keeps (cstep o')).
  { intros o' H' w Hw. eapply wp_mono; [apply (cstep_dconserves o' H' w Hw) | |]; cbn beta.
    - intros a w' (H1 & H2 & _). split; assumption.
    - intros w' (H1 & H2 & _). split; assumption. }
  destruct o as [o|f|k f|k f|k f v|ks u|src|nx items|other|kind n forget|n]; intros Hs;
    try (apply Hd; exact Hs); try (apply Hd; exact I).
  - cbn [cstep]. apply Safety3.keeps_bind; [apply mstep2_keeps | intros; apply Safety3.keeps_ret].
  - cbn [cstep]. apply Safety3.keeps_bind; [apply keeps_retain | intros; apply Safety3.keeps_ret].
  - intros w Hw. cbn [cstep]. apply wp_bind.
    eapply wp_mono; [apply (entry_of_spec E k w Hw) | |]; cbn beta.
    + intros e w1 [Hs1 He]. assert (Hw1 : WF (self w1)) by (rewrite Hs1; exact Hw). rewrite <- Hs1 in He.
      apply wp_bind. eapply wp_mono; [apply (and_modify_spec e f w1 Hw1 He) | |]; cbn beta.
      * intros e' w2 (Hi2 & -> & Hl2). assert (Hw2 : WF (self w2)) by apply Hi2.
        assert (He2 : entry_ok e (self w2)) by (destruct e; cbn [entry_ok] in *; [rewrite Hl2; exact He | exact I]).
        apply wp_bind. eapply wp_mono; [apply (or_insert_spec E debug e v w2 Hw2 He2) | |]; cbn beta.
        -- intros i w3 [Hi3 Hlt]. assert (Hw3 : WF (self w3)) by apply Hi3.
           destruct (WF_live _ _ Hw3 Hlt) as [p Hp]. apply wp_bind. eapply wp_p_ref; [exact Hp|]. apply wp_ret.
           eapply inv_post_base; [exact Hs1|]. eapply Safety3.inv_post_trans; eassumption.
        -- intros w3 Hi3. eapply inv_post_base; [exact Hs1|]. eapply Safety3.inv_post_trans; eassumption.
      * intros w2 Hi2. eapply inv_post_base; [exact Hs1 | exact Hi2].
    + intros w1 Hs1. apply inv_post_refl; assumption.
Qed.

(* ---- histories ---- *)
Definition cfinal : list cop -> world -> option world := gfinal cstep.
Definition couts : list cop -> world -> list N := gouts cstep c_outs (fun _ => []).
Definition cins : list cop -> world -> list N := dins cstep c_ins.

(* (a) never UB, whatever ==, Clone, Drop, the retain predicate, the entry
   closures and the source iterator do, along any history *)
Theorem crun_any_env_safe ops w :
  WF (self w) -> Forall c_safe ops ->
  exists wf, cfinal ops w = Some wf /\ WF (self wf) /\ cap (self wf) = cap (self w).
Proof. intros Hw Hs. exact (d_run_safe cstep c_safe cstep_keeps ops w Hw Hs). Qed.

(* (b) the ledger of the whole history *)
Theorem crun_acct ops w :
  WF (self w) -> Forall c_ok ops ->
  exists wf lost, cfinal ops w = Some wf /\ WF (self wf) /\ cap (self wf) = cap (self w) /\
    Permutation (owned E (self wf) ++ couts ops w ++ lost ++ dropped (log wf))
                (owned E (self w) ++ cins ops w ++ dropped (log w)).
Proof. intros Hw Hok. exact (d_run_acct E cstep c_ins c_outs c_ok cstep_dconserves ops w Hw Hok). Qed.

(* freshness: the identities stored at the start, those the history takes in -
   arguments AND every object user code creates on the way (cins) -, uninvolved
   ones and those already destroyed are pairwise distinct.  Then no identity
   occurs twice among stored ++ with the caller ++ extra ++ destroyed at the end *)
Theorem crun_NoDup ops w wf extra :
  WF (self w) -> Forall c_ok ops ->
  NoDup (owned E (self w) ++ cins ops w ++ extra ++ dropped (log w)) ->
  cfinal ops w = Some wf ->
  NoDup (owned E (self wf) ++ couts ops w ++ extra ++ dropped (log wf)).
Proof.
  intros Hw Hok Hn Hf.
  exact (d_run_NoDup E cstep c_ins c_outs c_ok cstep_dconserves ops w wf extra Hw Hok Hn Hf).
Qed.

Corollary crun_no_double_drop ops w wf :
  WF (self w) -> Forall c_ok ops ->
  NoDup (owned E (self w) ++ cins ops w ++ dropped (log w)) ->
  cfinal ops w = Some wf ->
  NoDup (dropped (log wf)) /\ NoDup (owned E (self wf)) /\
  (forall x, In x (owned E (self wf)) -> ~ In x (dropped (log wf)) /\ ~ In x (couts ops w)) /\
  (forall x, In x (couts ops w) -> ~ In x (dropped (log wf))).
Proof.
  intros Hw Hok Hn Hf. pose proof (crun_NoDup ops w wf [] Hw Hok Hn Hf) as H. cbn [app] in H.
  split; [apply NoDup_app_r in H; apply NoDup_app_r in H; exact H|].
  split; [apply NoDup_app_l in H; exact H|]. split.
  - intros x Hx. pose proof (NoDup_app_disj _ _ H x Hx) as Hd.
    split; intros Hy; apply Hd; apply in_or_app; [right | left]; exact Hy.
  - intros x Hx. apply NoDup_app_r in H. exact (NoDup_app_disj _ _ H x Hx).
Qed.

(* a history of base operations only is a history of Dict2 *)
Lemma cfinal_base (ops : list dop2) : forall w, cfinal (List.map CBase ops) w = Dict2.mfinal2 E debug ops w.
Proof.
  induction ops as [|o t IH]; intros w; [reflexivity|].
  unfold cfinal in *. cbn [List.map gfinal Dict2.mfinal2 cstep]. unfold bind at 1.
  destruct (Dict2.mstep2 E debug o w) as [r w'|w'|]; cbn [ret]; auto.
Qed.

End CopHistory.

(* ====================================================================== *)
(* 5. len() matches what iteration yields, ARBITRARY environment, after    *)
(*    any history: S len calls of next() yield exactly the len slots       *)
(*    0 .. len-1, then None (the cursor is exhausted and stays so)         *)
(* ====================================================================== *)
Section AnyEnvIter.
Context {K V Q T : Type} (E : env K V Q T) (debug : bool).
Notation world := (world K V T).

Definition iter_exhausts (w : world) : Prop :=
  len (self w) <= cap (self w) /\
  wp (c <- iter ;; iter_run (S (len (self w))) c)
     (fun res w' => w' = w /\ fst res = seq 0 (len (self w)) /\ length (fst res) = len (self w) /\
                    snd res = (len (self w), len (self w)) /\
                    wp (iter_next (snd res)) (fun r w'' => w'' = w /\ fst r = None /\ snd r = snd res) (fun _ => False) w)
     (fun _ => False) w.

Lemma WF_iter_exhausts (w : world) : WF (self w) -> iter_exhausts w.
Proof.
  intros Hw. split; [apply WF_len_le_cap; exact Hw|].
  eapply wp_mono; [apply (iter_run_exact (S (len (self w))) w Hw) | | auto]; cbn beta.
  intros res w' (-> & H1 & H2). replace (Nat.min (S (len (self w))) (len (self w))) with (len (self w)) in * by lia.
  split; [reflexivity|]. split; [exact H1|]. split; [rewrite H1; apply seq_length|]. split; [exact H2|].
  rewrite H2. eapply wp_mono; [apply (iter_next_exact (len (self w)) (len (self w)) w Hw); lia | | auto]; cbn beta.
  intros r w'' [-> ->]. rewrite Nat.ltb_irrefl. cbn [fst snd]. auto.
Qed.

Theorem anyenv_len_matches_iter ops (w wf : world) :
  WF (self w) -> Dict.mfinal E debug ops w = Some wf -> iter_exhausts wf.
Proof.
  intros Hw Hf. destruct (mrun_any_env_safe E debug ops w Hw) as (wf' & H1 & H2 & _).
  rewrite Hf in H1. injection H1 as <-. apply WF_iter_exhausts. exact H2.
Qed.

Theorem anyenv_len_matches_iter2 ops (w wf : world) :
  WF (self w) -> Dict2.mfinal2 E debug ops w = Some wf -> iter_exhausts wf.
Proof.
  intros Hw Hf. destruct (mrun2_any_env_safe E debug ops w Hw) as (wf' & H1 & H2 & _).
  rewrite Hf in H1. injection H1 as <-. apply WF_iter_exhausts. exact H2.
Qed.

Theorem anyenv_len_matches_iter_c ops (w wf : world) :
  WF (self w) -> Forall (c_safe (Q:=Q)) ops -> cfinal E debug ops w = Some wf -> iter_exhausts wf.
Proof.
  intros Hw Hs Hf. destruct (crun_any_env_safe E debug ops w Hw Hs) as (wf' & H1 & H2 & _).
  rewrite Hf in H1. injection H1 as <-. apply WF_iter_exhausts. exact H2.
Qed.

End AnyEnvIter.

Theorem anyenv_len_matches_iter_s {K Q T : Type} (E : env K unit Q T) debug ops (w wf : world K unit T) :
  WF (self w) -> SetDict.smfinal E debug ops w = Some wf -> iter_exhausts wf.
Proof.
  intros Hw Hf. destruct (srun_any_env_safe E debug ops w Hw) as (wf' & H1 & H2 & _).
  rewrite Hf in H1. injection H1 as <-. apply WF_iter_exhausts. exact H2.
Qed.

(* ====================================================================== *)
(* 6. provenance: live accounting of the 13 dictionary operations, every environment *)
(* ====================================================================== *)
(* PV — provenance: what a dictionary step hands out, destroys or keeps live comes
   from the LIVE prefix (or from its own arguments); stale slots above len take no part. *)
Section PV.
Context {K V Q T : Type} (E : env K V Q T) (debug : bool).
Notation M := (M K V T). Notation world := (world K V T). Notation map := (map K V). Notation kv := (K * V)%type.
Notation dop := (@Dict.dop K V Q). Notation dres := (@Dict.dres K V).
Notation mstep := (Dict.mstep E debug).

Definition live_ids (m : map) : list N := flat_map (ids_pair E) (elems m).
Definition pv_stale_ids (m : map) : list N := ids_slots E (skipn (len m) (slots m)).

(* ================= 0. list facts ================= *)
Lemma pv_ids_slots_app (a b : list (option kv)) : ids_slots E (a ++ b) = ids_slots E a ++ ids_slots E b.
Proof. unfold ids_slots. apply flat_map_app. Qed.

Lemma pv_ids_firstn (sl : list (option kv)) : forall n,
  ids_slots E (firstn n sl) = flat_map (ids_pair E) (take_live sl n).
Proof.
  induction sl as [|o t IH]; intros [|n]; cbn [firstn take_live flat_map]; try reflexivity.
  destruct o as [p|].
  - rewrite ids_slots_cons. cbn [flat_map]. rewrite IH. reflexivity.
  - rewrite ids_slots_cons. rewrite IH. reflexivity.
Qed.

Lemma pv_owned_eq (m : map) : owned E m = live_ids m ++ pv_stale_ids m.
Proof.
  unfold owned, live_ids, pv_stale_ids, elems.
  rewrite <- (firstn_skipn (len m) (slots m)) at 1.
  rewrite pv_ids_slots_app, pv_ids_firstn. reflexivity.
Qed.

Lemma pv_owned_split (m : map) : WF m -> Permutation (owned E m) (live_ids m ++ pv_stale_ids m).
Proof. intros _. rewrite pv_owned_eq. reflexivity. Qed.

Lemma pv_flat_upd {A} (f : A -> list N) (l : list A) : forall i x old, nth_error l i = Some old ->
  Permutation (flat_map f (upd l i x) ++ f old) (f x ++ flat_map f l).
Proof.
  induction l as [|a t IH]; intros [|i] x old H; cbn [nth_error] in H; try discriminate.
  - inversion H; subst a. cbn [upd flat_map]. perm_ids.
  - cbn [upd flat_map]. pose proof (IH i x old H) as HP. perm_ids.
Qed.

Lemma pv_flat_perm {A} (f : A -> list N) (l l' : list A) :
  Permutation l l' -> Permutation (flat_map f l) (flat_map f l').
Proof.
  induction 1 as [|a l l' _ IH|a b l|l1 l2 l3 _ IH1 _ IH2]; cbn [flat_map].
  - reflexivity.
  - perm_ids.
  - perm_ids.
  - perm_ids.
Qed.

Lemma pv_dropped_evp (l : list kv) : dropped (flat_map (evp E) l) = flat_map (ids_pair E) l.
Proof.
  induction l as [|p t IH]; cbn [flat_map]; [reflexivity|].
  rewrite dropped_app, IH. unfold evp. rewrite dropped_ev_drops. reflexivity.
Qed.

Lemma pv_dropped_log (w w' : world) held :
  log w' = log w ++ ev_drops held -> dropped (log w') = dropped (log w) ++ held.
Proof. intros ->. apply dropped_log_drops. Qed.

(* ================= 1. live accounting post-conditions and their algebra ================= *)
Definition lpostN (w : world) (ins outs : list N) (w' : world) : Prop :=
  WF (self w') /\ exists d lost, dropped (log w') = dropped (log w) ++ d /\
    Permutation (live_ids (self w') ++ outs ++ lost ++ d) (live_ids (self w) ++ ins).
Definition lpostP (w : world) (ins : list N) (w' : world) : Prop :=
  WF (self w') /\ exists d lost, dropped (log w') = dropped (log w) ++ d /\
    Permutation (live_ids (self w') ++ lost ++ d) (live_ids (self w) ++ ins).
Definition pv_lconserves {A} (c : M A) (ins : list N) (outs : A -> list N) : Prop :=
  forall w, WF (self w) -> wp c (fun a => lpostN w ins (outs a)) (lpostP w ins) w.

Lemma pv_lpostN_exact w w' ins outs d :
  WF (self w') -> dropped (log w') = dropped (log w) ++ d ->
  Permutation (live_ids (self w') ++ outs ++ d) (live_ids (self w) ++ ins) -> lpostN w ins outs w'.
Proof. intros Hw Hd HP. split; [exact Hw|]. exists d, []. split; [exact Hd | perm_ids]. Qed.

Lemma pv_lpostP_exact w w' ins d lost :
  WF (self w') -> dropped (log w') = dropped (log w) ++ d ->
  Permutation (live_ids (self w') ++ lost ++ d) (live_ids (self w) ++ ins) -> lpostP w ins w'.
Proof. intros Hw Hd HP. split; [exact Hw|]. exists d, lost. split; [exact Hd | exact HP]. Qed.

Lemma pv_lpostP_of_N w w' ins outs : lpostN w ins outs w' -> lpostP w ins w'.
Proof.
  intros (Hw & d & lost & Hd & HP). split; [exact Hw|]. exists d, (outs ++ lost). split; [exact Hd | perm_ids].
Qed.

Lemma pv_lpostN_perm w w' ins outs ins' outs' :
  Permutation ins ins' -> Permutation outs outs' -> lpostN w ins outs w' -> lpostN w ins' outs' w'.
Proof.
  intros H1 H2 (Hw & d & lost & Hd & HP). split; [exact Hw|]. exists d, lost. split; [exact Hd | perm_ids].
Qed.

Lemma pv_lpostP_perm w w' ins ins' : Permutation ins ins' -> lpostP w ins w' -> lpostP w ins' w'.
Proof.
  intros H1 (Hw & d & lost & Hd & HP). split; [exact Hw|]. exists d, lost. split; [exact Hd | perm_ids].
Qed.

Lemma pv_lpostP_weaken w w' ins extra : lpostP w ins w' -> lpostP w (ins ++ extra) w'.
Proof.
  intros (Hw & d & lost & Hd & HP). split; [exact Hw|]. exists d, (lost ++ extra). split; [exact Hd | perm_ids].
Qed.

Lemma pv_lpostN_base w w1 w' ins outs :
  self w1 = self w -> dropped (log w1) = dropped (log w) -> lpostN w1 ins outs w' -> lpostN w ins outs w'.
Proof. unfold lpostN. intros -> ->. auto. Qed.
Lemma pv_lpostP_base w w1 w' ins :
  self w1 = self w -> dropped (log w1) = dropped (log w) -> lpostP w1 ins w' -> lpostP w ins w'.
Proof. unfold lpostP. intros -> ->. auto. Qed.
Lemma pv_lpostN_frame w w' w'' ins outs :
  self w'' = self w' -> dropped (log w'') = dropped (log w') -> lpostN w ins outs w' -> lpostN w ins outs w''.
Proof. unfold lpostN. intros -> ->. auto. Qed.
Lemma pv_lpostP_frame w w' w'' ins :
  self w'' = self w' -> dropped (log w'') = dropped (log w') -> lpostP w ins w' -> lpostP w ins w''.
Proof. unfold lpostP. intros -> ->. auto. Qed.

Lemma pv_lpostN_refl w w' l :
  WF (self w) -> self w' = self w -> dropped (log w') = dropped (log w) -> lpostN w l l w'.
Proof.
  intros Hw Hs Hd. apply (pv_lpostN_exact _ _ _ _ []); rewrite ?Hs, ?Hd, ?app_nil_r; auto.
Qed.
Lemma pv_lpostP_refl w w' l :
  WF (self w) -> self w' = self w -> dropped (log w') = dropped (log w) -> lpostP w l w'.
Proof. intros Hw Hs Hd. eapply pv_lpostP_of_N. apply pv_lpostN_refl; eauto. Qed.

Lemma pv_lpostN_trans extra w w1 w2 ins1 mid outs2 :
  lpostN w ins1 mid w1 -> lpostN w1 (mid ++ extra) outs2 w2 -> lpostN w (ins1 ++ extra) outs2 w2.
Proof.
  intros (Hw1 & d1 & lost1 & Hd1 & HP1) (Hw2 & d2 & lost2 & Hd2 & HP2).
  split; [exact Hw2|]. exists (d1 ++ d2), (lost1 ++ lost2). split.
  - rewrite Hd2, Hd1, app_assoc. reflexivity.
  - clear Hd1 Hd2. perm_ids.
Qed.

Lemma pv_lpostNP_trans extra w w1 w2 ins1 mid :
  lpostN w ins1 mid w1 -> lpostP w1 (mid ++ extra) w2 -> lpostP w (ins1 ++ extra) w2.
Proof.
  intros (Hw1 & d1 & lost1 & Hd1 & HP1) (Hw2 & d2 & lost2 & Hd2 & HP2).
  split; [exact Hw2|]. exists (d1 ++ d2), (lost1 ++ lost2). split.
  - rewrite Hd2, Hd1, app_assoc. reflexivity.
  - clear Hd1 Hd2. perm_ids.
Qed.

Lemma pv_lpostN_extra (w w' : world) ins outs extra : lpostN w ins outs w' -> lpostN w (ins ++ extra) (outs ++ extra) w'.
Proof.
  intros (Hw & d & lost & Hd & HP). split; [exact Hw|]. exists d, lost. split; [exact Hd | perm_ids].
Qed.

Lemma pv_lconserves_bind {A B} extra (c : M A) (f : A -> M B) ins1 outs1 outs2 :
  pv_lconserves c ins1 outs1 -> (forall a, pv_lconserves (f a) (outs1 a ++ extra) outs2) ->
  pv_lconserves (bind c f) (ins1 ++ extra) outs2.
Proof.
  intros Hc Hf w Hw. apply wp_bind. eapply wp_mono; [apply Hc; exact Hw | |]; cbn beta.
  - intros a w1 H1. assert (Hw1 : WF (self w1)) by apply H1.
    eapply wp_mono; [apply Hf; exact Hw1 | |]; cbn beta.
    + intros b w2 H2. exact (pv_lpostN_trans extra _ _ _ _ _ _ H1 H2).
    + intros w2 H2. exact (pv_lpostNP_trans extra _ _ _ _ _ H1 H2).
  - intros w1 H1. apply pv_lpostP_weaken. exact H1.
Qed.

Lemma pv_lconserves_perm {A} (c : M A) ins ins' (outs outs' : A -> list N) :
  Permutation ins ins' -> (forall a, Permutation (outs a) (outs' a)) ->
  pv_lconserves c ins outs -> pv_lconserves c ins' outs'.
Proof.
  intros H1 H2 Hc w Hw. eapply wp_mono; [apply Hc; exact Hw | |]; cbn beta.
  - intros a w' H. exact (pv_lpostN_perm _ _ _ _ _ _ H1 (H2 a) H).
  - intros w' H. exact (pv_lpostP_perm _ _ _ _ H1 H).
Qed.

Lemma pv_lconserves_bind0 {A B} (c : M A) (f : A -> M B) ins outs1 outs2 :
  pv_lconserves c ins outs1 -> (forall a, pv_lconserves (f a) (outs1 a) outs2) -> pv_lconserves (bind c f) ins outs2.
Proof.
  intros Hc Hf. apply (pv_lconserves_perm _ (ins ++ []) ins outs2 outs2); [rewrite app_nil_r; reflexivity | reflexivity |].
  apply (pv_lconserves_bind [] c f ins outs1 outs2 Hc).
  intros a. apply (pv_lconserves_perm _ (outs1 a) (outs1 a ++ []) outs2 outs2); [rewrite app_nil_r; reflexivity | reflexivity |].
  apply Hf.
Qed.

Lemma pv_lconserves_ret {A} (a : A) (outs : A -> list N) : pv_lconserves (@ret K V T A a) (outs a) outs.
Proof. intros w Hw. apply wp_ret. apply pv_lpostN_refl; auto. Qed.

Lemma pv_lconserves_panic {A} l (outs : A -> list N) : pv_lconserves (@panic K V T A) l outs.
Proof. intros w Hw. apply wp_panic. apply pv_lpostP_refl; auto. Qed.

Lemma pv_lconserves_bind_ret {A B} (c : M A) (g : A -> B) ins (outs1 : A -> list N) (outs2 : B -> list N) :
  pv_lconserves c ins outs1 -> (forall a, outs1 a = outs2 (g a)) ->
  pv_lconserves (a <- c ;; ret (g a)) ins outs2.
Proof.
  intros Hc He. eapply pv_lconserves_bind0; [exact Hc|]. intros a. rewrite He. apply (pv_lconserves_ret (g a) outs2).
Qed.

Lemma pv_lwp_step {B} extra (c : M B) (w w1 : world) ins1 mid outs2 :
  lpostN w ins1 mid w1 -> pv_lconserves c (mid ++ extra) outs2 ->
  wp c (fun b => lpostN w (ins1 ++ extra) (outs2 b)) (lpostP w (ins1 ++ extra)) w1.
Proof.
  intros H1 Hc. assert (Hw1 : WF (self w1)) by apply H1.
  eapply wp_mono; [apply Hc; exact Hw1 | |]; cbn beta.
  - intros b w2 H2. exact (pv_lpostN_trans extra _ _ _ _ _ _ H1 H2).
  - intros w2 H2. exact (pv_lpostNP_trans extra _ _ _ _ _ H1 H2).
Qed.

(* destructors *)
Lemma pv_lconserves_drop_key k : pv_lconserves (drop_key E k) (idK E k) (fun _ => []).
Proof.
  intros w Hw. eapply wp_mono; [apply drop_key_spec | |]; cbn beta.
  - intros _ w' [Hs Hg]. apply (pv_lpostN_exact _ _ _ _ (idK E k)); [rewrite Hs; exact Hw | apply pv_dropped_log; exact Hg | rewrite Hs; perm_ids].
  - intros w' [Hs Hg]. apply (pv_lpostP_exact _ _ _ (idK E k) []); [rewrite Hs; exact Hw | apply pv_dropped_log; exact Hg | rewrite Hs; perm_ids].
Qed.
Lemma pv_lconserves_drop_val v : pv_lconserves (drop_val E v) (idV E v) (fun _ => []).
Proof.
  intros w Hw. eapply wp_mono; [apply drop_val_spec | |]; cbn beta.
  - intros _ w' [Hs Hg]. apply (pv_lpostN_exact _ _ _ _ (idV E v)); [rewrite Hs; exact Hw | apply pv_dropped_log; exact Hg | rewrite Hs; perm_ids].
  - intros w' [Hs Hg]. apply (pv_lpostP_exact _ _ _ (idV E v) []); [rewrite Hs; exact Hw | apply pv_dropped_log; exact Hg | rewrite Hs; perm_ids].
Qed.
Lemma pv_lconserves_drop_pair p : pv_lconserves (drop_pair E p) (ids_pair E p) (fun _ => []).
Proof.
  intros w Hw. eapply wp_mono; [apply drop_pair_spec | |]; cbn beta.
  - intros _ w' [Hs Hg]. apply (pv_lpostN_exact _ _ _ _ (ids_pair E p)); [rewrite Hs; exact Hw | apply pv_dropped_log; exact Hg | rewrite Hs; perm_ids].
  - intros w' [Hs Hg]. apply (pv_lpostP_exact _ _ _ (ids_pair E p) []); [rewrite Hs; exact Hw | apply pv_dropped_log; exact Hg | rewrite Hs; perm_ids].
Qed.
Lemma pv_lconserves_drop_args k v : pv_lconserves (drop_args E k v) (ids_pair E (k, v)) (fun _ => []).
Proof.
  intros w Hw. eapply wp_mono; [apply drop_args_spec | |]; cbn beta.
  - intros _ w' [Hs Hg]. apply (pv_lpostN_exact _ _ _ _ (idV E v ++ idK E k)); [rewrite Hs; exact Hw | apply pv_dropped_log; exact Hg | rewrite Hs; unfold ids_pair; cbn [fst snd]; perm_ids].
  - intros w' [Hs Hg]. apply (pv_lpostP_exact _ _ _ (idV E v ++ idK E k) []); [rewrite Hs; exact Hw | apply pv_dropped_log; exact Hg | rewrite Hs; unfold ids_pair; cbn [fst snd]; perm_ids].
Qed.

Lemma pv_rejected_lpostP (w w' : world) held rest ins :
  WF (self w) -> Permutation ins (held ++ rest) -> rejected w held w' -> lpostP w ins w'.
Proof.
  intros Hw HP [Hs Hg]. apply (pv_lpostP_exact _ _ _ held rest); [rewrite Hs; exact Hw | apply pv_dropped_log; exact Hg | rewrite Hs; perm_ids].
Qed.

(* ================= 2. scans ================= *)
Lemma pv_lconserves_scan_then {B} (test : kv -> M bool) (f : option nat -> M B) ins (outs : B -> list N) :
  (forall p, quiet (test p)) ->
  (forall r (w : world), WF (self w) -> match r with Some i => i < len (self w) | None => True end ->
     wp (f r) (fun b => lpostN w ins (outs b)) (lpostP w ins) w) ->
  pv_lconserves (bind (scan test) f) ins outs.
Proof.
  intros Ht Hf w Hw. apply wp_bind.
  eapply wp_mono; [apply scan_quiet; [exact Ht | exact Hw] | |]; cbn beta.
  - intros r w' (Hs & Hg & Hr).
    assert (Hd : dropped (log w') = dropped (log w)) by (rewrite Hg; reflexivity).
    eapply wp_mono; [apply (Hf r w') | |]; cbn beta.
    + rewrite Hs. exact Hw.
    + rewrite Hs. exact Hr.
    + intros b w2 H2. exact (pv_lpostN_base _ _ _ _ _ Hs Hd H2).
    + intros w2 H2. exact (pv_lpostP_base _ _ _ _ Hs Hd H2).
  - intros w' [Hs Hg]. apply pv_lpostP_refl; [exact Hw | exact Hs | rewrite Hg; reflexivity].
Qed.

Lemma pv_lconserves_scan (test : kv -> M bool) :
  (forall p, quiet (test p)) -> pv_lconserves (scan test) [] (fun _ => []).
Proof.
  intros Ht w Hw. eapply wp_mono; [apply scan_quiet; [exact Ht | exact Hw] | |]; cbn beta.
  - intros r w' (Hs & Hg & _). apply pv_lpostN_refl; [exact Hw | exact Hs | rewrite Hg; reflexivity].
  - intros w' [Hs Hg]. apply pv_lpostP_refl; [exact Hw | exact Hs | rewrite Hg; reflexivity].
Qed.

(* ================= 3. writing a live slot / appending ================= *)
Lemma pv_live_ids_set_slot (m : map) i p x :
  WF m -> i < len m -> nth_error (slots m) i = Some (Some p) ->
  Permutation (live_ids (set_slot_m m i (Some x)) ++ ids_pair E p) (ids_pair E x ++ live_ids m).
Proof.
  intros Hw Hi Hp. unfold live_ids. rewrite elems_set_slot by assumption.
  apply pv_flat_upd. apply elems_nth; assumption.
Qed.

Lemma pv_lpostN_replace (w : world) i p x ins outs :
  WF (self w) -> i < len (self w) -> nth_error (slots (self w)) i = Some (Some p) ->
  Permutation (ids_pair E x ++ outs) (ids_pair E p ++ ins) ->
  lpostN w ins outs (with_self w (set_slot_m (self w) i (Some x))).
Proof.
  intros Hw Hi Hp HP.
  assert (Hic : i < cap (self w)) by (apply live_lt_cap; exists p; exact Hp).
  pose proof (pv_live_ids_set_slot (self w) i p x Hw Hi Hp) as HO.
  apply (pv_lpostN_exact _ _ _ _ []); simp_w.
  - apply WF_set_slot_some; auto.
  - rewrite app_nil_r. reflexivity.
  - perm_ids.
Qed.

Lemma pv_lpostN_append (w : world) x :
  WF (self w) -> len (self w) < cap (self w) ->
  lpostN w (ids_pair E x) []
    (with_self (with_self w (set_slot_m (self w) (len (self w)) (Some x)))
       (set_len_m (set_slot_m (self w) (len (self w)) (Some x)) (S (len (self w))))).
Proof.
  intros Hw Hc.
  apply (pv_lpostN_exact _ _ _ _ []); simp_w.
  - apply WF_append; auto.
  - rewrite app_nil_r. reflexivity.
  - unfold live_ids. rewrite elems_append by assumption. rewrite flat_map_app. cbn [flat_map].
    rewrite !app_nil_r. reflexivity.
Qed.

(* ================= 4. insertion ================= *)
Lemma pv_insert_ii_strong k v u (w : world) :
  WF (self w) ->
  wp (insert_ii E debug k v u)
     (fun r => lpostN w (ids_pair E (k, v)) (match snd r with Some p => ids_pair E p | None => [] end))
     (rejected w (idV E v ++ idK E k)) w.
Proof.
  intros Hw. unfold insert_ii.
  apply (wp_uscan_then (unwind_args E k v) (idV E v ++ idK E k));
    [intros; apply quiet_test_k | apply unwind_args_spec | exact Hw | | auto].
  intros r w1 Hs Hg Hi.
  assert (Hd : dropped (log w1) = dropped (log w)) by (rewrite Hg; reflexivity).
  assert (Hw1 : WF (self w1)) by (rewrite Hs; exact Hw).
  eapply wp_mono with (Qn := fun r => lpostN w1 (ids_pair E (k, v)) (match snd r with Some p => ids_pair E p | None => [] end))
                      (Qp := rejected w1 (idV E v ++ idK E k)).
  2: { intros b w2 H2. exact (pv_lpostN_base _ _ _ _ _ Hs Hd H2). }
  2: { intros w2 H2. exact (rejected_base _ _ _ _ Hs Hg H2). }
  rewrite <- Hs in Hi. clear Hs Hg Hd Hw. destruct r as [i|].
  - destruct (WF_live _ _ Hw1 Hi) as [p Hp]. destruct u.
    + apply wp_bind. eapply wp_p_replace; [exact Hp|]. apply wp_ret. cbn [snd].
      apply (pv_lpostN_replace w1 i p); auto. perm_ids.
    + apply wp_bind. eapply wp_p_replace; [exact Hp|]. apply wp_ret. cbn [snd].
      apply (pv_lpostN_replace w1 i p); auto. unfold ids_pair; cbn [fst snd]. perm_ids.
  - apply wp_bind. apply wp_get_len. apply wp_bind. apply wp_get_cap.
    assert (Hrej : wp (unwind_args E k v) (fun _ => rejected w1 (idV E v ++ idK E k)) (rejected w1 (idV E v ++ idK E k)) w1).
    { apply (wp_cleans _ (idV E v ++ idK E k)); [apply unwind_args_spec|]. intros w' Hs Hg. split; assumption. }
    apply wp_bind. apply wp_on_unwind. apply wp_bind. apply wp_dbg_assert.
    + intros _. apply wp_check_index.
      * intros Hc. apply wp_bind. apply wp_p_write_checked; [intros _ | intros Hge; lia].
        apply wp_bind. apply wp_set_len. apply wp_ret. cbn [snd].
        apply pv_lpostN_append; auto.
      * intros _. exact Hrej.
    + intros _ _. exact Hrej.
Qed.

Lemma pv_lconserves_insert_ii k v u :
  pv_lconserves (insert_ii E debug k v u) (ids_pair E (k, v))
            (fun r => match snd r with Some p => ids_pair E p | None => [] end).
Proof.
  intros w Hw. eapply wp_mono; [apply pv_insert_ii_strong; exact Hw | |]; cbn beta.
  - intros r w' H. exact H.
  - intros w' H. apply (pv_rejected_lpostP w w' (idV E v ++ idK E k) []); auto.
    unfold ids_pair; cbn [fst snd]. perm_ids.
Qed.

Lemma pv_insert_ii_for_full_strong k v u (w : world) :
  WF (self w) ->
  wp (insert_ii_for_full E k v u)
     (fun r => lpostN w (ids_pair E (k, v)) (match r with Some (_, p) => ids_pair E p | None => [] end))
     (rejected w (idV E v ++ idK E k)) w.
Proof.
  intros Hw. unfold insert_ii_for_full.
  apply (wp_uscan_then (unwind_args E k v) (idV E v ++ idK E k));
    [intros; apply quiet_test_k | apply unwind_args_spec | exact Hw | | auto].
  intros r w1 Hs Hg Hi.
  assert (Hd : dropped (log w1) = dropped (log w)) by (rewrite Hg; reflexivity).
  assert (Hw1 : WF (self w1)) by (rewrite Hs; exact Hw).
  eapply wp_mono with (Qn := fun r => lpostN w1 (ids_pair E (k, v)) (match r with Some (_, p) => ids_pair E p | None => [] end))
                      (Qp := rejected w1 (idV E v ++ idK E k)).
  2: { intros b w2 H2. exact (pv_lpostN_base _ _ _ _ _ Hs Hd H2). }
  2: { intros w2 H2. exact (rejected_base _ _ _ _ Hs Hg H2). }
  rewrite <- Hs in Hi. clear Hs Hg Hd Hw. destruct r as [i|].
  - destruct (WF_live _ _ Hw1 Hi) as [p Hp]. destruct u.
    + apply wp_bind. eapply wp_p_replace; [exact Hp|]. apply wp_ret.
      apply (pv_lpostN_replace w1 i p); auto. perm_ids.
    + apply wp_bind. eapply wp_p_replace; [exact Hp|]. apply wp_ret.
      apply (pv_lpostN_replace w1 i p); auto. unfold ids_pair; cbn [fst snd]. perm_ids.
  - apply wp_bind. eapply wp_mono; [apply drop_args_spec | |]; cbn beta.
    + intros _ w2 [Hs Hg]. apply wp_ret.
      apply (pv_lpostN_exact _ _ _ _ (idV E v ++ idK E k));
        [rewrite Hs; exact Hw1 | apply pv_dropped_log; exact Hg | rewrite Hs; unfold ids_pair; cbn [fst snd]; perm_ids].
    + intros w2 [Hs Hg]. split; assumption.
Qed.

Lemma pv_lconserves_insert_ii_for_full k v u :
  pv_lconserves (insert_ii_for_full E k v u) (ids_pair E (k, v))
            (fun r => match r with Some (_, p) => ids_pair E p | None => [] end).
Proof.
  intros w Hw. eapply wp_mono; [apply pv_insert_ii_for_full_strong; exact Hw | |]; cbn beta.
  - intros r w' H. exact H.
  - intros w' H. apply (pv_rejected_lpostP w w' (idV E v ++ idK E k) []); auto.
    unfold ids_pair; cbn [fst snd]. perm_ids.
Qed.

Local Notation pv_ids_opt o := (match o with Some p => ids_pair E p | None => [] end).

Lemma pv_lconserves_keep_value e :
  pv_lconserves (keep_value E e) (pv_ids_opt e) (fun r => match r with Some v0 => idV E v0 | None => [] end).
Proof.
  destruct e as [[k' v']|]; cbn [keep_value].
  - apply (pv_lconserves_bind (idV E v') (drop_key E k') (fun _ => ret (Some v')) (idK E k') (fun _ => [])).
    + apply pv_lconserves_drop_key.
    + intros _. apply (pv_lconserves_ret (Some v') (fun r : option V => match r with Some v0 => idV E v0 | None => [] end)).
  - apply (pv_lconserves_ret None (fun r : option V => match r with Some v0 => idV E v0 | None => [] end)).
Qed.

Lemma pv_lconserves_insert k v :
  pv_lconserves (insert E debug k v) (ids_pair E (k, v)) (fun r => match r with Some v0 => idV E v0 | None => [] end).
Proof.
  unfold insert. eapply pv_lconserves_bind0; [apply pv_lconserves_insert_ii|].
  intros [t e]. cbn [snd]. apply pv_lconserves_keep_value.
Qed.

Lemma pv_lconserves_insert_key_value k v :
  pv_lconserves (insert_key_value E debug k v) (ids_pair E (k, v)) (fun r => match r with Some p => ids_pair E p | None => [] end).
Proof.
  unfold insert_key_value. eapply pv_lconserves_bind0; [apply pv_lconserves_insert_ii|].
  intros [t e]. cbn [snd].
  apply (pv_lconserves_ret e (fun r : option kv => match r with Some p => ids_pair E p | None => [] end)).
Qed.

Lemma pv_lconserves_checked_insert k v :
  pv_lconserves (checked_insert E debug k v) (ids_pair E (k, v))
            (fun r => match r with Some (Some v0) => idV E v0 | _ => [] end).
Proof.
  intros w Hw. unfold checked_insert.
  apply wp_bind. apply wp_get_len. apply wp_bind. apply wp_get_cap.
  set (outs := fun r : option (option V) => match r with Some (Some v0) => idV E v0 | _ => [] end).
  destruct (len (self w) <? cap (self w)).
  - revert w Hw. change (pv_lconserves (bind (insert_ii E debug k v false)
        (fun x => match x with (_, e) => r <- keep_value E e ;; ret (Some r) end)) (ids_pair E (k, v)) outs).
    eapply pv_lconserves_bind0; [apply pv_lconserves_insert_ii|].
    intros [t e]. cbn [snd]. eapply pv_lconserves_bind0; [apply pv_lconserves_keep_value|].
    intros r. apply (pv_lconserves_ret (Some r) outs).
  - revert w Hw. change (pv_lconserves (bind (insert_ii_for_full E k v false)
        (fun r => match r with
                  | None => ret None
                  | Some (_, (k', v')) => drop_key E k' ;; ret (Some (Some v'))
                  end)) (ids_pair E (k, v)) outs).
    eapply pv_lconserves_bind0; [apply pv_lconserves_insert_ii_for_full|].
    intros [[t [k' v']]|].
    + apply (pv_lconserves_bind (idV E v') (drop_key E k') (fun _ => ret (Some (Some v'))) (idK E k') (fun _ => [])).
      * apply pv_lconserves_drop_key.
      * intros _. apply (pv_lconserves_ret (Some (Some v')) outs).
    + apply (pv_lconserves_ret None outs).
Qed.

(* ================= 5. removal ================= *)
Lemma pv_remove_index_read_live i (w : world) :
  WF (self w) -> i < len (self w) ->
  wp (remove_index_read debug i)
     (fun p w' => WF (self w') /\ S (len (self w')) = len (self w) /\ log w' = log w /\
                  nth_error (elems (self w)) i = Some p /\
                  Permutation (live_ids (self w') ++ ids_pair E p) (live_ids (self w)))
     (fun _ => False) w.
Proof.
  intros Hw Hi.
  eapply wp_mono; [apply wp_conj; [apply (remove_index_read_elems debug i w Hw Hi)
                                  | apply (remove_index_read_acct E debug i w Hw Hi)] | |]; cbn beta.
  - intros p w' [(H1 & H2 & H3 & H4 & H5 & H6) (G1 & G2 & G3 & _)].
    split; [exact H1|]. split; [exact G3|]. split; [exact H3|]. split; [exact H5|].
    unfold live_ids. rewrite H6.
    pose proof (pv_flat_perm (ids_pair E) _ _ (@d_swap_remove_perm K V _ i p H5)) as HP.
    cbn [flat_map] in HP. perm_ids.
  - intros w' [[] _].
Qed.

Lemma pv_lconserves_remove_index_read i (w : world) :
  WF (self w) -> i < len (self w) ->
  wp (remove_index_read debug i) (fun p => lpostN w [] (ids_pair E p)) (lpostP w []) w.
Proof.
  intros Hw Hi. eapply wp_mono; [apply pv_remove_index_read_live; assumption | |]; cbn beta.
  - intros p w' (H1 & H2 & H3 & H4 & H5).
    apply (pv_lpostN_exact _ _ _ _ []); [exact H1 | rewrite H3, app_nil_r; reflexivity | perm_ids].
  - intros w' [].
Qed.

Lemma pv_remove_index_drop_live i (w : world) :
  WF (self w) -> i < len (self w) ->
  let post := fun w' : world => lpostN w [] [] w' /\ S (len (self w')) = len (self w) in
  wp (remove_index_drop E debug i) (fun _ => post) post w.
Proof.
  intros Hw Hi post. unfold remove_index_drop. apply wp_bind.
  eapply wp_mono; [apply pv_remove_index_read_live; assumption | |]; cbn beta; [|tauto].
  intros p w1 (H1 & H2 & H3 & H4 & H5).
  assert (Hpost : forall w', self w' = self w1 -> log w' = log w1 ++ ev_drops (ids_pair E p) -> post w').
  { intros w' Hs Hg. unfold post. rewrite Hs. split; [|exact H2].
    apply (pv_lpostN_exact _ _ _ _ (ids_pair E p)).
    - rewrite Hs. exact H1.
    - rewrite Hg, H3. apply dropped_log_drops.
    - rewrite Hs. perm_ids. }
  eapply wp_mono; [apply drop_pair_spec | |]; cbn beta.
  - intros _ w' [Hs Hg]. apply Hpost; assumption.
  - intros w' [Hs Hg]. apply Hpost; assumption.
Qed.

Lemma pv_lconserves_remove q :
  pv_lconserves (remove E debug q) [] (fun r => match r with Some v => idV E v | None => [] end).
Proof.
  unfold remove. apply pv_lconserves_scan_then; [intros; apply quiet_test_q|].
  intros [i|] w Hw Hi.
  - apply wp_bind. eapply wp_mono; [apply pv_lconserves_remove_index_read; assumption | |]; cbn beta.
    + intros [k' v'] w1 H1. cbn [fst snd].
      apply (pv_lwp_step [] (keep_value E (Some (k', v'))) w w1 [] (ids_pair E (k', v'))
               (fun r : option V => match r with Some v0 => idV E v0 | None => [] end) H1).
      eapply pv_lconserves_perm; [| | apply (pv_lconserves_keep_value (Some (k', v')))]; [perm_ids | intros; reflexivity].
    + intros w1 H1. exact H1.
  - apply wp_ret. apply pv_lpostN_refl; auto.
Qed.

Lemma pv_lconserves_remove_entry q :
  pv_lconserves (remove_entry E debug q) [] (fun r => match r with Some p => ids_pair E p | None => [] end).
Proof.
  unfold remove_entry. apply pv_lconserves_scan_then; [intros; apply quiet_test_q|].
  intros [i|] w Hw Hi.
  - apply wp_bind. eapply wp_mono; [apply pv_lconserves_remove_index_read; assumption | |]; cbn beta.
    + intros p w1 H1. apply wp_ret. exact H1.
    + intros w1 H1. exact H1.
  - apply wp_ret. apply pv_lpostN_refl; auto.
Qed.

(* ================= 6. lookups ================= *)
Lemma pv_lconserves_contains_key q : pv_lconserves (contains_key E q) [] (fun _ => []).
Proof.
  unfold contains_key. eapply pv_lconserves_bind0; [apply pv_lconserves_scan; intros; apply quiet_test_q|].
  intros r. apply (pv_lconserves_ret _ (fun _ : bool => [])).
Qed.

(* ================= 7. clear ================= *)
Lemma pv_live_ids_len0 (m : map) : len m = 0 -> live_ids m = [].
Proof. intros H. unfold live_ids, elems. rewrite H. reflexivity. Qed.

Lemma pv_WF_len0 (m : map) : len m = 0 -> WF m.
Proof. intros H. split; [lia | intros j Hj; lia]. Qed.

Lemma pv_lconserves_clear : pv_lconserves (clear E) [] (fun _ => []).
Proof.
  intros w [Hl Hs]. unfold clear.
  apply wp_bind. apply wp_get_len. apply wp_bind. apply wp_set_len.
  set (w1 := with_self w (set_len_m (self w) 0)).
  assert (Hlv : forall j, 0 <= j < 0 + len (self w) -> live (self w1) j).
  { intros j Hj. unfold w1. simp_w. apply live_set_len. apply Hs. lia. }
  pose proof (drop_range_acct E (len (self w)) 0 w1 Hlv) as HA. cbv zeta in HA.
  pose proof (drop_range_logs E (len (self w)) 0 w1 Hlv) as HG.
  assert (Hel : take_live (skipn 0 (slots (self w1))) (len (self w)) = elems (self w)) by reflexivity.
  rewrite Hel in HG. clear Hel.
  eapply wp_mono; [apply wp_conj; [exact HA | exact HG] | |]; cbn beta.
  - intros _ w' [(H1 & _) Hg]. change (len (self w1)) with 0 in H1. change (log w1) with (log w) in Hg.
    apply (pv_lpostN_exact _ _ _ _ (live_ids (self w))).
    + apply pv_WF_len0. exact H1.
    + rewrite Hg, dropped_app, pv_dropped_evp. reflexivity.
    + rewrite (pv_live_ids_len0 _ H1). perm_ids.
  - intros w' [(H1 & _) [k Hg]]. change (len (self w1)) with 0 in H1. change (log w1) with (log w) in Hg.
    apply (pv_lpostP_exact _ _ _ (flat_map (ids_pair E) (firstn k (elems (self w))))
                                 (flat_map (ids_pair E) (skipn k (elems (self w))))).
    + apply pv_WF_len0. exact H1.
    + rewrite Hg, dropped_app, pv_dropped_evp. reflexivity.
    + rewrite (pv_live_ids_len0 _ H1).
      assert (Hsplit : live_ids (self w) = flat_map (ids_pair E) (firstn k (elems (self w))) ++
                                           flat_map (ids_pair E) (skipn k (elems (self w))))
        by (unfold live_ids; rewrite <- flat_map_app, firstn_skipn; reflexivity).
      perm_ids.
Qed.

(* ================= 8. retain ================= *)
Lemma pv_call_pred_live (f : pred_t) i (w : world) :
  (forall s k v, idV E (snd (fst (f s k v))) = idV E v) ->
  WF (self w) -> i < len (self w) ->
  let post := fun w' : world => lpostN w [] [] w' /\ len (self w') = len (self w) in
  wp (call_pred f i) (fun _ => post) post w.
Proof.
  intros Hid Hw Hi post. destruct (WF_live _ _ Hw Hi) as [p Hp].
  assert (Hic : i < cap (self w)) by (apply live_lt_cap; exists p; exact Hp).
  unfold call_pred. apply wp_bind. eapply wp_p_ref; [exact Hp|].
  unfold wp. pose proof (Hid (cb w) (fst p) (snd p)) as Hv.
  destruct (f (cb w) (fst p) (snd p)) as [[r v'] s]. cbn [fst snd] in Hv.
  assert (Hpost : post {| cb := s; log := log w ++ [EvCall 0];
            self := {| len := len (self w); slots := upd (slots (self w)) i (Some (fst p, v')) |} |}).
  { unfold post. simp_w. split; [|reflexivity].
    change {| len := len (self w); slots := upd (slots (self w)) i (Some (fst p, v')) |}
      with (set_slot_m (self w) i (Some (fst p, v'))).
    apply (pv_lpostN_exact _ _ _ _ []); simp_w.
    - apply WF_set_slot_some; auto.
    - rewrite dropped_app. change (dropped [EvCall 0]) with (@nil N). reflexivity.
    - pose proof (pv_live_ids_set_slot (self w) i p (fst p, v') Hw Hi Hp) as HO.
      unfold ids_pair in HO; cbn [fst snd] in HO. rewrite Hv in HO. perm_ids. }
  destruct r; exact Hpost.
Qed.

Lemma pv_retain_loop_live (f : pred_t) :
  (forall s k v, idV E (snd (fst (f s k v))) = idV E v) ->
  forall fuel i (w : world), WF (self w) -> len (self w) - i <= fuel ->
  wp (retain_loop E debug f fuel i) (fun _ => lpostN w [] []) (lpostP w []) w.
Proof.
  intros Hid. induction fuel as [|fuel IH]; intros i w Hw Hf; cbn [retain_loop].
  - apply wp_bind. apply wp_get_len.
    destruct (Nat.ltb_spec i (len (self w))) as [Hi|Hi]; [lia|].
    apply wp_ret. apply pv_lpostN_refl; auto.
  - apply wp_bind. apply wp_get_len.
    destruct (Nat.ltb_spec i (len (self w))) as [Hi|Hi].
    + apply wp_bind. eapply wp_mono; [apply pv_call_pred_live; assumption | |]; cbn beta.
      * intros keep w1 [H1 Hl1]. assert (Hw1 : WF (self w1)) by apply H1. destruct keep.
        -- eapply wp_mono; [apply (IH (S i) w1 Hw1); lia | |]; cbn beta.
           ++ intros _ w2 H2. exact (pv_lpostN_trans [] _ _ _ _ _ _ H1 H2).
           ++ intros w2 H2. exact (pv_lpostNP_trans [] _ _ _ _ _ H1 H2).
        -- apply wp_bind.
           eapply wp_mono; [apply (pv_remove_index_drop_live i w1 Hw1); lia | |]; cbn beta.
           ++ intros _ w2 (H2 & Hc).
              assert (Ha : WF (self w2)) by apply H2.
              pose proof (pv_lpostN_trans [] _ _ _ _ _ _ H1 H2) as H12.
              eapply wp_mono; [apply (IH i w2 Ha); lia | |]; cbn beta.
              ** intros _ w3 H3. exact (pv_lpostN_trans [] _ _ _ _ _ _ H12 H3).
              ** intros w3 H3. exact (pv_lpostNP_trans [] _ _ _ _ _ H12 H3).
           ++ intros w2 (H2 & Hc).
              exact (pv_lpostNP_trans [] _ _ _ _ _ H1 (pv_lpostP_of_N _ _ _ _ H2)).
      * intros w1 [H1 _]. eapply pv_lpostP_of_N; exact H1.
    + apply wp_ret. apply pv_lpostN_refl; auto.
Qed.

Lemma pv_lconserves_retain (f : pred_t) :
  (forall s k v, idV E (snd (fst (f s k v))) = idV E v) -> pv_lconserves (retain E debug f) [] (fun _ => []).
Proof.
  intros Hid w Hw. unfold retain. apply wp_bind. apply wp_get_len.
  apply pv_retain_loop_live; [exact Hid | exact Hw | lia].
Qed.

(* ================= 9. the 13 dictionary operations ================= *)
Lemma pv_mstep_lconserves (o : dop) : op_ok E o -> pv_lconserves (mstep o) (op_ins E o) (op_outs E o).
Proof.
  destruct o as [k v|k v|k v|q|q v'|q|q|q|q v'|q|q|g|]; intros Hok; cbn [Dict.mstep op_ins].
  - apply (pv_lconserves_bind_ret _ _ _ (fun r => match r with Some v0 => idV E v0 | None => [] end));
      [apply pv_lconserves_insert | intros [v0|]; reflexivity].
  - apply (pv_lconserves_bind_ret _ _ _ (fun r => match r with Some p => ids_pair E p | None => [] end));
      [apply pv_lconserves_insert_key_value | intros [p|]; reflexivity].
  - apply (pv_lconserves_bind_ret _ _ _ (fun r => match r with Some (Some v0) => idV E v0 | _ => [] end));
      [apply pv_lconserves_checked_insert | intros [[v0|]|]; reflexivity].
  - (* get *)
    unfold get. apply pv_lconserves_scan_then; [intros; apply quiet_test_q|]. intros [i|] w Hw Hi.
    + destruct (WF_live _ _ Hw Hi) as [p Hp]. apply wp_bind. eapply wp_p_ref; [exact Hp|]. apply wp_ret.
      apply (pv_lpostN_refl w w []); auto.
    + apply wp_ret. apply (pv_lpostN_refl w w []); auto.
  - (* get_mut, then write v' through the reference *)
    unfold get_mut. apply pv_lconserves_scan_then; [intros; apply quiet_test_q|]. intros [i|] w Hw Hi.
    + destruct (WF_live _ _ Hw Hi) as [p Hp]. apply wp_bind. eapply wp_p_replace; [exact Hp|]. apply wp_ret.
      cbn [op_outs]. apply (pv_lpostN_replace w i p); auto. unfold ids_pair; cbn [fst snd]. perm_ids.
    + apply wp_ret. cbn [op_outs]. apply (pv_lpostN_refl w w); auto.
  - (* get_key_value *)
    unfold get_key_value. apply pv_lconserves_scan_then; [intros; apply quiet_test_q|]. intros [i|] w Hw Hi.
    + destruct (WF_live _ _ Hw Hi) as [p Hp]. apply wp_bind. eapply wp_p_ref; [exact Hp|]. apply wp_ret.
      apply (pv_lpostN_refl w w []); auto.
    + apply wp_ret. apply (pv_lpostN_refl w w []); auto.
  - apply (pv_lconserves_bind_ret _ _ _ (fun _ => [])); [apply pv_lconserves_contains_key | reflexivity].
  - (* index *)
    intros w Hw. apply wp_bind. eapply wp_mono; [apply index_quiet; exact Hw | |]; cbn beta.
    + intros i w1 (Hs & Hg & Hi). rewrite <- Hs in Hi.
      assert (Hw1 : WF (self w1)) by (rewrite Hs; exact Hw).
      destruct (WF_live _ _ Hw1 Hi) as [p Hp]. apply wp_bind. eapply wp_p_ref; [exact Hp|]. apply wp_ret.
      apply (pv_lpostN_refl w w1 []); [exact Hw | exact Hs | rewrite Hg; reflexivity].
    + intros w1 [Hs Hg]. apply (pv_lpostP_refl w w1 []); [exact Hw | exact Hs | rewrite Hg; reflexivity].
  - (* index_mut *)
    intros w Hw. apply wp_bind. eapply wp_mono; [apply index_mut_quiet; exact Hw | |]; cbn beta.
    + intros i w1 (Hs & Hg & Hi). rewrite <- Hs in Hi.
      assert (Hw1 : WF (self w1)) by (rewrite Hs; exact Hw).
      assert (Hd : dropped (log w1) = dropped (log w)) by (rewrite Hg; reflexivity).
      destruct (WF_live _ _ Hw1 Hi) as [p Hp]. apply wp_bind. eapply wp_p_replace; [exact Hp|]. apply wp_ret.
      cbn [op_outs]. apply (pv_lpostN_base w w1 _ _ _ Hs Hd).
      apply (pv_lpostN_replace w1 i p); auto. unfold ids_pair; cbn [fst snd]. perm_ids.
    + intros w1 [Hs Hg]. apply (pv_lpostP_refl w w1); [exact Hw | exact Hs | rewrite Hg; reflexivity].
  - apply (pv_lconserves_bind_ret _ _ _ (fun r => match r with Some v0 => idV E v0 | None => [] end));
      [apply pv_lconserves_remove | intros [v0|]; reflexivity].
  - apply (pv_lconserves_bind_ret _ _ _ (fun r => match r with Some p => ids_pair E p | None => [] end));
      [apply pv_lconserves_remove_entry | intros [p|]; reflexivity].
  - apply (pv_lconserves_bind_ret _ _ _ (fun _ => [])); [|reflexivity].
    apply pv_lconserves_retain. intros s k v. cbn [fst snd]. apply Hok.
  - apply (pv_lconserves_bind_ret _ _ _ (fun _ => [])); [apply pv_lconserves_clear | reflexivity].
Qed.

(* live accounting: the multiset equation of [acct] with the LIVE identities only *)
Theorem mstep_live_acct (o : dop) (w : world) : op_ok E o -> WF (self w) ->
  wp (mstep o)
     (fun r w' => exists d lost, dropped (log w') = dropped (log w) ++ d /\
        Permutation (live_ids (self w') ++ op_outs E o r ++ lost ++ d) (live_ids (self w) ++ op_ins E o))
     (fun w' => exists d lost, dropped (log w') = dropped (log w) ++ d /\
        Permutation (live_ids (self w') ++ lost ++ d) (live_ids (self w) ++ op_ins E o)) w.
Proof.
  intros Hok Hw. eapply wp_mono; [apply (pv_mstep_lconserves o Hok w Hw) | |]; cbn beta.
  - intros r w' [_ H]. exact H.
  - intros w' [_ H]. exact H.
Qed.

(* provenance: everything a step hands out, destroys or keeps live comes from the
   live prefix or from its own arguments, in both outcomes *)
Theorem mstep_provenance (o : dop) (w : world) : op_ok E o -> WF (self w) ->
  wp (mstep o)
     (fun r w' => exists d, dropped (log w') = dropped (log w) ++ d /\
        incl (op_outs E o r ++ d) (live_ids (self w) ++ op_ins E o) /\
        incl (live_ids (self w')) (live_ids (self w) ++ op_ins E o))
     (fun w' => exists d, dropped (log w') = dropped (log w) ++ d /\
        incl d (live_ids (self w) ++ op_ins E o) /\
        incl (live_ids (self w')) (live_ids (self w) ++ op_ins E o)) w.
Proof.
  intros Hok Hw. eapply wp_mono; [apply (mstep_live_acct o w Hok Hw) | |]; cbn beta.
  - intros r w' (d & lost & Hd & HP). exists d. split; [exact Hd|]. split.
    + intros x Hx. apply (Permutation_in _ HP). rewrite !in_app_iff in *. tauto.
    + intros x Hx. apply (Permutation_in _ HP). rewrite !in_app_iff in *. tauto.
  - intros w' (d & lost & Hd & HP). exists d. split; [exact Hd|]. split.
    + intros x Hx. apply (Permutation_in _ HP). rewrite !in_app_iff in *. tauto.
    + intros x Hx. apply (Permutation_in _ HP). rewrite !in_app_iff in *. tauto.
Qed.

End PV.

(* ====================================================================== *)
(* 7. exact accounting for CALM (unlawful) environments; Tidy / exactness of Dict2 histories; Set twin *)
(* ====================================================================== *)
(* ====================================================================== *)
(* A. "exactly once" for an UNLAWFUL but calm environment: == may lie      *)
(*    arbitrarily (and even panic); only Drop must not panic               *)
(* ====================================================================== *)
Section ExCalm.
Context {K V Q T : Type} (E : env K V Q T) (debug : bool).
Notation M := (M K V T). Notation world := (world K V T). Notation kv := (K * V)%type.
Notation dop := (@Dict.dop K V Q). Notation dres := (@Dict.dres K V).
Notation mstep := (Dict.mstep E debug).

Definition DropCalm : Prop :=
  (forall s k, fst (dropK E s k) = false) /\ (forall s v, fst (dropV E s v) = false).
Definition Calm : Prop :=
  DropCalm /\ (forall s a b, fst (eqK E s a b) <> Boom) /\ (forall s a q, fst (eqKQ E s a q) <> Boom).

(* ---- destructors never panic ---- *)
Lemma ex_drop_key_calm k (w : world) :
  DropCalm ->
  wp (drop_key E k) (fun _ w' => self w' = self w /\ log w' = log w ++ ev_drops (idK E k)) (fun _ => False) w.
Proof.
  intros [HK HV]. unfold drop_key. apply wp_bind. apply wp_emit. apply wp_bind. apply wp_cbd_eq.
  simp_w. rewrite HK. apply wp_ret. simp_w. auto.
Qed.

Lemma ex_drop_val_calm v (w : world) :
  DropCalm ->
  wp (drop_val E v) (fun _ w' => self w' = self w /\ log w' = log w ++ ev_drops (idV E v)) (fun _ => False) w.
Proof.
  intros [HK HV]. unfold drop_val. apply wp_bind. apply wp_emit. apply wp_bind. apply wp_cbd_eq.
  simp_w. rewrite HV. apply wp_ret. simp_w. auto.
Qed.

Lemma ex_drop_pair_calm p (w : world) :
  DropCalm ->
  wp (drop_pair E p) (fun _ w' => self w' = self w /\ log w' = log w ++ ev_drops (ids_pair E p)) (fun _ => False) w.
Proof.
  intros [HK HV]. unfold drop_pair. apply wp_bind. apply wp_emit. apply wp_bind. apply wp_cbd_eq.
  simp_w. rewrite HK. apply wp_bind. apply wp_cbd_eq. simp_w. rewrite HV. cbn [orb]. apply wp_ret. simp_w. auto.
Qed.

Lemma ex_drop_args_calm k v (w : world) :
  DropCalm ->
  wp (drop_args E k v) (fun _ w' => self w' = self w /\ log w' = log w ++ ev_drops (idV E v ++ idK E k))
     (fun _ => False) w.
Proof.
  intros [HK HV]. unfold drop_args. apply wp_bind. apply wp_emit. apply wp_bind. apply wp_cbd_eq.
  simp_w. rewrite HV. apply wp_bind. apply wp_cbd_eq. simp_w. rewrite HK. cbn [orb]. apply wp_ret. simp_w. auto.
Qed.

Lemma ex_keep_value_calm e (w : world) :
  DropCalm ->
  wp (keep_value E e)
     (fun _ w' => self w' = self w /\
                  log w' = log w ++ match e with Some p => ev_drops (idK E (fst p)) | None => [] end)
     (fun _ => False) w.
Proof.
  intros HD. destruct e as [[k' v']|]; cbn [keep_value fst].
  - apply wp_bind. eapply wp_mono; [apply ex_drop_key_calm; exact HD | | intros ? []]; cbn beta.
    intros _ w1 H. apply wp_ret. exact H.
  - apply wp_ret. split; [reflexivity | symmetry; apply app_nil_r].
Qed.

Lemma ex_drop_range_calm n : forall i (w : world),
  DropCalm -> (forall j, i <= j < i + n -> live (self w) j) ->
  wp (drop_range E n i) (fun _ _ => True) (fun _ => False) w.
Proof.
  induction n as [|n IH]; intros i w HD Hl; cbn [drop_range].
  - apply wp_ret. exact I.
  - destruct (Hl i ltac:(lia)) as [p Hp].
    unfold p_drop. apply wp_bind. apply wp_bind. eapply wp_p_read; [exact Hp|].
    eapply wp_mono; [apply ex_drop_pair_calm; exact HD | | intros ? []]; cbn beta.
    intros _ w1 [Hs Hg]. simp_w. apply IH; [exact HD|].
    intros j Hj. rewrite Hs. apply live_set_slot_neq; [lia | apply Hl; lia].
Qed.

Lemma ex_clear_calm (w : world) :
  DropCalm -> WF (self w) -> wp (clear E) (fun _ _ => True) (fun _ => False) w.
Proof.
  intros HD [Hl Hs]. unfold clear. apply wp_bind. apply wp_get_len. apply wp_bind. apply wp_set_len.
  apply ex_drop_range_calm; [exact HD|]. intros j Hj. simp_w. apply live_set_len. apply Hs. lia.
Qed.

Lemma ex_remove_index_drop_calm i (w : world) :
  DropCalm -> WF (self w) -> i < len (self w) ->
  wp (remove_index_drop E debug i) (fun _ w' => WF (self w') /\ S (len (self w')) = len (self w)) (fun _ => False) w.
Proof.
  intros HD Hw Hi. unfold remove_index_drop. apply wp_bind.
  eapply wp_mono; [apply (remove_index_read_acct E debug i w Hw Hi) | | intros ? []]; cbn beta.
  intros p w1 (H1 & _ & H3 & _).
  eapply wp_mono; [apply ex_drop_pair_calm; exact HD | | intros ? []]; cbn beta.
  intros _ w2 [Hs _]. rewrite Hs. auto.
Qed.

(* retain with a PURE closure (the closure of Dict.mstep never panics) *)
Lemma ex_call_pred_pure (g : K -> V -> bool * V) i (w : world) :
  WF (self w) -> i < len (self w) ->
  wp (call_pred (fun s k v => ((Some (fst (g k v)), snd (g k v)), s)) i)
     (fun _ w' => WF (self w') /\ len (self w') = len (self w)) (fun _ => False) w.
Proof.
  intros Hw Hi. destruct (WF_live _ _ Hw Hi) as [p Hp].
  assert (Hic : i < cap (self w)) by (apply live_lt_cap; exists p; exact Hp).
  unfold call_pred. apply wp_bind. eapply wp_p_ref; [exact Hp|].
  unfold wp. cbn [self len]. split; [|reflexivity].
  change {| len := len (self w); slots := upd (slots (self w)) i (Some (fst p, snd (g (fst p) (snd p)))) |}
    with (set_slot_m (self w) i (Some (fst p, snd (g (fst p) (snd p))))).
  apply WF_set_slot_some; auto.
Qed.

Lemma ex_retain_loop_calm (g : K -> V -> bool * V) :
  DropCalm -> forall fuel i (w : world), WF (self w) -> len (self w) - i <= fuel ->
  wp (retain_loop E debug (fun s k v => ((Some (fst (g k v)), snd (g k v)), s)) fuel i)
     (fun _ _ => True) (fun _ => False) w.
Proof.
  intros HD. induction fuel as [|fuel IH]; intros i w Hw Hf; cbn [retain_loop].
  - apply wp_bind. apply wp_get_len.
    destruct (Nat.ltb_spec i (len (self w))) as [Hi|Hi]; [lia|]. apply wp_ret. exact I.
  - apply wp_bind. apply wp_get_len.
    destruct (Nat.ltb_spec i (len (self w))) as [Hi|Hi]; [|apply wp_ret; exact I].
    apply wp_bind. eapply wp_mono; [apply (ex_call_pred_pure g i w Hw Hi) | | intros ? []]; cbn beta.
    intros keep w1 [Hw1 Hl1]. destruct keep.
    + apply IH; [exact Hw1 | lia].
    + apply wp_bind.
      eapply wp_mono; [apply (ex_remove_index_drop_calm i w1 HD Hw1); lia | | intros ? []]; cbn beta.
      intros _ w2 [Hw2 Hl2]. apply IH; [exact Hw2 | lia].
Qed.

Lemma ex_retain_calm (g : K -> V -> bool * V) (w : world) :
  DropCalm -> WF (self w) ->
  wp (retain E debug (fun s k v => ((Some (fst (g k v)), snd (g k v)), s))) (fun _ _ => True) (fun _ => False) w.
Proof.
  intros HD Hw. unfold retain. apply wp_bind. apply wp_get_len.
  apply ex_retain_loop_calm; [exact HD | exact Hw | lia].
Qed.

(* what stays with the caller when the call panics: the value to be written
   through the reference was never moved *)
Definition op_pouts_c (o : dop) : list N :=
  match o with DGetMut _ v' | DIndexMut _ v' => idV E v' | _ => [] end.

(* the shape of every panic exit: container untouched, [held] destroyed *)
Lemma ex_rejected_fact (w w' : world) k v :
  rejected w (idV E v ++ idK E k) w' ->
  self w' = self w /\ Permutation (dropped (log w') ++ []) (dropped (log w) ++ ids_pair E (k, v)).
Proof.
  intros [Hs Hg]. split; [exact Hs|]. rewrite Hg, dropped_log_drops. unfold ids_pair; cbn [fst snd]. perm_ids.
Qed.

Lemma ex_quiet_fact (w w' : world) l :
  self w' = self w -> log w' = log w ->
  self w' = self w /\ Permutation (dropped (log w') ++ l) (dropped (log w) ++ l).
Proof. intros Hs Hg. split; [exact Hs|]. rewrite Hg. reflexivity. Qed.

Lemma mstep_panic_fact_calm (o : dop) (w : world) :
  DropCalm -> op_ok E o -> WF (self w) ->
  wp (mstep o) (fun _ _ => True)
     (fun w' => self w' = self w /\
                Permutation (dropped (log w') ++ op_pouts_c o) (dropped (log w) ++ op_ins E o)) w.
Proof.
  intros HD Hok Hw.
  destruct o as [k v|k v|k v|q|q v'|q|q|q|q v'|q|q|g|]; cbn [Dict.mstep op_pouts_c op_ins]; apply wp_bind.
  - (* insert *)
    unfold insert. apply wp_bind.
    eapply wp_mono; [apply (insert_ii_strong E debug k v false w Hw) | | intros w1 H1; exact (ex_rejected_fact _ _ _ _ H1)]; cbn beta.
    intros [t e] w1 _.
    eapply wp_mono; [apply ex_keep_value_calm; exact HD | | intros ? []]; cbn beta.
    intros r w2 _. apply wp_ret. exact I.
  - (* insert_key_value *)
    unfold insert_key_value. apply wp_bind.
    eapply wp_mono; [apply (insert_ii_strong E debug k v true w Hw) | | intros w1 H1; exact (ex_rejected_fact _ _ _ _ H1)]; cbn beta.
    intros [t e] w1 _. apply wp_ret. apply wp_ret. exact I.
  - (* checked_insert *)
    unfold checked_insert. apply wp_bind. apply wp_get_len. apply wp_bind. apply wp_get_cap.
    destruct (len (self w) <? cap (self w)).
    + apply wp_bind.
      eapply wp_mono; [apply (insert_ii_strong E debug k v false w Hw) | | intros w1 H1; exact (ex_rejected_fact _ _ _ _ H1)]; cbn beta.
      intros [t e] w1 _. apply wp_bind.
      eapply wp_mono; [apply ex_keep_value_calm; exact HD | | intros ? []]; cbn beta.
      intros r w2 _. apply wp_ret. apply wp_ret. exact I.
    + apply wp_bind.
      eapply wp_mono; [apply (insert_ii_for_full_strong E k v false w Hw) | | intros w1 H1; exact (ex_rejected_fact _ _ _ _ H1)]; cbn beta.
      intros [[t [k' v0]]|] w1 _.
      * apply wp_bind. eapply wp_mono; [apply ex_drop_key_calm; exact HD | | intros ? []]; cbn beta.
        intros _ w2 _. apply wp_ret. apply wp_ret. exact I.
      * apply wp_ret. apply wp_ret. exact I.
  - (* get *)
    unfold get.
    eapply wp_mono; [apply scan_quiet; [intros; apply quiet_test_q | exact Hw] | | intros w1 [Hs Hg]; apply ex_quiet_fact; assumption];
      cbn beta.
    intros [i|] w1 (Hs & Hg & Hi); [|apply wp_ret; exact I].
    rewrite <- Hs in Hi, Hw. destruct (WF_live _ _ Hw Hi) as [p Hp].
    apply wp_bind. eapply wp_p_ref; [exact Hp|]. apply wp_ret. exact I.
  - (* get_mut *)
    unfold get_mut.
    eapply wp_mono; [apply scan_quiet; [intros; apply quiet_test_q | exact Hw] | | intros w1 [Hs Hg]; apply ex_quiet_fact; assumption];
      cbn beta.
    intros [i|] w1 (Hs & Hg & Hi); [|apply wp_ret; exact I].
    rewrite <- Hs in Hi, Hw. destruct (WF_live _ _ Hw Hi) as [p Hp].
    apply wp_bind. eapply wp_p_replace; [exact Hp|]. apply wp_ret. exact I.
  - (* get_key_value *)
    unfold get_key_value.
    eapply wp_mono; [apply scan_quiet; [intros; apply quiet_test_q | exact Hw] | | intros w1 [Hs Hg]; apply ex_quiet_fact; assumption];
      cbn beta.
    intros [i|] w1 (Hs & Hg & Hi); [|apply wp_ret; exact I].
    rewrite <- Hs in Hi, Hw. destruct (WF_live _ _ Hw Hi) as [p Hp].
    apply wp_bind. eapply wp_p_ref; [exact Hp|]. apply wp_ret. exact I.
  - (* contains_key *)
    unfold contains_key. apply wp_bind.
    eapply wp_mono; [apply scan_quiet; [intros; apply quiet_test_q | exact Hw] | | intros w1 [Hs Hg]; apply ex_quiet_fact; assumption];
      cbn beta.
    intros r w1 _. apply wp_ret. apply wp_ret. exact I.
  - (* index *)
    eapply wp_mono; [apply (index_quiet E q w Hw) | | intros w1 [Hs Hg]; apply ex_quiet_fact; assumption]; cbn beta.
    intros i w1 (Hs & Hg & Hi). rewrite <- Hs in Hi, Hw. destruct (WF_live _ _ Hw Hi) as [p Hp].
    apply wp_bind. eapply wp_p_ref; [exact Hp|]. apply wp_ret. exact I.
  - (* index_mut *)
    eapply wp_mono; [apply (index_mut_quiet E q w Hw) | | intros w1 [Hs Hg]; apply ex_quiet_fact; assumption]; cbn beta.
    intros i w1 (Hs & Hg & Hi). rewrite <- Hs in Hi, Hw. destruct (WF_live _ _ Hw Hi) as [p Hp].
    apply wp_bind. eapply wp_p_replace; [exact Hp|]. apply wp_ret. exact I.
  - (* remove *)
    unfold remove. apply wp_bind.
    eapply wp_mono; [apply scan_quiet; [intros; apply quiet_test_q | exact Hw] | | intros w1 [Hs Hg]; apply ex_quiet_fact; assumption];
      cbn beta.
    intros [i|] w1 (Hs & Hg & Hi); [|apply wp_ret; apply wp_ret; exact I].
    rewrite <- Hs in Hi, Hw. apply wp_bind.
    eapply wp_mono; [apply (remove_index_read_acct E debug i w1 Hw Hi) | | intros ? []]; cbn beta.
    intros p w2 _. apply wp_bind. eapply wp_mono; [apply ex_drop_key_calm; exact HD | | intros ? []]; cbn beta.
    intros _ w3 _. apply wp_ret. apply wp_ret. exact I.
  - (* remove_entry *)
    unfold remove_entry. apply wp_bind.
    eapply wp_mono; [apply scan_quiet; [intros; apply quiet_test_q | exact Hw] | | intros w1 [Hs Hg]; apply ex_quiet_fact; assumption];
      cbn beta.
    intros [i|] w1 (Hs & Hg & Hi); [|apply wp_ret; apply wp_ret; exact I].
    rewrite <- Hs in Hi, Hw. apply wp_bind.
    eapply wp_mono; [apply (remove_index_read_acct E debug i w1 Hw Hi) | | intros ? []]; cbn beta.
    intros p w2 _. apply wp_ret. apply wp_ret. exact I.
  - (* retain *)
    eapply wp_mono; [apply (ex_retain_calm g w HD Hw) | | intros ? []]; cbn beta.
    intros _ w1 _. apply wp_ret. exact I.
  - (* clear *)
    eapply wp_mono; [apply (ex_clear_calm w HD Hw) | | intros ? []]; cbn beta.
    intros _ w1 _. apply wp_ret. exact I.
Qed.

(* one step: from a tidy state, in BOTH outcomes, the state is tidy again and
   nothing is lost - whatever == answers *)
Lemma mstep_exactly_calm (o : dop) :
  DropCalm -> op_ok E o -> exactly E (mstep o) (op_ins E o) (op_outs E o) (op_pouts_c o).
Proof.
  intros HD Hok w Hw Ht.
  eapply wp_mono;
    [apply wp_conj; [apply (mstep_conserves E debug o Hok w Hw) | apply (mstep_panic_fact_calm o w HD Hok Hw)] | |];
    cbn beta.
  - intros a w' [(H1 & H2 & lost & H3 & H4) _]. destruct (H4 Ht) as [-> Ht'].
    split; [exact H1|]. split; [exact H2|]. split; [exact Ht' | exact H3].
  - intros w' [(H1 & H2 & lost & H3) [Hs HP]].
    split; [exact H1|]. split; [exact H2|]. split; [rewrite Hs; exact Ht|].
    unfold acct. rewrite Hs. perm_ids.
Qed.

Theorem ex_step_tidy_calm (o : dop) (w : world) :
  DropCalm -> op_ok E o -> WF (self w) -> Tidy (self w) ->
  match mstep o w with Ok _ w' => Tidy (self w') | Panic w' => Tidy (self w') | UB => False end.
Proof.
  intros HD Hok Hw Ht. pose proof (mstep_exactly_calm o HD Hok w Hw Ht) as H. unfold wp in H.
  destruct (mstep o w) as [r w'|w'|]; [apply H | apply H | exact H].
Qed.

Theorem run_exact_calm ops w :
  DropCalm -> WF (self w) -> Tidy (self w) -> Forall (op_ok E) ops ->
  exists wf, Dict.mfinal E debug ops w = Some wf /\ WF (self wf) /\ cap (self wf) = cap (self w) /\
    Tidy (self wf) /\
    Permutation (owned E (self wf) ++ gouts mstep (op_outs E) op_pouts_c ops w ++ dropped (log wf))
                (owned E (self w) ++ flat_map (op_ins E) ops ++ dropped (log w)).
Proof.
  intros HD Hw Ht Hok. rewrite mfinal_gfinal.
  exact (g_run_exact E mstep (op_ins E) (op_outs E) op_pouts_c (op_ok E)
           (fun o Ho => mstep_exactly_calm o HD Ho) ops w Hw Ht Hok).
Qed.

Theorem run_tidy_calm ops w wf :
  DropCalm -> WF (self w) -> Tidy (self w) -> Forall (op_ok E) ops ->
  Dict.mfinal E debug ops w = Some wf -> Tidy (self wf).
Proof.
  intros HD Hw Ht Hok Hf. destruct (run_exact_calm ops w HD Hw Ht Hok) as (wf' & H1 & _ & _ & H4 & _).
  rewrite Hf in H1. injection H1 as <-. exact H4.
Qed.

Theorem run_exact_Calm ops w :
  Calm -> WF (self w) -> Tidy (self w) -> Forall (op_ok E) ops ->
  exists wf, Dict.mfinal E debug ops w = Some wf /\ WF (self wf) /\ cap (self wf) = cap (self w) /\
    Tidy (self wf) /\
    Permutation (owned E (self wf) ++ gouts mstep (op_outs E) op_pouts_c ops w ++ dropped (log wf))
                (owned E (self w) ++ flat_map (op_ins E) ops ++ dropped (log w)).
Proof. intros [HD _]. apply run_exact_calm. exact HD. Qed.

Corollary run_exact_calm_new n ops s :
  DropCalm -> Forall (op_ok E) ops ->
  let w0 : world := {| cb := s; log := []; self := new_map n |} in
  exists wf, Dict.mfinal E debug ops w0 = Some wf /\ Tidy (self wf) /\
    Permutation (owned E (self wf) ++ gouts mstep (op_outs E) op_pouts_c ops w0 ++ dropped (log wf))
                (flat_map (op_ins E) ops).
Proof.
  intros HD Hok w0.
  assert (Hw : WF (self w0)) by apply WF_new.
  assert (Ht : Tidy (self w0)).
  { intros i _ Hne. cbn [w0 self new_map slots] in *.
    destruct (nth_error (repeat None n) i) as [o|] eqn:Hn; [|congruence].
    apply nth_error_In in Hn. apply repeat_spec in Hn. subst o. reflexivity. }
  destruct (run_exact_calm ops w0 HD Hw Ht Hok) as (wf & H1 & _ & _ & H4 & HP).
  exists wf. split; [exact H1|]. split; [exact H4|].
  assert (Ho : owned E (self w0) = []).
  { apply ids_slots_all_none. intros i Hne. apply Ht; [cbn [w0 self new_map len]; lia | exact Hne]. }
  rewrite Ho in HP. cbn [w0 log dropped flat_map app] in HP. rewrite app_nil_r in HP. exact HP.
Qed.

(* ---- reusable panic facts of single Map functions (also used for Set) ---- *)
Lemma ex_insert_calm k v (w : world) :
  DropCalm -> WF (self w) ->
  wp (insert E debug k v) (fun _ _ => True) (rejected w (idV E v ++ idK E k)) w.
Proof.
  intros HD Hw. unfold insert. apply wp_bind.
  eapply wp_mono; [apply (insert_ii_strong E debug k v false w Hw) | | auto]; cbn beta.
  intros [t e] w1 _.
  eapply wp_mono; [apply ex_keep_value_calm; exact HD | | intros ? []]; cbn beta. auto.
Qed.

Lemma ex_contains_key_calm q (w : world) :
  WF (self w) ->
  wp (contains_key E q) (fun _ _ => True) (fun w' => self w' = self w /\ log w' = log w) w.
Proof.
  intros Hw. unfold contains_key. apply wp_bind.
  eapply wp_mono; [apply scan_quiet; [intros; apply quiet_test_q | exact Hw] | | auto]; cbn beta.
  intros r w1 _. apply wp_ret. exact I.
Qed.

Lemma ex_remove_calm q (w : world) :
  DropCalm -> WF (self w) ->
  wp (remove E debug q) (fun _ _ => True) (fun w' => self w' = self w /\ log w' = log w) w.
Proof.
  intros HD Hw. unfold remove. apply wp_bind.
  eapply wp_mono; [apply scan_quiet; [intros; apply quiet_test_q | exact Hw] | | auto]; cbn beta.
  intros [i|] w1 (Hs & Hg & Hi); [|apply wp_ret; exact I].
  rewrite <- Hs in Hi, Hw. apply wp_bind.
  eapply wp_mono; [apply (remove_index_read_acct E debug i w1 Hw Hi) | | intros ? []]; cbn beta.
  intros p w2 _. apply wp_bind. eapply wp_mono; [apply ex_drop_key_calm; exact HD | | intros ? []]; cbn beta.
  intros _ w3 _. apply wp_ret. exact I.
Qed.

Lemma ex_remove_entry_calm q (w : world) :
  WF (self w) ->
  wp (remove_entry E debug q) (fun _ _ => True) (fun w' => self w' = self w /\ log w' = log w) w.
Proof.
  intros Hw. unfold remove_entry. apply wp_bind.
  eapply wp_mono; [apply scan_quiet; [intros; apply quiet_test_q | exact Hw] | | auto]; cbn beta.
  intros [i|] w1 (Hs & Hg & Hi); [|apply wp_ret; exact I].
  rewrite <- Hs in Hi, Hw. apply wp_bind.
  eapply wp_mono; [apply (remove_index_read_acct E debug i w1 Hw Hi) | | intros ? []]; cbn beta.
  intros p w2 _. apply wp_ret. exact I.
Qed.

End ExCalm.

(* ====================================================================== *)
(* B. Dict2 histories under a lawful environment: exact accounting         *)
(* ====================================================================== *)
Section ExDict2Lawful.
Context {K V Q T : Type} (E : env K V Q T) (debug : bool).
Context (ck : K -> N) (cq : Q -> N) (HL : Lawful E ck cq).
Notation M := (M K V T). Notation world := (world K V T). Notation kv := (K * V)%type.
Notation dop := (@Dict.dop K V Q). Notation dop2 := (@Dict2.dop2 K V Q). Notation dres2 := (@Dict2.dres2 K V).
Notation mstep2 := (Dict2.mstep2 E debug).
Local Notation F := (flat_map (ids_pair E)).

Definition op2_pouts (o : dop2) : list N := match o with DBase o => op_pouts E o | _ => [] end.

Lemma ex_xpost_refl (w w' : world) :
  WF (self w) -> Tidy (self w) -> self w' = self w -> dropped (log w') = dropped (log w) -> xpost E w [] [] w'.
Proof.
  intros Hw Ht Hs Hd. unfold xpost, acct. rewrite Hs, Hd. split; [exact Hw|]. split; [reflexivity|].
  split; [exact Ht|]. perm_ids.
Qed.

Lemma ex_bind_assoc_eq {A B C} (c : M A) (f : A -> M B) (g : B -> M C) (w : world) :
  bind (bind c f) g w = bind c (fun x => bind (f x) g) w.
Proof. unfold bind. destruct (c w); reflexivity. Qed.

Lemma ex_pp_bind_assoc {A B C} (c : M A) (f : A -> M B) (g : B -> M C) Qp (w : world) :
  pp (x <- (x <- c ;; f x) ;; g x) Qp w -> pp (x <- c ;; x <- f x ;; g x) Qp w.
Proof. unfold pp. rewrite ex_bind_assoc_eq. auto. Qed.

(* ---- drain: every slot outside the cursor holds nothing ---- *)
Definition ex_OutNone (c : cursor) (m : map K V) : Prop :=
  forall j, j < fst c \/ snd c <= j -> nth_error (slots m) j <> None -> nth_error (slots m) j = Some None.

Lemma ex_drain_run_out n : forall c (w : world),
  DrainInv c (self w) -> ex_OutNone c (self w) ->
  wp (drain_run n c)
     (fun r w' => DrainInv (snd r) (self w') /\ cap (self w') = cap (self w) /\
                  acct E w w' [] (F (fst r)) [] /\ ex_OutNone (snd r) (self w'))
     (fun _ => False) w.
Proof.
  induction n as [|n IH]; intros c w HD HO; cbn [drain_run].
  - apply wp_ret. cbn [fst snd flat_map]. split; [exact HD|]. split; [reflexivity|].
    split; [unfold acct; perm_ids | exact HO].
  - apply wp_bind. eapply wp_mono; [apply (drain_next_acct E c w HD) | | intros ? []]; cbn beta.
    intros [o c'] w1 (HD1 & Hc1 & HA1 & Hout & Hm). cbn [fst snd] in HD1, HA1, Hm. destruct o as [p|].
    + destruct Hm as [-> Hnone].
      assert (HO1 : ex_OutNone (S (fst c), snd c) (self w1)).
      { intros j Hj Hne. cbn [fst snd] in Hj. destruct (Nat.eq_dec j (fst c)) as [->|Hn]; [exact Hnone|].
        assert (Hj' : j < fst c \/ snd c <= j) by lia.
        rewrite (Hout j Hj') in *. apply HO; assumption. }
      apply wp_bind. eapply wp_mono; [apply (IH _ w1 HD1 HO1) | | intros ? []]; cbn beta.
      intros [r c''] w2 (HD2 & Hc2 & HA2 & HO2). cbn [fst snd] in HD2, HA2, HO2. apply wp_ret. cbn [fst snd flat_map].
      split; [exact HD2|]. split; [congruence|]. split; [unfold acct in *; perm_ids | exact HO2].
    + destruct Hm as [-> Hs]. apply wp_ret. cbn [fst snd flat_map].
      split; [exact HD1|]. split; [exact Hc1|]. split; [exact HA1|]. rewrite Hs. exact HO.
Qed.

Lemma ex_drain_drop_lawful c (w : world) :
  DrainInv c (self w) -> wp (drain_drop E c) (fun _ _ => True) (fun _ => False) w.
Proof.
  intros (Hl & Hc & Hs). unfold drain_drop, cursor_len.
  eapply wp_mono; [apply (drop_range_lawful E ck cq HL) | | intros ? []]; cbn beta; [|auto].
  intros j Hj. apply Hs. lia.
Qed.

(* ---- extend under a lawful environment ---- *)
Lemma ex_extend_loop_exact (nx : T -> ans * T) items :
  (forall s, fst (nx s) <> Boom) -> forall w : world, WF (self w) -> Tidy (self w) ->
  wp (extend_loop E debug nx items) (fun _ => xpost E w (F items) []) (xpost E w (F items) []) w.
Proof.
  intros Hnx. induction items as [|[k v] rest IH]; intros w Hw Ht; cbn [extend_loop].
  - eapply wp_mono; [apply call_next_lawful; exact Hnx | | intros ? []]; cbn beta.
    intros _ w1 [Hs1 Hl1]. cbn [flat_map]. apply ex_xpost_refl; auto. rewrite Hl1. apply dropped_snoc_call.
  - apply wp_bind. apply wp_on_unwind_nopanic.
    eapply wp_mono; [apply call_next_lawful; exact Hnx | | intros ? []]; cbn beta.
    intros _ w1 [Hs1 Hl1].
    assert (Hd1 : dropped (log w1) = dropped (log w)) by (rewrite Hl1; apply dropped_snoc_call).
    assert (Hw1 : WF (self w1)) by (rewrite Hs1; exact Hw).
    assert (Ht1 : Tidy (self w1)) by (rewrite Hs1; exact Ht).
    apply wp_bind. apply wp_on_unwind. apply wp_bind.
    eapply wp_mono;
      [apply wp_conj; [apply (conserves_insert E debug k v w1 Hw1) | apply (insert_lawful E debug ck cq HL k v w1 Hw1)]
      | |]; cbn beta.
    + intros old w2 [(Hw2 & Hc2 & lost & HA2 & Hl2) _]. destruct (Hl2 Ht1) as [-> Ht2].
      eapply wp_mono; [apply (drop_opt_val_lawful E ck cq HL old w2) | | intros ? []]; cbn beta.
      intros _ w3 [Hs3 Hlg3]. unfold logged in Hlg3.
      assert (Hw3 : WF (self w3)) by (rewrite Hs3; exact Hw2).
      assert (Ht3 : Tidy (self w3)) by (rewrite Hs3; exact Ht2).
      assert (Hd3 : dropped (log w3) = dropped (log w2) ++ match old with Some v0 => idV E v0 | None => [] end).
      { rewrite Hlg3. destruct old as [v0|]; [apply dropped_log_drops | rewrite !app_nil_r; reflexivity]. }
      eapply wp_mono; [apply (IH w3 Hw3 Ht3) | |]; cbn beta.
      * intros _ w4 (Hw4 & Hc4 & Ht4 & HA4). split; [exact Hw4|]. split; [congruence|]. split; [exact Ht4|].
        unfold acct in *. rewrite Hs1, Hd1 in HA2. rewrite Hs3, Hd3 in HA4. cbn [flat_map]. perm_ids.
      * intros w4 (Hw4 & Hc4 & Ht4 & HA4). split; [exact Hw4|]. split; [congruence|]. split; [exact Ht4|].
        unfold acct in *. rewrite Hs1, Hd1 in HA2. rewrite Hs3, Hd3 in HA4. cbn [flat_map]. perm_ids.
    + intros w2 [_ (Hs2 & Hlg2 & _)].
      apply (wp_cleans _ (F rest)); [apply unwind_pairs_spec|].
      intros w3 Hs3 Hg3. unfold logged in Hlg2.
      assert (Hs : self w3 = self w) by congruence.
      assert (Hd : dropped (log w3) = dropped (log w) ++ (idV E v ++ idK E k) ++ F rest).
      { rewrite Hg3, dropped_log_drops, Hlg2, dropped_log_drops, Hd1. rewrite <- app_assoc. reflexivity. }
      unfold xpost, acct. rewrite Hs, Hd. split; [exact Hw|]. split; [reflexivity|]. split; [exact Ht|].
      cbn [flat_map]. change (ids_pair E (k, v)) with (idK E k ++ idV E v). perm_ids.
Qed.

(* ---- entry(k).or_insert(v): the normal-return half with the Tidy clause ---- *)
Lemma ex_or_insert_conserves k v (w : world) :
  WF (self w) ->
  wp (mstep2 (DOrInsert k v)) (fun _ => cpostN E w (ids_pair E (k, v)) []) (cpostP E w (ids_pair E (k, v))) w.
Proof.
  intros Hw. cbn [Dict2.mstep2]. change (ids_pair E (k, v)) with (idK E k ++ idV E v). apply wp_bind.
  eapply wp_mono; [apply wp_conj; [apply (conserves_entry_of E k w Hw) | apply (entry_of_spec E k w Hw)] | |]; cbn beta.
  - intros e w1 [H1 [Hs He]]. assert (Hw1 : WF (self w1)) by apply H1. rewrite <- Hs in He.
    apply wp_bind. eapply wp_mono; [apply (conserves_or_insert E debug e v w1 Hw1 He) | |]; cbn beta.
    + intros i w2 [H2 Hi]. pose proof (cpostN_trans E (idV E v) _ _ _ _ _ _ H1 H2) as H12.
      assert (A : WF (self w2)) by apply H12.
      destruct (WF_live _ _ A Hi) as [p Hp]. apply wp_bind. eapply wp_p_ref; [exact Hp|]. apply wp_ret. exact H12.
    + intros w2 H2. exact (cpostNP_trans E (idV E v) _ _ _ _ _ H1 H2).
  - intros w1 [H1 _]. apply (cpostP_weaken E _ _ _ (idV E v)) in H1. exact H1.
Qed.

Lemma ex_or_insert_panic_fact k v (w : world) :
  WF (self w) ->
  pp (mstep2 (DOrInsert k v))
     (fun w' => self w' = self w /\ log w' = log w ++ ev_drops (idV E v ++ idK E k)) w.
Proof.
  intros Hw. cbn [Dict2.mstep2]. apply ex_pp_bind_assoc. apply pp_bind.
  eapply wp_mono; [apply (or_insert_lawful E debug ck cq HL k v w Hw) | |]; cbn beta.
  - intros i w' _. apply pp_ref_ret.
  - intros w' (Hs & Hlg & _). split; [exact Hs | exact Hlg].
Qed.

Lemma mstep2_exactly (o : dop2) :
  op2_ok E o -> exactly E (mstep2 o) (op2_ins E o) (op2_outs E o) (op2_pouts o).
Proof.
  destruct o as [o|take| |k v|items]; intros Hok w Hw Ht; cbn [op2_ins op2_pouts].
  - (* the 13 base operations *)
    cbn [Dict2.mstep2]. apply wp_bind.
    eapply wp_mono; [apply (mstep_exactly E debug ck cq HL o Hok w Hw Ht) | |]; cbn beta.
    + intros r w' H. apply wp_ret. exact H.
    + intros w' H. exact H.
  - (* drain, take, drop the Drain *)
    cbn [Dict2.mstep2]. apply wp_bind. eapply wp_mono; [apply (drain_owned E w Hw) | |]; cbn beta.
    + intros c w1 (HD & Hc & _ & Hce & Hsl & Ho & Hg).
      assert (HO : ex_OutNone c (self w1)).
      { intros j Hj Hne. rewrite Hsl in *. subst c. cbn [fst snd] in Hj. apply Ht; [lia | exact Hne]. }
      apply wp_bind. eapply wp_mono; [apply (ex_drain_run_out take c w1 HD HO) | | intros ? []]; cbn beta.
      intros x w2 (HD2 & Hc2 & HA2 & HO2). unfold acct in HA2. rewrite Ho, Hg in HA2.
      apply wp_bind.
      eapply wp_mono; [apply wp_conj; [apply (drain_drop_acct E (snd x) w2 HD2) | apply (ex_drain_drop_lawful (snd x) w2 HD2)]
                      | | intros ? [_ []]]; cbn beta.
      intros _ w3 [(Hw3 & _ & Hc3 & HA3 & Ht3) _]. apply wp_ret. cbn [op2_outs].
      split; [exact Hw3|]. split; [congruence|]. split; [apply Ht3; [reflexivity | exact HO2]|].
      unfold acct in *. perm_ids.
    + intros w1 [Hs Hg]. apply ex_xpost_refl; auto. rewrite Hg. reflexivity.
  - (* iterate: nothing moves *)
    cbn [Dict2.mstep2]. apply wp_bind. apply wp_get_len.
    apply (wp_bind_assoc iter (fun c => iter_run (len (self w)) c)
             (fun x => ps <- Dict2.read_slots (fst x) ;; ret (RItems ps))).
    apply wp_bind. eapply wp_mono; [apply iter_run_exact; exact Hw | | intros ? []]; cbn beta.
    intros x w1 (-> & Hfst & _). rewrite Hfst, Nat.min_id. apply wp_bind.
    eapply wp_mono; [apply (Dict2.read_slots_spec (len (self w)) 0 w Hw); lia | | intros ? []]; cbn beta.
    intros ps w2 [-> _]. apply wp_ret. cbn [op2_outs]. apply ex_xpost_refl; auto.
  - (* entry(k).or_insert(v) *)
    eapply wp_mono; [apply wp_pp_conj; [apply (ex_or_insert_conserves k v w Hw) | apply (ex_or_insert_panic_fact k v w Hw)] | |];
      cbn beta.
    + intros r w' (H1 & H2 & lost & H3 & H4). destruct (H4 Ht) as [-> Ht'].
      assert (Ho : op2_outs E (DOrInsert k v) r = []) by (destruct r; reflexivity). rewrite Ho.
      split; [exact H1|]. split; [exact H2|]. split; [exact Ht' | exact H3].
    + intros w' [(H1 & H2 & lost & H3) [Hs Hg]].
      split; [exact H1|]. split; [exact H2|]. split; [rewrite Hs; exact Ht|].
      unfold acct. rewrite Hs, Hg, dropped_log_drops. change (ids_pair E (k, v)) with (idK E k ++ idV E v). perm_ids.
  - (* extend *)
    cbn [Dict2.mstep2]. apply wp_bind.
    eapply wp_mono; [apply (ex_extend_loop_exact Dict2.nx0 items); [intros s; discriminate | exact Hw | exact Ht] | |];
      cbn beta.
    + intros _ w' H. apply wp_ret. exact H.
    + intros w' H. exact H.
Qed.

Theorem run2_exact ops w :
  WF (self w) -> Tidy (self w) -> Forall (op2_ok E) ops ->
  exists wf, Dict2.mfinal2 E debug ops w = Some wf /\ WF (self wf) /\ cap (self wf) = cap (self w) /\
    Tidy (self wf) /\
    Permutation (owned E (self wf) ++ gouts mstep2 (op2_outs E) op2_pouts ops w ++ dropped (log wf))
                (owned E (self w) ++ flat_map (op2_ins E) ops ++ dropped (log w)).
Proof.
  intros Hw Ht Hok. rewrite mfinal2_gfinal.
  exact (g_run_exact E mstep2 (op2_ins E) (op2_outs E) op2_pouts (op2_ok E) mstep2_exactly ops w Hw Ht Hok).
Qed.

Theorem run2_tidy ops w wf :
  WF (self w) -> Tidy (self w) -> Forall (op2_ok E) ops ->
  Dict2.mfinal2 E debug ops w = Some wf -> Tidy (self wf).
Proof.
  intros Hw Ht Hok Hf. destruct (run2_exact ops w Hw Ht Hok) as (wf' & H1 & _ & _ & H4 & _).
  rewrite Hf in H1. injection H1 as <-. exact H4.
Qed.

End ExDict2Lawful.

(* ====================================================================== *)
(* C. the Set twin of A: == may lie or panic, Drop does not panic          *)
(* ====================================================================== *)
Section ExSetCalm.
Context {K Q T : Type} (E : env K unit Q T) (debug : bool).
Context (HU : idV E tt = []).
Notation M := (M K unit T). Notation world := (world K unit T).
Notation sop := (@SetDict.sop K Q). Notation sres := (@SetDict.sres K).
Notation sstep := (SetDict.sstep E debug).
Local Notation F := (flat_map (fun k : K => ids_pair E (k, tt))).

Lemma ex_sxpost_refl (w w' : world) :
  WF (self w) -> Tidy (self w) -> self w' = self w -> dropped (log w') = dropped (log w) -> xpost E w [] [] w'.
Proof.
  intros Hw Ht Hs Hd. unfold xpost, acct. rewrite Hs, Hd. split; [exact Hw|]. split; [reflexivity|].
  split; [exact Ht|]. perm_ids.
Qed.

Lemma ex_s_insert_calm k (w : world) :
  DropCalm E -> WF (self w) ->
  wp (s_insert E debug k) (fun _ _ => True) (rejected w (idV E tt ++ idK E k)) w.
Proof.
  intros HD Hw. unfold s_insert. apply wp_bind.
  eapply wp_mono; [apply (ex_insert_calm E debug k tt w HD Hw) | | auto]; cbn beta.
  intros r w1 _. apply wp_ret. exact I.
Qed.

(* extend: a panicking comparison rejects the item being inserted (destroyed once),
   the items not yet pulled are destroyed by unwinding, the items inserted so far
   stay stored: nothing is lost, the set stays tidy *)
Lemma ex_s_extend_loop_exact_calm (nx : T -> ans * T) items :
  DropCalm E -> (forall s, fst (nx s) <> Boom) -> forall w : world, WF (self w) -> Tidy (self w) ->
  wp (s_extend_loop E debug nx items) (fun _ => xpost E w (F items) []) (xpost E w (F items) []) w.
Proof.
  intros HD Hnx. induction items as [|k rest IH]; intros w Hw Ht; cbn [s_extend_loop].
  - eapply wp_mono; [apply call_next_lawful; exact Hnx | | intros ? []]; cbn beta.
    intros _ w1 [Hs1 Hl1]. cbn [flat_map]. apply ex_sxpost_refl; auto. rewrite Hl1. apply dropped_snoc_call.
  - apply wp_bind. apply wp_on_unwind_nopanic.
    eapply wp_mono; [apply call_next_lawful; exact Hnx | | intros ? []]; cbn beta.
    intros _ w1 [Hs1 Hl1].
    assert (Hd1 : dropped (log w1) = dropped (log w)) by (rewrite Hl1; apply dropped_snoc_call).
    assert (Hw1 : WF (self w1)) by (rewrite Hs1; exact Hw).
    assert (Ht1 : Tidy (self w1)) by (rewrite Hs1; exact Ht).
    apply wp_bind. apply wp_on_unwind. apply wp_bind.
    eapply wp_mono;
      [apply wp_conj; [apply (conserves_s_insert_unit E debug HU k w1 Hw1) | apply (ex_s_insert_calm k w1 HD Hw1)]
      | |]; cbn beta.
    + intros b w2 [(Hw2 & Hc2 & lost & HA2 & Hl2) _]. destruct (Hl2 Ht1) as [-> Ht2]. apply wp_ret.
      eapply wp_mono; [apply (IH w2 Hw2 Ht2) | |]; cbn beta.
      * intros _ w3 (Hw3 & Hc3 & Ht3 & HA3). split; [exact Hw3|]. split; [congruence|]. split; [exact Ht3|].
        unfold acct in *. rewrite Hs1, Hd1 in HA2. cbn [flat_map]. perm_ids.
      * intros w3 (Hw3 & Hc3 & Ht3 & HA3). split; [exact Hw3|]. split; [congruence|]. split; [exact Ht3|].
        unfold acct in *. rewrite Hs1, Hd1 in HA2. cbn [flat_map]. perm_ids.
    + intros w2 [_ [Hs2 Hlg2]].
      apply (wp_cleans _ (flat_map (ids_pair E) (List.map (fun x => (x, tt)) rest))); [apply unwind_pairs_spec|].
      intros w3 Hs3 Hg3.
      assert (Hs : self w3 = self w) by congruence.
      assert (Hd : dropped (log w3) = dropped (log w) ++ (idV E tt ++ idK E k) ++ F rest).
      { rewrite Hg3, dropped_log_drops, Hlg2, dropped_log_drops, Hd1, ids_pairs_unit.
        rewrite <- app_assoc. reflexivity. }
      unfold xpost, acct. rewrite Hs, Hd. split; [exact Hw|]. split; [reflexivity|]. split; [exact Ht|].
      cbn [flat_map]. change (ids_pair E (k, tt)) with (idK E k ++ idV E tt). perm_ids.
Qed.

Lemma ex_srejected_fact (w w' : world) k :
  rejected w (idV E tt ++ idK E k) w' ->
  self w' = self w /\ Permutation (dropped (log w')) (dropped (log w) ++ ids_pair E (k, tt)).
Proof.
  intros [Hs Hg]. split; [exact Hs|]. rewrite Hg, dropped_log_drops. unfold ids_pair; cbn [fst snd]. perm_ids.
Qed.

Lemma ex_squiet_fact (w w' : world) :
  self w' = self w /\ log w' = log w ->
  self w' = self w /\ Permutation (dropped (log w')) (dropped (log w) ++ []).
Proof. intros [Hs Hg]. split; [exact Hs|]. rewrite Hg, app_nil_r. reflexivity. Qed.

Lemma sstep_panic_fact_calm (o : sop) (w : world) :
  DropCalm E -> WF (self w) -> (forall items, o <> SoExtend items) ->
  wp (sstep o) (fun _ _ => True)
     (fun w' => self w' = self w /\ Permutation (dropped (log w')) (dropped (log w) ++ sop_ins E o)) w.
Proof.
  intros HD Hw Hne. destruct o as [k|k|q|q|q|q|g| |items]; cbn [SetDict.sstep sop_ins];
    try (exfalso; eapply Hne; reflexivity); apply wp_bind.
  - eapply wp_mono; [apply (ex_s_insert_calm k w HD Hw) | | intros w1 H1; exact (ex_srejected_fact _ _ _ H1)]; cbn beta.
    intros r w1 _. apply wp_ret. exact I.
  - unfold s_replace. apply wp_bind.
    eapply wp_mono; [apply (insert_ii_strong E debug k tt true w Hw) | | intros w1 H1; exact (ex_srejected_fact _ _ _ H1)];
      cbn beta.
    intros [t e] w1 _. apply wp_ret. apply wp_ret. exact I.
  - eapply wp_mono; [apply (ex_contains_key_calm E q w Hw) | | intros w1 H1; exact (ex_squiet_fact _ _ H1)]; cbn beta.
    intros r w1 _. apply wp_ret. exact I.
  - unfold s_get, get_key_value.
    eapply wp_mono; [apply scan_quiet; [intros; apply quiet_test_q | exact Hw] | | intros w1 H1; exact (ex_squiet_fact _ _ H1)];
      cbn beta.
    intros [i|] w1 (Hs & Hg & Hi); [|apply wp_ret; exact I].
    rewrite <- Hs in Hi, Hw. destruct (WF_live _ _ Hw Hi) as [p Hp].
    apply wp_bind. eapply wp_p_ref; [exact Hp|]. apply wp_ret. exact I.
  - unfold s_remove. apply wp_bind.
    eapply wp_mono; [apply (ex_remove_calm E debug q w HD Hw) | | intros w1 H1; exact (ex_squiet_fact _ _ H1)]; cbn beta.
    intros r w1 _. apply wp_ret. apply wp_ret. exact I.
  - unfold s_take. apply wp_bind.
    eapply wp_mono; [apply (ex_remove_entry_calm E debug q w Hw) | | intros w1 H1; exact (ex_squiet_fact _ _ H1)]; cbn beta.
    intros r w1 _. apply wp_ret. apply wp_ret. exact I.
  - unfold s_retain.
    eapply wp_mono; [apply (ex_retain_calm E debug (fun k u => (g k, u)) w HD Hw) | | intros ? []]; cbn beta.
    intros _ w1 _. apply wp_ret. exact I.
  - unfold s_clear.
    eapply wp_mono; [apply (ex_clear_calm E w HD Hw) | | intros ? []]; cbn beta.
    intros _ w1 _. apply wp_ret. exact I.
Qed.

Lemma sstep_exactly_calm (o : sop) : DropCalm E -> exactly E (sstep o) (sop_ins E o) (sop_outs E o) [].
Proof.
  intros HD w Hw Ht.
  assert (Hcase : (exists items, o = SoExtend items) \/ (forall items, o <> SoExtend items))
    by (destruct o; try (right; intros; discriminate); left; eauto).
  destruct Hcase as [[items ->]|Hne].
  - cbn [SetDict.sstep sop_ins]. unfold s_extend. apply wp_bind.
    eapply wp_mono;
      [apply (ex_s_extend_loop_exact_calm SetDict.nx0 items HD); [intros s; discriminate | exact Hw | exact Ht] | |];
      cbn beta.
    + intros _ w' H. apply wp_ret. exact H.
    + intros w' H. exact H.
  - eapply wp_mono;
      [apply wp_conj; [apply (sstep_conserves E debug HU o w Hw) | apply (sstep_panic_fact_calm o w HD Hw Hne)] | |];
      cbn beta.
    + intros a w' [(H1 & H2 & lost & H3 & H4) _]. destruct (H4 Ht) as [-> Ht'].
      split; [exact H1|]. split; [exact H2|]. split; [exact Ht' | exact H3].
    + intros w' [(H1 & H2 & lost & H3) [Hs HP]].
      split; [exact H1|]. split; [exact H2|]. split; [rewrite Hs; exact Ht|].
      unfold acct. rewrite Hs. perm_ids.
Qed.

Theorem srun_exact_calm ops w :
  DropCalm E -> WF (self w) -> Tidy (self w) ->
  exists wf, SetDict.smfinal E debug ops w = Some wf /\ WF (self wf) /\ cap (self wf) = cap (self w) /\
    Tidy (self wf) /\
    Permutation (owned E (self wf) ++ souts E debug ops w ++ dropped (log wf))
                (owned E (self w) ++ flat_map (sop_ins E) ops ++ dropped (log w)).
Proof.
  intros HD Hw Ht. rewrite smfinal_gfinal.
  apply (g_run_exact E sstep (sop_ins E) (sop_outs E) (fun _ => []) (fun _ => True)
           (fun o _ => sstep_exactly_calm o HD) ops w Hw Ht).
  apply Forall_forall. intros; exact I.
Qed.

Theorem srun_tidy_calm ops w wf :
  DropCalm E -> WF (self w) -> Tidy (self w) -> SetDict.smfinal E debug ops w = Some wf -> Tidy (self wf).
Proof.
  intros HD Hw Ht Hf. destruct (srun_exact_calm ops w HD Hw Ht) as (wf' & H1 & _ & _ & H4 & _).
  rewrite Hf in H1. injection H1 as <-. exact H4.
Qed.

End ExSetCalm.
