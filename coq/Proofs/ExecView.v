(* ExecView.v — history-level FUNCTIONAL theorem for the interpreter [step] of
   Model/Exec.v under an HONEST script: for every one of the 56 operations the
   contents of the four registers after the step — as sequences of
   (key class, value payload) in slot order — are a small pure function
   [vstep] of the contents before.  Object identities, callback counters and
   observation tokens are abstracted away; slot ORDER is kept.
   Mirrors ExecUniq.v / ExecSafe.v with a stronger conclusion. *)
Require Import Model.Base Model.Slots Model.MapOps Model.EntryOps Model.SetOps Model.Fmt Model.Exec.
Require Import Proofs.Hoare Proofs.Inv Proofs.Safety Proofs.Safety2 Proofs.Safety3 Proofs.Spec Proofs.Lawful Proofs.Lawful2 Proofs.Lawful3 Proofs.IterSpec Proofs.EqClone Proofs.Disjoint Proofs.EntrySpec Proofs.Dict Proofs.Bulk Proofs.SetDict Proofs.FmtSerde Proofs.ExecSafe Proofs.ExecUniq.
From Coq Require Import Permutation.

(* ------------------------------------------------------------------ *)
(* 0. plain list functions the specification is written with           *)
(* ------------------------------------------------------------------ *)
Section ListFns.
Context {A : Type}.

(* overwrite position i *)
Fixpoint set_at (l : list A) (i : nat) (x : A) : list A :=
  match l, i with
  | [], _ => []
  | _ :: t, 0 => x :: t
  | h :: t, S j => h :: set_at t j x
  end.

(* swap-remove: the last element moves into the hole at i *)
Definition swap_del (l : list A) (i : nat) : list A :=
  match nth_error l (length l - 1) with
  | Some z => if i =? length l - 1 then removelast l else set_at (removelast l) i z
  | None => l
  end.

(* the crate's retain loop: [g] answers keep/remove and rewrites the element *)
Fixpoint retain_v (g : A -> bool * A) (fuel i : nat) (l : list A) : list A :=
  match fuel with
  | 0 => l
  | S f => match nth_error l i with
           | None => l
           | Some a => let '(keep, a') := g a in
                       if keep then retain_v g f (S i) (set_at l i a')
                       else retain_v g f i (swap_del (set_at l i a') i)
           end
  end.

Context (cl : A -> N).   (* the class of an element *)

(* first position holding class c *)
Fixpoint pos (c : N) (l : list A) : option nat :=
  match l with
  | [] => None
  | a :: t => if N.eqb (cl a) c then Some 0 else option_map S (pos c t)
  end.

(* insert: overwrite the entry of the same class, else append if there is room *)
Definition put (n : nat) (l : list A) (x : A) : list A :=
  match pos (cl x) l with
  | Some i => set_at l i x
  | None => if length l <? n then l ++ [x] else l
  end.

(* insert-if-absent: an entry of the same class stays as it is *)
Definition add_new (n : nat) (l : list A) (x : A) : list A :=
  match pos (cl x) l with
  | Some _ => l
  | None => if length l <? n then l ++ [x] else l
  end.

(* remove the entry of class c *)
Definition del (l : list A) (c : N) : list A :=
  match pos c l with Some i => swap_del l i | None => l end.

(* insert the items one by one; None = an insertion did not fit *)
Fixpoint fill (n : nat) (l items : list A) : option (list A) :=
  match items with
  | [] => Some l
  | x :: t => match pos (cl x) l with
              | Some i => fill n (set_at l i x) t
              | None => if length l <? n then fill n (l ++ [x]) t else None
              end
  end.

(* insert-if-absent one by one; stop at the first item that does not fit *)
Fixpoint extend_stop (n : nat) (l items : list A) : list A :=
  match items with
  | [] => l
  | x :: t => match pos (cl x) l with
              | Some _ => extend_stop n l t
              | None => if length l <? n then extend_stop n (l ++ [x]) t else l
              end
  end.

End ListFns.

(* ---- functions on (class, payload) lists ---- *)
Definition present (c : N) (l : list (N * N)) : bool :=
  match pos fst c l with Some _ => true | None => false end.

(* the entry of class c, if any, gets payload d *)
Definition write (l : list (N * N)) (c d : N) : list (N * N) :=
  match pos fst c l with Some i => set_at l i (c, d) | None => l end.

(* the entry of class c, if any, gets payload + 100 *)
Definition bump (l : list (N * N)) (c : N) : list (N * N) :=
  match pos fst c l with
  | Some i => match nth_error l i with Some (c', d) => set_at l i (c', d + 100)%N | None => l end
  | None => l
  end.

(* get_disjoint_mut: the entry of the j-th requested class gets payload wd + j *)
Fixpoint write_all (qs : list N) (wd : N) (j : nat) (l : list (N * N)) : list (N * N) :=
  match qs with
  | [] => l
  | c :: t => write_all t wd (S j) (write l c (wd + N.of_nat j)%N)
  end.

(* iter_mut / values_mut: entry j gets payload wd + j, for j = 0 .. min n (length l) - 1 *)
Fixpoint iter_writes (wd : N) (n j : nat) (l : list (N * N)) : list (N * N) :=
  match n with
  | 0 => l
  | S n' => match nth_error l j with
            | Some (c, _) => iter_writes wd n' (S j) (set_at l j (c, (wd + N.of_nat j)%N))
            | None => l
            end
  end.

Fixpoint nodupb (l : list N) : bool :=
  match l with
  | [] => true
  | c :: t => negb (existsb (N.eqb c) t) && nodupb t
  end.

(* retain with the scripted closure: action 0 removes, 1 keeps, anything else
   keeps and adds 100 to the payload *)
Definition retain_m (dflt : N) (tab : list (N * N)) (l : list (N * N)) : list (N * N) :=
  retain_v (fun e => let a := lookup_act (fst e) tab dflt in
                     (negb (N.eqb a 0), if N.eqb a 0 || N.eqb a 1 then e else (fst e, (snd e + 100)%N)))
           (length l) 0 l.
Definition retain_s (dflt : N) (tab : list (N * N)) (l : list N) : list N :=
  retain_v (fun c => (negb (N.eqb (lookup_act c tab dflt) 0), c)) (length l) 0 l.

(* the entry chains of Exec.entry_chain, on the view *)
Definition entry_v (n : nat) (l : list (N * N)) (c chain d : N) : list (N * N) :=
  match chain with
  | 0%N | 1%N | 2%N => add_new fst n l (c, d)
  | 3%N => add_new fst n l (c, 0%N)
  | 4%N => if present c l then bump l c else add_new fst n l (c, d)
  | 5%N | 6%N => l
  | 7%N => write l c d
  | 8%N => put fst n l (c, d)
  | 9%N | 10%N => del fst l c
  | _ => put fst n l (c, d)
  end.

(* ------------------------------------------------------------------ *)
(* 1. views and the specification [vstep]                              *)
(* ------------------------------------------------------------------ *)
Definition mview (m : map key vobj) : list (N * N) :=
  List.map (fun p => (kcls (fst p), vdat (snd p))) (Spec.elems m).
Definition sview (m : map key unit) : list N :=
  List.map (fun p => kcls (fst p)) (Spec.elems m).

Record vworld := {
  v0 : list (N * N); v1 : list (N * N); u2 : list N; u3 : list N;
  c0 : nat; c1 : nat; c2 : nat; c3 : nat
}.

Definition view_x (x : xworld) : vworld :=
  {| v0 := mview (xm0 x); v1 := mview (xm1 x); u2 := sview (xs0 x); u3 := sview (xs1 x);
     c0 := cap (xm0 x); c1 := cap (xm1 x); c2 := cap (xs0 x); c3 := cap (xs1 x) |}.

(* register access: map registers 0, 1; set registers 2, 3 (as get_m / get_s) *)
Definition get_mv (r : N) (vw : vworld) : list (N * N) := if N.eqb r 0 then v0 vw else v1 vw.
Definition get_mc (r : N) (vw : vworld) : nat := if N.eqb r 0 then c0 vw else c1 vw.
Definition put_mv (r : N) (l : list (N * N)) (vw : vworld) : vworld :=
  if N.eqb r 0
  then {| v0 := l; v1 := v1 vw; u2 := u2 vw; u3 := u3 vw; c0 := c0 vw; c1 := c1 vw; c2 := c2 vw; c3 := c3 vw |}
  else {| v0 := v0 vw; v1 := l; u2 := u2 vw; u3 := u3 vw; c0 := c0 vw; c1 := c1 vw; c2 := c2 vw; c3 := c3 vw |}.
Definition get_sv (r : N) (vw : vworld) : list N := if N.eqb r 2 then u2 vw else u3 vw.
Definition get_sc (r : N) (vw : vworld) : nat := if N.eqb r 2 then c2 vw else c3 vw.
Definition put_sv (r : N) (l : list N) (vw : vworld) : vworld :=
  if N.eqb r 2
  then {| v0 := v0 vw; v1 := v1 vw; u2 := l; u3 := u3 vw; c0 := c0 vw; c1 := c1 vw; c2 := c2 vw; c3 := c3 vw |}
  else {| v0 := v0 vw; v1 := v1 vw; u2 := u2 vw; u3 := l; c0 := c0 vw; c1 := c1 vw; c2 := c2 vw; c3 := c3 vw |}.

(* apply [f capacity contents] to a register *)
Definition on_m (r : N) (f : nat -> list (N * N) -> list (N * N)) (vw : vworld) : vworld :=
  put_mv r (f (get_mc r vw) (get_mv r vw)) vw.
Definition on_s (r : N) (f : nat -> list N -> list N) (vw : vworld) : vworld :=
  put_sv r (f (get_sc r vw) (get_sv r vw)) vw.

Definition pairs_v (items : list (key * vobj)) : list (N * N) :=
  List.map (fun p => (kcls (fst p), vdat (snd p))) items.

Definition vstep (o : op) (vw : vworld) : vworld :=
  match o with
  (* ---- Map ---- *)
  | OInsert r k v | OInsertKV r k v | OCheckedInsert r k v | OInsertUnchecked r k v =>
      on_m r (fun n l => put fst n l (kcls k, vdat v)) vw
  | OGetMut r q d | OIndexMut r q d => on_m r (fun _ l => write l (qcls q) d) vw
  | ORemove r q | ORemoveEntry r q => on_m r (fun _ l => del fst l (qcls q)) vw
  | ORetain r dflt tab => on_m r (fun _ l => retain_m dflt tab l) vw
  | OClear r | ODrain r _ _ | OIntoIter r _ _ _ | ODrainNth r _ _ | OIntoNth r _ _ _ | ODefault r =>
      on_m r (fun _ _ => []) vw
  | OWithCapacity r c => on_m r (fun n l => if c =? n then [] else l) vw
  | OIter r kind steps wd =>
      on_m r (fun _ l => if N.eqb kind 1 || N.eqb kind 4 then iter_writes wd steps 0 l else l) vw
  | OEntry r k chain v => on_m r (fun n l => entry_v n l (kcls k) chain (vdat v)) vw
  | ODisjoint r unchecked qs wd =>
      on_m r (fun _ l => if unchecked || nodupb qs then write_all qs wd 0 l else l) vw
  | OClone r r' | OCloneFrom r r' =>
      if get_mc r vw =? get_mc r' vw then put_mv r' (get_mv r vw) vw else vw
  | OFromIter r _ items =>
      on_m r (fun n l => match fill fst n [] (pairs_v items) with Some l' => l' | None => l end) vw
  | OSerde r r' =>
      if length (get_mv r vw) <=? get_mc r' vw then put_mv r' (get_mv r vw) vw else vw
  (* ---- Set ---- *)
  | SInsert r k | SReplace r k => on_s r (fun n l => add_new (fun c => c) n l (kcls k)) vw
  | SRemove r q | STake r q => on_s r (fun _ l => del (fun c => c) l (qcls q)) vw
  | SRetain r dflt tab => on_s r (fun _ l => retain_s dflt tab l) vw
  | SClear r | SDrain r _ _ | SIntoIter r _ _ | SDrainNth r _ _ | SIntoNth r _ _ | SDefault r =>
      on_s r (fun _ _ => []) vw
  | SExtend r items => on_s r (fun n l => extend_stop (fun c => c) n l (List.map kcls items)) vw
  | SClone r r' | SCloneFrom r r' =>
      if get_sc r vw =? get_sc r' vw then put_sv r' (get_sv r vw) vw else vw
  | SFromIter r _ items =>
      on_s r (fun n l => match fill (fun c => c) n [] (List.map kcls items) with Some l' => l' | None => l end) vw
  | SSerde r r' =>
      if length (get_sv r vw) <=? get_sc r' vw then put_sv r' (get_sv r vw) vw else vw
  (* ---- read-only operations ---- *)
  | OGet _ _ | OGetKV _ _ | OContains _ _ | OIndex _ _ | OEq _ _ | OFormat _ _ | OIterNth _ _ _ _
  | SContains _ _ | SGet _ _ | SEq _ _ | SFormat _ _ | SIter _ _ | SIterNth _ _ _
  | SAlgebra _ _ _ _ _ | SPred _ _ _ | SSub _ _ | OBad => vw
  end.

Definition contract2 (debug : bool) (o : op) (x : xworld) : Prop :=
  contract_ok debug o x /\
  match o with ODisjoint _ true qs _ => NoDup qs | _ => True end.

(* ------------------------------------------------------------------ *)
(* 2. pure facts: the view commutes with the list machine of Spec.v    *)
(* ------------------------------------------------------------------ *)
Lemma set_at_upd {A} (l : list A) i x : set_at l i x = upd l i x.
Proof.
  revert i; induction l as [|h t IH]; intros [|i]; cbn [set_at upd]; try reflexivity.
  rewrite IH. reflexivity.
Qed.

Lemma set_at_length {A} (l : list A) i x : length (set_at l i x) = length l.
Proof. rewrite set_at_upd. apply upd_length. Qed.

Lemma set_at_same {A} (l : list A) i x : nth_error l i = Some x -> set_at l i x = l.
Proof. intros H. rewrite set_at_upd. apply IterSpec.upd_same. exact H. Qed.

Lemma map_set_at {A B} (g : A -> B) (l : list A) i x :
  List.map g (upd l i x) = set_at (List.map g l) i (g x).
Proof. rewrite set_at_upd. apply Dict.d_map_upd. Qed.

Lemma map_removelast {A B} (g : A -> B) (l : list A) :
  List.map g (removelast l) = removelast (List.map g l).
Proof.
  induction l as [|a t IH]; [reflexivity|]. destruct t as [|b t']; [reflexivity|].
  change (removelast (a :: b :: t')) with (a :: removelast (b :: t')).
  cbn [List.map] in *.
  change (removelast (g a :: g b :: List.map g t')) with (g a :: removelast (g b :: List.map g t')).
  rewrite IH. reflexivity.
Qed.

Lemma map_swap_del {K V B} (g : K * V -> B) (l : list (K * V)) i :
  List.map g (swap_remove l i) = swap_del (List.map g l) i.
Proof.
  unfold swap_remove, swap_del. rewrite map_length, nth_error_map.
  destruct (nth_error l (length l - 1)) as [z|]; cbn [option_map]; [|reflexivity].
  destruct (i =? length l - 1); [apply map_removelast|].
  rewrite map_set_at, map_removelast. reflexivity.
Qed.

Lemma pos_inv {A} (cl : A -> N) c (l : list A) : forall i,
  pos cl c l = Some i -> exists a, nth_error l i = Some a /\ cl a = c.
Proof.
  induction l as [|h t IH]; intros i H; cbn [pos] in H; [discriminate|].
  destruct (N.eqb_spec (cl h) c) as [Heq|Hne].
  - injection H as <-. exists h. auto.
  - destruct (pos cl c t) as [j|]; cbn [option_map] in H; [|discriminate].
    injection H as <-. destruct (IH j eq_refl) as (a & Ha & Hc). exists a. auto.
Qed.

(* a class-preserving overwrite does not move any class *)
Lemma pos_set_at {A} (cl : A -> N) c (l : list A) : forall i x a,
  nth_error l i = Some a -> cl x = cl a -> pos cl c (set_at l i x) = pos cl c l.
Proof.
  induction l as [|h t IH]; intros [|i] x a Hn Hc; cbn [nth_error] in Hn; try discriminate.
  - injection Hn as ->. cbn [set_at pos]. rewrite Hc. reflexivity.
  - cbn [set_at pos]. rewrite (IH i x a Hn Hc). reflexivity.
Qed.

Lemma nth_error_set_at {A} (l : list A) i j x :
  nth_error (set_at l i x) j = if Nat.eqb i j then (if j <? length l then Some x else None) else nth_error l j.
Proof. rewrite set_at_upd. apply nth_error_upd. Qed.

Lemma Forall2_map_eq {A B} (g : A -> B) (l l' : list A) :
  Forall2 (fun p p' => g p' = g p) l l' -> List.map g l' = List.map g l.
Proof. induction 1 as [|a b l l' H _ IH]; [reflexivity|]. cbn [List.map]. rewrite H, IH. reflexivity. Qed.

Lemma nodupb_spec (l : list N) : nodupb l = true <-> NoDup l.
Proof.
  induction l as [|c t IH]; cbn [nodupb]; [split; [constructor | reflexivity]|].
  rewrite andb_true_iff, negb_true_iff, IH. split.
  - intros [Hn Ht]. constructor; [|exact Ht]. intros Hin.
    assert (Hx : existsb (N.eqb c) t = true) by (apply existsb_exists; exists c; split; [exact Hin | apply N.eqb_refl]).
    congruence.
  - intros H. inversion H as [|c' t' Hn Ht]; subst. split; [|exact Ht].
    destruct (existsb (N.eqb c) t) eqn:He; [|reflexivity].
    apply existsb_exists in He. destruct He as (y & Hy & Hcy). apply N.eqb_eq in Hcy. subst y. contradiction.
Qed.

(* for class lists (sets) overwriting is a no-op: put = add_new *)
Lemma put_id (n : nat) (l : list N) (c : N) :
  put (fun c => c) n l c = add_new (fun c => c) n l c.
Proof.
  unfold put, add_new. destruct (pos (fun c => c) c l) as [i|] eqn:Hp; [|reflexivity].
  destruct (pos_inv _ _ _ _ Hp) as (a & Ha & Hc). cbn beta in Hc. subst a.
  apply set_at_same. exact Ha.
Qed.

Section ViewFacts.
Context {V X : Type} (phi : key * V -> X) (cl : X -> N).
Context (Hcl : forall p, cl (phi p) = kcls (fst p)).
Context (Hphi : forall k k' v, kcls k = kcls k' -> phi (k, v) = phi (k', v)).

Lemma pos_map c (l : list (key * V)) : pos cl c (List.map phi l) = find_idx kcls c l.
Proof.
  induction l as [|p t IH]; cbn [List.map pos find_idx]; [reflexivity|].
  rewrite Hcl, IH. reflexivity.
Qed.

Lemma map_l_insert n (l : list (key * V)) k v u :
  (find_idx kcls (kcls k) l = None -> length l < n) ->
  List.map phi (fst (fst (l_insert kcls l k v u))) = put cl n (List.map phi l) (phi (k, v)).
Proof.
  intros Hn. unfold l_insert, put. rewrite Hcl, pos_map. cbn [fst].
  destruct (find_idx kcls (kcls k) l) as [i|] eqn:Hf.
  - destruct (find_idx_inv kcls _ _ _ Hf) as [[[k0 v0] [Hp Hc]] _]. rewrite Hp. cbn [fst] in Hc.
    destruct u; cbn [fst]; rewrite map_set_at; [reflexivity|]. f_equal. apply Hphi. exact Hc.
  - cbn [fst]. rewrite map_length. specialize (Hn eq_refl).
    destruct (Nat.ltb_spec (length l) n); [|lia]. rewrite map_app. reflexivity.
Qed.

Lemma put_full n (l : list (key * V)) k v :
  find_idx kcls (kcls k) l = None -> n <= length l ->
  put cl n (List.map phi l) (phi (k, v)) = List.map phi l.
Proof.
  intros Hf Hn. unfold put. rewrite Hcl, pos_map. cbn [fst]. rewrite Hf, map_length.
  destruct (Nat.ltb_spec (length l) n); [lia | reflexivity].
Qed.

Lemma add_new_present n (l : list (key * V)) k v i :
  find_idx kcls (kcls k) l = Some i -> add_new cl n (List.map phi l) (phi (k, v)) = List.map phi l.
Proof. intros Hf. unfold add_new. rewrite Hcl, pos_map. cbn [fst]. rewrite Hf. reflexivity. Qed.

Lemma add_new_absent n (l : list (key * V)) k v :
  find_idx kcls (kcls k) l = None -> length l < n ->
  add_new cl n (List.map phi l) (phi (k, v)) = List.map phi (l ++ [(k, v)]).
Proof.
  intros Hf Hn. unfold add_new. rewrite Hcl, pos_map. cbn [fst]. rewrite Hf, map_length.
  destruct (Nat.ltb_spec (length l) n); [|lia]. rewrite map_app. reflexivity.
Qed.

Lemma add_new_full n (l : list (key * V)) k v :
  find_idx kcls (kcls k) l = None -> n <= length l ->
  add_new cl n (List.map phi l) (phi (k, v)) = List.map phi l.
Proof.
  intros Hf Hn. unfold add_new. rewrite Hcl, pos_map. cbn [fst]. rewrite Hf, map_length.
  destruct (Nat.ltb_spec (length l) n); [lia | reflexivity].
Qed.

Lemma map_l_remove (l : list (key * V)) c :
  List.map phi (fst (l_remove kcls l c)) = del cl (List.map phi l) c.
Proof.
  unfold l_remove, del. rewrite pos_map. destruct (find_idx kcls c l); cbn [fst]; [|reflexivity].
  apply map_swap_del.
Qed.

Lemma map_l_retain (g : key -> V -> bool * V) (g' : X -> bool * X) :
  (forall k v, g' (phi (k, v)) = (fst (g k v), phi (k, snd (g k v)))) ->
  forall fuel i (l : list (key * V)),
    List.map phi (l_retain g fuel i l) = retain_v g' fuel i (List.map phi l).
Proof.
  intros Hg. induction fuel as [|fuel IH]; intros i l; cbn [l_retain retain_v]; [reflexivity|].
  rewrite nth_error_map. destruct (nth_error l i) as [[k v]|]; cbn [option_map]; [|reflexivity].
  rewrite Hg. destruct (g k v) as [keep v']. cbn [fst snd]. destruct keep.
  - rewrite IH, map_set_at. reflexivity.
  - rewrite IH, map_swap_del, map_set_at. reflexivity.
Qed.

Lemma map_l_extend n items : forall l : list (key * V),
  option_map (List.map phi) (l_extend kcls n l items) = fill cl n (List.map phi l) (List.map phi items).
Proof.
  induction items as [|[k v] rest IH]; intros l; cbn [l_extend fill List.map]; [reflexivity|].
  rewrite Hcl, pos_map. cbn [fst]. destruct (find_idx kcls (kcls k) l) as [i|] eqn:Hf.
  - rewrite IH. f_equal. unfold l_insert. rewrite Hf.
    destruct (find_idx_inv kcls _ _ _ Hf) as [[[k0 v0] [Hp Hc]] _]. rewrite Hp. cbn [fst] in *.
    rewrite map_set_at. f_equal. apply Hphi. exact Hc.
  - rewrite map_length. destruct (length l <? n); [|reflexivity]. rewrite IH, map_app. reflexivity.
Qed.

End ViewFacts.

(* ------------------------------------------------------------------ *)
(* 3. the predicate carried through a computation                      *)
(* ------------------------------------------------------------------ *)
Section VGen.
Context {V X : Type} (phi : key * V -> X) (cl : X -> N).
Context (Hcl : forall p, cl (phi p) = kcls (fst p)).
Context (Hphi : forall k k' v, kcls k = kcls k' -> phi (k, v) = phi (k', v)).
Notation world := (world key V cstate).
Notation MV := (M key V cstate).

Definition view (m : map key V) : list X := List.map phi (Spec.elems m).

(* afterwards: invariant, capacity, and the view is [F] of the view before *)
Definition vpost (F : list X -> list X) (w w' : world) : Prop :=
  WF (self w') /\ cap (self w') = cap (self w) /\ view (self w') = F (view (self w)).
(* both outcomes *)
Definition sets {A} (c : MV A) (F : list X -> list X) (w : world) : Prop :=
  wp c (fun _ => vpost F w) (vpost F w) w.
(* from every well-formed world with unique keys; [f] also sees the capacity *)
Definition does {A} (c : MV A) (f : nat -> list X -> list X) : Prop :=
  forall w, WF (self w) -> Um (self w) -> sets c (f (cap (self w))) w.

Lemma vpost_elems F (w w' : world) L :
  WF (self w') -> cap (self w') = cap (self w) -> Spec.elems (self w') = L ->
  List.map phi L = F (view (self w)) -> vpost F w w'.
Proof. intros H1 H2 H3 H4. split; [exact H1|]. split; [exact H2|]. unfold view at 1. rewrite H3. exact H4. Qed.

Lemma vpost_same F (w w' : world) :
  WF (self w) -> self w' = self w -> F (view (self w)) = view (self w) -> vpost F w w'.
Proof. intros Hw Hs HF. unfold vpost. rewrite Hs, HF. auto. Qed.

Lemma vpost_frame F (w w' w'' : world) : self w'' = self w' -> vpost F w w' -> vpost F w w''.
Proof. unfold vpost. intros ->. auto. Qed.

Lemma vpost_base F (w w' w'' : world) : self w' = self w -> vpost F w' w'' -> vpost F w w''.
Proof. unfold vpost. intros ->. auto. Qed.

Lemma view_len0 (m : map key V) : len m = 0 -> view m = [].
Proof. intros H. unfold view. rewrite (elems_len0 m H). reflexivity. Qed.

Lemma vpost_empty F (w w' : world) : zpost w w' -> F (view (self w)) = [] -> vpost F w w'.
Proof.
  intros [[H1 H2] H3] HF. split; [exact H1|]. split; [exact H2|]. rewrite HF. apply view_len0. exact H3.
Qed.

Lemma vpost_ext F G (w w' : world) : F (view (self w)) = G (view (self w)) -> vpost F w w' -> vpost G w w'.
Proof. unfold vpost. intros <-. auto. Qed.

Lemma sets_ext {A} (c : MV A) F G (w : world) :
  F (view (self w)) = G (view (self w)) -> sets c F w -> sets c G w.
Proof.
  intros HFG H. eapply wp_mono; [exact H | |]; cbn beta; intros; eapply vpost_ext; eauto.
Qed.

Lemma sets_bind_frame {A B} (c : MV A) (k : A -> MV B) F (w : world) :
  sets c F w -> (forall a, frame (k a)) -> sets (bind c k) F w.
Proof.
  intros Hc Hk. apply wp_bind. eapply wp_mono; [exact Hc | |]; cbn beta; [|auto].
  intros a w1 H1. apply wp_frame; [apply Hk | |]; intros; eapply vpost_frame; eauto.
Qed.

Lemma does_bind_frame {A B} (c : MV A) (k : A -> MV B) f :
  does c f -> (forall a, frame (k a)) -> does (bind c k) f.
Proof. intros Hc Hk w Hw Hu. apply sets_bind_frame; [apply Hc; assumption | exact Hk]. Qed.

Lemma does_then_ret {A B} (c : MV A) (g : A -> B) f : does c f -> does (a <- c ;; ret (g a)) f.
Proof. intros Hc. apply does_bind_frame; [exact Hc|]. intros a. apply frame_ret. Qed.

Lemma stays_at_sets {A} (c : MV A) (w : world) :
  WF (self w) ->
  wp c (fun _ w' => self w' = self w) (fun w' => self w' = self w) w ->
  sets c (fun l => l) w.
Proof.
  intros Hw Hc. eapply wp_mono; [exact Hc | |]; cbn beta; intros; apply vpost_same; auto.
Qed.

Lemma stays_does {A} (c : MV A) : stays c -> does c (fun _ l => l).
Proof. intros Hc w Hw _. apply stays_at_sets; [exact Hw | apply Hc; exact Hw]. Qed.

Lemma zpost_at_sets {A} (c : MV A) (w : world) :
  wp c (fun _ => zpost w) (zpost w) w -> sets c (fun _ => []) w.
Proof.
  intros Hc. eapply wp_mono; [exact Hc | |]; cbn beta; intros; apply vpost_empty; auto.
Qed.

(* ---- the core operations ---- *)
Section VCore.
Context (E : env key V query cstate) (debug : bool) (HL : Lawful E kcls qcls).

Lemma put_present n (l : list (key * V)) k v i k0 v0 :
  find_idx kcls (kcls k) l = Some i -> nth_error l i = Some (k0, v0) ->
  put cl n (List.map phi l) (phi (k, v)) = List.map phi (upd l i (k0, v)).
Proof.
  intros Hf Hp. unfold put. rewrite Hcl, pos_map by exact Hcl. cbn [fst]. rewrite Hf, map_set_at.
  f_equal. apply Hphi. destruct (find_idx_inv kcls _ _ _ Hf) as [[p [Hp' Hc]] _].
  rewrite Hp in Hp'. injection Hp' as <-. cbn [fst] in Hc. symmetry. exact Hc.
Qed.

Lemma put_absent n (l : list (key * V)) k v :
  find_idx kcls (kcls k) l = None -> length l < n ->
  put cl n (List.map phi l) (phi (k, v)) = List.map phi (l ++ [(k, v)]).
Proof.
  intros Hf Hn. unfold put. rewrite Hcl, pos_map by exact Hcl. cbn [fst]. rewrite Hf, map_length.
  destruct (Nat.ltb_spec (length l) n); [|lia]. rewrite map_app. reflexivity.
Qed.

(* an appended entry fits below the capacity *)
Lemma insert_room (w w' : world) k v u :
  WF (self w) -> WF (self w') -> cap (self w') = cap (self w) ->
  Spec.elems (self w') = fst (fst (l_insert kcls (Spec.elems (self w)) k v u)) ->
  find_idx kcls (kcls k) (Spec.elems (self w)) = None -> length (Spec.elems (self w)) < cap (self w).
Proof.
  intros Hw Hw' Hc He Hf. unfold l_insert in He. rewrite Hf in He. cbn [fst] in He.
  pose proof (elems_length _ Hw') as Hl. rewrite He, app_length in Hl. cbn [length] in Hl.
  pose proof (WF_len_le_cap _ Hw'). lia.
Qed.

Lemma does_insert k v : does (insert E debug k v) (fun n l => put cl n l (phi (k, v))).
Proof.
  intros w Hw _.
  eapply wp_mono; [apply (insert_lawful E debug kcls qcls HL k v w Hw) | |]; cbn beta.
  - intros r w' (Hw' & Hc' & He & _).
    eapply vpost_elems; [exact Hw' | exact Hc' | exact He|].
    apply map_l_insert; [exact Hcl | exact Hphi|]. eapply insert_room; eauto.
  - intros w' (Hs & _ & Hf & Hfull). apply vpost_same; [exact Hw | exact Hs|].
    apply put_full; [exact Hcl | exact Hf|]. rewrite (elems_length _ Hw). lia.
Qed.

Lemma does_insert_key_value k v :
  does (insert_key_value E debug k v) (fun n l => put cl n l (phi (k, v))).
Proof.
  intros w Hw _.
  eapply wp_mono; [apply (insert_key_value_lawful E debug kcls qcls HL k v w Hw) | |]; cbn beta.
  - intros r w' (Hw' & Hc' & _ & He & _).
    eapply vpost_elems; [exact Hw' | exact Hc' | exact He|].
    apply map_l_insert; [exact Hcl | exact Hphi|]. eapply insert_room; eauto.
  - intros w' (Hs & _ & Hf & Hfull). apply vpost_same; [exact Hw | exact Hs|].
    apply put_full; [exact Hcl | exact Hf|]. rewrite (elems_length _ Hw). lia.
Qed.

Lemma does_checked_insert k v :
  does (checked_insert E debug k v) (fun n l => put cl n l (phi (k, v))).
Proof.
  intros w Hw _.
  eapply wp_mono; [apply (checked_insert_lawful E debug kcls qcls HL k v w Hw) | |]; cbn beta; [|tauto].
  intros r w' (Hw' & Hc' & Hm).
  destruct (find_idx kcls (kcls k) (Spec.elems (self w))) as [i|] eqn:Hf.
  - destruct Hm as [He _]. eapply vpost_elems; [exact Hw' | exact Hc' | exact He|].
    apply map_l_insert; [exact Hcl | exact Hphi|]. rewrite Hf. discriminate.
  - destruct (Nat.ltb_spec (len (self w)) (cap (self w))) as [Hlt|Hge].
    + destruct Hm as [He _]. eapply vpost_elems; [exact Hw' | exact Hc' | exact He|].
      symmetry. apply put_absent; [exact Hf|]. rewrite (elems_length _ Hw). exact Hlt.
    + destruct Hm as [He _]. eapply vpost_elems; [exact Hw' | exact Hc' | exact He|].
      symmetry. apply put_full; [exact Hcl | exact Hf|]. rewrite (elems_length _ Hw). exact Hge.
Qed.

Lemma sets_insert_unchecked k v (w : world) :
  WF (self w) -> Um (self w) -> (debug = true \/ len (self w) < cap (self w)) ->
  sets (insert_unchecked E debug k v) (fun l => put cl (cap (self w)) l (phi (k, v))) w.
Proof.
  intros Hw Hu Hc.
  assert (Heq : insert_unchecked E debug k v w = insert E debug k v w).
  { unfold insert_unchecked, insert, bind.
    rewrite (insert_i_eq_core E debug k v false w Hw); [reflexivity|]. tauto. }
  unfold sets, wp. rewrite Heq. apply does_insert; assumption.
Qed.

Lemma does_remove q : does (remove E debug q) (fun _ l => del cl l (qcls q)).
Proof.
  intros w Hw _.
  eapply wp_mono; [apply (remove_lawful E debug kcls qcls HL q w Hw) | |]; cbn beta; [|tauto].
  intros r w' (Hw' & Hc' & He & _). eapply vpost_elems; [exact Hw' | exact Hc' | exact He|].
  apply map_l_remove. exact Hcl.
Qed.

Lemma does_remove_entry q : does (remove_entry E debug q) (fun _ l => del cl l (qcls q)).
Proof.
  intros w Hw _.
  eapply wp_mono; [apply (remove_entry_lawful E debug kcls qcls HL q w Hw) | |]; cbn beta; [|tauto].
  intros r w' (Hw' & Hc' & _ & He & _). eapply vpost_elems; [exact Hw' | exact Hc' | exact He|].
  apply map_l_remove. exact Hcl.
Qed.

Lemma does_retain (f : pred_t) (g : key -> V -> bool * V) (g' : X -> bool * X) :
  (forall s k v, fst (f s k v) = (Some (fst (g k v)), snd (g k v))) ->
  (forall k v, g' (phi (k, v)) = (fst (g k v), phi (k, snd (g k v)))) ->
  does (retain E debug f) (fun _ l => retain_v g' (length l) 0 l).
Proof.
  intros Hf Hg w Hw _.
  eapply wp_mono; [apply (retain_lawful E debug kcls qcls HL f g w Hf Hw) | |]; cbn beta; [|tauto].
  intros _ w' (Hw' & Hc' & He). eapply vpost_elems; [exact Hw' | exact Hc' | exact He|].
  unfold view. rewrite map_length. apply map_l_retain. exact Hg.
Qed.

Lemma does_clear : does (clear E) (fun _ _ => []).
Proof. intros w Hw _. apply zpost_at_sets. apply clear_Z. exact Hw. Qed.

End VCore.
End VGen.

Lemma vpost_trans {V X} (phi : key * V -> X) F G (w w1 w2 : world key V cstate) :
  vpost phi F w w1 -> vpost phi G w1 w2 -> vpost phi (fun l => G (F l)) w w2.
Proof.
  intros (_ & A2 & A3) (B1 & B2 & B3). split; [exact B1|]. split; [congruence|]. rewrite B3, A3. reflexivity.
Qed.

(* ------------------------------------------------------------------ *)
(* 4. the two instances and the lift through run_m / run_s             *)
(* ------------------------------------------------------------------ *)
Definition mphi (p : key * vobj) : N * N := (kcls (fst p), vdat (snd p)).
Definition sphi (p : key * unit) : N := kcls (fst p).
Definition idN (c : N) : N := c.

Lemma mphi_cl p : fst (mphi p) = kcls (fst p).
Proof. reflexivity. Qed.
Lemma mphi_key k k' v : kcls k = kcls k' -> mphi (k, v) = mphi (k', v).
Proof. unfold mphi. cbn [fst snd]. intros ->. reflexivity. Qed.
Lemma sphi_cl p : (fun c : N => c) (sphi p) = kcls (fst p).
Proof. reflexivity. Qed.
Lemma sphi_key k k' (v : unit) : kcls k = kcls k' -> sphi (k, v) = sphi (k', v).
Proof. unfold sphi. cbn [fst]. auto. Qed.

Lemma mview_view m : mview m = view mphi m.
Proof. reflexivity. Qed.
Lemma sview_view m : sview m = view sphi m.
Proof. reflexivity. Qed.

Lemma get_mv_view r x : get_mv r (view_x x) = mview (get_m r x).
Proof. unfold get_mv, get_m, view_x. destruct (N.eqb r 0); reflexivity. Qed.
Lemma get_mc_view r x : get_mc r (view_x x) = cap (get_m r x).
Proof. unfold get_mc, get_m, view_x. destruct (N.eqb r 0); reflexivity. Qed.
Lemma get_sv_view r x : get_sv r (view_x x) = sview (get_s r x).
Proof. unfold get_sv, get_s, view_x. destruct (N.eqb r 2); reflexivity. Qed.
Lemma get_sc_view r x : get_sc r (view_x x) = cap (get_s r x).
Proof. unfold get_sc, get_s, view_x. destruct (N.eqb r 2); reflexivity. Qed.

Lemma view_x_put_m r m cs x :
  cap m = cap (get_m r x) -> view_x (put_m r m cs x) = put_mv r (mview m) (view_x x).
Proof.
  unfold view_x, put_m, put_mv, get_m. destruct (N.eqb r 0); cbn [xm0 xm1 xs0 xs1 v0 v1 u2 u3 c0 c1 c2 c3];
    intros ->; reflexivity.
Qed.
Lemma view_x_put_s r m cs x :
  cap m = cap (get_s r x) -> view_x (put_s r m cs x) = put_sv r (sview m) (view_x x).
Proof.
  unfold view_x, put_s, put_sv, get_s. destruct (N.eqb r 2); cbn [xm0 xm1 xs0 xs1 v0 v1 u2 u3 c0 c1 c2 c3];
    intros ->; reflexivity.
Qed.

Lemma run_m_sets r (c : Mm (list N)) x F :
  sets mphi c F (w_init (xcb x) (get_m r x)) ->
  view_x (snd (run_m r c x)) = put_mv r (F (mview (get_m r x))) (view_x x).
Proof.
  unfold sets, run_m, wp, w_init.
  destruct (c _) as [body w|w|]; cbn [finish fst snd]; [| |intros []];
    intros (Hw & Hc & Hv); cbn [self] in Hc, Hv; rewrite view_x_put_m by exact Hc;
    rewrite mview_view, Hv; reflexivity.
Qed.
Lemma run_s_sets r (c : Ms (list N)) x F :
  sets sphi c F (w_init (xcb x) (get_s r x)) ->
  view_x (snd (run_s r c x)) = put_sv r (F (sview (get_s r x))) (view_x x).
Proof.
  unfold sets, run_s, wp, w_init.
  destruct (c _) as [body w|w|]; cbn [finish fst snd]; [| |intros []];
    intros (Hw & Hc & Hv); cbn [self] in Hc, Hv; rewrite view_x_put_s by exact Hc;
    rewrite sview_view, Hv; reflexivity.
Qed.

Lemma run_m_on r (c : Mm (list N)) x f :
  sets mphi c (f (cap (get_m r x))) (w_init (xcb x) (get_m r x)) ->
  view_x (snd (run_m r c x)) = on_m r f (view_x x).
Proof. intros H. unfold on_m. rewrite get_mc_view, get_mv_view. apply run_m_sets. exact H. Qed.
Lemma run_s_on r (c : Ms (list N)) x f :
  sets sphi c (f (cap (get_s r x))) (w_init (xcb x) (get_s r x)) ->
  view_x (snd (run_s r c x)) = on_s r f (view_x x).
Proof. intros H. unfold on_s. rewrite get_sc_view, get_sv_view. apply run_s_sets. exact H. Qed.

Lemma run_m_does r (c : Mm (list N)) x f :
  WFx x -> UniqX x -> does mphi c f -> view_x (snd (run_m r c x)) = on_m r f (view_x x).
Proof.
  intros Hx Hu Hc. apply run_m_on.
  apply (Hc (w_init (xcb x) (get_m r x))); [apply WFx_get_m; exact Hx | apply UniqX_get_m; exact Hu].
Qed.
Lemma run_s_does r (c : Ms (list N)) x f :
  WFx x -> UniqX x -> does sphi c f -> view_x (snd (run_s r c x)) = on_s r f (view_x x).
Proof.
  intros Hx Hu Hc. apply run_s_on.
  apply (Hc (w_init (xcb x) (get_s r x))); [apply WFx_get_s; exact Hx | apply UniqX_get_s; exact Hu].
Qed.

(* a register that is not touched *)
Lemma on_m_id r vw : on_m r (fun _ l => l) vw = vw.
Proof. unfold on_m, put_mv, get_mv. destruct vw. destruct (N.eqb r 0); reflexivity. Qed.
Lemma on_s_id r vw : on_s r (fun _ l => l) vw = vw.
Proof. unfold on_s, put_sv, get_sv. destruct vw. destruct (N.eqb r 2); reflexivity. Qed.
Lemma put_mv_same r vw : put_mv r (get_mv r vw) vw = vw.
Proof. unfold put_mv, get_mv. destruct vw. destruct (N.eqb r 0); reflexivity. Qed.
Lemma put_sv_same r vw : put_sv r (get_sv r vw) vw = vw.
Proof. unfold put_sv, get_sv. destruct vw. destruct (N.eqb r 2); reflexivity. Qed.

(* ------------------------------------------------------------------ *)
(* 5. Map sessions                                                     *)
(* ------------------------------------------------------------------ *)
Lemma set_dat_elems i d (w : mworld) k0 v0 :
  WF (self w) -> nth_error (Spec.elems (self w)) i = Some (k0, v0) ->
  wp (set_dat i d)
     (fun _ w' => WF (self w') /\ cap (self w') = cap (self w) /\
                  Spec.elems (self w') = upd (Spec.elems (self w)) i (k0, {| vid := vid v0; vdat := d |}))
     (fun _ => False) w.
Proof.
  intros Hw Hp. destruct (elems_nth_slot _ _ _ Hw Hp) as [Hi Hsl].
  assert (Hic : i < cap (self w)) by (apply live_lt_cap; eexists; exact Hsl).
  unfold set_dat. apply wp_bind. eapply wp_p_replace; [exact Hsl|]. apply wp_ret. simp_w. cbn [fst snd].
  split; [apply WF_set_slot_some; auto|]. split; [apply cap_set_slot|]. apply elems_set_slot; auto.
Qed.

Lemma write_at (l : list (key * vobj)) c d i k0 v0 :
  find_idx kcls c l = Some i -> nth_error l i = Some (k0, v0) ->
  write (List.map mphi l) c d = List.map mphi (upd l i (k0, {| vid := vid v0; vdat := d |})).
Proof.
  intros Hf Hp. unfold write. rewrite (pos_map mphi fst mphi_cl), Hf, map_set_at. f_equal.
  destruct (find_idx_inv kcls _ _ _ Hf) as [[p [Hp' Hc]] _]. rewrite Hp in Hp'. injection Hp' as <-.
  cbn [fst] in Hc. unfold mphi. cbn [fst snd vdat]. rewrite Hc. reflexivity.
Qed.
Lemma write_absent (l : list (key * vobj)) c d :
  find_idx kcls c l = None -> write (List.map mphi l) c d = List.map mphi l.
Proof. intros Hf. unfold write. rewrite (pos_map mphi fst mphi_cl), Hf. reflexivity. Qed.

(* set_dat on the slot of class c *)
Lemma set_dat_write i d c (w0 w : mworld) :
  WF (self w0) -> self w = self w0 -> find_idx kcls c (Spec.elems (self w0)) = Some i ->
  wp (set_dat i d) (fun _ => vpost mphi (fun l => write l c d) w0) (fun _ => False) w.
Proof.
  intros Hw Hs Hf. destruct (find_idx_slot kcls _ _ _ Hw Hf) as [Hi [[k0 v0] (Hp & _ & _)]].
  eapply wp_mono; [apply (set_dat_elems i d w k0 v0); rewrite Hs; assumption | |]; cbn beta; [|tauto].
  intros _ w' (Hw' & Hc' & He'). rewrite Hs in Hc', He'.
  eapply vpost_elems; [exact Hw' | exact Hc' | exact He'|]. symmetry. apply write_at; assumption.
Qed.

Section MapSessions.
Context (debug : bool) (sc : script) (Hh : honest sc).
Notation Em := (env_map sc).
Let HLm : Lawful Em kcls qcls := env_map_lawful sc Hh.

Lemma does_op_get_mut q d :
  does mphi (o <- get_mut Em q ;; b <- opt_slot (fun p : key * vobj => r_val (snd p)) o ;;
             (match o with Some i => set_dat i d | None => ret tt end) ;; ret b)
       (fun _ l => write l (qcls q) d).
Proof.
  intros w Hw _. apply wp_bind.
  eapply wp_mono; [apply (get_mut_lawful Em kcls qcls HLm q w Hw) | |]; cbn beta; [|tauto].
  intros r w1 [[Hs1 _] ->]. apply wp_bind.
  destruct (find_idx kcls (qcls q) (Spec.elems (self w))) as [i|] eqn:Hf.
  - destruct (find_idx_slot kcls _ _ _ Hw Hf) as [Hi _].
    eapply wp_mono; [apply opt_slot_spec | |]; cbn beta; [| |tauto].
    + rewrite Hs1. apply WF_live; assumption.
    + intros b w2 Hs2. apply wp_bind.
      eapply wp_mono; [apply (set_dat_write i d (qcls q) w w2 Hw); [congruence | exact Hf] | |]; cbn beta; [|tauto].
      intros _ w3 H3. apply wp_ret. exact H3.
  - eapply wp_mono; [apply opt_slot_spec; exact I | |]; cbn beta; [|tauto].
    intros b w2 Hs2. apply wp_bind. apply wp_ret. apply wp_ret.
    apply vpost_same; [exact Hw | congruence|]. apply write_absent. exact Hf.
Qed.

Lemma does_op_index_mut q d :
  does mphi (i <- index_mut Em q ;; p <- p_ref i ;; set_dat i d ;; ret (nn i :: r_val (snd p)))
       (fun _ l => write l (qcls q) d).
Proof.
  intros w Hw _. apply wp_bind.
  eapply wp_mono; [apply (index_mut_lawful Em kcls qcls HLm q w Hw) | |]; cbn beta.
  - intros i w1 [[Hs1 _] Hf]. destruct (find_idx_slot kcls _ _ _ Hw Hf) as [Hi _].
    apply wp_bind. apply wp_p_ref_live; [rewrite Hs1; apply WF_live; assumption|]. intros p.
    apply wp_bind.
    eapply wp_mono; [apply (set_dat_write i d (qcls q) w w1 Hw Hs1 Hf) | |]; cbn beta; [|tauto].
    intros _ w3 H3. apply wp_ret. exact H3.
  - intros w1 [[Hs1 _] Hf]. apply vpost_same; [exact Hw | exact Hs1|]. apply write_absent. exact Hf.
Qed.

End MapSessions.

(* ---- borrowing iterator sessions ---- *)
Lemma iter_steps_past kind wd : forall n j c acc (w : mworld),
  WF (self w) -> snd c <= len (self w) -> snd c <= fst c ->
  wp (iter_steps kind wd n j c acc) (fun r w' => self w' = self w /\ snd r = c) (fun _ => False) w.
Proof.
  induction n as [|n IH]; intros j c acc w Hw Hc Hge; cbn [iter_steps].
  - apply wp_ret. auto.
  - cbv zeta. apply wp_bind.
    eapply wp_mono; [apply iter_next_spec; assumption | |]; cbn beta; [|tauto].
    intros [o c'] w1 [Hs1 Ho]. cbn [fst snd] in Ho. destruct o as [i|].
    + destruct Ho as (_ & Hlt & _). lia.
    + destruct Ho as [_ ->].
      eapply wp_mono; [apply IH; rewrite ?Hs1; assumption | |]; cbn beta; [|tauto].
      intros r w2 [Hs2 Hr]. split; [congruence | exact Hr].
Qed.

Lemma iter_writes_none wd n j l : nth_error l j = None -> iter_writes wd n j l = l.
Proof. destruct n; cbn [iter_writes]; [reflexivity|]. intros ->. reflexivity. Qed.

Definition iterF (kind wd : N) (n j : nat) (l : list (N * N)) : list (N * N) :=
  if is_mut_kind kind then iter_writes wd n j l else l.

Lemma iter_steps_view kind wd : forall n j acc (w : mworld),
  WF (self w) ->
  wp (iter_steps kind wd n j (j, len (self w)) acc)
     (fun r w' => vpost mphi (iterF kind wd n j) w w' /\ len (self w') = len (self w) /\
                  snd (snd r) <= len (self w))
     (fun _ => False) w.
Proof.
  induction n as [|n IH]; intros j acc w Hw; cbn [iter_steps].
  - apply wp_ret. cbn [snd]. split; [|split; [reflexivity | lia]].
    apply vpost_same; [exact Hw | reflexivity|]. unfold iterF. destruct (is_mut_kind kind); reflexivity.
  - cbv zeta. apply wp_bind.
    eapply wp_mono; [apply iter_next_spec; [exact Hw | cbn [snd]; lia] | |]; cbn beta; [|tauto].
    intros [o c'] w1 [Hs1 Ho]. cbn [fst snd] in Ho.
    destruct o as [i|].
    + destruct Ho as (-> & Hlt & ->).
      destruct (WF_live _ _ Hw Hlt) as [[k0 v0] Hsl].
      assert (Hpe : nth_error (Spec.elems (self w)) j = Some (k0, v0)) by (apply elems_nth; assumption).
      apply wp_bind. eapply wp_p_ref; [rewrite Hs1; exact Hsl|]. apply wp_bind.
      unfold iterF. destruct (is_mut_kind kind) eqn:Hk.
      * eapply wp_mono; [apply (set_dat_elems j (wd + nn j) w1 k0 v0); rewrite Hs1; assumption | |];
          cbn beta; [|tauto].
        intros _ w2 (Hw2 & Hc2 & He2). rewrite Hs1 in Hc2, He2.
        assert (Hl2 : len (self w2) = len (self w)).
        { rewrite <- (elems_length _ Hw2), He2, upd_length. apply elems_length. exact Hw. }
        match goal with
        | |- wp (iter_steps _ _ _ _ _ ?a) _ _ _ => pose proof (IH (S j) a w2 Hw2) as HI
        end.
        rewrite Hl2 in HI.
        eapply wp_mono; [exact HI | |]; cbn beta; [|tauto].
        intros r w3 (H3 & Hl3 & Hr). split; [|split; [congruence | exact Hr]].
        unfold iterF in H3. rewrite Hk in H3.
        assert (H2 : vpost mphi (fun l => set_at l j (kcls k0, (wd + N.of_nat j)%N)) w w2).
        { eapply vpost_elems; [exact Hw2 | exact Hc2 | exact He2|]. rewrite map_set_at. reflexivity. }
        eapply vpost_ext; [|exact (vpost_trans mphi _ _ w w2 w3 H2 H3)]. cbn beta.
        cbn [iter_writes]. unfold view. rewrite nth_error_map, Hpe. cbn [option_map mphi fst snd]. reflexivity.
      * apply wp_ret.
        match goal with
        | |- wp (iter_steps _ _ _ _ _ ?a) _ _ _ => pose proof (IH (S j) a w1) as HI
        end.
        rewrite Hs1 in HI. specialize (HI Hw).
        eapply wp_mono; [exact HI | |]; cbn beta; [|tauto].
        intros r w3 (H3 & Hl3 & Hr). split; [|split; [exact Hl3 | exact Hr]].
        unfold iterF in H3. rewrite Hk in H3. eapply vpost_base; [exact Hs1 | exact H3].
    + destruct Ho as [Hge ->].
      eapply wp_mono; [apply iter_steps_past; [rewrite Hs1; exact Hw | rewrite Hs1; cbn [snd]; lia | exact Hge] | |];
        cbn beta; [|tauto].
      intros r w3 [Hs3 ->]. cbn [snd]. split; [|split; [congruence | lia]].
      apply vpost_same; [exact Hw | congruence|].
      unfold iterF. destruct (is_mut_kind kind); [|reflexivity].
      apply iter_writes_none. apply nth_error_None. unfold view. rewrite map_length, (elems_length _ Hw).
      cbn [fst snd] in Hge. exact Hge.
Qed.

Lemma iter_nopanic {V} (w : world key V cstate) :
  WF (self w) ->
  wp iter (fun c w' => self w' = self w /\ c = (0, len (self w))) (fun _ => False) w.
Proof.
  intros [Hl Hs]. unfold iter.
  apply wp_bind. apply wp_p_prefix; [intros _ | lia].
  apply wp_bind. apply wp_get_len. apply wp_ret. split; reflexivity.
Qed.

Lemma drain_nopanic {V} (w : world key V cstate) :
  WF (self w) ->
  wp drain (fun c w' => DrainInv c (self w') /\ cap (self w') = cap (self w) /\ cursor_len c = len (self w))
     (fun _ => False) w.
Proof.
  intros [Hl Hs]. unfold drain.
  apply wp_bind. apply wp_p_prefix; [intros _ | lia].
  apply wp_bind. apply wp_get_len. apply wp_bind. apply wp_set_len. apply wp_ret. simp_w.
  split; [|split].
  - unfold DrainInv. cbn [fst snd set_len_m len]. split; [reflexivity|]. split.
    + rewrite cap_set_len. exact Hl.
    + intros j Hj. apply live_set_len. apply Hs. lia.
  - apply cap_set_len.
  - unfold cursor_len. cbn [fst snd]. lia.
Qed.

Lemma does_iter_session kind steps wd :
  does mphi (iter_session kind steps wd)
       (fun _ l => if N.eqb kind 1 || N.eqb kind 4 then iter_writes wd steps 0 l else l).
Proof.
  intros w Hw _. unfold iter_session. apply wp_bind.
  eapply wp_mono; [apply iter_nopanic; exact Hw | |]; cbn beta; [|tauto].
  intros c w1 [Hs1 ->]. apply wp_bind.
  pose proof (iter_steps_view kind wd steps 0 [] w1) as HI. rewrite Hs1 in HI.
  eapply wp_mono; [apply HI; exact Hw | |]; cbn beta; [|tauto].
  intros [acc c'] w2 (H2 & Hl2 & Hc'). cbn [snd] in Hc'.
  assert (H2' : vpost mphi (iterF kind wd steps 0) w w2) by (eapply vpost_base; eauto).
  assert (Hw2 : WF (self w2)) by apply H2.
  apply wp_frame_bind; [apply frame_dbg_iter | |].
  2:{ intros w3 Hs3. eapply vpost_frame; [exact Hs3 | exact H2']. }
  intros d0 w3 Hs3. apply wp_frame_bind; [apply frame_dbg_iter | |].
  2:{ intros w4 Hs4. apply vpost_frame with (w' := w2); [congruence | exact H2']. }
  intros d1 w4 Hs4. apply wp_bind.
  assert (Hs42 : self w4 = self w2) by congruence.
  unfold iterF in H2'. unfold is_mut_kind in *.
  destruct (N.eqb kind 1 || N.eqb kind 4).
  - apply wp_ret. apply wp_ret. eapply vpost_frame; [exact Hs42 | exact H2'].
  - eapply wp_mono; [apply rest_slots_spec | |]; cbn beta; [| |tauto].
    + rewrite Hs42. apply cursor_live; [exact Hw2 | lia].
    + intros r w5 Hs5. apply wp_ret. apply vpost_frame with (w' := w2); [congruence | exact H2'].
Qed.

(* ------------------------------------------------------------------ *)
(* 6. sessions that leave the register empty                           *)
(* ------------------------------------------------------------------ *)
Section ZSessions.
Context {V : Type}.
Notation world := (world key V cstate).

Lemma detach_Z (w w2 : world) : zpost w (with_self w2 (new_map (cap (self w)))).
Proof. unfold zpost, inv_post. simp_w. split; [split; [apply WF_new | apply cap_new] | reflexivity]. Qed.

Lemma drain_session_Z (E : env key V query cstate) rp dk dv with_dbg cl take fate (w : world) :
  WF (self w) ->
  wp (drain_session E rp dk dv with_dbg cl take fate) (fun _ => zpost w) (zpost w) w.
Proof.
  intros Hw. unfold drain_session. apply wp_bind.
  eapply wp_mono; [apply drain_nopanic; exact Hw | |]; cbn beta; [|tauto].
  intros c w1 (HD1 & Hc1 & _). apply wp_bind.
  eapply wp_mono; [apply drain_steps_spec; exact HD1 | |]; cbn beta; [|tauto].
  intros [acc c'] w2 [HD2 Hc2]. cbn [snd] in HD2.
  apply wp_frame_bind.
  { apply frame_if; [apply frame_dbg_range | apply frame_ret]. }
  2:{ intros w3 Hs3. apply DrainInv_zpost with (c := c'); rewrite Hs3; [exact HD2 | congruence]. }
  intros d0 w3 Hs3. apply wp_frame_bind.
  { apply frame_if; [apply frame_dbg_range | apply frame_ret]. }
  2:{ intros w4 Hs4. apply DrainInv_zpost with (c := c'); rewrite Hs4, Hs3; [exact HD2 | congruence]. }
  intros d1 w4 Hs4.
  assert (Hs42 : self w4 = self w2) by congruence.
  assert (HD4 : DrainInv c' (self w4)) by (rewrite Hs42; exact HD2).
  assert (Hc4 : cap (self w4) = cap (self w)) by (rewrite Hs42; congruence).
  assert (H4 : zpost w w4) by (eapply DrainInv_zpost; eauto).
  apply wp_bind. destruct (N.eqb fate 0).
  - apply wp_bind.
    eapply wp_mono; [apply drain_drop_spec with (c := c'); exact HD4 | |]; cbn beta.
    + intros _ w5 (Hw5 & Hl5 & Hc5). apply wp_ret. apply wp_ret.
      split; [split; [exact Hw5 | congruence] | exact Hl5].
    + intros w5 (Hw5 & Hl5 & Hc5). split; [split; [exact Hw5 | congruence] | exact Hl5].
  - destruct (N.eqb fate 2).
    + apply wp_bind.
      eapply wp_mono; [apply drain_for_each_Z; exact HD4 | |]; cbn beta.
      * intros n w5 [[H5 H5c] H5l]. apply wp_ret. apply wp_ret.
        split; [split; [exact H5 | congruence] | exact H5l].
      * intros w5 [[H5 H5c] H5l]. split; [split; [exact H5 | congruence] | exact H5l].
    + destruct (N.eqb fate 3).
      * apply wp_bind.
        eapply wp_mono; [apply drain_count_Z; exact HD4 | |]; cbn beta.
        -- intros n w5 H5. apply wp_ret. apply wp_ret. eapply zpost_base; eauto.
        -- intros w5 H5. eapply zpost_base; eauto.
      * apply wp_ret. apply wp_ret. exact H4.
Qed.

Lemma drain_nth_session_Z (E : env key V query cstate) rp pre nk (w : world) :
  WF (self w) ->
  wp (drain_nth_session E rp pre nk) (fun _ => zpost w) (zpost w) w.
Proof.
  intros Hw. unfold drain_nth_session. apply wp_bind.
  eapply wp_mono; [apply drain_nopanic; exact Hw | |]; cbn beta; [|tauto].
  intros c w1 (HD1 & Hc1 & _). apply wp_bind.
  eapply wp_mono; [apply d_skip_spec; exact HD1 | |]; cbn beta; [|tauto].
  intros c1 w2 [HD2 Hc2]. apply wp_bind.
  eapply wp_mono; [apply d_nth_Z; exact HD2 | |]; cbn beta.
  2:{ intros w3 [[Hw3 Hc3] Hl3]. split; [split; [exact Hw3 | congruence] | exact Hl3]. }
  intros [o c2] w3 [HD3 Hc3]. cbn [snd] in HD3. apply wp_bind.
  eapply wp_mono; [apply drain_next_spec; exact HD3 | |]; cbn beta; [|tauto].
  intros [o2 c3] w4 (HD4 & Hc4 & _). cbn [snd] in HD4. apply wp_bind.
  eapply wp_mono; [apply drain_drop_spec with (c := c3); exact HD4 | |]; cbn beta.
  - intros _ w5 (Hw5 & Hl5 & Hc5). apply wp_ret.
    split; [split; [exact Hw5 | congruence] | exact Hl5].
  - intros w5 (Hw5 & Hl5 & Hc5). split; [split; [exact Hw5 | congruence] | exact Hl5].
Qed.

(* consuming iterators: the register holds a fresh container *)
Lemma op_into_nth_Z (E : env key V query cstate)
      (item : key * V -> M key V cstate (list N)) (rest : key * V -> M key V cstate unit) pre nk (w : world) :
  (forall p, frame (item p)) -> (forall p, frame (rest p)) -> WF (self w) ->
  wp (c <- get_cap ;; old <- get_self ;; put_self (new_map c) ;;
      '(body, _) <- swap_self old (into_nth_session E item rest pre nk) ;; ret body)
     (fun _ => zpost w) (zpost w) w.
Proof.
  intros Hitem Hrest Hw. apply wp_bind. apply wp_get_cap. apply wp_bind. apply wp_get_self.
  apply wp_bind. apply wp_put_self. apply wp_bind. apply wp_swap_self. simp_w.
  eapply wp_mono; [apply (into_nth_session_safe item rest Hitem Hrest); simp_w; exact Hw | |]; cbn beta.
  - intros body w2 _. apply wp_ret. apply detach_Z.
  - intros w2 _. apply detach_Z.
Qed.

(* replacing the register by an empty container *)
Lemma replace_empty_Z (E : env key V query cstate) body (w : world) :
  WF (self w) -> wp (replace_with E (ret tt) body) (fun _ => zpost w) (zpost w) w.
Proof.
  intros Hw. unfold replace_with. apply wp_bind. apply wp_get_cap. apply wp_bind.
  apply wp_swap_self. apply wp_ret. simp_w.
  apply wp_bind. apply wp_get_self. apply wp_bind. apply wp_put_self. apply wp_bind.
  apply wp_swap_self. simp_w.
  eapply wp_mono; [apply drop_map_safe; simp_w; exact Hw | |]; cbn beta.
  - intros [] w2 _. apply wp_ret. apply detach_Z.
  - intros w2 _. apply detach_Z.
Qed.

End ZSessions.

Lemma op_into_iter_Z sc kind take fate (w : mworld) :
  WF (self w) ->
  wp (c <- get_cap ;; old <- get_self ;; put_self (new_map c) ;;
      '(body, _) <- swap_self old (into_session sc kind take fate) ;; ret body)
     (fun _ => zpost w) (zpost w) w.
Proof.
  intros Hw. apply wp_bind. apply wp_get_cap. apply wp_bind. apply wp_get_self.
  apply wp_bind. apply wp_put_self. apply wp_bind. apply wp_swap_self. simp_w.
  eapply wp_mono; [apply into_session_safe; simp_w; exact Hw | |]; cbn beta.
  - intros body w2 _. apply wp_ret. apply detach_Z.
  - intros w2 _. apply detach_Z.
Qed.

Lemma op_s_into_iter_Z sc take fate (w : sworld) :
  WF (self w) ->
  wp (c <- get_cap ;; old <- get_self ;; put_self (new_map c) ;;
      '(body, _) <- swap_self old
         (acc <- set_into_steps take [] ;; l <- get_len ;;
          tail <- (if N.eqb fate 0 then (drop_map (env_set sc) ;; ret [])
                   else if N.eqb fate 2
                        then (n <- finally_drop (env_set sc) (set_into_for_each sc (S l) 0) ;; ret [nn n])
                   else if N.eqb fate 3
                        then (n <- finally_drop (env_set sc) (set_into_count sc (S l) 0) ;; ret [nn n])
                        else ret []) ;;
          ret (acc ++ [nn l] ++ tail)) ;;
      ret body)
     (fun _ => zpost w) (zpost w) w.
Proof.
  intros Hw. apply wp_bind. apply wp_get_cap. apply wp_bind. apply wp_get_self.
  apply wp_bind. apply wp_put_self. apply wp_bind. apply wp_swap_self. simp_w.
  assert (Hfin : forall w2 : sworld, zpost w (with_self w2 (new_map (cap (self w))))).
  { intros w2. apply detach_Z. }
  apply wp_bind.
  eapply wp_mono; [apply keeps_set_into_steps; simp_w; exact Hw | |]; cbn beta.
  - intros acc w1 [Hw1 _]. apply wp_bind. apply wp_get_len. apply wp_bind.
    destruct (N.eqb fate 0).
    + apply wp_bind.
      eapply wp_mono; [apply drop_map_safe; exact Hw1 | |]; cbn beta.
      * intros _ w2 _. apply wp_ret. apply wp_ret. apply wp_ret. apply Hfin.
      * intros w2 _. apply Hfin.
    + destruct (N.eqb fate 2).
      * apply wp_bind.
        eapply wp_mono; [apply wp_finally_keeps; [apply keeps_set_into_for_each | exact Hw1] | |];
          cbn beta.
        -- intros n w2 _. apply wp_ret. apply wp_ret. apply wp_ret. apply Hfin.
        -- intros w2 _. apply Hfin.
      * destruct (N.eqb fate 3).
        -- apply wp_bind.
           eapply wp_mono; [apply wp_finally_keeps; [apply keeps_set_into_count | exact Hw1] | |];
             cbn beta.
           ++ intros n w2 _. apply wp_ret. apply wp_ret. apply wp_ret. apply Hfin.
           ++ intros w2 _. apply Hfin.
        -- apply wp_ret. apply wp_ret. apply wp_ret. apply Hfin.
  - intros w1 _. apply Hfin.
Qed.

(* ------------------------------------------------------------------ *)
(* 7. replacing a register by a freshly built container                *)
(* ------------------------------------------------------------------ *)
Section VReplace.
Context {V X : Type} (phi : key * V -> X).
Notation world := (world key V cstate).

(* success: the new contents; failure of the build: the register is kept *)
Lemma replace_with_sets (E : env key V query cstate) build body (w : world) F :
  WF (self w) ->
  (forall w0 : world, self w0 = new_map (cap (self w)) ->
     wp build (fun _ w' => WF (self w') /\ cap (self w') = cap (self w) /\
                           view phi (self w') = F (view phi (self w)))
              (fun _ => F (view phi (self w)) = view phi (self w)) w0) ->
  sets phi (replace_with E build body) F w.
Proof.
  intros Hw Hb. unfold sets, replace_with. apply wp_bind. apply wp_get_cap. apply wp_bind.
  apply wp_swap_self.
  eapply wp_mono; [apply Hb; reflexivity | |]; cbn beta.
  - intros [] w1 (Hw1 & Hc1 & Hv1).
    apply wp_bind. apply wp_get_self. apply wp_bind. apply wp_put_self. apply wp_bind.
    apply wp_swap_self. simp_w.
    eapply wp_mono; [apply drop_map_safe; simp_w; exact Hw | |]; cbn beta.
    + intros [] w2 _. apply wp_ret. unfold vpost. simp_w. auto.
    + intros w2 _. unfold vpost. simp_w. auto.
  - intros w1 HF. simp_w. apply vpost_same; [exact Hw | reflexivity | exact HF].
Qed.

End VReplace.

(* ------------------------------------------------------------------ *)
(* 8. the entry API                                                    *)
(* ------------------------------------------------------------------ *)
Lemma call_tick_honest sc s : honest sc -> fst (call_tick sc s) = false.
Proof. intros [_ Hf]. unfold call_tick. rewrite Hf. reflexivity. Qed.

Lemma write_at_gen (l : list (key * vobj)) c d i k0 v0 v' :
  find_idx kcls c l = Some i -> nth_error l i = Some (k0, v0) -> vdat v' = d ->
  write (List.map mphi l) c d = List.map mphi (upd l i (k0, v')).
Proof.
  intros Hf Hp Hd. unfold write. rewrite (pos_map mphi fst mphi_cl), Hf, map_set_at. f_equal.
  destruct (find_idx_inv kcls _ _ _ Hf) as [[p [Hp' Hc]] _]. rewrite Hp in Hp'. injection Hp' as <-.
  cbn [fst] in Hc. unfold mphi. cbn [fst snd]. rewrite Hc, Hd. reflexivity.
Qed.

Lemma bump_at (l : list (key * vobj)) c i k0 v0 :
  find_idx kcls c l = Some i -> nth_error l i = Some (k0, v0) ->
  bump (List.map mphi l) c = List.map mphi (upd l i (k0, {| vid := vid v0; vdat := vdat v0 + 100 |})).
Proof.
  intros Hf Hp. unfold bump. rewrite (pos_map mphi fst mphi_cl), Hf, nth_error_map, Hp.
  cbn [option_map mphi fst snd]. rewrite map_set_at. reflexivity.
Qed.

Lemma present_map (l : list (key * vobj)) c :
  present c (List.map mphi l) = match find_idx kcls c l with Some _ => true | None => false end.
Proof. unfold present. rewrite (pos_map mphi fst mphi_cl). reflexivity. Qed.

Lemma del_at (l : list (key * vobj)) c i :
  find_idx kcls c l = Some i -> del fst (List.map mphi l) c = List.map mphi (swap_remove l i).
Proof. intros Hf. unfold del. rewrite (pos_map mphi fst mphi_cl), Hf. symmetry. apply map_swap_del. Qed.
Lemma del_absent (l : list (key * vobj)) c :
  find_idx kcls c l = None -> del fst (List.map mphi l) c = List.map mphi l.
Proof. intros Hf. unfold del. rewrite (pos_map mphi fst mphi_cl), Hf. reflexivity. Qed.

Lemma put_write_present (n : nat) (l : list (key * vobj)) c d i :
  find_idx kcls c l = Some i -> put fst n (List.map mphi l) (c, d) = write (List.map mphi l) c d.
Proof. intros Hf. unfold put, write. cbn [fst]. rewrite (pos_map mphi fst mphi_cl), Hf. reflexivity. Qed.
Lemma put_add_absent (n : nat) (l : list (key * vobj)) c d :
  find_idx kcls c l = None -> put fst n (List.map mphi l) (c, d) = add_new fst n (List.map mphi l) (c, d).
Proof. intros Hf. unfold put, add_new. cbn [fst]. rewrite (pos_map mphi fst mphi_cl), Hf. reflexivity. Qed.

(* an index-producing computation followed by r_slotval *)
Lemma wp_then_slotval_V (c : Mm nat) tag F (w0 w : mworld) :
  wp c (fun i w' => vpost mphi F w0 w' /\ i < len (self w')) (vpost mphi F w0) w ->
  wp (i <- c ;; r_slotval tag i) (fun _ => vpost mphi F w0) (vpost mphi F w0) w.
Proof.
  intros Hc. apply wp_bind. eapply wp_mono; [exact Hc | |]; cbn beta; [|auto].
  intros i w1 [H1 Hi]. eapply wp_mono; [apply r_slotval_spec | |]; cbn beta.
  - apply WF_live; [apply H1 | exact Hi].
  - intros _ w2 Hs2. eapply vpost_frame; eauto.
  - intros w2 [].
Qed.
Lemma sets_then_slotval (c : Mm nat) tag F (w : mworld) :
  wp c (fun i w' => vpost mphi F w w' /\ i < len (self w')) (vpost mphi F w) w ->
  sets mphi (i <- c ;; r_slotval tag i) F w.
Proof. apply wp_then_slotval_V. Qed.

(* get the slot of class c, render it, overwrite its payload *)
Lemma sets_slot_set tag j d c (w : mworld) :
  WF (self w) -> find_idx kcls c (Spec.elems (self w)) = Some j ->
  sets mphi (r <- r_slotval tag j ;; set_dat j d ;; ret r) (fun l => write l c d) w.
Proof.
  intros Hw Hf. destruct (find_idx_slot kcls _ _ _ Hw Hf) as [Hj _].
  apply wp_bind. eapply wp_mono; [apply r_slotval_spec; apply WF_live; assumption | |]; cbn beta; [|tauto].
  intros r w1 Hs1. apply wp_bind.
  eapply wp_mono; [apply (set_dat_write j d c w w1 Hw Hs1 Hf) | |]; cbn beta; [|tauto].
  intros _ w2 H2. apply wp_ret. exact H2.
Qed.

Section VEntry.
Context (debug : bool) (sc : script) (Hh : honest sc).
Notation Em := (env_map sc).
Let HLm : Lawful Em kcls qcls := env_map_lawful sc Hh.

(* what entry_of returned *)
Definition ent_rel (k : key) (e : @entry key) (w : mworld) : Prop :=
  match find_idx kcls (kcls k) (Spec.elems (self w)) with
  | Some i => e = Occupied i
  | None => e = Vacant k
  end.

Notation addF k d w := (fun l : list (N * N) => add_new fst (cap (self w)) l (kcls k, d)).

Lemma vac_insert_view k v (w : mworld) :
  WF (self w) -> find_idx kcls (kcls k) (Spec.elems (self w)) = None ->
  wp (vac_insert Em debug k v)
     (fun i w' => vpost mphi (addF k (vdat v) w) w w' /\ i < len (self w'))
     (vpost mphi (addF k (vdat v) w) w) w.
Proof.
  intros Hw Hf.
  eapply wp_mono; [apply (vac_insert_lawful Em debug kcls qcls HLm k v w Hw Hf) | |]; cbn beta.
  - intros i w' (Hw' & Hc' & _ & He & Hi & Hlt). split.
    + eapply vpost_elems; [exact Hw' | exact Hc' | exact He|]. symmetry.
      apply (add_new_absent mphi fst mphi_cl _ _ k v Hf). rewrite (elems_length _ Hw). exact Hlt.
    + rewrite <- (elems_length _ Hw'), He, app_length, Hi. cbn [length]. lia.
  - intros w' (Hs & _ & Hfull). apply vpost_same; [exact Hw | exact Hs|].
    apply (add_new_full mphi fst mphi_cl _ _ k v Hf). rewrite (elems_length _ Hw). lia.
Qed.

Lemma or_insert_occ i v (w : mworld) :
  WF (self w) -> i < len (self w) ->
  wp (or_insert Em debug (Occupied i) v)
     (fun j w' => j = i /\ self w' = self w) (fun w' => self w' = self w) w.
Proof.
  intros Hw Hi. cbn [or_insert]. apply wp_bind.
  eapply wp_mono; [apply occ_into_mut_spec; assumption | |]; cbn beta; [|tauto].
  intros j w1 [-> Hs1]. apply wp_bind. apply wp_frame; [apply frame_drop_val | |].
  - intros _ w2 Hs2. apply wp_ret. split; [reflexivity | congruence].
  - intros w2 Hs2. congruence.
Qed.

Lemma or_insert_view e k v (w : mworld) :
  WF (self w) -> ent_rel k e w ->
  wp (or_insert Em debug e v)
     (fun i w' => vpost mphi (addF k (vdat v) w) w w' /\ i < len (self w'))
     (vpost mphi (addF k (vdat v) w) w) w.
Proof.
  intros Hw He. unfold ent_rel in He.
  destruct (find_idx kcls (kcls k) (Spec.elems (self w))) as [i|] eqn:Hf; subst e.
  - destruct (find_idx_slot kcls _ _ _ Hw Hf) as [Hi _].
    assert (HF : add_new fst (cap (self w)) (view mphi (self w)) (kcls k, vdat v) = view mphi (self w))
      by (apply (add_new_present mphi fst mphi_cl _ _ k v i Hf)).
    eapply wp_mono; [apply or_insert_occ; assumption | |]; cbn beta.
    + intros j w1 [-> Hs1]. split; [apply vpost_same; assumption | rewrite Hs1; exact Hi].
    + intros w1 Hs1. apply vpost_same; assumption.
  - cbn [or_insert]. apply vac_insert_view; assumption.
Qed.

(* or_insert_with / or_insert_with_key with a closure that yields payload d *)
Lemma call_mk_view (f : cstate -> option vobj * cstate) d (w : mworld) :
  (forall s, exists v' s', f s = (Some v', s') /\ vdat v' = d) ->
  wp (call_mk f) (fun v' w' => self w' = self w /\ vdat v' = d) (fun _ => False) w.
Proof.
  intros Hf.
  eapply wp_mono; [apply call_mk_lawful | |]; cbn beta; [| |tauto].
  - intros s. destruct (Hf s) as (v' & s' & H & _). eauto.
  - intros v' w' (Hs & _ & s & s' & Hfs). split; [exact Hs|].
    destruct (Hf s) as (v'' & s'' & H & Hd). rewrite Hfs in H. injection H as -> _. exact Hd.
Qed.

Lemma vac_with_view k (f : cstate -> option vobj * cstate) d (w : mworld) :
  (forall s, exists v' s', f s = (Some v', s') /\ vdat v' = d) ->
  WF (self w) -> find_idx kcls (kcls k) (Spec.elems (self w)) = None ->
  wp (v <- on_unwind (unwind_key Em k) (call_mk f) ;; vac_insert Em debug k v)
     (fun i w' => vpost mphi (addF k d w) w w' /\ i < len (self w'))
     (vpost mphi (addF k d w) w) w.
Proof.
  intros Hf Hw Hn. apply wp_bind. apply wp_on_unwind_nopanic.
  eapply wp_mono; [apply call_mk_view; exact Hf | |]; cbn beta; [|tauto].
  intros v' w1 [Hs1 Hd]. subst d.
  eapply wp_mono; [apply vac_insert_view; rewrite Hs1; assumption | |]; cbn beta; rewrite Hs1.
  - intros i w2 [H2 Hi]. split; [eapply vpost_base; eauto | exact Hi].
  - intros w2 H2. eapply vpost_base; eauto.
Qed.

Lemma or_insert_with_view e k f d (w : mworld) :
  (forall s, exists v' s', f s = (Some v', s') /\ vdat v' = d) ->
  WF (self w) -> ent_rel k e w ->
  wp (or_insert_with Em debug e f)
     (fun i w' => vpost mphi (addF k d w) w w' /\ i < len (self w'))
     (vpost mphi (addF k d w) w) w.
Proof.
  intros Hfd Hw He. unfold ent_rel in He.
  destruct (find_idx kcls (kcls k) (Spec.elems (self w))) as [i|] eqn:Hf; subst e; cbn [or_insert_with].
  - destruct (find_idx_slot kcls _ _ _ Hw Hf) as [Hi _].
    assert (HF : add_new fst (cap (self w)) (view mphi (self w)) (kcls k, d) = view mphi (self w)).
    { change (kcls k, d) with (mphi (k, {| vid := 0; vdat := d |})).
      apply (add_new_present mphi fst mphi_cl _ _ k _ i Hf). }
    eapply wp_mono; [apply occ_into_mut_spec; assumption | |]; cbn beta; [|tauto].
    intros j w1 [-> Hs1]. split; [apply vpost_same; assumption | rewrite Hs1; exact Hi].
  - apply vac_with_view; assumption.
Qed.

Lemma or_insert_with_key_view e k f d (w : mworld) :
  (forall s, exists v' s', f k s = (Some v', s') /\ vdat v' = d) ->
  WF (self w) -> ent_rel k e w ->
  wp (or_insert_with_key Em debug e f)
     (fun i w' => vpost mphi (addF k d w) w w' /\ i < len (self w'))
     (vpost mphi (addF k d w) w) w.
Proof.
  intros Hfd Hw He. unfold ent_rel in He.
  destruct (find_idx kcls (kcls k) (Spec.elems (self w))) as [i|] eqn:Hf; subst e; cbn [or_insert_with_key].
  - destruct (find_idx_slot kcls _ _ _ Hw Hf) as [Hi _].
    assert (HF : add_new fst (cap (self w)) (view mphi (self w)) (kcls k, d) = view mphi (self w)).
    { change (kcls k, d) with (mphi (k, {| vid := 0; vdat := d |})).
      apply (add_new_present mphi fst mphi_cl _ _ k _ i Hf). }
    eapply wp_mono; [apply occ_into_mut_spec; assumption | |]; cbn beta; [|tauto].
    intros j w1 [-> Hs1]. split; [apply vpost_same; assumption | rewrite Hs1; exact Hi].
  - apply (vac_with_view k (f k)); assumption.
Qed.

Lemma mk_val_honest v s : exists v' s', mk_val sc v s = (Some v', s') /\ vdat v' = vdat v.
Proof.
  unfold mk_val. pose proof (call_tick_honest sc s Hh) as Hb.
  destruct (call_tick sc s) as [boom s']. cbn [fst] in Hb. subst boom. eauto.
Qed.
Lemma mk_default_honest s : exists v' s', mk_default sc s = (Some v', s') /\ vdat v' = 0%N.
Proof.
  unfold mk_default. pose proof (call_tick_honest sc s Hh) as Hb.
  destruct (call_tick sc s) as [boom s']. cbn [fst] in Hb. subst boom. eexists. eexists. split; reflexivity.
Qed.
Lemma modf_add_honest s v : fst (modf_add sc s v) = (false, {| vid := vid v; vdat := vdat v + 100 |}).
Proof.
  unfold modf_add. pose proof (call_tick_honest sc s Hh) as Hb.
  destruct (call_tick sc s) as [boom s']. cbn [fst] in Hb. subst boom. reflexivity.
Qed.

(* ---- one lemma per chain ---- *)
Lemma chV_or_insert e k v (w : mworld) : WF (self w) -> ent_rel k e w ->
  sets mphi (i <- or_insert Em debug e v ;; r_slotval 0 i) (addF k (vdat v) w) w.
Proof. intros Hw He. apply sets_then_slotval. apply or_insert_view; assumption. Qed.

Lemma chV_or_insert_with e k v (w : mworld) : WF (self w) -> ent_rel k e w ->
  sets mphi (i <- or_insert_with Em debug e (mk_val sc v) ;; r_slotval 0 i) (addF k (vdat v) w) w.
Proof.
  intros Hw He. apply sets_then_slotval. apply or_insert_with_view; [apply mk_val_honest | assumption..].
Qed.

Lemma chV_or_insert_with_key e k v (w : mworld) : WF (self w) -> ent_rel k e w ->
  sets mphi (i <- or_insert_with_key Em debug e (fun _ => mk_val sc v) ;; r_slotval 0 i) (addF k (vdat v) w) w.
Proof.
  intros Hw He. apply sets_then_slotval.
  apply or_insert_with_key_view; [intros s; apply mk_val_honest | assumption..].
Qed.

Lemma chV_or_default e k (w : mworld) : WF (self w) -> ent_rel k e w ->
  sets mphi (i <- or_insert_with Em debug e (mk_default sc) ;; r_slotval 0 i) (addF k 0%N w) w.
Proof.
  intros Hw He. apply sets_then_slotval. apply or_insert_with_view; [apply mk_default_honest | assumption..].
Qed.

Lemma chV_and_modify e k v (w : mworld) : WF (self w) -> ent_rel k e w ->
  sets mphi (e' <- and_modify e (modf_add sc) ;; i <- or_insert Em debug e' v ;; r_slotval 0 i)
       (fun l => if present (kcls k) l then bump l (kcls k) else add_new fst (cap (self w)) l (kcls k, vdat v)) w.
Proof.
  intros Hw He. pose proof He as He0. unfold ent_rel in He.
  destruct (find_idx kcls (kcls k) (Spec.elems (self w))) as [i|] eqn:Hf; subst e; cbn [and_modify].
  - destruct (find_idx_slot kcls _ _ _ Hw Hf) as [Hi [[k0 v0] (Hp & _ & _)]].
    apply wp_bind. apply wp_bind.
    eapply wp_mono; [apply occ_get_mut_spec; assumption | |]; cbn beta; [|tauto].
    intros j w1 [_ Hs1]. apply wp_bind.
    eapply wp_mono;
      [apply (call_modf_lawful (modf_add sc) (fun v => {| vid := vid v; vdat := vdat v + 100 |}) i w1);
       [rewrite Hs1; exact Hw | apply modf_add_honest | rewrite Hs1; exact Hp] | |]; cbn beta; [|tauto].
    intros _ w2 (Hw2 & Hc2 & He2 & _). rewrite Hs1 in Hc2, He2. apply wp_ret.
    assert (H2 : vpost mphi (fun l => if present (kcls k) l then bump l (kcls k)
                                      else add_new fst (cap (self w)) l (kcls k, vdat v)) w w2).
    { eapply vpost_elems; [exact Hw2 | exact Hc2 | exact He2|]. unfold view.
      rewrite present_map, Hf. symmetry. apply bump_at; assumption. }
    assert (Hi2 : i < len (self w2)).
    { rewrite <- (elems_length _ Hw2), He2, upd_length, (elems_length _ Hw). exact Hi. }
    apply wp_then_slotval_V.
    eapply wp_mono; [apply or_insert_occ; assumption | |]; cbn beta.
    + intros j' w3 [-> Hs3]. split; [eapply vpost_frame; eauto | rewrite Hs3; exact Hi2].
    + intros w3 Hs3. eapply vpost_frame; eauto.
  - apply wp_bind. apply wp_ret.
    eapply sets_ext; [|apply (chV_or_insert (Vacant k) k v w Hw He0)]. cbn beta.
    unfold view. rewrite present_map, Hf. reflexivity.
Qed.

Lemma chV_key e k (w : mworld) : WF (self w) -> ent_rel k e w ->
  sets mphi (x <- entry_key e ;;
             match x with
             | inl j => p <- p_ref j ;; ret ([0%N; nn j] ++ r_key (fst p))
             | inr k' => drop_key Em k' ;; ret (1%N :: r_key k')
             end) (fun l => l) w.
Proof.
  intros Hw He. apply stays_at_sets; [exact Hw|].
  assert (Hok : entry_ok e (self w)).
  { unfold ent_rel in He. destruct (find_idx kcls (kcls k) (Spec.elems (self w))) as [i|] eqn:Hf; subst e;
      cbn [entry_ok]; [|exact I]. apply (find_idx_slot kcls _ _ _ Hw Hf). }
  apply wp_bind.
  eapply wp_mono; [apply entry_key_spec; assumption | |]; cbn beta; [|tauto].
  intros [j|k'] w1 [Hs1 Hj].
  - apply wp_bind. apply wp_p_ref_live; [rewrite Hs1; apply WF_live; assumption|].
    intros p. apply wp_ret. exact Hs1.
  - apply wp_frame_bind; [apply frame_drop_key | |].
    + intros _ w2 Hs2. apply wp_ret. congruence.
    + intros w2 Hs2. congruence.
Qed.

Lemma chV_get e k (w : mworld) : WF (self w) -> ent_rel k e w ->
  sets mphi (match e with
             | Occupied i => j <- occ_get i ;; r_slotval 0 j
             | Vacant k' => drop_key Em k' ;; ret (1%N :: r_key k')
             end) (fun l => l) w.
Proof.
  intros Hw He. apply stays_at_sets; [exact Hw|]. unfold ent_rel in He.
  destruct (find_idx kcls (kcls k) (Spec.elems (self w))) as [i|] eqn:Hf; subst e.
  - destruct (find_idx_slot kcls _ _ _ Hw Hf) as [Hi _]. apply wp_bind.
    eapply wp_mono; [apply occ_get_spec; assumption | |]; cbn beta; [|tauto].
    intros j w1 [-> Hs1].
    eapply wp_mono; [apply r_slotval_spec; rewrite Hs1; apply WF_live; assumption | |]; cbn beta; [|tauto].
    intros _ w2 Hs2. congruence.
  - apply wp_frame_bind; [apply frame_drop_key | |].
    + intros _ w2 Hs2. apply wp_ret. exact Hs2.
    + intros w2 Hs2. exact Hs2.
Qed.

Lemma chV_get_mut e k v (w : mworld) : WF (self w) -> ent_rel k e w ->
  sets mphi (match e with
             | Occupied i => j <- occ_get_mut i ;; r <- r_slotval 0 j ;; set_dat j (vdat v) ;; ret r
             | Vacant k' => ret (1%N :: r_key k')
             end) (fun l => write l (kcls k) (vdat v)) w.
Proof.
  intros Hw He. unfold ent_rel in He.
  destruct (find_idx kcls (kcls k) (Spec.elems (self w))) as [i|] eqn:Hf; subst e.
  - destruct (find_idx_slot kcls _ _ _ Hw Hf) as [Hi _]. apply wp_bind.
    eapply wp_mono; [apply occ_get_mut_spec; assumption | |]; cbn beta; [|tauto].
    intros j w1 [-> Hs1].
    eapply wp_mono; [apply (sets_slot_set 0 i (vdat v) (kcls k) w1); rewrite Hs1; assumption | |]; cbn beta.
    + intros _ w2 H2. eapply vpost_base; eauto.
    + intros w2 H2. eapply vpost_base; eauto.
  - apply wp_ret. apply vpost_same; [exact Hw | reflexivity|]. apply write_absent. exact Hf.
Qed.

Lemma chV_insert e k v (w : mworld) : WF (self w) -> ent_rel k e w ->
  sets mphi (match e with
             | Occupied i => old <- occ_insert i v ;; ret (0%N :: r_val old)
             | Vacant k' => j <- vac_insert Em debug k' v ;; r_slotval 1 j
             end) (fun l => put fst (cap (self w)) l (kcls k, vdat v)) w.
Proof.
  intros Hw He. unfold ent_rel in He.
  destruct (find_idx kcls (kcls k) (Spec.elems (self w))) as [i|] eqn:Hf; subst e.
  - destruct (find_idx_slot kcls _ _ _ Hw Hf) as [Hi [[k0 v0] (Hp & _ & _)]]. apply wp_bind.
    eapply wp_mono; [apply (occ_insert_lawful i v w Hw k0 v0 Hp) | |]; cbn beta; [|tauto].
    intros old w1 (Hw1 & Hc1 & _ & _ & He1). apply wp_ret.
    eapply vpost_elems; [exact Hw1 | exact Hc1 | exact He1|]. unfold view.
    rewrite (put_write_present _ _ _ _ i Hf). symmetry. apply (write_at_gen _ _ _ i k0 v0 v Hf Hp eq_refl).
  - eapply sets_ext; [|apply sets_then_slotval; apply vac_insert_view; assumption]. cbn beta.
    unfold view. symmetry. apply put_add_absent. exact Hf.
Qed.

Lemma chV_remove e k (w : mworld) : WF (self w) -> ent_rel k e w ->
  sets mphi (match e with
             | Occupied i => old <- occ_remove Em debug i ;; ret (0%N :: r_val old)
             | Vacant k' => drop_key Em k' ;; ret [1%N]
             end) (fun l => del fst l (kcls k)) w.
Proof.
  intros Hw He. unfold ent_rel in He.
  destruct (find_idx kcls (kcls k) (Spec.elems (self w))) as [i|] eqn:Hf; subst e.
  - destruct (find_idx_slot kcls _ _ _ Hw Hf) as [Hi _]. apply wp_bind.
    eapply wp_mono; [apply (occ_remove_lawful Em debug kcls qcls HLm i w Hw Hi) | |]; cbn beta; [|tauto].
    intros old w1 (Hw1 & Hc1 & k0 & _ & He1 & _). apply wp_ret.
    eapply vpost_elems; [exact Hw1 | exact Hc1 | exact He1|]. symmetry. apply del_at. exact Hf.
  - apply wp_frame_bind; [apply frame_drop_key | |].
    + intros _ w2 Hs2. apply wp_ret. apply vpost_same; [exact Hw | exact Hs2 | apply del_absent; exact Hf].
    + intros w2 Hs2. apply vpost_same; [exact Hw | exact Hs2 | apply del_absent; exact Hf].
Qed.

Lemma chV_remove_entry e k (w : mworld) : WF (self w) -> ent_rel k e w ->
  sets mphi (match e with
             | Occupied i => p <- occ_remove_entry debug i ;; ret (0%N :: r_pair p)
             | Vacant k' => ret (1%N :: r_key k')
             end) (fun l => del fst l (kcls k)) w.
Proof.
  intros Hw He. unfold ent_rel in He.
  destruct (find_idx kcls (kcls k) (Spec.elems (self w))) as [i|] eqn:Hf; subst e.
  - destruct (find_idx_slot kcls _ _ _ Hw Hf) as [Hi _]. apply wp_bind.
    eapply wp_mono; [apply (occ_remove_entry_lawful debug i w Hw Hi) | |]; cbn beta; [|tauto].
    intros p w1 (Hw1 & Hc1 & _ & _ & He1). apply wp_ret.
    eapply vpost_elems; [exact Hw1 | exact Hc1 | exact He1|]. symmetry. apply del_at. exact Hf.
  - apply wp_ret. apply vpost_same; [exact Hw | reflexivity | apply del_absent; exact Hf].
Qed.

Lemma chV_into_mut e k v (w : mworld) : WF (self w) -> ent_rel k e w ->
  sets mphi (match e with
             | Occupied i => j <- occ_into_mut i ;; r <- r_slotval 0 j ;; set_dat j (vdat v) ;; ret r
             | Vacant k' => j <- vac_insert Em debug k' v ;; r_slotval 1 j
             end) (fun l => put fst (cap (self w)) l (kcls k, vdat v)) w.
Proof.
  intros Hw He. unfold ent_rel in He.
  destruct (find_idx kcls (kcls k) (Spec.elems (self w))) as [i|] eqn:Hf; subst e.
  - destruct (find_idx_slot kcls _ _ _ Hw Hf) as [Hi _]. apply wp_bind.
    eapply wp_mono; [apply occ_into_mut_spec; assumption | |]; cbn beta; [|tauto].
    intros j w1 [-> Hs1].
    assert (HF : put fst (cap (self w)) (view mphi (self w)) (kcls k, vdat v)
                 = write (view mphi (self w)) (kcls k) (vdat v)) by (apply (put_write_present _ _ _ _ i Hf)).
    eapply wp_mono; [apply (sets_slot_set 0 i (vdat v) (kcls k) w1); rewrite Hs1; assumption | |]; cbn beta.
    + intros _ w2 H2.
      apply (vpost_ext mphi (fun l => write l (kcls k) (vdat v))
               (fun l => put fst (cap (self w)) l (kcls k, vdat v))); [symmetry; exact HF|].
      eapply vpost_base; eauto.
    + intros w2 H2.
      apply (vpost_ext mphi (fun l => write l (kcls k) (vdat v))
               (fun l => put fst (cap (self w)) l (kcls k, vdat v))); [symmetry; exact HF|].
      eapply vpost_base; eauto.
  - eapply sets_ext; [|apply sets_then_slotval; apply vac_insert_view; assumption]. cbn beta.
    unfold view. symmetry. apply put_add_absent. exact Hf.
Qed.

Lemma does_entry_chain k chain v :
  does mphi (entry_chain debug sc k chain v) (fun n l => entry_v n l (kcls k) chain (vdat v)).
Proof.
  intros w Hw _. unfold entry_chain. apply wp_bind.
  eapply wp_mono; [apply (entry_of_lawful Em kcls qcls HLm k w Hw) | |]; cbn beta; [|tauto].
  intros e w1 [Hs1 He].
  assert (Hw1 : WF (self w1)) by (rewrite Hs1; exact Hw).
  assert (He1 : ent_rel k e w1).
  { unfold ent_rel. rewrite Hs1. destruct (find_idx kcls (kcls k) (Spec.elems (self w))); apply He. }
  assert (Hb : sets mphi
    (match chain with
     | 0%N => i <- or_insert Em debug e v ;; r_slotval 0 i
     | 1%N => i <- or_insert_with Em debug e (mk_val sc v) ;; r_slotval 0 i
     | 2%N => i <- or_insert_with_key Em debug e (fun _ => mk_val sc v) ;; r_slotval 0 i
     | 3%N => i <- or_insert_with Em debug e (mk_default sc) ;; r_slotval 0 i
     | 4%N => e' <- and_modify e (modf_add sc) ;; i <- or_insert Em debug e' v ;; r_slotval 0 i
     | 5%N =>
         x <- entry_key e ;;
         match x with
         | inl j => p <- p_ref j ;; ret ([0%N; nn j] ++ r_key (fst p))
         | inr k' => drop_key Em k' ;; ret (1%N :: r_key k')
         end
     | 6%N =>
         match e with
         | Occupied i => j <- occ_get i ;; r_slotval 0 j
         | Vacant k' => drop_key Em k' ;; ret (1%N :: r_key k')
         end
     | 7%N =>
         match e with
         | Occupied i => j <- occ_get_mut i ;; r <- r_slotval 0 j ;; set_dat j (vdat v) ;; ret r
         | Vacant k' => ret (1%N :: r_key k')
         end
     | 8%N =>
         match e with
         | Occupied i => old <- occ_insert i v ;; ret (0%N :: r_val old)
         | Vacant k' => j <- vac_insert Em debug k' v ;; r_slotval 1 j
         end
     | 9%N =>
         match e with
         | Occupied i => old <- occ_remove Em debug i ;; ret (0%N :: r_val old)
         | Vacant k' => drop_key Em k' ;; ret [1%N]
         end
     | 10%N =>
         match e with
         | Occupied i => p <- occ_remove_entry debug i ;; ret (0%N :: r_pair p)
         | Vacant k' => ret (1%N :: r_key k')
         end
     | _ =>
         match e with
         | Occupied i => j <- occ_into_mut i ;; r <- r_slotval 0 j ;; set_dat j (vdat v) ;; ret r
         | Vacant k' => j <- vac_insert Em debug k' v ;; r_slotval 1 j
         end
     end) (fun l => entry_v (cap (self w1)) l (kcls k) chain (vdat v)) w1).
  { unfold entry_v.
    destruct chain as [|p]; [apply chV_or_insert; assumption|].
    repeat (match goal with
            | |- context [match ?q with xI _ => _ | xO _ => _ | xH => _ end] => is_var q; destruct q
            end);
    first [ apply chV_or_insert; assumption
          | apply chV_or_insert_with; assumption
          | apply chV_or_insert_with_key; assumption
          | apply chV_or_default; assumption
          | apply chV_and_modify; assumption
          | apply chV_key with (k := k); assumption
          | apply chV_get with (k := k); assumption
          | apply chV_get_mut; assumption
          | apply chV_insert; assumption
          | apply chV_remove; assumption
          | apply chV_remove_entry; assumption
          | apply chV_into_mut; assumption ]. }
  rewrite Hs1 in Hb.
  eapply wp_mono; [exact Hb | |]; cbn beta.
  - intros _ w2 H2. eapply vpost_base; eauto.
  - intros w2 H2. eapply vpost_base; eauto.
Qed.

End VEntry.

(* ------------------------------------------------------------------ *)
(* 9. get_disjoint_mut                                                 *)
(* ------------------------------------------------------------------ *)
Lemma disjoint_render_view wd : forall qs j (w : mworld),
  WF (self w) ->
  wp (disjoint_render (List.map (fun c => find_idx kcls c (Spec.elems (self w))) qs) wd j)
     (fun _ => vpost mphi (write_all qs wd j) w) (fun _ => False) w.
Proof.
  induction qs as [|c t IH]; intros j w Hw; cbn [List.map disjoint_render write_all].
  - apply wp_ret. apply vpost_same; [exact Hw | reflexivity | reflexivity].
  - destruct (find_idx kcls c (Spec.elems (self w))) as [i|] eqn:Hf.
    + destruct (find_idx_slot kcls _ _ _ Hw Hf) as [Hi [[k0 v0] (Hp & Hsl & _)]].
      apply wp_bind. eapply wp_p_ref; [exact Hsl|]. apply wp_bind.
      eapply wp_mono; [apply (set_dat_elems i (wd + nn j) w k0 v0 Hw Hp) | |]; cbn beta; [|tauto].
      intros _ w1 (Hw1 & Hc1 & He1). apply wp_bind.
      assert (H1 : vpost mphi (fun l => write l c (wd + N.of_nat j)%N) w w1).
      { eapply vpost_elems; [exact Hw1 | exact Hc1 | exact He1|]. symmetry.
        apply (write_at_gen _ _ _ i k0 v0 _ Hf Hp). reflexivity. }
      assert (Hsame : List.map (fun c0 => find_idx kcls c0 (Spec.elems (self w))) t =
                      List.map (fun c0 => find_idx kcls c0 (Spec.elems (self w1))) t).
      { apply map_ext. intros c0. rewrite He1. symmetry.
        apply (Bulk.find_idx_upd_same kcls c0 _ i _ (k0, v0) Hp). reflexivity. }
      rewrite Hsame.
      eapply wp_mono; [apply (IH (S j) w1 Hw1) | |]; cbn beta; [|tauto].
      intros r w2 H2. apply wp_ret. exact (vpost_trans mphi _ _ w w1 w2 H1 H2).
    + apply wp_bind.
      eapply wp_mono; [apply (IH (S j) w Hw) | |]; cbn beta; [|tauto].
      intros r w2 H2. apply wp_ret.
      eapply vpost_ext; [|exact H2]. cbn beta. unfold view. rewrite (write_absent _ _ _ Hf). reflexivity.
Qed.

Lemma qcls_QCls qs : List.map qcls (List.map QCls qs) = qs.
Proof. rewrite map_map. cbn [qcls]. apply map_id. Qed.

Lemma sets_disjoint_session sc unchecked qs wd (w : mworld) :
  honest sc -> WF (self w) -> Um (self w) -> (unchecked = true -> NoDup qs) ->
  sets mphi (disjoint_session sc unchecked qs wd)
       (fun l => if unchecked || nodupb qs then write_all qs wd 0 l else l) w.
Proof.
  intros Hh Hw Hu Hnd. pose proof (env_map_lawful sc Hh) as HLm.
  unfold sets, disjoint_session. apply wp_bind.
  assert (Hok : NoDup qs ->
    forall c : Mm (list (option nat)),
      wp c (fun r w' => stable w w' /\
                        r = List.map (fun q => find_idx kcls (qcls q) (Spec.elems (self w))) (List.map QCls qs))
           (fun _ => False) w ->
      wp c (fun l w' => wp (disjoint_render l wd 0) (fun _ => vpost mphi (write_all qs wd 0) w)
                           (vpost mphi (write_all qs wd 0) w) w')
           (vpost mphi (write_all qs wd 0) w) w).
  { intros _ c Hc. eapply wp_mono; [exact Hc | |]; cbn beta; [|tauto].
    intros l w1 [[Hs1 _] ->]. rewrite map_map. cbn [qcls].
    pose proof (disjoint_render_view wd qs 0 w1) as HR. rewrite Hs1 in HR.
    eapply wp_mono; [apply HR; exact Hw | |]; cbn beta; [|tauto].
    intros _ w2 H2. eapply vpost_base; eauto. }
  destruct unchecked; cbn [orb].
  - specialize (Hnd eq_refl). apply (Hok Hnd).
    apply (disjoint_unchecked_lawful (env_map sc) kcls qcls HLm _ w Hw Hu). rewrite qcls_QCls. exact Hnd.
  - destruct (nodupb qs) eqn:Hb.
    + apply nodupb_spec in Hb. apply (Hok Hb).
      apply (disjoint_lawful (env_map sc) kcls qcls HLm _ w Hw Hu). rewrite qcls_QCls. exact Hb.
    + assert (Hn : ~ NoDup qs) by (intros H; apply nodupb_spec in H; congruence).
      eapply wp_mono; [apply (disjoint_overlap_panics (env_map sc) kcls qcls HLm (List.map QCls qs) w Hw) | |];
        cbn beta; [rewrite qcls_QCls; exact Hn | tauto |].
      intros w1 [Hs1 _]. apply vpost_same; [exact Hw | exact Hs1 | reflexivity].
Qed.

(* ------------------------------------------------------------------ *)
(* 10. retain with the scripted closures                               *)
(* ------------------------------------------------------------------ *)
Lemma does_op_retain_m debug sc dflt tab : honest sc ->
  does mphi (retain (env_map sc) debug (pred_m sc dflt tab)) (fun _ l => retain_m dflt tab l).
Proof.
  intros Hh. unfold retain_m.
  apply (does_retain mphi (env_map sc) debug (env_map_lawful sc Hh) (pred_m sc dflt tab)
           (fun k v => let a := lookup_act (kcls k) tab dflt in
                       if N.eqb a 0 then (false, v)
                       else if N.eqb a 1 then (true, v)
                       else (true, {| vid := vid v; vdat := vdat v + 100 |}))).
  - intros s k v. unfold pred_m. pose proof (call_tick_honest sc s Hh) as Hb.
    destruct (call_tick sc s) as [boom s']. cbn [fst] in Hb. subst boom. cbv zeta.
    destruct (N.eqb (lookup_act (kcls k) tab dflt) 0); [reflexivity|].
    destruct (N.eqb (lookup_act (kcls k) tab dflt) 1); reflexivity.
  - intros k v. unfold mphi. cbn [fst snd]. cbv zeta.
    destruct (N.eqb (lookup_act (kcls k) tab dflt) 0); [reflexivity|].
    destruct (N.eqb (lookup_act (kcls k) tab dflt) 1); reflexivity.
Qed.

Lemma does_op_retain_s debug sc dflt tab : honest sc ->
  does sphi (s_retain (env_set sc) debug (pred_s sc dflt tab)) (fun _ l => retain_s dflt tab l).
Proof.
  intros Hh. unfold retain_s, s_retain.
  apply (does_retain sphi (env_set sc) debug (env_set_lawful sc Hh) _
           (fun k (_ : unit) => (negb (N.eqb (lookup_act (kcls k) tab dflt) 0), tt))).
  - intros s k []. unfold pred_s. pose proof (call_tick_honest sc s Hh) as Hb.
    destruct (call_tick sc s) as [boom s']. cbn [fst] in Hb. subst boom. reflexivity.
  - intros k v. reflexivity.
Qed.

(* ------------------------------------------------------------------ *)
(* 11. clone, from_iter, serde                                         *)
(* ------------------------------------------------------------------ *)
Lemma sets_clone_m sc (src : map key vobj) (w : mworld) :
  honest sc -> WF src -> WF (self w) -> cap src = cap (self w) ->
  sets mphi (replace_with (env_map sc) (clone_from_src (env_map sc) src) []) (fun _ => mview src) w.
Proof.
  intros Hh Hsrc Hw Hc. apply replace_with_sets; [exact Hw|]. intros w0 Hs0.
  eapply wp_mono; [apply (clone_honest_map sc src w0 Hh Hsrc) | |]; cbn beta.
  - rewrite Hs0. apply WF_new.
  - rewrite Hs0. reflexivity.
  - rewrite Hs0, cap_new. congruence.
  - intros _ w' (H1 & H2 & _ & H4). split; [exact H1|]. split; [congruence|].
    unfold view, mview. apply (Forall2_map_eq mphi).
    eapply Forall2_impl'; [|exact H4]. cbn beta. intros p p' [Hk Hv]. apply N.eqb_eq in Hv.
    unfold mphi. rewrite Hk, Hv. reflexivity.
  - tauto.
Qed.

Lemma sets_clone_s sc (src : map key unit) (w : sworld) :
  honest sc -> WF src -> WF (self w) -> cap src = cap (self w) ->
  sets sphi (replace_with (env_set sc) (clone_from_src (env_set sc) src) []) (fun _ => sview src) w.
Proof.
  intros Hh Hsrc Hw Hc. apply replace_with_sets; [exact Hw|]. intros w0 Hs0.
  eapply wp_mono;
    [apply (EqClone.clone_lawful (env_set sc) kcls (fun _ _ : unit => true)
              (env_set_cloneK sc Hh) (env_set_cloneV sc) src w0 Hsrc) | |]; cbn beta.
  - rewrite Hs0. apply WF_new.
  - rewrite Hs0. reflexivity.
  - rewrite Hs0, cap_new. congruence.
  - intros _ w' (H1 & H2 & _ & H4 & _). split; [exact H1|]. split; [congruence|].
    unfold view, sview. apply (Forall2_map_eq sphi).
    eapply Forall2_impl'; [|exact H4]. cbn beta. intros p p' [Hk _]. exact Hk.
  - tauto.
Qed.

Lemma nx_ok sc (arr : bool) : honest sc -> forall s, fst ((if arr then nx_none else nx_cb sc) s) <> Boom.
Proof.
  intros Hh s. destruct arr; [cbn; discriminate|]. unfold nx_cb.
  pose proof (call_tick_honest sc s Hh) as Hb. destruct (call_tick sc s) as [boom s'].
  cbn [fst] in *. subst boom. discriminate.
Qed.

Lemma sets_from_iter_m debug sc (arr : bool) items (w : mworld) :
  honest sc -> WF (self w) ->
  sets mphi (replace_with (env_map sc) (from_iter (env_map sc) debug (if arr then nx_none else nx_cb sc) items) [])
       (fun l => match fill (@fst N N) (cap (self w)) [] (pairs_v items) with Some l' => l' | None => l end) w.
Proof.
  intros Hh Hw. apply replace_with_sets; [exact Hw|]. intros w0 Hs0.
  pose proof (map_l_extend mphi fst mphi_cl mphi_key (cap (self w)) items []) as HE.
  cbn [List.map] in HE. change (List.map mphi items) with (pairs_v items) in HE.
  eapply wp_mono;
    [apply (from_iter_lawful (env_map sc) debug kcls qcls (env_map_lawful sc Hh) _ items w0 (nx_ok sc arr Hh)) | |];
    cbn beta.
  - rewrite Hs0. apply WF_new.
  - rewrite Hs0. reflexivity.
  - rewrite Hs0, cap_new. intros _ w' (H1 & H2 & H3). split; [exact H1|]. split; [exact H2|].
    rewrite H3 in HE. cbn [option_map] in HE. rewrite <- HE. reflexivity.
  - rewrite Hs0, cap_new. intros _ H3. rewrite H3 in HE. cbn [option_map] in HE. rewrite <- HE. reflexivity.
Qed.

Lemma sets_from_iter_s debug sc (arr : bool) items (w : sworld) :
  honest sc -> WF (self w) ->
  sets sphi (replace_with (env_set sc) (s_from_iter (env_set sc) debug (if arr then nx_none else nx_cb sc) items) [])
       (fun l => match fill (fun c => c) (cap (self w)) [] (List.map kcls items) with Some l' => l' | None => l end) w.
Proof.
  intros Hh Hw. apply replace_with_sets; [exact Hw|]. intros w0 Hs0.
  pose proof (map_l_extend sphi (fun c => c) sphi_cl sphi_key (cap (self w))
                (List.map (fun k => (k, tt)) items) []) as HE.
  cbn [List.map] in HE. rewrite map_map in HE.
  change (List.map (fun x : key => sphi (x, tt)) items) with (List.map kcls items) in HE.
  eapply wp_mono;
    [apply (s_from_iter_lawful (env_set sc) debug kcls qcls (env_set_lawful sc Hh) _ items w0 (nx_ok sc arr Hh)) | |];
    cbn beta.
  - rewrite Hs0. apply WF_new.
  - rewrite Hs0. reflexivity.
  - rewrite Hs0, cap_new. intros _ w' (H1 & H2 & H3). split; [exact H1|]. split; [exact H2|].
    rewrite H3 in HE. cbn [option_map] in HE. rewrite <- HE. reflexivity.
  - rewrite Hs0, cap_new. intros _ H3. rewrite H3 in HE. cbn [option_map] in HE. rewrite <- HE. reflexivity.
Qed.

(* ---- serde ---- *)
Lemma Forall2_map_eq2 {A B C} (f : A -> C) (g : B -> C) (l : list A) (l' : list B) :
  Forall2 (fun a b => g b = f a) l l' -> List.map g l' = List.map f l.
Proof. induction 1 as [|a b l l' H _ IH]; [reflexivity|]. cbn [List.map]. rewrite H, IH. reflexivity. Qed.

Lemma sets_serde_m debug sc (src : map key vobj) body (w : mworld) :
  honest sc -> WF src -> Um src -> WF (self w) ->
  sets mphi (replace_with (env_map sc) (finally_drop (env_map sc) (visit_map debug sc (Exec.elems src))) body)
       (fun l => if length (mview src) <=? cap (self w) then mview src else l) w.
Proof.
  intros Hh Hsrc Husrc Hw. rewrite exec_elems_eq. apply replace_with_sets; [exact Hw|]. intros w0 Hs0.
  assert (Hlen : length (mview src) = len src).
  { unfold mview. rewrite map_length. apply elems_length. exact Hsrc. }
  destruct (Nat.leb_spec (length (mview src)) (cap (self w))) as [Hle|Hgt].
  - apply EqClone.wp_finally_drop_nopanic.
    eapply wp_mono; [apply (visit_map_spec debug sc (Spec.elems src) w0 Hh) | |]; cbn beta.
    + rewrite Hs0. apply WF_new.
    + rewrite Hs0, elems_new. constructor.
    + exact Husrc.
    + intros p _. rewrite Hs0, elems_new. reflexivity.
    + rewrite Hs0, cap_new. cbn [len new_map]. rewrite (elems_length _ Hsrc). lia.
    + intros _ w' (Hw' & Hc' & (fresh & He & Hf) & _). rewrite Hs0, elems_new in He. cbn [app] in He.
      split; [exact Hw'|]. split; [rewrite Hc', Hs0; apply cap_new|].
      unfold view, mview. rewrite He. apply (Forall2_map_eq2 mphi mphi).
      eapply Forall2_impl'; [|exact Hf]. cbn beta. intros p p' [Hk Hv]. unfold mphi. rewrite Hk, Hv. reflexivity.
    + tauto.
  - apply Bulk.wp_finally_drop_prop.
    eapply wp_mono; [apply (visit_map_overflow debug sc (Spec.elems src) w0 Hh) | |]; cbn beta.
    + rewrite Hs0. apply WF_new.
    + exact Husrc.
    + intros p _. rewrite Hs0, elems_new. reflexivity.
    + rewrite Hs0, cap_new. cbn [len new_map]. rewrite (elems_length _ Hsrc). lia.
    + intros _ w' [].
    + intros w' H. split; [exact H | reflexivity].
Qed.

Lemma visit_seq_overflow debug sc items (w : sworld) :
  honest sc -> WF (self w) ->
  NoDup (List.map kcls items) ->
  (forall k, In k items -> find_idx kcls (kcls k) (Spec.elems (self w)) = None) ->
  cap (self w) < len (self w) + length items ->
  wp (visit_seq debug sc items) (fun _ _ => False) (fun w' => WF (self w')) w.
Proof.
  intros Hh. pose proof (env_set_lawful sc Hh) as HL.
  revert w; induction items as [|k rest IH]; intros w Hw Hnd Habs Hcap.
  - cbn [length] in Hcap. pose proof (WF_len_le_cap _ Hw). lia.
  - rewrite visit_seq_cons. apply wp_bind. apply wp_get_next_id. apply wp_bind. apply wp_bump_id.
    set (w1 := with_cb w _).
    set (k' := {| kid := next_id (cb w); kcls := kcls k |}).
    assert (Hf : find_idx kcls (kcls k') (Spec.elems (self w1)) = None)
      by exact (Habs k (or_introl eq_refl)).
    cbn [List.map] in Hnd. apply NoDup_cons_iff in Hnd. destruct Hnd as [Hnk Hnd].
    cbn [length] in Hcap.
    apply wp_bind. unfold s_insert. apply wp_bind.
    eapply wp_mono; [apply (insert_lawful (env_set sc) debug kcls qcls HL k' tt w1 Hw) | |]; cbn beta.
    + intros r w2 (Hw2 & Hc2 & He2 & Hr & Hlg).
      unfold l_insert in He2, Hr, Hlg. rewrite Hf in He2, Hr, Hlg. cbn [fst snd option_map] in He2, Hr, Hlg.
      subst r. apply wp_ret.
      assert (Hs1 : self w1 = self w) by reflexivity. rewrite Hs1 in *.
      assert (Hl2 : len (self w2) = S (len (self w))).
      { rewrite <- (elems_length _ Hw2), He2, app_length, (elems_length _ Hw). cbn [length]. lia. }
      apply (IH w2 Hw2).
      * exact Hnd.
      * intros p Hp. rewrite He2. apply find_idx_snoc_None; [apply Habs; right; exact Hp|].
        cbn [fst]. change (kcls k') with (kcls k). intros Heq. apply Hnk. rewrite Heq.
        apply in_map. exact Hp.
      * rewrite Hl2, Hc2. lia.
    + intros w2 (Hs2 & _). rewrite Hs2. exact Hw.
Qed.

Lemma sets_serde_s debug sc (src : map key unit) body (w : sworld) :
  honest sc -> WF src -> Um src -> WF (self w) ->
  sets sphi (replace_with (env_set sc)
               (finally_drop (env_set sc) (visit_seq debug sc (List.map fst (Exec.elems src)))) body)
       (fun l => if length (sview src) <=? cap (self w) then sview src else l) w.
Proof.
  intros Hh Hsrc Husrc Hw. rewrite exec_elems_eq. apply replace_with_sets; [exact Hw|]. intros w0 Hs0.
  assert (Hlen : length (sview src) = len src).
  { unfold sview. rewrite map_length. apply elems_length. exact Hsrc. }
  assert (Hnd : NoDup (List.map kcls (List.map fst (Spec.elems src)))) by (rewrite map_map; exact Husrc).
  destruct (Nat.leb_spec (length (sview src)) (cap (self w))) as [Hle|Hgt].
  - apply EqClone.wp_finally_drop_nopanic.
    eapply wp_mono; [apply (visit_seq_spec debug sc (List.map fst (Spec.elems src)) w0 Hh) | |]; cbn beta.
    + rewrite Hs0. apply WF_new.
    + rewrite Hs0, elems_new. constructor.
    + exact Hnd.
    + intros p _. rewrite Hs0, elems_new. reflexivity.
    + rewrite Hs0, cap_new. cbn [len new_map]. rewrite map_length, (elems_length _ Hsrc). lia.
    + intros _ w' (Hw' & Hc' & (fresh & He & Hf) & _). rewrite Hs0, elems_new in He. cbn [app] in He.
      split; [exact Hw'|]. split; [rewrite Hc', Hs0; apply cap_new|].
      unfold view, sview. rewrite He.
      rewrite (Forall2_map_eq2 kcls sphi _ _ Hf). apply map_map.
    + tauto.
  - apply Bulk.wp_finally_drop_prop.
    eapply wp_mono; [apply (visit_seq_overflow debug sc (List.map fst (Spec.elems src)) w0 Hh) | |]; cbn beta.
    + rewrite Hs0. apply WF_new.
    + exact Hnd.
    + intros p _. rewrite Hs0, elems_new. reflexivity.
    + rewrite Hs0, cap_new. cbn [len new_map]. rewrite map_length, (elems_length _ Hsrc). lia.
    + intros _ w' [].
    + intros w' H. split; [exact H | reflexivity].
Qed.

(* ------------------------------------------------------------------ *)
(* 12. Set operations                                                  *)
(* ------------------------------------------------------------------ *)
Lemma does_ext {V X} (phi : key * V -> X) {A} (c : M key V cstate A) f g :
  (forall n l, f n l = g n l) -> does phi c f -> does phi c g.
Proof. intros Hfg Hc w Hw Hu. eapply sets_ext; [apply Hfg | apply Hc; assumption]. Qed.

Section VSet.
Context (debug : bool) (sc : script) (Hh : honest sc).
Notation Es := (env_set sc).
Let HLs : Lawful Es kcls qcls := env_set_lawful sc Hh.

Lemma does_s_insert k :
  does sphi (s_insert Es debug k) (fun n l => add_new (fun c => c) n l (kcls k)).
Proof.
  unfold s_insert. apply does_then_ret.
  eapply does_ext; [|apply (does_insert sphi (fun c => c) sphi_cl sphi_key Es debug HLs k tt)].
  intros n l. cbn beta. apply put_id.
Qed.

Lemma does_s_replace k :
  does sphi (s_replace Es debug k) (fun n l => add_new (fun c => c) n l (kcls k)).
Proof.
  intros w Hw _.
  eapply wp_mono; [apply (s_replace_lawful Es debug kcls qcls HLs k w Hw) | |]; cbn beta.
  - intros r w' (Hw' & Hc' & _ & _ & He & Hfull).
    eapply vpost_elems; [exact Hw' | exact Hc' | exact He|].
    destruct (find_idx kcls (kcls k) (Spec.elems (self w))) as [i|] eqn:Hf.
    + destruct (find_idx_inv kcls _ _ _ Hf) as [[p [Hp Hcp]] _].
      rewrite (Bulk.map_upd_same sphi _ i (k, tt) p Hp) by (unfold sphi; cbn [fst]; congruence).
      symmetry. apply (add_new_present sphi (fun c => c) sphi_cl _ _ k tt i Hf).
    + symmetry. apply (add_new_absent sphi (fun c => c) sphi_cl _ _ k tt Hf).
      rewrite (elems_length _ Hw). apply Hfull. reflexivity.
  - intros w' (Hs & _ & Hf & Hlen). apply vpost_same; [exact Hw | exact Hs|].
    apply (add_new_full sphi (fun c => c) sphi_cl _ _ k tt Hf). rewrite (elems_length _ Hw). lia.
Qed.

Lemma does_s_remove q : does sphi (s_remove Es debug q) (fun _ l => del (fun c => c) l (qcls q)).
Proof. unfold s_remove. apply does_then_ret. apply (does_remove sphi (fun c => c) sphi_cl Es debug HLs). Qed.
Lemma does_s_take q : does sphi (s_take Es debug q) (fun _ l => del (fun c => c) l (qcls q)).
Proof. unfold s_take. apply does_then_ret. apply (does_remove_entry sphi (fun c => c) sphi_cl Es debug HLs). Qed.
Lemma does_s_clear : does sphi (s_clear Es) (fun _ _ => []).
Proof. unfold s_clear. apply does_clear. Qed.

(* extend: the first overflowing insertion stops the loop *)
Lemma s_extend_view nx : (forall s, fst (nx s) <> Boom) -> forall items (w : sworld),
  WF (self w) ->
  sets sphi (s_extend_loop Es debug nx items)
       (fun l => extend_stop (fun c => c) (cap (self w)) l (List.map kcls items)) w.
Proof.
  intros Hnx. induction items as [|k rest IH]; intros w Hw; cbn [s_extend_loop List.map extend_stop].
  - eapply wp_mono; [apply (call_next_lawful nx w Hnx) | |]; cbn beta; [|tauto].
    intros _ w1 [Hs1 _]. apply vpost_same; [exact Hw | exact Hs1 | reflexivity].
  - apply wp_bind. apply wp_on_unwind_nopanic.
    eapply wp_mono; [apply (call_next_lawful nx w Hnx) | |]; cbn beta; [|tauto].
    intros _ w1 [Hs1 _].
    assert (Hw1 : WF (self w1)) by (rewrite Hs1; exact Hw).
    apply wp_bind. apply wp_on_unwind_frame; [apply frame_unwind_pairs|].
    apply wp_bind.
    eapply wp_mono; [apply (s_insert_lawful Es debug kcls qcls HLs k w1 Hw1) | |]; cbn beta; rewrite Hs1.
    + intros r w2 (Hw2 & Hc2 & _ & He2 & Hfull). apply wp_ret.
      pose proof (IH w2 Hw2) as HI. rewrite Hc2 in HI.
      eapply wp_mono; [exact HI | |]; cbn beta.
      * intros _ w3 (Hw3 & Hc3 & Hv3). split; [exact Hw3|]. split; [congruence|].
        rewrite Hv3. unfold view. rewrite He2, (pos_map sphi (fun c => c) sphi_cl).
        destruct (find_idx kcls (kcls k) (Spec.elems (self w))) as [i|] eqn:Hf; [reflexivity|].
        rewrite map_length, (elems_length _ Hw). specialize (Hfull eq_refl).
        destruct (Nat.ltb_spec (len (self w)) (cap (self w))); [|lia].
        rewrite map_app. reflexivity.
      * intros w3 (Hw3 & Hc3 & Hv3). split; [exact Hw3|]. split; [congruence|].
        rewrite Hv3. unfold view. rewrite He2, (pos_map sphi (fun c => c) sphi_cl).
        destruct (find_idx kcls (kcls k) (Spec.elems (self w))) as [i|] eqn:Hf; [reflexivity|].
        rewrite map_length, (elems_length _ Hw). specialize (Hfull eq_refl).
        destruct (Nat.ltb_spec (len (self w)) (cap (self w))); [|lia].
        rewrite map_app. reflexivity.
    + intros w2 (Hs2 & _ & Hf & Hlen) w3 Hs3. apply vpost_same; [exact Hw | congruence|].
      unfold view. rewrite (pos_map sphi (fun c => c) sphi_cl), Hf, map_length, (elems_length _ Hw).
      destruct (Nat.ltb_spec (len (self w)) (cap (self w))); [lia | reflexivity].
Qed.

End VSet.

(* ------------------------------------------------------------------ *)
(* 13. the history-level theorems                                      *)
(* ------------------------------------------------------------------ *)
Lemma run_m_stays_at r (c : Mm (list N)) x :
  WFx x ->
  wp c (fun _ w' => self w' = self (w_init (xcb x) (get_m r x)))
       (fun w' => self w' = self (w_init (xcb x) (get_m r x))) (w_init (xcb x) (get_m r x)) ->
  view_x (snd (run_m r c x)) = view_x x.
Proof.
  intros Hx Hc. transitivity (on_m r (fun _ l => l) (view_x x)); [|apply on_m_id]. apply run_m_on.
  apply stays_at_sets; [apply WFx_get_m; exact Hx | exact Hc].
Qed.
Lemma run_s_stays_at r (c : Ms (list N)) x :
  WFx x ->
  wp c (fun _ w' => self w' = self (w_init (xcb x) (get_s r x)))
       (fun w' => self w' = self (w_init (xcb x) (get_s r x))) (w_init (xcb x) (get_s r x)) ->
  view_x (snd (run_s r c x)) = view_x x.
Proof.
  intros Hx Hc. transitivity (on_s r (fun _ l => l) (view_x x)); [|apply on_s_id]. apply run_s_on.
  apply stays_at_sets; [apply WFx_get_s; exact Hx | exact Hc].
Qed.
Lemma run_m_stays r (c : Mm (list N)) x : WFx x -> stays c -> view_x (snd (run_m r c x)) = view_x x.
Proof. intros Hx Hc. apply run_m_stays_at; [exact Hx|]. apply Hc. apply WFx_get_m. exact Hx. Qed.
Lemma run_s_stays r (c : Ms (list N)) x : WFx x -> stays c -> view_x (snd (run_s r c x)) = view_x x.
Proof. intros Hx Hc. apply run_s_stays_at; [exact Hx|]. apply Hc. apply WFx_get_s. exact Hx. Qed.

(* a session that empties the register *)
Lemma run_m_empty r (c : Mm (list N)) x :
  WFx x ->
  wp c (fun _ => zpost (w_init (xcb x) (get_m r x))) (zpost (w_init (xcb x) (get_m r x)))
     (w_init (xcb x) (get_m r x)) ->
  view_x (snd (run_m r c x)) = on_m r (fun _ _ => []) (view_x x).
Proof. intros Hx Hc. apply run_m_on. apply zpost_at_sets. exact Hc. Qed.
Lemma run_s_empty r (c : Ms (list N)) x :
  WFx x ->
  wp c (fun _ => zpost (w_init (xcb x) (get_s r x))) (zpost (w_init (xcb x) (get_s r x)))
     (w_init (xcb x) (get_s r x)) ->
  view_x (snd (run_s r c x)) = on_s r (fun _ _ => []) (view_x x).
Proof. intros Hx Hc. apply run_s_on. apply zpost_at_sets. exact Hc. Qed.

Lemma put_mv_self r x : put_mv r (mview (get_m r x)) (view_x x) = view_x x.
Proof. rewrite <- get_mv_view. apply put_mv_same. Qed.
Lemma put_sv_self r x : put_sv r (sview (get_s r x)) (view_x x) = view_x x.
Proof. rewrite <- get_sv_view. apply put_sv_same. Qed.

Lemma sets_with_capacity {V X} (phi : key * V -> X) (E : env key V query cstate) c (w : world key V cstate) :
  WF (self w) ->
  sets phi (n <- get_cap ;; if with_capacity_ok c n then replace_with E (ret tt) [] else panic)
       (fun l => if c =? cap (self w) then [] else l) w.
Proof.
  intros Hw. apply wp_bind. apply wp_get_cap. unfold with_capacity_ok.
  destruct (c =? cap (self w)).
  - apply zpost_at_sets. apply replace_empty_Z. exact Hw.
  - apply wp_panic. apply vpost_same; [exact Hw | reflexivity | reflexivity].
Qed.

Theorem step_view debug sc o x :
  honest sc -> WFx x -> UniqX x -> contract2 debug o x ->
  view_x (snd (step debug sc o x)) = vstep o (view_x x).
Proof.
  intros Hh Hx Hu [Hc Hc2]. assert (Hd : xdead x = false) by apply Hx.
  pose proof (env_map_lawful sc Hh) as HLm. pose proof (env_set_lawful sc Hh) as HLs.
  unfold step. cbv beta zeta. rewrite Hd.
  destruct o; cbn [vstep].
  - (* OInsert *) apply run_m_does; [exact Hx | exact Hu|]. apply does_then_ret.
    apply (does_insert mphi fst mphi_cl mphi_key (env_map sc) debug HLm k v).
  - (* OInsertKV *) apply run_m_does; [exact Hx | exact Hu|]. apply does_then_ret.
    apply (does_insert_key_value mphi fst mphi_cl mphi_key (env_map sc) debug HLm k v).
  - (* OCheckedInsert *) apply run_m_does; [exact Hx | exact Hu|]. apply does_then_ret.
    apply (does_checked_insert mphi fst mphi_cl mphi_key (env_map sc) debug HLm k v).
  - (* OInsertUnchecked *) apply run_m_on. cbn [contract_ok] in Hc.
    apply sets_bind_frame; [|intros; apply frame_ret].
    apply (sets_insert_unchecked mphi fst mphi_cl mphi_key (env_map sc) debug HLm k v
             (w_init (xcb x) (get_m r x)));
      [apply WFx_get_m; exact Hx | apply UniqX_get_m; exact Hu | exact Hc].
  - (* OGet *) apply run_m_stays; [exact Hx|]. apply (stays_scan_opt_slot (env_map sc)).
  - (* OGetMut *) apply run_m_does; [exact Hx | exact Hu|]. apply does_op_get_mut. exact Hh.
  - (* OGetKV *) apply run_m_stays; [exact Hx|]. apply (stays_scan_opt_slot (env_map sc)).
  - (* OContains *) apply run_m_stays; [exact Hx|]. unfold contains_key.
    apply stays_bind; [|intros; apply stays_ret].
    apply stays_bind; [|intros; apply stays_ret].
    apply (stays_scan (env_map sc)). intros; apply frame_test_q.
  - (* OIndex *) apply run_m_stays; [exact Hx|]. apply stays_op_index.
  - (* OIndexMut *) apply run_m_does; [exact Hx | exact Hu|]. apply does_op_index_mut. exact Hh.
  - (* ORemove *) apply run_m_does; [exact Hx | exact Hu|]. apply does_then_ret.
    apply (does_remove mphi fst mphi_cl (env_map sc) debug HLm).
  - (* ORemoveEntry *) apply run_m_does; [exact Hx | exact Hu|]. apply does_then_ret.
    apply (does_remove_entry mphi fst mphi_cl (env_map sc) debug HLm).
  - (* ORetain *) apply run_m_does; [exact Hx | exact Hu|].
    apply does_bind_frame; [|intros; apply frame_ret]. apply does_op_retain_m. exact Hh.
  - (* OClear *) apply run_m_does; [exact Hx | exact Hu|].
    apply does_bind_frame; [|intros; apply frame_ret]. apply does_clear.
  - (* ODrain *) apply run_m_empty; [exact Hx|]. apply drain_session_Z. apply WFx_get_m. exact Hx.
  - (* OWithCapacity *) apply run_m_on. apply sets_with_capacity. apply WFx_get_m. exact Hx.
  - (* OIter *) apply run_m_does; [exact Hx | exact Hu|]. apply does_iter_session.
  - (* OIntoIter *) apply run_m_empty; [exact Hx|]. apply op_into_iter_Z. apply WFx_get_m. exact Hx.
  - (* OEntry *) apply run_m_does; [exact Hx | exact Hu|]. apply does_entry_chain. exact Hh.
  - (* ODisjoint *) apply run_m_on.
    apply sets_disjoint_session; [exact Hh | apply WFx_get_m; exact Hx | apply UniqX_get_m; exact Hu|].
    intros ->. exact Hc2.
  - (* OClone *) rewrite !get_mc_view, get_mv_view.
    destruct (Nat.eqb_spec (cap (get_m r x)) (cap (get_m r' x))) as [Heq|Hne]; [|reflexivity].
    apply (run_m_sets r' _ x (fun _ => mview (get_m r x))).
    apply sets_clone_m; [exact Hh | apply WFx_get_m; exact Hx | apply WFx_get_m; exact Hx | exact Heq].
  - (* OEq *) apply run_m_stays_at; [exact Hx|]. apply op_eq_stays; apply WFx_get_m; exact Hx.
  - (* OFromIter *) apply run_m_on. apply sets_from_iter_m; [exact Hh | apply WFx_get_m; exact Hx].
  - (* OFormat *) apply run_m_stays; [exact Hx|]. apply stays_format_m.
  - (* OSerde *) rewrite get_mc_view, get_mv_view.
    rewrite (run_m_sets r' _ x
               (fun l => if length (mview (get_m r x)) <=? cap (get_m r' x) then mview (get_m r x) else l)).
    + destruct (length (mview (get_m r x)) <=? cap (get_m r' x)); [reflexivity | apply put_mv_self].
    + apply sets_serde_m; [exact Hh | apply WFx_get_m; exact Hx | apply UniqX_get_m; exact Hu
                           | apply WFx_get_m; exact Hx].
  - (* SInsert *) apply run_s_does; [exact Hx | exact Hu|]. apply does_then_ret. apply does_s_insert. exact Hh.
  - (* SReplace *) apply run_s_does; [exact Hx | exact Hu|]. apply does_then_ret. apply does_s_replace. exact Hh.
  - (* SContains *) apply run_s_stays; [exact Hx|]. unfold s_contains, contains_key.
    apply stays_bind; [|intros; apply stays_ret].
    apply stays_bind; [|intros; apply stays_ret].
    apply (stays_scan (env_set sc)). intros; apply frame_test_q.
  - (* SGet *) apply run_s_stays; [exact Hx|]. apply (stays_scan_opt_slot (env_set sc)).
  - (* SRemove *) apply run_s_does; [exact Hx | exact Hu|]. apply does_then_ret. apply does_s_remove. exact Hh.
  - (* STake *) apply run_s_does; [exact Hx | exact Hu|]. apply does_then_ret. apply does_s_take. exact Hh.
  - (* SRetain *) apply run_s_does; [exact Hx | exact Hu|].
    apply does_bind_frame; [|intros; apply frame_ret]. apply does_op_retain_s. exact Hh.
  - (* SClear *) apply run_s_does; [exact Hx | exact Hu|].
    apply does_bind_frame; [|intros; apply frame_ret]. apply does_s_clear.
  - (* SDrain *) apply run_s_empty; [exact Hx|]. apply drain_session_Z. apply WFx_get_s. exact Hx.
  - (* SExtend *) apply run_s_on. unfold s_extend.
    apply sets_bind_frame; [|intros; apply frame_ret].
    apply (s_extend_view debug sc Hh (nx_cb sc) (nx_ok sc false Hh) items (w_init (xcb x) (get_s r x))).
    apply WFx_get_s. exact Hx.
  - (* SIter *) apply run_s_stays; [exact Hx|]. apply stays_set_iter_session.
  - (* SIntoIter *) apply run_s_empty; [exact Hx|]. apply op_s_into_iter_Z. apply WFx_get_s. exact Hx.
  - (* SClone *) rewrite !get_sc_view, get_sv_view.
    destruct (Nat.eqb_spec (cap (get_s r x)) (cap (get_s r' x))) as [Heq|Hne]; [|reflexivity].
    apply (run_s_sets r' _ x (fun _ => sview (get_s r x))).
    apply sets_clone_s; [exact Hh | apply WFx_get_s; exact Hx | apply WFx_get_s; exact Hx | exact Heq].
  - (* SEq *) apply run_s_stays_at; [exact Hx|]. apply op_eq_stays; apply WFx_get_s; exact Hx.
  - (* SFromIter *) apply run_s_on. apply sets_from_iter_s; [exact Hh | apply WFx_get_s; exact Hx].
  - (* SAlgebra *) apply run_s_stays_at; [exact Hx|]. apply alg_session_frame; apply WFx_get_s; exact Hx.
  - (* SPred *) apply run_s_stays_at; [exact Hx|]. apply op_pred_stays; apply WFx_get_s; exact Hx.
  - (* SSub *) apply run_s_stays_at; [exact Hx|]. apply op_sub_stays; apply WFx_get_s; exact Hx.
  - (* SFormat *) apply run_s_stays; [exact Hx|]. apply stays_format_s.
  - (* SSerde *) rewrite get_sc_view, get_sv_view.
    rewrite (run_s_sets r' _ x
               (fun l => if length (sview (get_s r x)) <=? cap (get_s r' x) then sview (get_s r x) else l)).
    + destruct (length (sview (get_s r x)) <=? cap (get_s r' x)); [reflexivity | apply put_sv_self].
    + apply sets_serde_s; [exact Hh | apply WFx_get_s; exact Hx | apply UniqX_get_s; exact Hu
                           | apply WFx_get_s; exact Hx].
  - (* OCloneFrom *) rewrite !get_mc_view, get_mv_view.
    destruct (Nat.eqb_spec (cap (get_m r x)) (cap (get_m r' x))) as [Heq|Hne]; [|reflexivity].
    apply (run_m_sets r' _ x (fun _ => mview (get_m r x))).
    apply sets_clone_m; [exact Hh | apply WFx_get_m; exact Hx | apply WFx_get_m; exact Hx | exact Heq].
  - (* SCloneFrom *) rewrite !get_sc_view, get_sv_view.
    destruct (Nat.eqb_spec (cap (get_s r x)) (cap (get_s r' x))) as [Heq|Hne]; [|reflexivity].
    apply (run_s_sets r' _ x (fun _ => sview (get_s r x))).
    apply sets_clone_s; [exact Hh | apply WFx_get_s; exact Hx | apply WFx_get_s; exact Hx | exact Heq].
  - (* ODefault *) apply run_m_empty; [exact Hx|]. apply replace_empty_Z. apply WFx_get_m. exact Hx.
  - (* SDefault *) apply run_s_empty; [exact Hx|]. apply replace_empty_Z. apply WFx_get_s. exact Hx.
  - (* OIterNth *) apply run_m_stays; [exact Hx|]. apply stays_iter_nth_session.
  - (* ODrainNth *) apply run_m_empty; [exact Hx|]. apply drain_nth_session_Z. apply WFx_get_m. exact Hx.
  - (* OIntoNth *) apply run_m_empty; [exact Hx|].
    apply op_into_nth_Z; [intros p; apply frame_into_steps_item | intros p; apply frame_into_rest
                          | apply WFx_get_m; exact Hx].
  - (* SIterNth *) apply run_s_stays; [exact Hx|]. apply stays_iter_nth_session.
  - (* SDrainNth *) apply run_s_empty; [exact Hx|]. apply drain_nth_session_Z. apply WFx_get_s. exact Hx.
  - (* SIntoNth *) apply run_s_empty; [exact Hx|].
    apply op_into_nth_Z; [intros p; apply frame_ret | intros p; apply frame_drop_key
                          | apply WFx_get_s; exact Hx].
  - (* OBad *) reflexivity.
Qed.

Theorem run_view debug sc ops x :
  honest sc -> WFx x -> UniqX x -> Forall safe_op ops ->
  Forall (fun o => match o with ODisjoint _ true qs _ => NoDup qs | _ => True end) ops ->
  view_x (run_final debug sc ops x) = fold_left (fun vw o => vstep o vw) ops (view_x x).
Proof.
  intros Hh. revert x. induction ops as [|o t IH]; intros x Hx Hu Hs Hd; cbn [run_final fold_left]; [reflexivity|].
  inversion Hs as [|o' t' Ho Ht]; subst. inversion Hd as [|o'' t'' Hdo Hdt]; subst.
  pose proof (safe_op_contract debug o x Ho) as Hc.
  rewrite IH; [|apply (proj1 (step_safe debug sc o x Hx Hc)) | apply step_uniq; assumption | exact Ht | exact Hdt].
  f_equal. apply step_view; [exact Hh | exact Hx | exact Hu | split; [exact Hc | exact Hdo]].
Qed.

Lemma view_x_init n0 n1 n2 n3 :
  view_x (init_world n0 n1 n2 n3) =
  {| v0 := []; v1 := []; u2 := []; u3 := [];
     c0 := nat_of n0; c1 := nat_of n1; c2 := nat_of n2; c3 := nat_of n3 |}.
Proof.
  unfold view_x, init_world. cbn [xm0 xm1 xs0 xs1]. rewrite !cap_new. reflexivity.
Qed.

Theorem run_view_init debug sc ops n0 n1 n2 n3 :
  honest sc -> Forall safe_op ops ->
  Forall (fun o => match o with ODisjoint _ true qs _ => NoDup qs | _ => True end) ops ->
  view_x (run_final debug sc ops (init_world n0 n1 n2 n3)) =
  fold_left (fun vw o => vstep o vw) ops
    {| v0 := []; v1 := []; u2 := []; u3 := [];
       c0 := nat_of n0; c1 := nat_of n1; c2 := nat_of n2; c3 := nat_of n3 |}.
Proof.
  intros Hh Hs Hd. rewrite <- view_x_init.
  apply run_view; [exact Hh | apply init_WFx | apply init_UniqX | exact Hs | exact Hd].
Qed.

(* the capacities in the view never change *)
Lemma vstep_caps o vw :
  (c0 (vstep o vw), c1 (vstep o vw), c2 (vstep o vw), c3 (vstep o vw)) = (c0 vw, c1 vw, c2 vw, c3 vw).
Proof.
  destruct o; cbn [vstep]; unfold on_m, on_s, put_mv, put_sv;
    repeat match goal with |- context [if ?b then _ else _] => destruct b end; reflexivity.
Qed.

