(* ========================================================================
   C12  Stored-key identity: insert keeps the old key, insert_key_value /
        replace swap it

   STATEMENT (properties.jsonl):
     "When a key equal to a stored key is supplied, insert, checked_insert,
      Set::insert and the entry API keep the originally stored key object and
      discard the supplied one, whereas insert_key_value and Set::replace store
      the supplied key and hand back the old one. get_key_value, Set::get,
      take, remove_entry and iteration always expose the key object that is
      actually stored."
   QUANTIFIER:
     "all histories over keys that compare equal yet are distinguishable, on
      every insertion path including the full-container replace-only path"

   (Proofs/SetDict.vo was present when this file was written, so the three
    Set theorems s_insert / s_replace / s_take ARE included.)

   VOCABULARY
     K is an arbitrary type of key OBJECTS; ck : K -> N gives the equality class
     of a key.  Two keys k, k0 with ck k = ck k0 "compare equal" (Lawful E ck cq:
     == is equality of classes) and may still be different objects (k <> k0,
     different ledger identities idK E k).  All statements are about the objects
     stored in Spec.elems (the content in slot order), so they do distinguish
     equal-but-different keys.

   HOW l_insert ENCODES THE KEY POLICY (Proofs/Spec.v)
     l_insert ck l k v update_key =
       match find_idx ck (ck k) l with
       | Some i =>                      (a stored key k0 equal to k sits at index i,
           match nth_error l i with      with value v0)
           | Some (k0, v0) =>
               if update_key
               then (upd l i (k,  v), i, Some (k0, v0))   (* true : SWAP  *)
               else (upd l i (k0, v), i, Some (k,  v0))   (* false: KEEP  *)
           | None => (l, i, None)        (impossible: i comes from find_idx)
           end
       | None => (l ++ [(k, v)], length l, None)           (absent: append)
       end
     - update_key = false: the new content has (k0, v) at index i — the ORIGINALLY
       STORED key object k0 with the new value — and the "displaced" pair handed to
       the caller is (k, v0): the SUPPLIED key object together with the old value.
       Map::insert then destroys that k (keep_value: `logged ... ev_drops (idK E k')`
       with k' = k) and returns v0.
     - update_key = true: the new content has (k, v) — the SUPPLIED key object is
       stored — and the displaced pair is (k0, v0): the OLD stored key object and
       old value, returned to the caller by insert_key_value, not destroyed
       (log w' = log w).
     In both cases every other index of the content is unchanged (upd).

   READING GUIDE (clause -> theorem)
   * "insert, checked_insert ... keep the originally stored key object and
     discard the supplied one":
       C12_insert_ii_lawful          the common core computes l_insert ... u for
                                     both policies u (also when the map is full and
                                     the key present: it panics only for an ABSENT
                                     key in a full map; then the container is untouched
                                     and the rejected k and v are destroyed exactly once
                                     by unwinding — same panic clause in C12_insert_lawful,
                                     C12_insert_key_value_lawful, C12_s_insert_lawful,
                                     C12_s_replace_lawful)
       C12_insert_lawful             insert = l_insert ... false; the displaced key
                                     (the supplied object) is destroyed, old value
                                     returned
       C12_checked_insert_lawful     present key: l_insert ... false whether or not
                                     the map is full (the full-container
                                     replace-only path), supplied key destroyed
       C12_lookup_insert             dictionary view after insert: "first key
                                     object kept, last value wins"
   * "Set::insert keeps the stored element":  C12_s_insert_lawful (content
     unchanged when present)
   * "the entry API keeps the stored key":
       C12_or_insert_keeps_key       or_insert on a present key leaves the stored
                                     pair exactly as it was
       C12_entry_key_lawful          Entry::key on an occupied entry designates the
                                     slot of the STORED key (inl slot), not the
                                     supplied object
       C12_occ_insert_lawful         OccupiedEntry::insert replaces only the value:
                                     (k0, v) with the stored k0
   * "insert_key_value and Set::replace store the supplied key and hand back the
     old one":
       C12_insert_key_value_lawful   = l_insert ... true, result = displaced old
                                     pair, nothing destroyed
       C12_s_replace_lawful          content gets (k, tt) at the index found, result
                                     = the old stored key object
   * "get_key_value, Set::get, take, remove_entry ... expose the key object that
     is actually stored":
       C12_get_key_value_lawful      returns the SLOT found (the reference points at
                                     the stored pair; Set::get is the same function
                                     get_key_value in the model)
       C12_remove_entry_lawful       returns nth_error content i: the stored pair
       C12_s_take_lawful             returns the stored key object of that pair

   PARTLY / NOT COVERED BY A THEOREM (left to the correspondence check)
   [The items below, and "every insertion path", are CLOSED in the AUDIT CLOSURE
    section at the end of this file: C12_iter_exposes_stored / C12_into_exposes_stored /
    C12_drain_exposes_stored; C12_s_insert_present_discards;
    C12_or_insert_with_keeps_key, C12_or_insert_with_key_keeps_key,
    C12_and_modify_keeps_key, C12_occ_insert_keeps_key, C12_entry_of_discards_key;
    C12_run_refines / C12_srun_refines; C12_extend_keeps_first_key,
    C12_visit_map_step_present for the bulk and serde insertion paths.]
   * "iteration always exposes the stored key": iterators yield slot indices and
     C09_iter_yield_is_elem says slot i holds entry i of Spec.elems; not restated
     here.
   * Set::insert "discards the supplied one": C12_s_insert_lawful has no log
     clause; the destruction of the supplied key is visible in C12_insert_lawful
     (Set::insert is insert k () in the model).
   * or_insert_with / or_insert_with_key on an occupied entry: container
     unchanged (self w' = self w) is in C11_or_insert_with*_lawful.
   * "all histories": the theorems are per operation on an arbitrary
     well-formed state; histories compose them (Dict.run_refines, C01).
   ======================================================================== *)
Require Import Model.Base Model.Slots Model.MapOps Model.EntryOps Model.SetOps Model.Exec.
Require Import Proofs.Hoare Proofs.Inv Proofs.Spec Proofs.Lawful Proofs.Lawful2 Proofs.Lawful3
               Proofs.EntrySpec Proofs.Bulk Proofs.SetDict Proofs.FmtSerde Proofs.Legacy.

(* ---------------------------------------------------------------------- *)
(* insertion paths                                                          *)
(* ---------------------------------------------------------------------- *)

Theorem C12_insert_lawful :
  forall (K V Q T : Type) (E : env K V Q T) (debug : bool) (ck : K -> N) (cq : Q -> N)
         (HL : Lawful E ck cq) (k : K) (v : V) (w : world K V T),
    WF (self w) ->
    wp (insert E debug k v)
       (fun (r : option V) (w' : world K V T) =>
          WF (self w') /\ cap (self w') = cap (self w) /\
          Spec.elems (self w') = fst (fst (l_insert ck (Spec.elems (self w)) k v false)) /\
          r = option_map snd (snd (l_insert ck (Spec.elems (self w)) k v false)) /\
          logged w w'
            match snd (l_insert ck (Spec.elems (self w)) k v false) with
            | Some (k', _) => ev_drops (idK E k')
            | None => []
            end)
       (fun w' : world K V T =>
          self w' = self w /\
          logged w w' (ev_drops (idV E v ++ idK E k)) /\
          find_idx ck (ck k) (Spec.elems (self w)) = None /\ len (self w) = cap (self w)) w.
Proof. exact (fun K V Q T E debug ck cq HL => insert_lawful E debug ck cq HL). Qed.
Print Assumptions C12_insert_lawful.

Theorem C12_insert_key_value_lawful :
  forall (K V Q T : Type) (E : env K V Q T) (debug : bool) (ck : K -> N) (cq : Q -> N)
         (HL : Lawful E ck cq) (k : K) (v : V) (w : world K V T),
    WF (self w) ->
    wp (insert_key_value E debug k v)
       (fun (r : option (K * V)) (w' : world K V T) =>
          WF (self w') /\ cap (self w') = cap (self w) /\ log w' = log w /\
          Spec.elems (self w') = fst (fst (l_insert ck (Spec.elems (self w)) k v true)) /\
          r = snd (l_insert ck (Spec.elems (self w)) k v true))
       (fun w' : world K V T =>
          self w' = self w /\
          logged w w' (ev_drops (idV E v ++ idK E k)) /\
          find_idx ck (ck k) (Spec.elems (self w)) = None /\ len (self w) = cap (self w)) w.
Proof. exact (fun K V Q T E debug ck cq HL => insert_key_value_lawful E debug ck cq HL). Qed.
Print Assumptions C12_insert_key_value_lawful.

Theorem C12_checked_insert_lawful :
  forall (K V Q T : Type) (E : env K V Q T) (debug : bool) (ck : K -> N) (cq : Q -> N)
         (HL : Lawful E ck cq) (k : K) (v : V) (w : world K V T),
    WF (self w) ->
    wp (checked_insert E debug k v)
       (fun (r : option (option V)) (w' : world K V T) =>
          WF (self w') /\ cap (self w') = cap (self w) /\
          match find_idx ck (ck k) (Spec.elems (self w)) with
          | Some _ =>
              Spec.elems (self w') = fst (fst (l_insert ck (Spec.elems (self w)) k v false)) /\
              r = Some (option_map snd (snd (l_insert ck (Spec.elems (self w)) k v false))) /\
              logged w w' (ev_drops (idK E k))
          | None =>
              if len (self w) <? cap (self w)
              then Spec.elems (self w') = Spec.elems (self w) ++ [(k, v)] /\
                   r = Some None /\ log w' = log w
              else Spec.elems (self w') = Spec.elems (self w) /\ self w' = self w /\
                   r = None /\ logged w w' (ev_drops (idV E v ++ idK E k))
          end)
       (fun _ : world K V T => False) w.
Proof. exact (fun K V Q T E debug ck cq HL => checked_insert_lawful E debug ck cq HL). Qed.
Print Assumptions C12_checked_insert_lawful.

Theorem C12_insert_ii_lawful :
  forall (K V Q T : Type) (E : env K V Q T) (debug : bool) (ck : K -> N) (cq : Q -> N)
         (HL : Lawful E ck cq) (k : K) (v : V) (u : bool) (w : world K V T),
    WF (self w) ->
    wp (insert_ii E debug k v u)
       (fun (r : nat * option (K * V)) (w' : world K V T) =>
          WF (self w') /\ cap (self w') = cap (self w) /\ log w' = log w /\
          (Spec.elems (self w'), fst r, snd r) = l_insert ck (Spec.elems (self w)) k v u /\
          (find_idx ck (ck k) (Spec.elems (self w)) = None -> len (self w) < cap (self w)))
       (fun w' : world K V T =>
          self w' = self w /\
          logged w w' (ev_drops (idV E v ++ idK E k)) /\
          find_idx ck (ck k) (Spec.elems (self w)) = None /\ len (self w) = cap (self w)) w.
Proof. exact (fun K V Q T E debug ck cq HL => insert_ii_lawful E debug ck cq HL). Qed.
Print Assumptions C12_insert_ii_lawful.

(* first key object kept, last value wins *)
Theorem C12_lookup_insert :
  forall (K V : Type) (ck : K -> N) (l : list (K * V)) (k : K) (v : V) (c : N),
    lookup ck (fst (fst (l_insert ck l k v false))) c =
    (if N.eqb (ck k) c
     then Some (match lookup ck l c with Some (k0, _) => k0 | None => k end, v)
     else lookup ck l c).
Proof. exact (fun K V => @lookup_insert K V). Qed.
Print Assumptions C12_lookup_insert.

(* ---------------------------------------------------------------------- *)
(* entry API                                                                *)
(* ---------------------------------------------------------------------- *)

Theorem C12_or_insert_keeps_key :
  forall (K V Q T : Type) (E : env K V Q T) (debug : bool) (ck : K -> N) (cq : Q -> N)
         (HL : Lawful E ck cq) (k : K) (v : V) (j : nat) (w : world K V T),
    WF (self w) ->
    find_idx ck (ck k) (Spec.elems (self w)) = Some j ->
    wp (e <- entry_of E k ;; or_insert E debug e v)
       (fun (i : nat) (w' : world K V T) =>
          i = j /\
          Spec.elems (self w') = Spec.elems (self w) /\
          nth_error (Spec.elems (self w')) j = nth_error (Spec.elems (self w)) j /\
          exists (k0 : K) (v0 : V),
            nth_error (Spec.elems (self w')) j = Some (k0, v0) /\ ck k0 = ck k)
       (fun _ : world K V T => False) w.
Proof. exact (fun K V Q T E debug ck cq HL => or_insert_keeps_key E debug ck cq HL). Qed.
Print Assumptions C12_or_insert_keeps_key.

Theorem C12_entry_key_lawful :
  forall (K V Q T : Type) (E : env K V Q T) (ck : K -> N) (cq : Q -> N) (HL : Lawful E ck cq)
         (k : K) (w : world K V T),
    WF (self w) ->
    wp (e <- entry_of E k ;; entry_key e)
       (fun (r : nat + K) (w' : world K V T) =>
          self w' = self w /\
          match find_idx ck (ck k) (Spec.elems (self w)) with
          | Some j => r = inl j
          | None => r = inr k
          end)
       (fun _ : world K V T => False) w.
Proof. exact (fun K V Q T E ck cq HL => entry_key_lawful E ck cq HL). Qed.
Print Assumptions C12_entry_key_lawful.

Theorem C12_occ_insert_lawful :
  forall (K V T : Type) (i : nat) (v : V) (w : world K V T),
    WF (self w) ->
    forall (k0 : K) (v0 : V),
      nth_error (Spec.elems (self w)) i = Some (k0, v0) ->
      wp (occ_insert i v)
         (fun (r : V) (w' : world K V T) =>
            WF (self w') /\ cap (self w') = cap (self w) /\ log w' = log w /\ r = v0 /\
            Spec.elems (self w') = upd (Spec.elems (self w)) i (k0, v))
         (fun _ : world K V T => False) w.
Proof. exact (fun K V T => @occ_insert_lawful K V T). Qed.
Print Assumptions C12_occ_insert_lawful.

(* ---------------------------------------------------------------------- *)
(* accessors that expose the stored key                                     *)
(* ---------------------------------------------------------------------- *)

Theorem C12_get_key_value_lawful :
  forall (K V Q T : Type) (E : env K V Q T) (ck : K -> N) (cq : Q -> N) (HL : Lawful E ck cq)
         (q : Q) (w : world K V T),
    WF (self w) ->
    wp (get_key_value E q)
       (fun (r : option nat) (w' : world K V T) =>
          stable w w' /\ r = find_idx ck (cq q) (Spec.elems (self w)))
       (fun _ : world K V T => False) w.
Proof. exact (fun K V Q T E ck cq HL => get_key_value_lawful E ck cq HL). Qed.
Print Assumptions C12_get_key_value_lawful.

Theorem C12_remove_entry_lawful :
  forall (K V Q T : Type) (E : env K V Q T) (debug : bool) (ck : K -> N) (cq : Q -> N)
         (HL : Lawful E ck cq) (q : Q) (w : world K V T),
    WF (self w) ->
    wp (remove_entry E debug q)
       (fun (r : option (K * V)) (w' : world K V T) =>
          WF (self w') /\ cap (self w') = cap (self w) /\ log w' = log w /\
          Spec.elems (self w') = fst (l_remove ck (Spec.elems (self w)) (cq q)) /\
          r = snd (l_remove ck (Spec.elems (self w)) (cq q)))
       (fun _ : world K V T => False) w.
Proof. exact (fun K V Q T E debug ck cq HL => remove_entry_lawful E debug ck cq HL). Qed.
Print Assumptions C12_remove_entry_lawful.

(* ---------------------------------------------------------------------- *)
(* Set (Proofs/SetDict.v)                                                   *)
(* ---------------------------------------------------------------------- *)

Theorem C12_s_insert_lawful :
  forall (K Q T : Type) (E : env K unit Q T) (debug : bool) (ck : K -> N) (cq : Q -> N)
         (HL : Lawful E ck cq) (k : K) (w : world K unit T),
    WF (self w) ->
    wp (s_insert E debug k)
       (fun (r : bool) (w' : world K unit T) =>
          WF (self w') /\ cap (self w') = cap (self w) /\
          r = match find_idx ck (ck k) (Spec.elems (self w)) with
              | Some _ => false
              | None => true
              end /\
          Spec.elems (self w') =
            match find_idx ck (ck k) (Spec.elems (self w)) with
            | Some _ => Spec.elems (self w)
            | None => Spec.elems (self w) ++ [(k, tt)]
            end /\
          (find_idx ck (ck k) (Spec.elems (self w)) = None -> len (self w) < cap (self w)))
       (fun w' : world K unit T =>
          self w' = self w /\
          logged w w' (ev_drops (idV E tt ++ idK E k)) /\
          find_idx ck (ck k) (Spec.elems (self w)) = None /\ len (self w) = cap (self w)) w.
Proof. exact (fun K Q T E debug ck cq HL => s_insert_lawful E debug ck cq HL). Qed.
Print Assumptions C12_s_insert_lawful.

Theorem C12_s_replace_lawful :
  forall (K Q T : Type) (E : env K unit Q T) (debug : bool) (ck : K -> N) (cq : Q -> N)
         (HL : Lawful E ck cq) (k : K) (w : world K unit T),
    WF (self w) ->
    wp (s_replace E debug k)
       (fun (r : option K) (w' : world K unit T) =>
          WF (self w') /\ cap (self w') = cap (self w) /\ log w' = log w /\
          r = option_map fst (lookup ck (Spec.elems (self w)) (ck k)) /\
          Spec.elems (self w') =
            match find_idx ck (ck k) (Spec.elems (self w)) with
            | Some i => upd (Spec.elems (self w)) i (k, tt)
            | None => Spec.elems (self w) ++ [(k, tt)]
            end /\
          (find_idx ck (ck k) (Spec.elems (self w)) = None -> len (self w) < cap (self w)))
       (fun w' : world K unit T =>
          self w' = self w /\
          logged w w' (ev_drops (idV E tt ++ idK E k)) /\
          find_idx ck (ck k) (Spec.elems (self w)) = None /\ len (self w) = cap (self w)) w.
Proof. exact (fun K Q T E debug ck cq HL => s_replace_lawful E debug ck cq HL). Qed.
Print Assumptions C12_s_replace_lawful.

Theorem C12_s_take_lawful :
  forall (K Q T : Type) (E : env K unit Q T) (debug : bool) (ck : K -> N) (cq : Q -> N)
         (HL : Lawful E ck cq) (q : Q) (w : world K unit T),
    WF (self w) ->
    wp (s_take E debug q)
       (fun (r : option K) (w' : world K unit T) =>
          WF (self w') /\ cap (self w') = cap (self w) /\ log w' = log w /\
          r = option_map fst (snd (l_remove ck (Spec.elems (self w)) (cq q))) /\
          Spec.elems (self w') = fst (l_remove ck (Spec.elems (self w)) (cq q)))
       (fun _ : world K unit T => False) w.
Proof. exact (fun K Q T E debug ck cq HL => s_take_lawful E debug ck cq HL). Qed.
Print Assumptions C12_s_take_lawful.

(* ---------------------------------------------------------------------- *)
(* non-vacuity                                                              *)
(* ---------------------------------------------------------------------- *)

(* hypotheses; and two keys that compare equal yet are distinguishable: the
   stored k_ 3 6 and the supplied k_ 90 6 *)
Example C12_example_hyps :
  let sc0 := {| sc_adv := false; sc_seed := 0; sc_fk := 0; sc_fa := 0 |} in
  WF (self (w_of m3)) /\ len m3 = cap m3 /\
  Lawful (env_map sc0) kcls qcls /\ Lawful (env_set sc0) kcls qcls /\
  kcls (k_ 90 6) = kcls (k_ 3 6) /\ k_ 90 6 <> k_ 3 6 /\
  find_idx kcls (kcls (k_ 90 6)) (Spec.elems m3) = Some 1.
Proof.
  intros sc0. assert (Hh : honest sc0) by (split; reflexivity).
  split; [exact m3_WF|]. split; [reflexivity|].
  split; [exact (env_map_lawful sc0 Hh)|]. split; [exact (env_set_lawful sc0 Hh)|].
  split; [reflexivity|]. split; [discriminate | reflexivity].
Qed.

(* the list machine on that pair of keys *)
Example C12_example_l_insert :
  l_insert kcls (Spec.elems m3) (k_ 90 6) (v_ 91 0) false
    = ([(k_ 1 5, v_ 2 7); (k_ 3 6, v_ 91 0); (k_ 5 7, v_ 6 9)], 1, Some (k_ 90 6, v_ 4 8)) /\
  l_insert kcls (Spec.elems m3) (k_ 90 6) (v_ 91 0) true
    = ([(k_ 1 5, v_ 2 7); (k_ 90 6, v_ 91 0); (k_ 5 7, v_ 6 9)], 1, Some (k_ 3 6, v_ 4 8)).
Proof. split; reflexivity. Qed.

(* concrete runs on the FULL map m3 (len = cap = 3: the replace-only path):
   insert / checked_insert keep key object 3 and destroy the supplied object 90;
   insert_key_value stores object 90 and hands back (object 3, old value),
   destroying nothing; remove_entry afterwards returns the stored object *)
Example C12_example_runs :
  let E := env_map {| sc_adv := false; sc_seed := 0; sc_fk := 0; sc_fa := 0 |} in
  match insert E true (k_ 90 6) (v_ 91 0) (w_of m3) with
  | Ok r w' => r = Some (v_ 4 8) /\ log w' = [EvDrop 90] /\
               Spec.elems (self w') = [(k_ 1 5, v_ 2 7); (k_ 3 6, v_ 91 0); (k_ 5 7, v_ 6 9)]
  | _ => False
  end /\
  match checked_insert E true (k_ 90 6) (v_ 91 0) (w_of m3) with
  | Ok r w' => r = Some (Some (v_ 4 8)) /\ log w' = [EvDrop 90] /\
               Spec.elems (self w') = [(k_ 1 5, v_ 2 7); (k_ 3 6, v_ 91 0); (k_ 5 7, v_ 6 9)]
  | _ => False
  end /\
  match insert_key_value E true (k_ 90 6) (v_ 91 0) (w_of m3) with
  | Ok r w' => r = Some (k_ 3 6, v_ 4 8) /\ log w' = [] /\
               Spec.elems (self w') = [(k_ 1 5, v_ 2 7); (k_ 90 6, v_ 91 0); (k_ 5 7, v_ 6 9)]
  | _ => False
  end /\
  match (_ <- insert_key_value E true (k_ 90 6) (v_ 91 0) ;; remove_entry E true (QCls 6)) (w_of m3) with
  | Ok r w' => r = Some (k_ 90 6, v_ 91 0)
  | _ => False
  end.
Proof. vm_compute. repeat split; reflexivity. Qed.

(* Set: insert keeps the stored element (id 2), replace swaps it and returns it,
   take returns the stored one *)
Example C12_example_set_runs :
  let E := env_set {| sc_adv := false; sc_seed := 0; sc_fk := 0; sc_fa := 0 |} in
  let a : map key unit :=
    {| len := 2; slots := [Some (k_ 1 5, tt); Some (k_ 2 6, tt)] |} in
  let w : world key unit cstate := {| cb := cs0; log := []; self := a |} in
  match s_insert E true (k_ 90 6) w with
  | Ok r w' => r = false /\ Spec.elems (self w') = [(k_ 1 5, tt); (k_ 2 6, tt)]
  | _ => False
  end /\
  match s_replace E true (k_ 90 6) w with
  | Ok r w' => r = Some (k_ 2 6) /\ Spec.elems (self w') = [(k_ 1 5, tt); (k_ 90 6, tt)] /\ log w' = []
  | _ => False
  end /\
  match s_take E true (QCls 6) w with
  | Ok r w' => r = Some (k_ 2 6) /\ Spec.elems (self w') = [(k_ 1 5, tt)]
  | _ => False
  end.
Proof. vm_compute. repeat split; reflexivity. Qed.

(* ========================================================================
   AUDIT CLOSURE (Proofs/MoreEntry.v)

   The theorems below close the findings of the independent audit of C12:
   (7) Set::insert discards the supplied element (log clause);  (8) the whole
   entry API keeps the stored key object: or_insert_with, or_insert_with_key,
   and_modify, OccupiedEntry::insert, and entry(k) itself destroys the supplied
   key on an occupied entry;  (9) iteration (borrowing, consuming, draining)
   exposes exactly the stored key objects; Set::get is get_key_value;
   (10) "all histories": the history-level refinement theorems, which carry
   object identity;  (11) "every insertion path": Extend / FromIterator /
   From<[_;N]> and serde.

   Throughout, `List.map fst (Spec.elems m)` is the list of stored key OBJECTS
   in slot order (identity, not class), and `lookup ck l c` the stored
   (key object, value) of class c.
   ======================================================================== *)
Require Import Proofs.Dict Proofs.Dict2 Proofs.IterSpec Proofs.MoreEntry.

(* ---------------------------------------------------------------------- *)
(* Finding 7.  "Set::insert ... discard the supplied one".  Hypotheses:     *)
(* lawful environment, well-formed set, an element of k's class is stored   *)
(* (at index i).  Then insert answers false, the content — hence the stored *)
(* element object — is exactly what it was, and the supplied object k is    *)
(* destroyed: exactly its identities are logged as dropped.                 *)
(* ---------------------------------------------------------------------- *)
Theorem C12_s_insert_present_discards :
  forall (K Q T : Type) (E : env K unit Q T) (debug : bool) (ck : K -> N) (cq : Q -> N)
         (HL : Lawful E ck cq) (k : K) (i : nat) (w : world K unit T),
    WF (self w) ->
    find_idx ck (ck k) (Spec.elems (self w)) = Some i ->
    wp (s_insert E debug k)
       (fun (r : bool) (w' : world K unit T) =>
          r = false /\ Spec.elems (self w') = Spec.elems (self w) /\
          logged w w' (ev_drops (idK E k)) /\
          WF (self w') /\ cap (self w') = cap (self w))
       (fun _ : world K unit T => False) w.
Proof. exact (fun K Q T E debug ck cq HL => s_insert_present_discards E debug ck cq HL). Qed.
Print Assumptions C12_s_insert_present_discards.

(* ---------------------------------------------------------------------- *)
(* Finding 8.  The entry API keeps the originally stored key object and    *)
(* discards the supplied one (property text, first sentence).               *)
(* ---------------------------------------------------------------------- *)

(* entry(k) on an occupied entry: the supplied key object is destroyed at once
   (the entry keeps only the index of the stored pair) *)
Theorem C12_entry_of_discards_key :
  forall (K V Q T : Type) (E : env K V Q T) (ck : K -> N) (cq : Q -> N) (HL : Lawful E ck cq)
         (k : K) (i : nat) (w : world K V T),
    WF (self w) ->
    find_idx ck (ck k) (Spec.elems (self w)) = Some i ->
    wp (entry_of E k)
       (fun (e : @entry K) (w' : world K V T) =>
          e = Occupied i /\ self w' = self w /\ logged w w' (ev_drops (idK E k)))
       (fun _ : world K V T => False) w.
Proof. exact (fun K V Q T E ck cq HL => entry_of_discards_key E ck cq HL). Qed.
Print Assumptions C12_entry_of_discards_key.

(* or_insert_with / or_insert_with_key on a present key, ANY closure (it is not
   called): the container — every stored key object included — is untouched,
   the supplied key object is destroyed *)
Theorem C12_or_insert_with_keeps_key :
  forall (K V Q T : Type) (E : env K V Q T) (debug : bool) (ck : K -> N) (cq : Q -> N)
         (HL : Lawful E ck cq) (k : K) (f : T -> option V * T) (j : nat) (w : world K V T),
    WF (self w) ->
    find_idx ck (ck k) (Spec.elems (self w)) = Some j ->
    wp (e <- entry_of E k ;; or_insert_with E debug e f)
       (fun (i : nat) (w' : world K V T) =>
          i = j /\ self w' = self w /\ logged w w' (ev_drops (idK E k)) /\
          exists (k0 : K) (v0 : V),
            nth_error (Spec.elems (self w')) j = Some (k0, v0) /\ ck k0 = ck k)
       (fun _ : world K V T => False) w.
Proof. exact (fun K V Q T E debug ck cq HL => or_insert_with_occupied E debug ck cq HL). Qed.
Print Assumptions C12_or_insert_with_keeps_key.

Theorem C12_or_insert_with_key_keeps_key :
  forall (K V Q T : Type) (E : env K V Q T) (debug : bool) (ck : K -> N) (cq : Q -> N)
         (HL : Lawful E ck cq) (k : K) (f : K -> T -> option V * T) (j : nat) (w : world K V T),
    WF (self w) ->
    find_idx ck (ck k) (Spec.elems (self w)) = Some j ->
    wp (e <- entry_of E k ;; or_insert_with_key E debug e f)
       (fun (i : nat) (w' : world K V T) =>
          i = j /\ self w' = self w /\ logged w w' (ev_drops (idK E k)) /\
          exists (k0 : K) (v0 : V),
            nth_error (Spec.elems (self w')) j = Some (k0, v0) /\ ck k0 = ck k)
       (fun _ : world K V T => False) w.
Proof. exact (fun K V Q T E debug ck cq HL => or_insert_with_key_occupied E debug ck cq HL). Qed.
Print Assumptions C12_or_insert_with_key_keeps_key.

(* and_modify on a present key, ANY closure (stateful, may panic), on BOTH
   outcomes (normal return / the closure panicked): all stored key objects are
   the same objects in the same slots; slot j still holds the stored k0 (only
   its value may differ); the supplied k is destroyed (and the closure ran once) *)
Theorem C12_and_modify_keeps_key :
  forall (K V Q T : Type) (E : env K V Q T) (ck : K -> N) (cq : Q -> N) (HL : Lawful E ck cq)
         (k : K) (f : @modf_t V T) (j : nat) (w : world K V T),
    WF (self w) ->
    find_idx ck (ck k) (Spec.elems (self w)) = Some j ->
    wp (e <- entry_of E k ;; and_modify e f)
       (fun (_ : @entry K) (w' : world K V T) =>
          List.map fst (Spec.elems (self w')) = List.map fst (Spec.elems (self w)) /\
          (exists (k0 : K) (v0 v' : V),
              nth_error (Spec.elems (self w)) j = Some (k0, v0) /\
              nth_error (Spec.elems (self w')) j = Some (k0, v') /\ ck k0 = ck k) /\
          logged w w' (ev_drops (idK E k) ++ [EvCall 3]))
       (fun w' : world K V T =>
          List.map fst (Spec.elems (self w')) = List.map fst (Spec.elems (self w)) /\
          (exists (k0 : K) (v0 v' : V),
              nth_error (Spec.elems (self w)) j = Some (k0, v0) /\
              nth_error (Spec.elems (self w')) j = Some (k0, v') /\ ck k0 = ck k) /\
          logged w w' (ev_drops (idK E k) ++ [EvCall 3])) w.
Proof. exact (fun K V Q T E ck cq HL => and_modify_keeps_key E ck cq HL). Qed.
Print Assumptions C12_and_modify_keeps_key.

(* OccupiedEntry::insert: the stored key object of slot i is the same object
   afterwards (`nth_error ... i = Some (k0, v)`), and so are all the others *)
Theorem C12_occ_insert_keeps_key :
  forall (K V T : Type) (ck : K -> N) (i : nat) (v : V) (w : world K V T),
    WF (self w) ->
    forall (k0 : K) (v0 : V),
      nth_error (Spec.elems (self w)) i = Some (k0, v0) ->
      wp (occ_insert i v)
         (fun (r : V) (w' : world K V T) =>
            r = v0 /\ log w' = log w /\ WF (self w') /\
            nth_error (Spec.elems (self w')) i = Some (k0, v) /\
            List.map fst (Spec.elems (self w')) = List.map fst (Spec.elems (self w)) /\
            forall c : N, c <> ck k0 ->
              lookup ck (Spec.elems (self w')) c = lookup ck (Spec.elems (self w)) c)
         (fun _ : world K V T => False) w.
Proof. exact (fun K V T ck => @occ_insert_others K V T ck). Qed.
Print Assumptions C12_occ_insert_keeps_key.

(* ---------------------------------------------------------------------- *)
(* Finding 9.  Iteration always exposes the key object that is actually     *)
(* stored.  A borrowing iterator yields references, modelled by slot        *)
(* indices; Dict2.read_slots dereferences them.  IterSpec.iter_run n /      *)
(* into_run n / drain_run n take n steps of the session (n >= len: all).    *)
(* The pairs obtained are the stored pairs THEMSELVES (equality of objects, *)
(* not of classes), so the keys seen are `List.map fst (Spec.elems ...)`.   *)
(* These hold for Set iteration too (V := unit).                            *)
(* ---------------------------------------------------------------------- *)
Theorem C12_iter_exposes_stored :
  forall (K V T : Type) (n : nat) (w : world K V T),
    WF (self w) ->
    wp (c <- iter ;; x <- iter_run n c ;; read_slots (fst x))
       (fun (ps : list (K * V)) (w' : world K V T) =>
          w' = w /\ ps = firstn n (Spec.elems (self w)) /\
          List.map fst ps = firstn n (List.map fst (Spec.elems (self w))))
       (fun _ : world K V T => False) w.
Proof. exact (fun K V T => @iter_exposes_stored K V T). Qed.
Print Assumptions C12_iter_exposes_stored.

(* the consuming iterator (it pops from the end: reversed slot order) *)
Theorem C12_into_exposes_stored :
  forall (K V T : Type) (n : nat) (w : world K V T),
    WF (self w) ->
    wp (into_run n)
       (fun (r : list (K * V)) (w' : world K V T) =>
          r = firstn n (rev (Spec.elems (self w))) /\
          List.map fst r = firstn n (rev (List.map fst (Spec.elems (self w)))) /\ log w' = log w)
       (fun _ : world K V T => False) w.
Proof. exact (fun K V T => @into_exposes_stored K V T). Qed.
Print Assumptions C12_into_exposes_stored.

Theorem C12_drain_exposes_stored :
  forall (K V T : Type) (n : nat) (w : world K V T),
    WF (self w) ->
    wp (c <- drain ;; drain_run n c)
       (fun (r : list (K * V) * cursor) (w' : world K V T) =>
          fst r = firstn n (Spec.elems (self w)) /\
          List.map fst (fst r) = firstn n (List.map fst (Spec.elems (self w))) /\ log w' = log w)
       (fun _ : world K V T => False) w.
Proof. exact (fun K V T => @drain_exposes_stored K V T). Qed.
Print Assumptions C12_drain_exposes_stored.

(* Set::get is get_key_value by definition, so C12_get_key_value_lawful at
   V := unit is the statement about Set::get: it returns the slot of the STORED
   element *)
Theorem C12_s_get_is_get_key_value :
  forall (K Q T : Type) (E : env K unit Q T) (q : Q), s_get E q = get_key_value E q.
Proof. exact (fun K Q T E q => s_get_is_get_key_value E q). Qed.
Print Assumptions C12_s_get_is_get_key_value.

Theorem C12_s_get_lawful :
  forall (K Q T : Type) (E : env K unit Q T) (ck : K -> N) (cq : Q -> N) (HL : Lawful E ck cq)
         (q : Q) (w : world K unit T),
    WF (self w) ->
    wp (s_get E q)
       (fun (r : option nat) (w' : world K unit T) =>
          stable w w' /\ r = find_idx ck (cq q) (Spec.elems (self w)))
       (fun _ : world K unit T => False) w.
Proof. exact (fun K Q T E ck cq HL => s_get_lawful E ck cq HL). Qed.
Print Assumptions C12_s_get_lawful.

(* ---------------------------------------------------------------------- *)
(* Finding 10.  All histories over keys that compare equal yet are          *)
(* distinguishable.  Dict.run_refines / SetDict.srun_refines: for EVERY     *)
(* list of operations, the list of results of the container equals the list *)
(* of results of the ideal dictionary / set, whose states are lists of key  *)
(* OBJECTS (K is an arbitrary type; results RVal / RPair / SElem carry the  *)
(* objects), so the equality of result lists is an equality of objects.     *)
(* The policy is in the ideal step functions:                               *)
(*   Dict.dstep, clause DInsert k v / DCheckedInsert k v on a present class: *)
(*     `d_set d (ck k) (fun p => (fst p, v))` — keeps the FIRST (stored) key *)
(*     object `fst p`, the supplied k does not enter the state;              *)
(*   clause DInsertKV k v: `(RPair (k0, v0), d_set d (ck k) (fun _ => (k, v)))` *)
(*     — stores the supplied k and returns the old pair with the old object; *)
(*   clauses DGetKV / DRemoveEntry return `RPair p` with p the stored pair;  *)
(*   SetDict.fstep: SoInsert on a present class returns (SBool false, s)     *)
(*     unchanged; SoReplace k returns SElem k0 and maps k0 to k; SoGet /      *)
(*     SoTake return SElem k0, the stored object.                            *)
(* Hypotheses: Abs ck (self w) d — the container is well-formed, its keys    *)
(* have pairwise different classes, and its content is a permutation of d;   *)
(* n is its capacity.  (Abs_new: a fresh container abstracts to [].)         *)
(* ---------------------------------------------------------------------- *)
Theorem C12_run_refines :
  forall (K V Q T : Type) (E : env K V Q T) (debug : bool) (ck : K -> N) (cq : Q -> N)
         (HL : Lawful E ck cq) (n : nat) (ops : list (@dop K V Q)) (w : world K V T)
         (d : list (K * V)),
    Abs ck (self w) d -> cap (self w) = n ->
    mrun E debug ops w = drun ck cq n ops d.
Proof. exact (fun K V Q T E debug ck cq HL => run_refines E debug ck cq HL). Qed.
Print Assumptions C12_run_refines.

Theorem C12_srun_refines :
  forall (K Q T : Type) (E : env K unit Q T) (debug : bool) (ck : K -> N) (cq : Q -> N)
         (HL : Lawful E ck cq) (n : nat) (ops : list (@sop K Q)) (w : world K unit T)
         (s : list K),
    SAbs ck (self w) s -> cap (self w) = n ->
    smrun E debug ops w = fsrun ck cq n ops s.
Proof. exact (fun K Q T E debug ck cq HL => srun_refines E debug ck cq HL). Qed.
Print Assumptions C12_srun_refines.

(* A history over three equal-but-distinguishable keys of class 6 (objects 1,
   90, 92) on an empty map of capacity 2: insert K1; insert K90 (returns the
   old value, K1 stays); get_key_value exposes K1 with the new value;
   insert_key_value K92 hands back (K1, old value) and stores K92;
   get_key_value and remove_entry expose K92.  The container's results and the
   ideal dictionary's results are the same list. *)
Example C12_example_history :
  let sc0 := {| sc_adv := false; sc_seed := 0; sc_fk := 0; sc_fa := 0 |} in
  let ops : list (@dop key vobj query) :=
    [DInsert (k_ 1 6) (v_ 2 7); DInsert (k_ 90 6) (v_ 91 8); DGetKV (QCls 6);
     DInsertKV (k_ 92 6) (v_ 93 9); DGetKV (QCls 6); DRemoveEntry (QCls 6); DGetKV (QCls 6)] in
  let expected : list (@dres key vobj) :=
    [RNone; RVal (v_ 2 7); RPair (k_ 1 6, v_ 91 8);
     RPair (k_ 1 6, v_ 91 8); RPair (k_ 92 6, v_ 93 9); RPair (k_ 92 6, v_ 93 9); RNone] in
  mrun (env_map sc0) true ops (w_of (new_map 2)) = expected /\
  drun kcls qcls 2 ops [] = expected /\
  Abs kcls (self (w_of (new_map 2))) [] /\ cap (self (w_of (new_map 2))) = 2.
Proof.
  intros sc0 ops expected. split; [vm_compute; reflexivity|]. split; [vm_compute; reflexivity|].
  split; [apply Abs_new | reflexivity].
Qed.

(* the same for Set: insert K1; insert K90 (false, K1 stays); get exposes K1;
   replace K91 hands back K1 and stores K91; get and take expose K91 *)
Example C12_example_set_history :
  let sc0 := {| sc_adv := false; sc_seed := 0; sc_fk := 0; sc_fa := 0 |} in
  let w0 : world key unit cstate := {| cb := cs0; log := []; self := new_map 2 |} in
  let ops : list (@sop key query) :=
    [SoInsert (k_ 1 6); SoInsert (k_ 90 6); SoGet (QCls 6);
     SoReplace (k_ 91 6); SoGet (QCls 6); SoTake (QCls 6); SoGet (QCls 6)] in
  let expected : list (@sres key) :=
    [SBool true; SBool false; SElem (k_ 1 6); SElem (k_ 1 6); SElem (k_ 91 6); SElem (k_ 91 6); SNone] in
  smrun (env_set sc0) true ops w0 = expected /\
  fsrun kcls qcls 2 ops [] = expected /\
  SAbs kcls (self w0) [] /\ cap (self w0) = 2.
Proof.
  intros sc0 w0 ops expected. split; [vm_compute; reflexivity|]. split; [vm_compute; reflexivity|].
  split; [apply SAbs_new | reflexivity].
Qed.

(* ---------------------------------------------------------------------- *)
(* Finding 11.  "every insertion path": Extend, FromIterator, From<[_;N]>   *)
(* (all three run Bulk's extend_loop = `insert` item by item:               *)
(* C16_extend_loop_is_inserts) and serde.                                   *)
(*   l_extend ck N l items = Some res : inserting the items one by one into *)
(*   content l under capacity N succeeds with content res.                  *)
(*   bulk_view ck c start items : what class c maps to afterwards when it   *)
(*   mapped to `start` before: the key object is the one of `start` when     *)
(*   there is one, else `first_key ck c items` (the FIRST supplied key       *)
(*   object of that class); the value is the last supplied one.              *)
(* ---------------------------------------------------------------------- *)
Theorem C12_bulk_lookup_gen :
  forall (K V : Type) (ck : K -> N) (N0 : nat) (items l res : list (K * V)) (c : N),
    l_extend ck N0 l items = Some res ->
    lookup ck res c = bulk_view ck c (lookup ck l c) items.
Proof. exact (fun K V => @bulk_lookup_gen K V). Qed.
Print Assumptions C12_bulk_lookup_gen.

(* (both exits, including the overflow panic: C12_extend_keeps_first_key_both below)
   the key-object clause, spelled out, for the loop itself: hypotheses — the
   source iterator `nx` does not panic, lawful environment, well-formed
   container.  On normal return: a class that was stored keeps its key object;
   a new class gets the first supplied key object of that class. *)
Theorem C12_extend_keeps_first_key :
  forall (K V Q T : Type) (E : env K V Q T) (debug : bool) (ck : K -> N) (cq : Q -> N)
         (HL : Lawful E ck cq) (nx : T -> ans * T) (items : list (K * V)) (w : world K V T),
    (forall s : T, fst (nx s) <> Boom) ->
    WF (self w) ->
    wp (extend_loop E debug nx items)
       (fun (_ : unit) (w' : world K V T) =>
          (forall c : N,
              lookup ck (Spec.elems (self w')) c =
              bulk_view ck c (lookup ck (Spec.elems (self w)) c) items) /\
          (forall (c : N) (k0 : K) (v0 : V),
              lookup ck (Spec.elems (self w)) c = Some (k0, v0) ->
              exists v' : V, lookup ck (Spec.elems (self w')) c = Some (k0, v')) /\
          (forall (c : N) (k1 : K),
              lookup ck (Spec.elems (self w)) c = None ->
              first_key ck c items = Some k1 ->
              exists v' : V, lookup ck (Spec.elems (self w')) c = Some (k1, v')))
       (fun _ : world K V T => True) w.
Proof. exact (fun K V Q T E debug ck cq HL => extend_keeps_first_key E debug ck cq HL). Qed.
Print Assumptions C12_extend_keeps_first_key.

(* serde: the visitor decodes one entry at a time into FRESH objects (key
   identity id = next_id, value identity id+1) and passes them to Map::insert —
   the same `insert` as C12_insert_lawful (this is the definition, unfolded) *)
Theorem C12_visit_map_cons :
  forall (debug : bool) (sc : script) (k : key) (v : vobj) (rest : list (key * vobj)),
    visit_map debug sc ((k, v) :: rest) =
    (id <- get_next_id ;; bump_id (id + 2) ;;
     old <- insert (env_map sc) debug {| kid := id; kcls := kcls k |} {| vid := id + 1; vdat := vdat v |} ;;
     drop_opt_val (env_map sc) old ;;
     visit_map debug sc rest).
Proof. exact visit_map_cons. Qed.
Print Assumptions C12_visit_map_cons.

(* hence a decoded entry whose class is already stored (at slot j, as (k0, v0))
   keeps the stored key object k0; the decoded key object (identity next_id)
   and the old value are destroyed.  `honest sc`: truthful ==, no panics. *)
Theorem C12_visit_map_step_present :
  forall (debug : bool) (sc : script) (k : key) (v : vobj) (j : nat) (k0 : key) (v0 : vobj)
         (w : world key vobj cstate),
    honest sc -> WF (self w) ->
    find_idx kcls (kcls k) (Spec.elems (self w)) = Some j ->
    nth_error (Spec.elems (self w)) j = Some (k0, v0) ->
    wp (visit_map debug sc [(k, v)])
       (fun (_ : unit) (w' : world key vobj cstate) =>
          WF (self w') /\ cap (self w') = cap (self w) /\
          Spec.elems (self w') =
            upd (Spec.elems (self w)) j (k0, {| vid := next_id (cb w) + 1; vdat := vdat v |}) /\
          logged w w' [EvDrop (next_id (cb w)); EvDrop (vid v0)])
       (fun _ : world key vobj cstate => False) w.
Proof. exact visit_map_step_present. Qed.
Print Assumptions C12_visit_map_step_present.

(* ---------------------------------------------------------------------- *)
(* non-vacuity of the hypotheses above, and concrete runs                   *)
(* ---------------------------------------------------------------------- *)
Example C12_example_hyps2 :
  let sc0 := {| sc_adv := false; sc_seed := 0; sc_fk := 0; sc_fa := 0 |} in
  let a : map key unit := {| len := 2; slots := [Some (k_ 1 5, tt); Some (k_ 2 6, tt)] |} in
  honest sc0 /\ WF a /\ find_idx kcls (kcls (k_ 90 6)) (Spec.elems a) = Some 1 /\
  WF m3 /\ find_idx kcls (kcls (k_ 90 6)) (Spec.elems m3) = Some 1 /\
  nth_error (Spec.elems m3) 1 = Some (k_ 3 6, v_ 4 8) /\
  (forall s : cstate, fst (nx_none s) <> Boom) /\
  l_extend kcls 3 (Spec.elems m3) [(k_ 90 6, v_ 91 0)] = Some [(k_ 1 5, v_ 2 7); (k_ 3 6, v_ 91 0); (k_ 5 7, v_ 6 9)].
Proof.
  intros sc0 a. split; [split; reflexivity|].
  split.
  { split; [cbn; lia|]. intros i Hi. cbn [len a] in Hi. destruct i as [|[|i]]; try lia; eexists; reflexivity. }
  split; [reflexivity|]. split; [exact m3_WF|]. split; [reflexivity|]. split; [reflexivity|].
  split; [intros s; cbn; discriminate | reflexivity].
Qed.

(* Set::insert of an equal element destroys the supplied object (id 90);
   iteration over m3 after or_insert_with / and_modify / occ_insert with an equal
   key still yields the key objects 1, 3, 5; extend and serde keep object 3 *)
Example C12_example_runs2 :
  let sc0 := {| sc_adv := false; sc_seed := 0; sc_fk := 0; sc_fa := 0 |} in
  let E := env_map sc0 in
  let a : map key unit := {| len := 2; slots := [Some (k_ 1 5, tt); Some (k_ 2 6, tt)] |} in
  match s_insert (env_set sc0) true (k_ 90 6) {| cb := cs0; log := []; self := a |} with
  | Ok r w' => r = false /\ log w' = [EvDrop 90] /\ Spec.elems (self w') = [(k_ 1 5, tt); (k_ 2 6, tt)]
  | _ => False
  end /\
  match (e <- entry_of E (k_ 90 6) ;; _ <- or_insert_with E true e (mk_val sc0 (v_ 91 0)) ;;
         c <- iter ;; x <- iter_run 3 c ;; read_slots (fst x)) (w_of m3) with
  | Ok ps w' => List.map fst ps = [k_ 1 5; k_ 3 6; k_ 5 7] /\ log w' = [EvDrop 90]
  | _ => False
  end /\
  match (e <- entry_of E (k_ 90 6) ;; _ <- and_modify e (modf_add sc0) ;; into_run 3) (w_of m3) with
  | Ok ps w' => List.map fst ps = [k_ 5 7; k_ 3 6; k_ 1 5] /\ log w' = [EvDrop 90; EvCall 3]
  | _ => False
  end /\
  match (_ <- occ_insert 1 (v_ 91 0) ;; c <- drain ;; drain_run 3 c) (w_of m3) with
  | Ok r w' => List.map fst (fst r) = [k_ 1 5; k_ 3 6; k_ 5 7]
  | _ => False
  end /\
  match extend_loop E true nx_none [(k_ 90 6, v_ 91 0)] (w_of m3) with
  | Ok _ w' => Spec.elems (self w') = [(k_ 1 5, v_ 2 7); (k_ 3 6, v_ 91 0); (k_ 5 7, v_ 6 9)]
  | _ => False
  end /\
  match visit_map true sc0 [(k_ 90 6, v_ 91 0)] (w_of m3) with
  | Ok _ w' => Spec.elems (self w') = [(k_ 1 5, v_ 2 7); (k_ 3 6, v_ 100001 0); (k_ 5 7, v_ 6 9)] /\
               log w' = [EvDrop 100000; EvDrop 4]
  | _ => False
  end.
Proof. vm_compute. repeat split; reflexivity. Qed.

(* ========================================================================
   SECOND AUDIT CLOSURE (Proofs/MoreEntry.v section 11, Proofs/MoreEq.v,
   Proofs/Dict2.v)

   (5) insert_unchecked as an insertion path;  (6) the history-level theorem
   over the EXTENDED operation set (entry, drain, iteration, extend);
   (7) Extend with its overflow exit;  (8) the serde visitor as a whole.
   ======================================================================== *)
Require Import Proofs.MoreEq Proofs.MoreBulk.

(* ---------------------------------------------------------------------- *)
(* Finding 5.  insert_unchecked.  Within its contract (the map is not full, *)
(* or a key of k's class is already stored) it IS Map::insert: the two       *)
(* computations are equal as functions of the world (same outcome, result,   *)
(* container, log, callback state), hence it keeps the stored key object and *)
(* destroys the supplied one exactly like C12_insert_lawful; it cannot panic. *)
(* ---------------------------------------------------------------------- *)

Theorem C12_insert_unchecked_eq_insert_contract :
  forall (K V Q T : Type) (E : env K V Q T) (debug : bool) (ck : K -> N) (cq : Q -> N),
  Lawful E ck cq ->
  forall (k : K) (v : V) (w : world K V T),
  WF (self w) ->
  len (self w) < cap (self w) \/ (exists i : nat, find_idx ck (ck k) (Spec.elems (self w)) = Some i) ->
  insert_unchecked E debug k v w = insert E debug k v w.
Proof. exact (@insert_unchecked_eq_insert_contract). Qed.
Print Assumptions C12_insert_unchecked_eq_insert_contract.

Theorem C12_insert_unchecked_spec :
  forall (K V Q T : Type) (E : env K V Q T) (debug : bool) (ck : K -> N) (cq : Q -> N),
  Lawful E ck cq ->
  forall (k : K) (v : V) (w : world K V T),
  WF (self w) ->
  len (self w) < cap (self w) \/ (exists i : nat, find_idx ck (ck k) (Spec.elems (self w)) = Some i) ->
  wp (insert_unchecked E debug k v)
    (fun (r : option V) (w' : world K V T) =>
     WF (self w') /\
     cap (self w') = cap (self w) /\
     Spec.elems (self w') = fst (fst (l_insert ck (Spec.elems (self w)) k v false)) /\
     r = option_map snd (snd (l_insert ck (Spec.elems (self w)) k v false)) /\
     logged w w'
       match snd (l_insert ck (Spec.elems (self w)) k v false) with
       | Some (k', _) => ev_drops (idK E k')
       | None => []
       end) (fun _ : world K V T => False) w.
Proof. exact (@insert_unchecked_spec). Qed.
Print Assumptions C12_insert_unchecked_spec.


(* ---------------------------------------------------------------------- *)
(* Finding 6.  All histories over the EXTENDED operation set of Dict2: the   *)
(* 13 map operations (DBase), drain (DDrain), whole-container iteration      *)
(* (DIterAll), entry(k).or_insert(v) (DOrInsert) and extend (DExtend).       *)
(* The ideal dictionary's states d, df are lists of (key OBJECT, value); the *)
(* results RItems / RBase (RPair ..) carry the objects, so `druns2 ... (mrun2 *)
(* ... )` — the container's results are the results of a run of the ideal     *)
(* dictionary — is a statement about object identity.  The clauses of         *)
(* Dict2.dstep2 that fix the key policy: DOrInsert k v on a present class:    *)
(* `r = RValOf v0 /\ d' = d` (the state, hence the stored key object, is      *)
(* unchanged; the supplied k does not enter it); DExtend: d_extend = the fold *)
(* of DInsert (first key object kept); DIterAll / DDrain: the items are a     *)
(* permutation of the state itself (the stored objects); DBase o: Dict.dstep  *)
(* (see C12_run_refines).  Abs ck m d: m is well formed, its keys have        *)
(* pairwise different classes and its content is a permutation of d.          *)
(* ---------------------------------------------------------------------- *)

Theorem C12_run2_refines :
  forall (K V Q T : Type) (E : env K V Q T) (debug : bool) (ck : K -> N) (cq : Q -> N),
  Lawful E ck cq ->
  forall (n : nat) (ops : list (@dop2 K V Q)) (w : world K V T) (d : list (K * V)),
  Abs ck (self w) d ->
  cap (self w) = n ->
  exists (wf : world K V T) (df : list (K * V)),
    mfinal2 E debug ops w = Some wf /\
    druns2 ck cq n ops d (mrun2 E debug ops w) df /\ Abs ck (self wf) df /\ cap (self wf) = n.
Proof. exact (@run2_refines). Qed.
Print Assumptions C12_run2_refines.

Theorem C12_run2_refines_new :
  forall (K V Q T : Type) (E : env K V Q T) (debug : bool) (ck : K -> N) (cq : Q -> N),
  Lawful E ck cq ->
  forall (n : nat) (ops : list (@dop2 K V Q)) (s : T) (lg : list event),
  let w0 := {| cb := s; log := lg; self := new_map n |} in
  exists (wf : world K V T) (df : list (K * V)),
    mfinal2 E debug ops w0 = Some wf /\
    druns2 ck cq n ops [] (mrun2 E debug ops w0) df /\ Abs ck (self wf) df /\ cap (self wf) = n.
Proof. exact (@run2_refines_new). Qed.
Print Assumptions C12_run2_refines_new.


(* ---------------------------------------------------------------------- *)
(* Finding 7.  Extend / FromIterator / From<[_;N]> on BOTH exits.            *)
(* bulk_keys ck l l' items (C12_bulk_keys_def): class by class, l' maps c to  *)
(* bulk_view of what l mapped it to; a class stored in l keeps its key        *)
(* OBJECT; a new class gets the first supplied key object of that class.      *)
(* Overflow panic: items = pre ++ x :: post where x is of a new class and the *)
(* container is full; the container then holds exactly what inserting `pre`   *)
(* built (bulk_keys ... pre): nothing stored before lost its key object.      *)
(* ---------------------------------------------------------------------- *)

Theorem C12_bulk_keys_def :
  forall (K V : Type) (ck : K -> N) (l l' items : list (K * V)),
  bulk_keys ck l l' items <->
  (forall c : N, lookup ck l' c = bulk_view ck c (lookup ck l c) items) /\
  (forall (c : N) (k0 : K) (v0 : V),
   lookup ck l c = Some (k0, v0) -> exists v' : V, lookup ck l' c = Some (k0, v')) /\
  (forall (c : N) (k1 : K),
   lookup ck l c = None ->
   first_key ck c items = Some k1 -> exists v' : V, lookup ck l' c = Some (k1, v')).
Proof. exact (@bulk_keys_def). Qed.
Print Assumptions C12_bulk_keys_def.

Theorem C12_extend_keeps_first_key_both :
  forall (K V Q T : Type) (E : env K V Q T) (debug : bool) (ck : K -> N) (cq : Q -> N),
  Lawful E ck cq ->
  forall (nx : T -> ans * T) (items : list (K * V)) (w : world K V T),
  (forall s : T, fst (nx s) <> Boom) ->
  WF (self w) ->
  wp (extend_loop E debug nx items)
    (fun (_ : unit) (w' : world K V T) =>
     WF (self w') /\
     cap (self w') = cap (self w) /\ bulk_keys ck (Spec.elems (self w)) (Spec.elems (self w')) items)
    (fun w' : world K V T =>
     WF (self w') /\
     cap (self w') = cap (self w) /\
     (exists (pre : list (K * V)) (x : K * V) (post : list (K * V)),
        items = pre ++ x :: post /\
        bulk_keys ck (Spec.elems (self w)) (Spec.elems (self w')) pre /\
        find_idx ck (ck (fst x)) (Spec.elems (self w')) = None /\ length (Spec.elems (self w')) = cap (self w))) w.
Proof. exact (@extend_keeps_first_key_both). Qed.
Print Assumptions C12_extend_keeps_first_key_both.


(* ---------------------------------------------------------------------- *)
(* Finding 8.  serde, the WHOLE visitor, ANY item list (repeated classes and *)
(* classes already stored included).  decode id items (C12_decode_def): the   *)
(* entries the deserializer creates — fresh key object id + 2i, fresh value    *)
(* object id + 2i + 1, class and payload of the i-th item.  The visitor is    *)
(* the item-by-item insertion l_extend of the decoded entries (first key      *)
(* object kept, last value wins: C12_bulk_lookup_gen), it allocates exactly    *)
(* two identities per item, and it panics exactly when l_extend overflows.    *)
(* `honest sc`: truthful ==, no panicking callback.                           *)
(* ---------------------------------------------------------------------- *)

Theorem C12_decode_def :
  forall (id : N) (items : list (key * vobj)),
  decode id items =
  match items with
  | [] => []
  | (k, v) :: rest =>
      ({| kid := id; kcls := kcls k |}, {| vid := id + 1; vdat := vdat v |}) :: decode (id + 2) rest
  end.
Proof. exact (@decode_def). Qed.
Print Assumptions C12_decode_def.

Theorem C12_visit_map_is_extend :
  forall (debug : bool) (sc : script) (items : list (key * vobj)),
  honest sc ->
  forall w : world key vobj cstate,
  WF (self w) ->
  wp (visit_map debug sc items)
    (fun (_ : unit) (w' : world key vobj cstate) =>
     WF (self w') /\
     cap (self w') = cap (self w) /\
     l_extend kcls (cap (self w)) (Spec.elems (self w)) (decode (next_id (cb w)) items) =
     Some (Spec.elems (self w')) /\ next_id (cb w') = (next_id (cb w) + 2 * N.of_nat (length items))%N)
    (fun _ : world key vobj cstate =>
     l_extend kcls (cap (self w)) (Spec.elems (self w)) (decode (next_id (cb w)) items) = None) w.
Proof. exact (@visit_map_is_extend). Qed.
Print Assumptions C12_visit_map_is_extend.

Theorem C12_visit_map_keys :
  forall (debug : bool) (sc : script) (items : list (key * vobj)) (w : world key vobj cstate),
  honest sc ->
  WF (self w) ->
  wp (visit_map debug sc items)
    (fun (_ : unit) (w' : world key vobj cstate) =>
     bulk_keys kcls (Spec.elems (self w)) (Spec.elems (self w')) (decode (next_id (cb w)) items))
    (fun _ : world key vobj cstate => True) w.
Proof. exact (@visit_map_keys). Qed.
Print Assumptions C12_visit_map_keys.

(* ---------------------------------------------------------------------- *)
(* non-vacuity: concrete runs                                               *)
(* ---------------------------------------------------------------------- *)

(* insert_unchecked with an equal key on the full map m3: the same world as
   insert; serde of three entries, two of class 6 (already stored as K3) and one
   new class 9, into m = m3 + one spare slot: K3 keeps its place with the LAST
   decoded value of class 6 (object 100005), class 9 gets the first decoded key
   object of that class (100002); decoded keys 100000, 100004 and the replaced
   values are destroyed; extend that overflows keeps what the prefix built *)
Example C12_example_round2 :
  let sc0 := {| sc_adv := false; sc_seed := 0; sc_fk := 0; sc_fa := 0 |} in
  let E := env_map sc0 in
  let m : map key vobj := {| len := 3; slots := slots m3 ++ [None] |} in
  insert_unchecked E true (k_ 90 6) (v_ 91 0) (w_of m3) = insert E true (k_ 90 6) (v_ 91 0) (w_of m3) /\
  decode 100000 [(k_ 0 6, v_ 0 1); (k_ 0 9, v_ 0 2); (k_ 0 6, v_ 0 3)] =
    [(k_ 100000 6, v_ 100001 1); (k_ 100002 9, v_ 100003 2); (k_ 100004 6, v_ 100005 3)] /\
  match visit_map true sc0 [(k_ 0 6, v_ 0 1); (k_ 0 9, v_ 0 2); (k_ 0 6, v_ 0 3)] (w_of m) with
  | Ok _ w' => Spec.elems (self w') =
                 [(k_ 1 5, v_ 2 7); (k_ 3 6, v_ 100005 3); (k_ 5 7, v_ 6 9); (k_ 100002 9, v_ 100003 2)] /\
               log w' = [EvDrop 100000; EvDrop 4; EvDrop 100004; EvDrop 100001]
  | _ => False
  end /\
  match extend_loop E true nx_none [(k_ 90 6, v_ 91 0); (k_ 92 9, v_ 93 0); (k_ 94 6, v_ 95 0)] (w_of m3) with
  | Panic w' => Spec.elems (self w') = [(k_ 1 5, v_ 2 7); (k_ 3 6, v_ 91 0); (k_ 5 7, v_ 6 9)]
  | _ => False
  end.
Proof. vm_compute. repeat split; reflexivity. Qed.

(* a history over the extended operation set with equal-but-distinguishable
   keys: insert K1; entry(K90).or_insert keeps K1; extend [K92] keeps K1 with
   the new value; iteration exposes K1 *)
Example C12_example_history2 :
  let sc0 := {| sc_adv := false; sc_seed := 0; sc_fk := 0; sc_fa := 0 |} in
  let ops : list (@dop2 key vobj query) :=
    [DBase (DInsert (k_ 1 6) (v_ 2 7)); DOrInsert (k_ 90 6) (v_ 91 8);
     DExtend [(k_ 92 6, v_ 93 9)]; DIterAll] in
  mrun2 (env_map sc0) true ops {| cb := cs0; log := []; self := new_map 2 |} =
    [RBase RNone; RValOf (v_ 2 7); RBase RUnit; RItems [(k_ 1 6, v_ 93 9)]].
Proof. vm_compute. reflexivity. Qed.

(* ------------------------------------------------------------------------
   The stored-key rules for ANY operand-determined == (Proofs/PureEq.v,
   Proofs/PureEqSet.v; [Related E ck cq R], R an arbitrary relation on classes):
   which OBJECT stays in the container does not depend on == being lawful --
   insert keeps the stored key and destroys the supplied one, replace stores the
   supplied key and hands the old one back; "the same key" means the first
   stored key related to the supplied one.
   ------------------------------------------------------------------------ *)
Require Import Proofs.PureEq Proofs.PureEqSet.

Theorem C12_map_insert_keeps_stored_key_any_relation :
  forall (K V Q T : Type) (E : env K V Q T) (debug : bool) (ck : K -> N) (cq : Q -> N) (R : N -> N -> bool)
         (HR : Related E ck cq R) (k : K) (v : V) (w : world K V T),
    WF (self w) ->
    wp (insert E debug k v)
       (fun (r : option V) (w' : world K V T) =>
          WF (self w') /\ cap (self w') = cap (self w) /\
          match find_rel ck R (ck k) (Spec.elems (self w)) with
          | Some i => exists k0 v0, nth_error (Spec.elems (self w)) i = Some (k0, v0) /\ R (ck k0) (ck k) = true /\
                        r = Some v0 /\ Spec.elems (self w') = upd (Spec.elems (self w)) i (k0, v) /\
                        logged w w' (ev_drops (idK E k))
          | None => len (self w) < cap (self w) /\ r = None /\
                    Spec.elems (self w') = Spec.elems (self w) ++ [(k, v)] /\ log w' = log w
          end)
       (fun w' : world K V T =>
          self w' = self w /\ logged w w' (ev_drops (idV E v ++ idK E k)) /\
          find_rel ck R (ck k) (Spec.elems (self w)) = None /\ len (self w) = cap (self w)) w.
Proof. exact (fun K V Q T E debug ck cq R HR => insert_rel_cases E debug ck cq R HR). Qed.
Print Assumptions C12_map_insert_keeps_stored_key_any_relation.

Theorem C12_set_insert_keeps_stored_key_any_relation :
  forall (K Q T : Type) (E : env K unit Q T) (debug : bool) (ck : K -> N) (cq : Q -> N) (R : N -> N -> bool)
         (HR : Related E ck cq R) (k : K) (w : world K unit T),
    WF (self w) ->
    wp (s_insert E debug k)
       (fun (r : bool) (w' : world K unit T) =>
          WF (self w') /\ cap (self w') = cap (self w) /\
          Spec.elems (self w') = fst (fst (l_insert_rel ck R (Spec.elems (self w)) k tt false)) /\
          match find_rel ck R (ck k) (Spec.elems (self w)) with
          | Some i => r = false /\ Spec.elems (self w') = Spec.elems (self w) /\
                      (exists k0, nth_error (Spec.elems (self w)) i = Some (k0, tt) /\ R (ck k0) (ck k) = true) /\
                      logged w w' (ev_drops (idK E k))
          | None => r = true /\ len (self w) < cap (self w) /\
                    Spec.elems (self w') = Spec.elems (self w) ++ [(k, tt)] /\ log w' = log w
          end)
       (fun w' : world K unit T =>
          self w' = self w /\ logged w w' (ev_drops (idV E tt ++ idK E k)) /\
          find_rel ck R (ck k) (Spec.elems (self w)) = None /\ len (self w) = cap (self w)) w.
Proof. exact (fun K Q T E debug ck cq R HR => set_insert_rel E debug ck cq R HR). Qed.
Print Assumptions C12_set_insert_keeps_stored_key_any_relation.

Theorem C12_set_replace_swaps_any_relation :
  forall (K Q T : Type) (E : env K unit Q T) (debug : bool) (ck : K -> N) (cq : Q -> N) (R : N -> N -> bool)
         (HR : Related E ck cq R) (k : K) (w : world K unit T),
    WF (self w) ->
    wp (s_replace E debug k)
       (fun (r : option K) (w' : world K unit T) =>
          WF (self w') /\ cap (self w') = cap (self w) /\ log w' = log w /\
          match find_rel ck R (ck k) (Spec.elems (self w)) with
          | Some i => exists k0, nth_error (Spec.elems (self w)) i = Some (k0, tt) /\ R (ck k0) (ck k) = true /\
                        r = Some k0 /\ Spec.elems (self w') = upd (Spec.elems (self w)) i (k, tt)
          | None => r = None /\ len (self w) < cap (self w) /\
                    Spec.elems (self w') = Spec.elems (self w) ++ [(k, tt)]
          end)
       (fun w' : world K unit T =>
          self w' = self w /\ logged w w' (ev_drops (idV E tt ++ idK E k)) /\
          find_rel ck R (ck k) (Spec.elems (self w)) = None /\ len (self w) = cap (self w)) w.
Proof. exact (fun K Q T E debug ck cq R HR => set_replace_rel E debug ck cq R HR). Qed.
Print Assumptions C12_set_replace_swaps_any_relation.
