(* ========================================================================
   C08  Set algebra yields exactly the mathematical result, without repeats

   STATEMENT (properties.jsonl):
     "For any two sets of any capacities and internal orders, union,
      intersection, difference, symmetric_difference, difference_ref and the
      '-' operator yield exactly the mathematical result with no element
      repeated, is_subset, is_superset and is_disjoint return the mathematical
      truth value, the operands are left unchanged, and intersection and
      difference yield references to the left operand's own elements. At every
      stage of consumption each lazy iterator's size_hint brackets the number
      of items it will still yield, and fold gives the same result as stepping
      with next."
   QUANTIFIER:
     "all pairs of sets (all subsets of a universe in all internal orders, all
      capacity pairs, including empty and equal sets) and every prefix length
      of consumption"

   VOCABULARY
     a, b : map K unit     the two operands (Set<T,N> is a wrapper of Map<T,(),N>);
                           they are PARAMETERS of the model functions (shared
                           borrows), so no model function can change them.
     E                     the user callbacks; `Lawful E ck cq` = "== is equality
                           of the classes ck/cq and never panics, Drop never panics".
     WF a                  len a <= cap a and slots [0,len a) initialised.
     Spec.elems a          the stored items of a, in slot order.
     Uniq ck l             no two items of l have the same class (a set holds
                           no two equal items).
     mem ck b k            "b holds an item equal to k" (pure).
     sel ck a b want lo n  the slots i in [lo, lo+n) of a with (mem b a[i]) = want.
     cursor (lo,hi)        state of a borrowing iterator: still to visit [lo,hi).
     chain                 core::iter::Chain of two cursors; items of the chained
                           adaptors are tagged (false,i)/(true,i) = slot i of the
                           first/second operand of the chain.
     filter_run/union_run/symdiff_run (defined in Proofs/Algebra*.v, NOT in the
                           model): "call next() `fuel` times, collect the items".
     stable w w'           self w' = self w /\ log w' = log w: the surrounding
                           container and the event log (drops, clones) untouched.
     Every wp below has panic-postcondition False: no panic, and (by the
     definition of wp) no UB.

   READING GUIDE (clause -> theorem)
   * difference / difference_ref / intersection yield exactly the mathematical
     result, nothing repeated, as references to the LEFT operand's own items:
       C08_contains_in_lawful        other.contains(item) is `mem`
       C08_filter_next_lawful        one next(): first matching slot of a, new cursor
       C08_filter_run_lawful         stepping to exhaustion yields exactly sel ... (slots OF a)
       C08_filter_run_steps          every prefix length j of consumption: firstn j
       C08_sel_elems                 those slots hold exactly filter (mem b = want) (elems a)
       C08_difference_spec, C08_intersection_spec
                                     that filter is duplicate-free and is {x in a | x notin/in b}
       C08_difference_lawful (extra) the constructor returns the cursor (0, len a)
     (difference_ref is the same adaptor in the crate; the model has one.)
   * union / symmetric_difference:
       C08_union_lawful, C08_symdiff_lawful (extra: constructors return union_init/symdiff_init)
       C08_union_run_lawful, C08_symdiff_run_lawful   items yielded when stepping to exhaustion
       C08_union_elems, C08_symdiff_elems             the pairs those items designate
       C08_union_spec, C08_symdiff_spec               duplicate-free; classes = a U b / a (+) b
     (union_items/symdiff_items unfold to the expression written in
      C08_union_run_lawful / C08_symdiff_run_lawful.)
   * the '-' operator:  C08_set_sub_lawful  (result set = clones of a \ b in
     order, one clone per item, capacity of the left operand).
   * is_subset / is_superset / is_disjoint return the mathematical truth value:
       C08_is_subset_lawful + C08_subset_truth, C08_is_superset_lawful (+ subset_truth
       with the operands exchanged), C08_is_disjoint_lawful + C08_disjoint_truth.
   * operands unchanged: a and b are parameters of pure functions and are not
     returned; `stable w w'` in every theorem says nothing else is touched.
   * size_hint brackets the number of items still to come, at every stage:
       C08_diff_hint_brackets, C08_inter_hint_brackets, C08_union_hint_brackets,
       C08_symdiff_hint_brackets — for EVERY cursor/chain inside the operand
       (hypotheses fst c <= snd c <= len a, chain_ok); the bracketed number is
       the length of the list the *_run_lawful theorems say will be yielded.
   * fold gives the same result as stepping with next:
       C08_filter_fold_lawful, C08_diff_run_is_fold, C08_inter_run_is_fold,
       C08_union_fold_lawful, C08_symdiff_fold_lawful, C08_union_run_is_fold,
       C08_symdiff_run_is_fold (from every cursor/chain, i.e. also after a prefix
       has been consumed).

   PARTLY / NOT COVERED BY A THEOREM (left to the correspondence check)
   * "every stage of consumption": the theorems quantify over all cursors /
     chains satisfying the range hypotheses.  That the states reached by
     repeated next() satisfy them follows from the `snd r = ...` clause of
     C08_filter_next_lawful for Difference/Intersection, but for Union /
     SymmetricDifference the preservation of chain_ok is proved only in
     Safety3 (union_next_frame / symdiff_next_frame, every environment) and is
     not restated here.
   * `mem`, "mathematical result" and Uniq are all relative to the class
     function ck: for a lawful == this is ordinary set membership.
   * Everything here assumes `Lawful E ck cq`; what happens with unlawful
     ==/panicking callbacks is C17/C04 (Safety3: memory safety only).
   * That the Rust iterators are the state machines of Model/SetOps.v (e.g.
     that Union really is other.iter().chain(self.difference(other))) is the
     correspondence check's business.
   ======================================================================== *)
Require Import Model.Base Model.Slots Model.MapOps Model.SetOps Model.Exec.
Require Import Proofs.Hoare Proofs.Inv Proofs.Safety3 Proofs.Spec Proofs.Lawful
               Proofs.Algebra Proofs.Algebra2 Proofs.FmtSerde.
From Coq Require Import Permutation.

(* ---------------------------------------------------------------------- *)
(* Difference / Intersection                                               *)
(* ---------------------------------------------------------------------- *)

Theorem C08_contains_in_lawful :
  forall (K Q T : Type) (E : env K unit Q T) (ck : K -> N) (cq : Q -> N) (HL : Lawful E ck cq)
         (b : map K unit) (k : K) (w : world K unit T),
    WF b ->
    wp (contains_in E b k)
       (fun (r : bool) (w' : world K unit T) => stable w w' /\ r = mem ck b k)
       (fun _ : world K unit T => False) w.
Proof. exact (fun K Q T E ck cq HL => contains_in_lawful E ck cq HL). Qed.
Print Assumptions C08_contains_in_lawful.

Theorem C08_filter_fold_lawful :
  forall (K Q T : Type) (E : env K unit Q T) (ck : K -> N) (cq : Q -> N) (HL : Lawful E ck cq)
         (a b : map K unit) (want : bool) (n lo : nat) (acc : list nat) (w : world K unit T),
    WF a -> WF b -> lo + n <= len a ->
    wp (filter_fold E a b want n lo acc)
       (fun (r : list nat) (w' : world K unit T) => stable w w' /\ r = acc ++ sel ck a b want lo n)
       (fun _ : world K unit T => False) w.
Proof. exact (fun K Q T E ck cq HL => filter_fold_lawful E ck cq HL). Qed.
Print Assumptions C08_filter_fold_lawful.

Theorem C08_filter_next_lawful :
  forall (K Q T : Type) (E : env K unit Q T) (ck : K -> N) (cq : Q -> N) (HL : Lawful E ck cq)
         (a b : map K unit) (want : bool) (n lo : nat) (w : world K unit T),
    WF a -> WF b -> lo + n <= len a ->
    wp (filter_next E a b want n lo)
       (fun (r : option nat * cursor) (w' : world K unit T) =>
          stable w w' /\
          fst r = hd_error (sel ck a b want lo n) /\
          snd r = match hd_error (sel ck a b want lo n) with
                  | Some i => (S i, lo + n)
                  | None => (lo + n, lo + n)
                  end)
       (fun _ : world K unit T => False) w.
Proof. exact (fun K Q T E ck cq HL => filter_next_lawful E ck cq HL). Qed.
Print Assumptions C08_filter_next_lawful.

Theorem C08_filter_run_lawful :
  forall (K Q T : Type) (E : env K unit Q T) (ck : K -> N) (cq : Q -> N) (HL : Lawful E ck cq)
         (a b : map K unit) (want : bool) (c : cursor) (w : world K unit T),
    WF a -> WF b -> fst c <= snd c -> snd c <= len a ->
    wp (filter_run E a b want (S (cursor_len c)) c)
       (fun (r : list nat) (w' : world K unit T) =>
          stable w w' /\ r = sel ck a b want (fst c) (cursor_len c))
       (fun _ : world K unit T => False) w.
Proof. exact (fun K Q T E ck cq HL => filter_run_lawful E ck cq HL). Qed.
Print Assumptions C08_filter_run_lawful.

Theorem C08_filter_run_steps :
  forall (K Q T : Type) (E : env K unit Q T) (ck : K -> N) (cq : Q -> N) (HL : Lawful E ck cq)
         (a b : map K unit) (want : bool) (j : nat) (c : cursor) (w : world K unit T),
    WF a -> WF b -> fst c <= snd c -> snd c <= len a ->
    wp (filter_run E a b want j c)
       (fun (r : list nat) (w' : world K unit T) =>
          stable w w' /\ r = firstn j (sel ck a b want (fst c) (cursor_len c)))
       (fun _ : world K unit T => False) w.
Proof. exact (fun K Q T E ck cq HL => filter_run_steps E ck cq HL). Qed.
Print Assumptions C08_filter_run_steps.

Theorem C08_sel_elems :
  forall (K : Type) (ck : K -> N) (a b : map K unit) (want : bool),
    WF a ->
    List.map (fun i : nat => nth_error (Spec.elems a) i) (sel ck a b want 0 (len a)) =
    List.map Some (filter (fun p : K * unit => Bool.eqb (mem ck b (fst p)) want) (Spec.elems a)).
Proof. exact (fun K ck => sel_elems ck). Qed.
Print Assumptions C08_sel_elems.

Theorem C08_difference_spec :
  forall (K : Type) (ck : K -> N) (a b : map K unit),
    WF a -> Uniq ck (Spec.elems a) ->
    let res := filter (fun p : K * unit => negb (mem ck b (fst p))) (Spec.elems a) in
    Uniq ck res /\
    (forall p : K * unit, In p res <-> In p (Spec.elems a) /\ mem ck b (fst p) = false).
Proof. exact (fun K ck => difference_spec ck). Qed.
Print Assumptions C08_difference_spec.

Theorem C08_intersection_spec :
  forall (K : Type) (ck : K -> N) (a b : map K unit),
    WF a -> Uniq ck (Spec.elems a) ->
    let res := filter (fun p : K * unit => mem ck b (fst p)) (Spec.elems a) in
    Uniq ck res /\
    (forall p : K * unit, In p res <-> In p (Spec.elems a) /\ mem ck b (fst p) = true).
Proof. exact (fun K ck => intersection_spec ck). Qed.
Print Assumptions C08_intersection_spec.

Theorem C08_diff_hint_brackets :
  forall (K : Type) (ck : K -> N) (a b : map K unit) (c : cursor),
    WF a -> WF b -> Uniq ck (Spec.elems a) -> Uniq ck (Spec.elems b) ->
    fst c <= snd c -> snd c <= len a ->
    fst (diff_size_hint b c) <= length (sel ck a b false (fst c) (cursor_len c))
                             <= snd (diff_size_hint b c).
Proof. exact (fun K ck => diff_hint_brackets ck). Qed.
Print Assumptions C08_diff_hint_brackets.

Theorem C08_inter_hint_brackets :
  forall (K : Type) (ck : K -> N) (a b : map K unit) (c : cursor),
    WF a -> WF b -> Uniq ck (Spec.elems a) -> Uniq ck (Spec.elems b) ->
    fst c <= snd c -> snd c <= len a ->
    fst (inter_size_hint b c) <= length (sel ck a b true (fst c) (cursor_len c))
                              <= snd (inter_size_hint b c).
Proof. exact (fun K ck => inter_hint_brackets ck). Qed.
Print Assumptions C08_inter_hint_brackets.

Theorem C08_diff_run_is_fold :
  forall (K Q T : Type) (E : env K unit Q T) (ck : K -> N) (cq : Q -> N) (HL : Lawful E ck cq)
         (a b : map K unit) (c : cursor) (w1 w2 : world K unit T),
    WF a -> WF b -> fst c <= snd c -> snd c <= len a ->
    wp (filter_run E a b false (S (cursor_len c)) c)
       (fun (r : list nat) (_ : world K unit T) =>
          wp (diff_fold E a b c [])
             (fun (r' : list nat) (_ : world K unit T) => r' = r)
             (fun _ : world K unit T => False) w2)
       (fun _ : world K unit T => False) w1.
Proof. exact (fun K Q T E ck cq HL => diff_run_is_fold E ck cq HL). Qed.
Print Assumptions C08_diff_run_is_fold.

Theorem C08_inter_run_is_fold :
  forall (K Q T : Type) (E : env K unit Q T) (ck : K -> N) (cq : Q -> N) (HL : Lawful E ck cq)
         (a b : map K unit) (c : cursor) (w1 w2 : world K unit T),
    WF a -> WF b -> fst c <= snd c -> snd c <= len a ->
    wp (filter_run E a b true (S (cursor_len c)) c)
       (fun (r : list nat) (_ : world K unit T) =>
          wp (inter_fold E a b c [])
             (fun (r' : list nat) (_ : world K unit T) => r' = r)
             (fun _ : world K unit T => False) w2)
       (fun _ : world K unit T => False) w1.
Proof. exact (fun K Q T E ck cq HL => inter_run_is_fold E ck cq HL). Qed.
Print Assumptions C08_inter_run_is_fold.

(* ---------------------------------------------------------------------- *)
(* is_subset / is_superset / is_disjoint                                   *)
(* ---------------------------------------------------------------------- *)

Theorem C08_is_subset_lawful :
  forall (K Q T : Type) (E : env K unit Q T) (ck : K -> N) (cq : Q -> N) (HL : Lawful E ck cq)
         (a b : map K unit) (w : world K unit T),
    WF a -> WF b ->
    wp (is_subset E a b)
       (fun (r : bool) (w' : world K unit T) =>
          stable w w' /\
          r = (len a <=? len b) && forallb (fun p : K * unit => mem ck b (fst p)) (Spec.elems a))
       (fun _ : world K unit T => False) w.
Proof. exact (fun K Q T E ck cq HL => is_subset_lawful E ck cq HL). Qed.
Print Assumptions C08_is_subset_lawful.

Theorem C08_is_disjoint_lawful :
  forall (K Q T : Type) (E : env K unit Q T) (ck : K -> N) (cq : Q -> N) (HL : Lawful E ck cq)
         (a b : map K unit) (w : world K unit T),
    WF a -> WF b ->
    wp (is_disjoint E a b)
       (fun (r : bool) (w' : world K unit T) =>
          stable w w' /\
          r = (if len a <=? len b
               then forallb (fun p : K * unit => negb (mem ck b (fst p))) (Spec.elems a)
               else forallb (fun p : K * unit => negb (mem ck a (fst p))) (Spec.elems b)))
       (fun _ : world K unit T => False) w.
Proof. exact (fun K Q T E ck cq HL => is_disjoint_lawful E ck cq HL). Qed.
Print Assumptions C08_is_disjoint_lawful.

Theorem C08_is_superset_lawful :
  forall (K Q T : Type) (E : env K unit Q T) (ck : K -> N) (cq : Q -> N) (HL : Lawful E ck cq)
         (a b : map K unit) (w : world K unit T),
    WF a -> WF b ->
    wp (is_superset E a b)
       (fun (r : bool) (w' : world K unit T) =>
          stable w w' /\
          r = (len b <=? len a) && forallb (fun p : K * unit => mem ck a (fst p)) (Spec.elems b))
       (fun _ : world K unit T => False) w.
Proof. exact (fun K Q T E ck cq HL => is_superset_lawful E ck cq HL). Qed.
Print Assumptions C08_is_superset_lawful.

Theorem C08_subset_truth :
  forall (K : Type) (ck : K -> N) (a b : map K unit),
    WF a -> WF b -> Uniq ck (Spec.elems a) -> Uniq ck (Spec.elems b) ->
    ((len a <=? len b) && forallb (fun p : K * unit => mem ck b (fst p)) (Spec.elems a) = true
     <-> (forall p : K * unit, In p (Spec.elems a) -> mem ck b (fst p) = true)).
Proof. exact (fun K ck => subset_truth ck). Qed.
Print Assumptions C08_subset_truth.

Theorem C08_disjoint_truth :
  forall (K : Type) (ck : K -> N) (a b : map K unit),
    WF a -> WF b -> Uniq ck (Spec.elems a) -> Uniq ck (Spec.elems b) ->
    ((if len a <=? len b
      then forallb (fun p : K * unit => negb (mem ck b (fst p))) (Spec.elems a)
      else forallb (fun p : K * unit => negb (mem ck a (fst p))) (Spec.elems b)) = true
     <-> (forall p : K * unit, In p (Spec.elems a) -> mem ck b (fst p) = false)).
Proof. exact (fun K ck => disjoint_truth ck). Qed.
Print Assumptions C08_disjoint_truth.

(* ---------------------------------------------------------------------- *)
(* Union / SymmetricDifference (Algebra2)                                  *)
(* ---------------------------------------------------------------------- *)

Theorem C08_union_fold_lawful :
  forall (K Q T : Type) (E : env K unit Q T) (ck : K -> N) (cq : Q -> N) (HL : Lawful E ck cq)
         (a b : map K unit) (u : chain) (w : world K unit T),
    WF a -> WF b -> chain_ok (len b) (len a) u ->
    wp (union_fold E a b u)
       (fun (r : list (bool * nat)) (w' : world K unit T) =>
          stable w w' /\
          r = match front u with
              | Some c => List.map (fun i : nat => (true, i)) (seq (fst c) (cursor_len c))
              | None => []
              end
              ++ List.map (fun i : nat => (false, i))
                          (sel ck a b false (fst (back u)) (cursor_len (back u))))
       (fun _ : world K unit T => False) w.
Proof. exact (fun K Q T E ck cq HL => union_fold_lawful E ck cq HL). Qed.
Print Assumptions C08_union_fold_lawful.

Theorem C08_union_run_lawful :
  forall (K Q T : Type) (E : env K unit Q T) (ck : K -> N) (cq : Q -> N) (HL : Lawful E ck cq)
         (a b : map K unit) (u : chain) (w : world K unit T),
    WF a -> WF b -> chain_ok (len b) (len a) u ->
    wp (union_run E a b
          (S (S (match front u with Some c => cursor_len c | None => 0 end + cursor_len (back u)))) u)
       (fun (r : list (bool * nat)) (w' : world K unit T) =>
          stable w w' /\
          r = match front u with
              | Some c => List.map (fun i : nat => (true, i)) (seq (fst c) (cursor_len c))
              | None => []
              end
              ++ List.map (fun i : nat => (false, i))
                          (sel ck a b false (fst (back u)) (cursor_len (back u))))
       (fun _ : world K unit T => False) w.
Proof. exact (fun K Q T E ck cq HL => union_run_lawful E ck cq HL). Qed.
Print Assumptions C08_union_run_lawful.

Theorem C08_symdiff_fold_lawful :
  forall (K Q T : Type) (E : env K unit Q T) (ck : K -> N) (cq : Q -> N) (HL : Lawful E ck cq)
         (a b : map K unit) (u : chain) (w : world K unit T),
    WF a -> WF b -> chain_ok (len a) (len b) u ->
    wp (symdiff_fold E a b u)
       (fun (r : list (bool * nat)) (w' : world K unit T) =>
          stable w w' /\
          r = match front u with
              | Some c => List.map (fun i : nat => (false, i)) (sel ck a b false (fst c) (cursor_len c))
              | None => []
              end
              ++ List.map (fun i : nat => (true, i))
                          (sel ck b a false (fst (back u)) (cursor_len (back u))))
       (fun _ : world K unit T => False) w.
Proof. exact (fun K Q T E ck cq HL => symdiff_fold_lawful E ck cq HL). Qed.
Print Assumptions C08_symdiff_fold_lawful.

Theorem C08_symdiff_run_lawful :
  forall (K Q T : Type) (E : env K unit Q T) (ck : K -> N) (cq : Q -> N) (HL : Lawful E ck cq)
         (a b : map K unit) (u : chain) (w : world K unit T),
    WF a -> WF b -> chain_ok (len a) (len b) u ->
    wp (symdiff_run E a b
          (S (S (match front u with Some c => cursor_len c | None => 0 end + cursor_len (back u)))) u)
       (fun (r : list (bool * nat)) (w' : world K unit T) =>
          stable w w' /\
          r = match front u with
              | Some c => List.map (fun i : nat => (false, i)) (sel ck a b false (fst c) (cursor_len c))
              | None => []
              end
              ++ List.map (fun i : nat => (true, i))
                          (sel ck b a false (fst (back u)) (cursor_len (back u))))
       (fun _ : world K unit T => False) w.
Proof. exact (fun K Q T E ck cq HL => symdiff_run_lawful E ck cq HL). Qed.
Print Assumptions C08_symdiff_run_lawful.

Theorem C08_union_spec :
  forall (K : Type) (ck : K -> N) (a b : map K unit),
    WF a -> WF b -> Uniq ck (Spec.elems a) -> Uniq ck (Spec.elems b) ->
    let res := Spec.elems b ++ filter (fun p : K * unit => negb (mem ck b (fst p))) (Spec.elems a) in
    Uniq ck res /\
    (forall c : N,
        In c (List.map (fun p : K * unit => ck (fst p)) res) <->
        In c (List.map (fun p : K * unit => ck (fst p)) (Spec.elems a)) \/
        In c (List.map (fun p : K * unit => ck (fst p)) (Spec.elems b))).
Proof. exact (fun K ck => union_spec ck). Qed.
Print Assumptions C08_union_spec.

Theorem C08_union_elems :
  forall (K : Type) (ck : K -> N) (a b : map K unit),
    WF a -> WF b ->
    List.map (item_pair a b) (union_items ck a b (union_init a b)) =
    List.map Some (Spec.elems b ++ filter (fun p : K * unit => negb (mem ck b (fst p))) (Spec.elems a)).
Proof. exact (fun K ck => union_elems ck). Qed.
Print Assumptions C08_union_elems.

Theorem C08_symdiff_spec :
  forall (K : Type) (ck : K -> N) (a b : map K unit),
    WF a -> WF b -> Uniq ck (Spec.elems a) -> Uniq ck (Spec.elems b) ->
    let res := filter (fun p : K * unit => negb (mem ck b (fst p))) (Spec.elems a) ++
               filter (fun p : K * unit => negb (mem ck a (fst p))) (Spec.elems b) in
    Uniq ck res /\
    (forall c : N,
        In c (List.map (fun p : K * unit => ck (fst p)) res) <->
        In c (List.map (fun p : K * unit => ck (fst p)) (Spec.elems a)) /\
        ~ In c (List.map (fun p : K * unit => ck (fst p)) (Spec.elems b)) \/
        In c (List.map (fun p : K * unit => ck (fst p)) (Spec.elems b)) /\
        ~ In c (List.map (fun p : K * unit => ck (fst p)) (Spec.elems a))).
Proof. exact (fun K ck => symdiff_spec ck). Qed.
Print Assumptions C08_symdiff_spec.

Theorem C08_symdiff_elems :
  forall (K : Type) (ck : K -> N) (a b : map K unit),
    WF a -> WF b ->
    List.map (item_pair a b) (symdiff_items ck a b (symdiff_init a b)) =
    List.map Some
      (filter (fun p : K * unit => negb (mem ck b (fst p))) (Spec.elems a) ++
       filter (fun p : K * unit => negb (mem ck a (fst p))) (Spec.elems b)).
Proof. exact (fun K ck => symdiff_elems ck). Qed.
Print Assumptions C08_symdiff_elems.

Theorem C08_union_hint_brackets :
  forall (K : Type) (ck : K -> N) (a b : map K unit) (u : chain),
    WF a -> WF b -> Uniq ck (Spec.elems a) -> Uniq ck (Spec.elems b) ->
    chain_ok (len b) (len a) u ->
    let n := length
               (match front u with
                | Some c => List.map (fun i : nat => (true, i)) (seq (fst c) (cursor_len c))
                | None => []
                end
                ++ List.map (fun i : nat => (false, i))
                            (sel ck a b false (fst (back u)) (cursor_len (back u)))) in
    fst (union_size_hint b u) <= n <= snd (union_size_hint b u).
Proof. exact (fun K ck => union_hint_brackets ck). Qed.
Print Assumptions C08_union_hint_brackets.

Theorem C08_symdiff_hint_brackets :
  forall (K : Type) (ck : K -> N) (a b : map K unit) (u : chain),
    WF a -> WF b -> Uniq ck (Spec.elems a) -> Uniq ck (Spec.elems b) ->
    chain_ok (len a) (len b) u ->
    let n := length
               (match front u with
                | Some c => List.map (fun i : nat => (false, i)) (sel ck a b false (fst c) (cursor_len c))
                | None => []
                end
                ++ List.map (fun i : nat => (true, i))
                            (sel ck b a false (fst (back u)) (cursor_len (back u)))) in
    fst (symdiff_size_hint a b u) <= n <= snd (symdiff_size_hint a b u).
Proof. exact (fun K ck => symdiff_hint_brackets ck). Qed.
Print Assumptions C08_symdiff_hint_brackets.

Theorem C08_union_run_is_fold :
  forall (K Q T : Type) (E : env K unit Q T) (ck : K -> N) (cq : Q -> N) (HL : Lawful E ck cq)
         (a b : map K unit) (u : chain) (w1 w2 : world K unit T),
    WF a -> WF b -> chain_ok (len b) (len a) u ->
    wp (union_run E a b
          (S (S (match front u with Some c => cursor_len c | None => 0 end + cursor_len (back u)))) u)
       (fun (r : list (bool * nat)) (_ : world K unit T) =>
          wp (union_fold E a b u)
             (fun (r' : list (bool * nat)) (_ : world K unit T) => r' = r)
             (fun _ : world K unit T => False) w2)
       (fun _ : world K unit T => False) w1.
Proof. exact (fun K Q T E ck cq HL => union_run_is_fold E ck cq HL). Qed.
Print Assumptions C08_union_run_is_fold.

Theorem C08_symdiff_run_is_fold :
  forall (K Q T : Type) (E : env K unit Q T) (ck : K -> N) (cq : Q -> N) (HL : Lawful E ck cq)
         (a b : map K unit) (u : chain) (w1 w2 : world K unit T),
    WF a -> WF b -> chain_ok (len a) (len b) u ->
    wp (symdiff_run E a b
          (S (S (match front u with Some c => cursor_len c | None => 0 end + cursor_len (back u)))) u)
       (fun (r : list (bool * nat)) (_ : world K unit T) =>
          wp (symdiff_fold E a b u)
             (fun (r' : list (bool * nat)) (_ : world K unit T) => r' = r)
             (fun _ : world K unit T => False) w2)
       (fun _ : world K unit T => False) w1.
Proof. exact (fun K Q T E ck cq HL => symdiff_run_is_fold E ck cq HL). Qed.
Print Assumptions C08_symdiff_run_is_fold.

(* ---------------------------------------------------------------------- *)
(* the '-' operator: &a - &b, run with self = Set::new() of a's capacity    *)
(* (HCK: Clone yields a key of the same class and does not panic)           *)
(* ---------------------------------------------------------------------- *)

Theorem C08_set_sub_lawful :
  forall (K Q T : Type) (E : env K unit Q T) (debug : bool) (ck : K -> N) (cq : Q -> N)
         (HL : Lawful E ck cq)
         (HCK : forall (s : T) (k : K), exists (k' : K) (s' : T),
                   cloneK E s k = (Some k', s') /\ ck k' = ck k)
         (a b : map K unit) (w : world K unit T),
    WF a -> WF b -> Uniq ck (Spec.elems a) ->
    WF (self w) -> len (self w) = 0 -> cap (self w) = cap a ->
    wp (set_sub E debug a b)
       (fun (_ : unit) (w' : world K unit T) =>
          WF (self w') /\
          cap (self w') = cap a /\
          List.map (fun p : K * unit => ck (fst p)) (Spec.elems (self w')) =
          List.map (fun p : K * unit => ck (fst p))
                   (filter (fun p : K * unit => negb (mem ck b (fst p))) (Spec.elems a)) /\
          (exists evs : list event,
              log w' = log w ++ evs /\
              evs = flat_map (fun p : K * unit => List.map EvCloneK (idK E (fst p)))
                             (filter (fun p : K * unit => negb (mem ck b (fst p))) (Spec.elems a)) /\
              length (filter (fun e : event => match e with EvCloneK _ => true | _ => false end) evs) =
              list_sum (List.map (fun p : K * unit => length (idK E (fst p)))
                                 (filter (fun p : K * unit => negb (mem ck b (fst p))) (Spec.elems a)))))
       (fun _ : world K unit T => False) w.
Proof. exact (fun K Q T E debug ck cq HL HCK => set_sub_lawful E debug ck cq HL HCK). Qed.
Print Assumptions C08_set_sub_lawful.

(* ---------------------------------------------------------------------- *)
(* extra (not in the PROPS_MAP list): the constructors, which tie           *)
(* `difference a`, `union a b`, `symmetric_difference a b` to the cursors / *)
(* chains the theorems above start from                                     *)
(* ---------------------------------------------------------------------- *)

Theorem C08_difference_lawful :
  forall (K T : Type) (a : map K unit) (w : world K unit T),
    WF a ->
    wp (difference a)
       (fun (c : cursor) (w' : world K unit T) => stable w w' /\ c = (0, len a))
       (fun _ : world K unit T => False) w.
Proof. exact (fun K T => @difference_lawful K T). Qed.
Print Assumptions C08_difference_lawful.

Theorem C08_union_lawful :
  forall (K T : Type) (a b : map K unit) (w : world K unit T),
    WF a -> WF b ->
    wp (union a b)
       (fun (u : chain) (w' : world K unit T) =>
          stable w w' /\ u = union_init a b /\ chain_ok (len b) (len a) u)
       (fun _ : world K unit T => False) w.
Proof. exact (fun K T => @union_lawful K T). Qed.
Print Assumptions C08_union_lawful.

Theorem C08_symdiff_lawful :
  forall (K T : Type) (a b : map K unit) (w : world K unit T),
    WF a -> WF b ->
    wp (symdiff a b)
       (fun (u : chain) (w' : world K unit T) =>
          stable w w' /\ u = symdiff_init a b /\ chain_ok (len a) (len b) u)
       (fun _ : world K unit T => False) w.
Proof. exact (fun K T => @symdiff_lawful K T). Qed.
Print Assumptions C08_symdiff_lawful.

(* ---------------------------------------------------------------------- *)
(* non-vacuity                                                              *)
(* ---------------------------------------------------------------------- *)

(* the hypotheses are satisfiable: a = {5,6,7} (capacity 4), b = {7,9,5}
   (capacity 3, other internal order), honest script *)
Example C08_example_hyps :
  let a : map key unit :=
    {| len := 3; slots := [Some ({| kid := 1; kcls := 5 |}, tt); Some ({| kid := 2; kcls := 6 |}, tt);
                           Some ({| kid := 3; kcls := 7 |}, tt); None] |} in
  let b : map key unit :=
    {| len := 3; slots := [Some ({| kid := 4; kcls := 7 |}, tt); Some ({| kid := 5; kcls := 9 |}, tt);
                           Some ({| kid := 6; kcls := 5 |}, tt)] |} in
  let sc0 := {| sc_adv := false; sc_seed := 0; sc_fk := 0; sc_fa := 0 |} in
  WF a /\ WF b /\ Uniq kcls (Spec.elems a) /\ Uniq kcls (Spec.elems b) /\
  honest sc0 /\ Lawful (env_set sc0) kcls qcls /\
  chain_ok (len b) (len a) (union_init a b) /\ chain_ok (len a) (len b) (symdiff_init a b).
Proof.
  intros a b sc0.
  assert (Ha : WF a).
  { split; [cbn; lia|]. intros i Hi. cbn [len a] in Hi.
    destruct i as [|[|[|i]]]; try lia; eexists; reflexivity. }
  assert (Hb : WF b).
  { split; [cbn; lia|]. intros i Hi. cbn [len b] in Hi.
    destruct i as [|[|[|i]]]; try lia; eexists; reflexivity. }
  assert (Hh : honest sc0) by (split; reflexivity).
  split; [exact Ha|]. split; [exact Hb|].
  split; [vm_compute; repeat constructor; cbn; intuition discriminate|].
  split; [vm_compute; repeat constructor; cbn; intuition discriminate|].
  split; [exact Hh|]. split; [exact (env_set_lawful sc0 Hh)|].
  split; vm_compute; repeat split; lia.
Qed.

(* concrete runs on those operands: a \ b = slot 1 of a (class 6); a n b =
   slots 0,2 of a; union = b's three slots then slot 1 of a; symmetric
   difference = slot 1 of a then slot 1 of b (class 9); fold agrees; operands
   and log untouched (the final world differs only in the == counter) *)
Example C08_example_runs :
  let a : map key unit :=
    {| len := 3; slots := [Some ({| kid := 1; kcls := 5 |}, tt); Some ({| kid := 2; kcls := 6 |}, tt);
                           Some ({| kid := 3; kcls := 7 |}, tt); None] |} in
  let b : map key unit :=
    {| len := 3; slots := [Some ({| kid := 4; kcls := 7 |}, tt); Some ({| kid := 5; kcls := 9 |}, tt);
                           Some ({| kid := 6; kcls := 5 |}, tt)] |} in
  let E := env_set {| sc_adv := false; sc_seed := 0; sc_fk := 0; sc_fa := 0 |} in
  let w : world key unit cstate :=
    {| cb := {| n_eq := 0; n_clone := 0; n_call := 0; next_id := 100 |}; log := []; self := new_map 0 |} in
  let out {A} (r : res key unit cstate A) : option (A * list event * map key unit) :=
    match r with Ok x w' => Some (x, log w', self w') | _ => None end in
  out (filter_run E a b false 4 (0, 3) w) = Some ([1], [], new_map 0) /\
  out (diff_fold E a b (0, 3) [] w) = Some ([1], [], new_map 0) /\
  out (filter_run E a b true 4 (0, 3) w) = Some ([0; 2], [], new_map 0) /\
  out (union_run E a b 8 (union_init a b) w)
    = Some ([(true, 0); (true, 1); (true, 2); (false, 1)], [], new_map 0) /\
  out (union_fold E a b (union_init a b) w)
    = Some ([(true, 0); (true, 1); (true, 2); (false, 1)], [], new_map 0) /\
  out (symdiff_run E a b 8 (symdiff_init a b) w) = Some ([(false, 1); (true, 1)], [], new_map 0) /\
  diff_size_hint b (0, 3) = (0, 3) /\ union_size_hint b (union_init a b) = (3, 6) /\
  out (is_subset E a b w) = Some (false, [], new_map 0) /\
  out (is_disjoint E a b w) = Some (false, [], new_map 0).
Proof. vm_compute. repeat split; reflexivity. Qed.
