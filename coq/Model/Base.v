(* Base.v — objects, environment of user callbacks, outcome monad.
   DEFINITIONS ONLY (no proofs): the model must still build, extract and run
   when a proof breaks. *)
From Coq Require Export List Arith NArith Bool Lia.
Export ListNotations.

(* Answer of a user callback that returns bool: it may also panic. *)
Inductive ans := Yes | No | Boom.

(* Events the model logs itself (independent of the environment). *)
Inductive event :=
| EvDrop  (id : N)          (* Drop::drop ran on the object with this identity *)
| EvCloneK (src : N)        (* K::clone was called on this object *)
| EvCloneV (src : N)
| EvCall (tag : N).         (* a user closure / source-iterator next() was called *)

Section Model.
Context {K V Q T : Type}.

(* ALL user code the crate can call.  T is the callback state: callbacks may
   answer differently each time.  No lawfulness is assumed here. *)
Record env := {
  eqK  : T -> K -> K -> ans * T;   (* stored == supplied   (insert paths, entry, eq, set algebra) *)
  eqKQ : T -> K -> Q -> ans * T;   (* stored.borrow() == q (lookups, removals)                    *)
  eqQQ : T -> Q -> Q -> ans * T;   (* q == q'              (get_disjoint_mut overlap assertion)   *)
  eqQK : T -> Q -> K -> ans * T;   (* q.borrow() == stored.borrow() (get_disjoint_unchecked_mut)  *)
  eqV  : T -> V -> V -> ans * T;   (* value == value       (PartialEq for Map)                    *)
  cloneK : T -> K -> option K * T; (* None = Clone panics *)
  cloneV : T -> V -> option V * T;
  dropK : T -> K -> bool * T;      (* true = this Drop panics (object still counts as destroyed) *)
  dropV : T -> V -> bool * T;
  idK : K -> list N;               (* ledger identities carried by a value *)
  idV : V -> list N
}.

(* The container: slot i is [Some p] iff initialised and owning p. *)
Record map := { len : nat; slots : list (option (K * V)) }.

Definition cap (m : map) : nat := length (slots m).

Record world := { cb : T; log : list event; self : map }.

Inductive res (A : Type) :=
| Ok (a : A) (w : world)
| Panic (w : world)
| UB.
Arguments Ok {A}. Arguments Panic {A}. Arguments UB {A}.

Definition M (A : Type) := world -> res A.

Definition ret {A} (a : A) : M A := fun w => Ok a w.
Definition bind {A B} (c : M A) (f : A -> M B) : M B :=
  fun w => match c w with
           | Ok a w' => f a w'
           | Panic w' => Panic w'
           | UB => UB
           end.
Definition panic {A} : M A := fun w => Panic w.
Definition ub {A} : M A := fun _ => UB.

Definition get_self : M map := fun w => Ok (self w) w.
Definition put_self (m : map) : M unit :=
  fun w => Ok tt {| cb := cb w; log := log w; self := m |}.
Definition emit (e : list event) : M unit :=
  fun w => Ok tt {| cb := cb w; log := log w ++ e; self := self w |}.

(* A boolean-valued user callback; Boom unwinds. *)
Definition cbk (f : T -> ans * T) : M bool :=
  fun w => let '(a, s) := f (cb w) in
           let w' := {| cb := s; log := log w; self := self w |} in
           match a with Yes => Ok true w' | No => Ok false w' | Boom => Panic w' end.

(* A value-producing user callback; None unwinds. *)
Definition cbo {A} (f : T -> option A * T) : M A :=
  fun w => let '(a, s) := f (cb w) in
           let w' := {| cb := s; log := log w; self := self w |} in
           match a with Some x => Ok x w' | None => Panic w' end.

End Model.

Arguments env : clear implicits.
Arguments map : clear implicits.
Arguments world : clear implicits.
Arguments M : clear implicits.
Arguments res : clear implicits.
Arguments Ok {K V T A}. Arguments Panic {K V T A}. Arguments UB {K V T A}.

Declare Scope model_scope.
Delimit Scope model_scope with model.
Notation "x <- c ;; f" := (bind c (fun x => f))
  (at level 61, c at next level, right associativity) : model_scope.
Notation "' pat <- c ;; f" := (bind c (fun x => match x with pat => f end))
  (at level 61, pat pattern, c at next level, right associativity) : model_scope.
Notation "c ;; f" := (bind c (fun _ => f))
  (at level 61, right associativity) : model_scope.
Open Scope model_scope.
