// Correspondence harness: runs integer-encoded histories (the same files the
// extracted Coq model runs) on the real micromap built from /repo, prints one
// observation line per operation in the model's token format, and reports
// direct-oracle faults (ledger, canaries, allocation, addresses, aliasing).
mod elems;
mod ops;
mod shapes;

use elems::*;
use std::alloc::{GlobalAlloc, Layout, System};
use std::io::{BufRead, Write};

struct CountingAlloc;
unsafe impl GlobalAlloc for CountingAlloc {
    unsafe fn alloc(&self, l: Layout) -> *mut u8 {
        let _ = COUNTING.try_with(|c| {
            if c.get() {
                let _ = ALLOCS.try_with(|a| a.set(a.get() + 1));
            }
        });
        System.alloc(l)
    }
    unsafe fn dealloc(&self, p: *mut u8, l: Layout) {
        System.dealloc(p, l)
    }
}
#[global_allocator]
static A: CountingAlloc = CountingAlloc;

fn parse_line(s: &str) -> Vec<Vec<u64>> {
    s.split(';')
        .map(|seg| seg.split_whitespace().map(|t| t.parse::<u64>().unwrap()).collect())
        .collect()
}

fn main() {
    let args: Vec<String> = std::env::args().collect();
    if args[1] == "--shapes" {
        std::panic::set_hook(Box::new(|_| {}));
        shapes::run();
        let faults = with_ctx(|c| std::mem::take(&mut c.faults));
        let mut ff = std::fs::File::create(&args[2]).unwrap();
        for fl in faults { writeln!(ff, "FAULT -1 {}", fl).unwrap(); }
        return;
    }
    if args[1] == "--stream-table" {
        std::panic::set_hook(Box::new(|_| {}));
        for r in shapes::stream_table() { println!("{}", r); }
        return;
    }
    if std::env::var_os("MM_FLIP").is_some() { elems::FLIP.store(true, std::sync::atomic::Ordering::Relaxed); }
    let path = &args[1];
    let fault_path = &args[2];
    let marker = args.get(3).cloned();
    if std::env::var_os("MM_VERBOSE").is_none() {
        std::panic::set_hook(Box::new(|_| {}));
    }
    let f = std::fs::File::open(path).expect("cases file");
    let out = std::io::stdout();
    let mut out = std::io::BufWriter::new(out.lock());
    let mut ff = std::io::BufWriter::new(std::fs::File::create(fault_path).unwrap());
    let mut idx = 0usize;
    for line in std::io::BufReader::new(f).lines() {
        let line = line.unwrap();
        if line.is_empty() || line.starts_with('#') {
            continue;
        }
        if let Some(m) = &marker {
            // so that a crash (abort, SIGSEGV) of a broken build still names its case
            let _ = std::fs::write(m, format!("{}\n{}\n", idx, line));
        }
        let segs = parse_line(&line);
        let (obs, faults, stats) = ops::run_case(&segs);
        for (j, o) in obs.iter().enumerate() {
            write!(out, "{} {}", idx, j).unwrap();
            for t in o {
                write!(out, " {}", t).unwrap();
            }
            writeln!(out).unwrap();
        }
        for fl in faults {
            writeln!(ff, "FAULT {} {}", idx, fl).unwrap();
        }
        writeln!(ff, "STAT {} {}", idx, stats).unwrap();
        idx += 1;
    }
    out.flush().unwrap();
    ff.flush().unwrap();
}
