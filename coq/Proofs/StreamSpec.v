(* StreamSpec.v — the serde visitor (Model/Stream.v) against a STREAMING access object that may also fail and
   whose polls are counted: poll accounting, safety for every environment, list-machine behaviour for lawful ones. *)
Require Import Model.Base Model.Slots Model.MapOps Model.Stream.
Require Import Proofs.Hoare Proofs.Inv Proofs.Safety Proofs.Safety2 Proofs.Spec Proofs.Lawful Proofs.Lawful2 Proofs.Lawful3 Proofs.Bulk.

(* ======================================================================== *)
(* 1-3: every environment                                                     *)
(* ======================================================================== *)
Section StreamAny.
Context {K V Q T : Type} (E : env K V Q T) (debug : bool).
Notation M := (M K V T).
Notation world := (world K V T).
Notation map := (map K V).
Notation stream := (@stream K V).
Notation sans := (@sans K V).

(* ---- 1. pure facts about pull ---- *)
Lemma pull_polls (s : stream) : polls (snd (pull s)) = S (polls s).
Proof. unfold pull. destruct (finished s); [reflexivity|]. destruct (todo s) as [|[k v| |] rest]; reflexivity. Qed.

Lemma pull_late_fresh (s : stream) : finished s = false -> late (snd (pull s)) = late s.
Proof. intros H. unfold pull. rewrite H. destruct (todo s) as [|[k v| |] rest]; reflexivity. Qed.

Lemma pull_late_after (s : stream) : finished s = true -> late (snd (pull s)) = S (late s) /\ fst (pull s) = SEnd.
Proof. intros H. unfold pull. rewrite H. split; reflexivity. Qed.

Lemma pull_item (s : stream) k v :
  fst (pull s) = SItem k v ->
  finished s = false /\ finished (snd (pull s)) = false /\
  exists rest, todo s = SItem k v :: rest /\ todo (snd (pull s)) = rest.
Proof.
  unfold pull. destruct (finished s); cbn [fst snd]; [discriminate|].
  destruct (todo s) as [|[k0 v0| |] rest]; cbn [fst snd finished todo]; try discriminate.
  intros H. injection H as -> ->. split; [reflexivity|]. split; [reflexivity|]. exists rest. split; reflexivity.
Qed.

Lemma pull_stop (s : stream) :
  finished s = false -> (forall k v, fst (pull s) <> SItem k v) -> finished (snd (pull s)) = true.
Proof.
  intros H. unfold pull. rewrite H.
  destruct (todo s) as [|[k0 v0| |] rest]; cbn [fst snd finished]; try reflexivity.
  intros Hn. exfalso. apply (Hn k0 v0). reflexivity.
Qed.

(* ---- 2. the loop as an equation between computations ---- *)
(* M A is a function type and the development uses no extensionality axiom: equations between computations are
   stated pointwise (at every world) *)
Lemma bind_assoc_w {A B C} (c : M A) (f : A -> M B) (g : B -> M C) (w : world) :
  bind (bind c f) g w = bind c (fun a => bind (f a) g) w.
Proof. unfold bind. destruct (c w); reflexivity. Qed.

Lemma bind_ext_w {A B} (c : M A) (f g : A -> M B) (w : world) :
  (forall a w', f a w' = g a w') -> bind c f w = bind c g w.
Proof. intros H. unfold bind. destruct (c w); auto. Qed.

Lemma wp_ext {A} (c c' : M A) (Qn : A -> world -> Prop) (Qp : world -> Prop) (w : world) :
  c w = c' w -> wp c' Qn Qp w -> wp c Qn Qp w.
Proof. unfold wp. intros ->. auto. Qed.

Lemma visit_stream_eq fuel : forall (s : stream) (w : world),
  finished s = false -> length (todo s) < fuel ->
  visit_stream E debug fuel s w =
  bind (inserts E debug (lead (todo s)))
       (fun _ => ret (stop (todo s),
                      {| todo := skipn (S (length (lead (todo s)))) (todo s); finished := true;
                         polls := polls s + S (length (lead (todo s))); late := late s |})) w.
Proof.
  induction fuel as [|fuel IH]; intros s w Hf Hl; [lia|].
  cbn [visit_stream]. unfold pull. rewrite Hf.
  destruct s as [td fin pl lt]. cbn [todo finished polls late] in *.
  destruct td as [|[k v| |] rest]; cbn [lead stop inserts length skipn].
  - unfold bind, ret. replace (pl + 1) with (S pl) by lia. reflexivity.
  - rewrite bind_assoc_w. apply bind_ext_w. intros old w1.
    rewrite bind_assoc_w. apply bind_ext_w. intros _ w2.
    rewrite IH; cbn [todo finished polls late]; [|reflexivity | cbn [length] in Hl; lia].
    replace (S pl + S (length (lead rest))) with (pl + S (S (length (lead rest)))) by lia.
    reflexivity.
  - unfold bind, ret. replace (pl + 1) with (S pl) by lia. reflexivity.
  - unfold bind, ret. replace (pl + 1) with (S pl) by lia. reflexivity.
Qed.

Lemma visit_stream_polls fuel (s : stream) (w : world) r s' w' :
  finished s = false -> late s = 0 -> length (todo s) < fuel ->
  visit_stream E debug fuel s w = Ok (r, s') w' ->
  finished s' = true /\ late s' = 0 /\ polls s' = polls s + S (length (lead (todo s))) /\ r = stop (todo s).
Proof.
  intros Hf Hlate Hl. rewrite (visit_stream_eq fuel s w Hf Hl). unfold bind, ret.
  destruct (inserts E debug (lead (todo s)) w) as [u w1|w1|]; [|discriminate|discriminate].
  intros H. injection H as <- <- _. cbn [finished late polls]. auto.
Qed.

(* an access object that has already reported the end is polled once more by a fresh visitor: counted as late *)
Lemma visit_stream_finished fuel (s : stream) (w : world) :
  finished s = true ->
  visit_stream E debug (S fuel) s w =
  Ok (ROk, {| todo := todo s; finished := true; polls := S (polls s); late := S (late s) |}) w.
Proof. intros Hf. cbn [visit_stream]. unfold pull. rewrite Hf. reflexivity. Qed.

(* ---- 3. safety for every environment ---- *)
Lemma keeps_inserts items : keeps (inserts E debug items).
Proof.
  induction items as [|[k v] rest IH]; cbn [inserts].
  - apply frame_keeps. apply frame_ret.
  - apply keeps_bind; [apply keeps_insert|]. intros old.
    apply keeps_bind; [apply frame_keeps; apply frame_drop_opt_val|]. intros _. exact IH.
Qed.

Lemma keeps_visit_stream fuel : forall s : stream, keeps (visit_stream E debug fuel s).
Proof.
  induction fuel as [|fuel IH]; intros s; cbn [visit_stream].
  - apply frame_keeps. apply frame_ret.
  - destruct (pull s) as [a s']. destruct a as [k v| |].
    + apply keeps_bind; [apply keeps_insert|]. intros old.
      apply keeps_bind; [apply frame_keeps; apply frame_drop_opt_val|]. intros _. apply IH.
    + apply frame_keeps. apply frame_ret.
    + apply frame_keeps. apply frame_ret.
Qed.

(* the loop from a fresh (not yet finished) access object: invariant kept, and everything about the answer *)
Lemma visit_stream_spec fuel (s : stream) (w : world) :
  finished s = false -> length (todo s) < fuel -> WF (self w) ->
  wp (visit_stream E debug fuel s)
     (fun r w' => inv_post w w' /\ fst r = stop (todo s) /\ finished (snd r) = true /\ late (snd r) = late s /\
                  polls (snd r) = polls s + S (length (lead (todo s))) /\
                  todo (snd r) = skipn (S (length (lead (todo s)))) (todo s))
     (inv_post w) w.
Proof.
  intros Hf Hl Hw. eapply wp_ext; [apply (visit_stream_eq fuel s w Hf Hl)|].
  apply wp_bind. eapply wp_mono; [apply keeps_inserts; exact Hw | |]; cbn beta.
  - intros _ w1 H1. apply wp_ret. cbn [fst snd finished late polls todo]. repeat split; try reflexivity; apply H1.
  - auto.
Qed.

(* ---- decode ---- *)
(* finally_drop over a computation that keeps the invariant: the unwinding destructor (unwind_map) runs on a
   well-formed container, never panics, never reaches UB, and touches no slot outside the array *)
Definition same_array (w w' : world) : Prop :=
  cap (self w') = cap (self w) /\ length (slots (self w')) = length (slots (self w)).

Lemma same_array_of_cap (w w' : world) : cap (self w') = cap (self w) -> same_array w w'.
Proof. intros H. split; [exact H | exact H]. Qed.

Lemma unwind_map_cap (w : world) :
  WF (self w) -> wp (unwind_map E) (fun _ w' => cap (self w') = cap (self w)) (fun _ => False) w.
Proof.
  intros [Hl Hs]. unfold unwind_map. apply wp_bind. apply wp_get_len.
  eapply wp_mono; [apply unwind_range_spec | | auto]; cbn beta.
  - intros j Hj. apply Hs. lia.
  - intros _ w' (_ & Hc & _). exact Hc.
Qed.

Lemma wp_finally_drop_cap {A} (c : M A) (Qn : A -> world -> Prop) (w0 w : world) :
  wp c Qn (inv_post w0) w ->
  wp (finally_drop E c) Qn (fun w' => cap (self w') = cap (self w0)) w.
Proof.
  unfold wp at 1 2. unfold finally_drop. destruct (c w) as [a w1|w1|]; auto.
  intros [Hw1 Hc1]. pose proof (unwind_map_cap w1 Hw1) as Hd. unfold wp in Hd.
  destruct (unwind_map E w1) as [u w2|w2|]; [congruence | destruct Hd | destruct Hd].
Qed.

(* Drop for Map on a well-formed container, every environment: no UB, capacity kept in both outcomes *)
Lemma drop_map_cap (w : world) :
  WF (self w) ->
  wp (drop_map E) (fun _ w' => cap (self w') = cap (self w)) (fun w' => cap (self w') = cap (self w)) w.
Proof.
  intros [Hl Hs]. unfold drop_map. apply wp_bind. apply wp_get_len.
  eapply wp_mono; [apply drop_range_spec | |]; cbn beta.
  - intros j Hj. apply Hs. lia.
  - intros _ w' (_ & Hc & _). exact Hc.
  - intros w' (_ & Hc & _). exact Hc.
Qed.

(* [keeps (decode E debug s)] is FALSE (counterexamples at the end of this file): Drop for Map (drop_map) and the
   unwinding destructor (unwind_map) take every element out of its slot but do not reset the length, so after an
   Err answer, and after any panic, what [self] holds is the dropped husk of the local container, which is not WF.
   What is true for EVERY environment (no hypothesis on E, on the stream, or on the destructors):
   decode never reaches UB; Ok (ROk, _) hands a well-formed container of the same capacity to the caller; after
   Ok (RErr, _) and after a panic the array is the same array (no slot outside it was touched). *)
Lemma decode_safe (s : stream) (w : world) :
  WF (self w) ->
  wp (Stream.decode E debug s)
     (fun r w' => match fst r with ROk => inv_post w w' | RErr => same_array w w' end)
     (same_array w) w.
Proof.
  intros Hw. unfold Stream.decode. apply wp_bind.
  eapply wp_mono; [apply (wp_finally_drop_cap _ (fun _ => inv_post w) w w); apply keeps_visit_stream; exact Hw | |];
    cbn beta.
  - intros r w1 [Hw1 Hc1]. destruct (fst r) eqn:Hr.
    + apply wp_ret. rewrite Hr. split; assumption.
    + apply wp_bind. eapply wp_mono; [apply (drop_map_cap w1 Hw1) | |]; cbn beta.
      * intros _ w2 Hc2. apply wp_ret. rewrite Hr. apply same_array_of_cap. congruence.
      * intros w2 Hc2. apply same_array_of_cap. congruence.
  - intros w1 Hc1. apply same_array_of_cap. exact Hc1.
Qed.

Lemma decode_noUB (s : stream) (w : world) :
  WF (self w) -> finished s = false -> Stream.decode E debug s w <> UB.
Proof.
  intros Hw _ Hub. pose proof (decode_safe s w Hw) as H. unfold wp in H. rewrite Hub in H. exact H.
Qed.

(* a stream that does not fail: ROk, well-formed container (replaces the false "keeps_decode") *)
Lemma keeps_decode_ok (s : stream) (w : world) :
  finished s = true \/ stop (todo s) = ROk -> WF (self w) ->
  wp (Stream.decode E debug s)
     (fun r w' => inv_post w w' /\ fst r = ROk /\ finished (snd r) = true)
     (same_array w) w.
Proof.
  intros Hs Hw. unfold Stream.decode. apply wp_bind.
  destruct (finished s) eqn:Hf.
  - eapply wp_mono; [apply (wp_finally_drop_cap _ (fun r w1 => r = (ROk, {| todo := todo s; finished := true; polls := S (polls s); late := S (late s) |}) /\ inv_post w w1) w w) | |]; cbn beta.
    + eapply wp_ext; [apply (visit_stream_finished (length (todo s)) s w Hf)|].
      apply wp_ret. split; [reflexivity | apply inv_post_refl; auto].
    + intros r w1 [-> H1]. cbn [fst]. apply wp_ret. cbn [fst snd finished]. auto.
    + intros w1 Hc. apply same_array_of_cap. exact Hc.
  - destruct Hs as [Hs|Hs]; [discriminate|].
    eapply wp_mono; [apply (wp_finally_drop_cap _ _ w w);
                     apply (visit_stream_spec (S (length (todo s))) s w Hf); [lia | exact Hw] | |]; cbn beta.
    + intros r w1 (H1 & Hr & Hfin & _). rewrite Hr, Hs. apply wp_ret. rewrite Hr, Hs. auto.
    + intros w1 Hc. apply same_array_of_cap. exact Hc.
Qed.

(* no destructor of the environment panics *)
Definition drops_quiet : Prop :=
  (forall t k, fst (dropK E t k) = false) /\ (forall t v, fst (dropV E t v) = false).

Lemma drop_pair_quiet p (w : world) :
  drops_quiet -> wp (drop_pair E p) (fun _ w' => self w' = self w) (fun _ => False) w.
Proof.
  intros [HK HV]. unfold drop_pair. apply wp_bind. apply wp_emit. apply wp_bind. apply wp_cbd_eq.
  rewrite HK. apply wp_bind. apply wp_cbd_eq. rewrite HV. cbn [orb]. apply wp_ret. reflexivity.
Qed.

Lemma drop_range_quiet n : forall i (w : world),
  drops_quiet ->
  (forall j, i <= j < i + n -> live (self w) j) ->
  wp (drop_range E n i)
     (fun _ w' => len (self w') = len (self w) /\ cap (self w') = cap (self w) /\
                  (forall j, j < i \/ i + n <= j -> nth_error (slots (self w')) j = nth_error (slots (self w)) j) /\
                  (forall j, i <= j < i + n -> nth_error (slots (self w')) j = Some None))
     (fun _ => False) w.
Proof.
  induction n as [|n IH]; intros i w Hq Hl.
  - cbn [drop_range]. apply wp_ret. split; [reflexivity|]. split; [reflexivity|].
    split; [intros j _; reflexivity | intros j Hj; lia].
  - cbn [drop_range]. apply wp_bind. unfold p_drop. apply wp_bind.
    destruct (Hl i ltac:(lia)) as [p Hp].
    eapply wp_p_read; [exact Hp|].
    eapply wp_mono; [apply (drop_pair_quiet p _ Hq) | | intros ? []]; cbn beta.
    intros _ w2 Hs2.
    eapply wp_mono; [apply (IH (S i) w2 Hq) | | intros ? []]; cbn beta.
    + intros j Hj. rewrite Hs2. simp_w. apply live_set_slot_neq; [lia | apply Hl; lia].
    + intros _ w3 (Hlen & Hcap & Hout & Hin). rewrite Hs2 in *. simp_w.
      split; [exact Hlen|]. split; [rewrite Hcap; apply cap_set_slot|]. split.
      * intros j Hj. rewrite Hout by lia. apply nth_error_upd_neq. lia.
      * intros j Hj. destruct (Nat.eq_dec j i) as [->|Hne].
        -- rewrite Hout by lia. apply nth_error_upd_eq. apply nth_error_Some. rewrite Hp. discriminate.
        -- apply Hin. lia.
Qed.

(* a prefix of emptied slots holds no element *)
Lemma take_live_emptied (sl : list (option (K * V))) n :
  (forall j, j < n -> nth_error sl j = Some None) -> take_live sl n = [].
Proof.
  revert sl; induction n as [|n IH]; intros sl H; [destruct sl; reflexivity|].
  destruct sl as [|o t]; [reflexivity|].
  pose proof (H 0 ltac:(lia)) as H0. cbn [nth_error] in H0. injection H0 as ->.
  cbn [take_live]. apply IH. intros j Hj. apply (H (S j)). lia.
Qed.

(* the stream breaks: every entry decoded so far is destroyed with the local container, provided no destructor
   panics.  The dropped husk keeps its length field (Drop for Map does not reset it): what is true is that every
   slot of the prefix has been emptied, so it owns nothing. *)
Lemma decode_err_quiet (s : stream) (w : world) :
  drops_quiet -> WF (self w) -> finished s = false -> stop (todo s) = RErr ->
  wp (Stream.decode E debug s)
     (fun r w' => fst r = RErr /\ finished (snd r) = true /\ late (snd r) = late s /\
                  polls (snd r) = polls s + S (length (lead (todo s))) /\
                  cap (self w') = cap (self w) /\ elems (self w') = [] /\
                  (forall j, j < len (self w') -> nth_error (slots (self w')) j = Some None))
     (same_array w) w.
Proof.
  intros Hq Hw Hf Hs. unfold Stream.decode. apply wp_bind.
  eapply wp_mono; [apply (wp_finally_drop_cap _ _ w w);
                   apply (visit_stream_spec (S (length (todo s))) s w Hf); [lia | exact Hw] | |]; cbn beta.
  - intros r w1 ([Hw1 Hc1] & Hr & Hfin & Hlate & Hpolls & _). rewrite Hr, Hs.
    apply wp_bind. unfold drop_map. apply wp_bind. apply wp_get_len.
    eapply wp_mono; [apply (drop_range_quiet (len (self w1)) 0 w1 Hq) | | intros ? []]; cbn beta.
    + intros j Hj. apply Hw1. lia.
    + intros _ w2 (Hlen & Hcap & _ & Hin). apply wp_ret.
      assert (Hn : forall j, j < len (self w2) -> nth_error (slots (self w2)) j = Some None).
      { intros j Hj. apply Hin. lia. }
      split; [rewrite Hr; exact Hs|]. split; [exact Hfin|]. split; [exact Hlate|]. split; [exact Hpolls|].
      split; [congruence|]. split; [|exact Hn].
      unfold elems. apply take_live_emptied. exact Hn.
  - intros w1 Hc. apply same_array_of_cap. exact Hc.
Qed.

End StreamAny.

(* ======================================================================== *)
(* 4: lawful environments                                                     *)
(* ======================================================================== *)
Section StreamLawful.
Context {K V Q T : Type} (E : env K V Q T) (debug : bool).
Context (ck : K -> N) (cq : Q -> N) (HL : Lawful E ck cq).
Notation M := (M K V T).
Notation world := (world K V T).
Notation map := (map K V).
Notation kv := (K * V)%type.
Notation stream := (@stream K V).

(* the list after inserting the items one by one *)
Notation l_inserts l items :=
  (fold_left (fun (l0 : list kv) (p : kv) => fst (fst (l_insert ck l0 (fst p) (snd p) false))) items l).

(* what the loop destroys on the way: for every entry whose key is already present, the supplied (duplicate) key
   object and the displaced value *)
Fixpoint ins_evs (l : list kv) (items : list kv) : list event :=
  match items with
  | [] => []
  | (k, v) :: rest =>
      (match snd (l_insert ck l k v false) with
       | Some (k', v0) => ev_drops (idK E k') ++ ev_drops (idV E v0)
       | None => []
       end) ++ ins_evs (fst (fst (l_insert ck l k v false))) rest
  end.

(* the destructor events of a whole list of stored pairs (as in clear_lawful / drop_map_lawful) *)
Notation drops_of l := (flat_map (fun p : kv => ev_drops (idK E (fst p) ++ idV E (snd p))) l).

Lemma quiet_of_lawful : drops_quiet E.
Proof. split; [apply (law_dropK E ck cq HL) | apply (law_dropV E ck cq HL)]. Qed.

Lemma inserts_lawful_log items : forall w : world,
  WF (self w) ->
  wp (inserts E debug items)
     (fun _ w' => WF (self w') /\ cap (self w') = cap (self w) /\
                  elems (self w') = l_inserts (elems (self w)) items /\
                  logged w w' (ins_evs (elems (self w)) items))
     (fun w' => WF (self w') /\ cap (self w') = cap (self w)) w.
Proof.
  induction items as [|[k v] rest IH]; intros w Hw; cbn [inserts].
  - apply wp_ret. split; [exact Hw|]. split; [reflexivity|]. split; [reflexivity|]. apply logged_nil.
  - apply wp_bind. eapply wp_mono; [apply (insert_lawful E debug ck cq HL k v w Hw) | |]; cbn beta.
    + intros old w2 (Hw2 & Hc2 & He2 & Hold & Hlg2).
      apply wp_bind. eapply wp_mono; [apply (drop_opt_val_lawful E ck cq HL) | | intros ? []]; cbn beta.
      intros _ w3 [Hs3 Hlg3].
      assert (Hw3 : WF (self w3)) by (rewrite Hs3; exact Hw2).
      eapply wp_mono; [apply (IH w3 Hw3) | |]; cbn beta.
      * intros _ w4 (Hw4 & Hc4 & He4 & Hlg4). rewrite Hs3 in Hc4, He4, Hlg4.
        split; [exact Hw4|]. split; [congruence|]. split.
        { cbn [fold_left fst snd]. rewrite <- He2. exact He4. }
        cbn [ins_evs]. rewrite <- He2.
        eapply logged_app; [|exact Hlg4].
        destruct (snd (l_insert ck (elems (self w)) k v false)) as [[k' v0]|]; subst old; cbn [option_map snd] in Hlg3.
        -- eapply logged_app; eassumption.
        -- unfold logged in *. rewrite Hlg3, Hlg2, !app_nil_r. reflexivity.
      * intros w4 (Hw4 & Hc4). rewrite Hs3 in Hc4. split; [exact Hw4 | congruence].
    + intros w2 (Hs2 & _). rewrite Hs2. split; [exact Hw | reflexivity].
Qed.

Lemma inserts_lawful items (w : world) :
  WF (self w) ->
  wp (inserts E debug items)
     (fun _ w' => WF (self w') /\ cap (self w') = cap (self w) /\
                  elems (self w') = fold_left (fun l kv => fst (fst (l_insert ck l (fst kv) (snd kv) false))) items (elems (self w)))
     (fun w' => WF (self w') /\ cap (self w') = cap (self w)) w.
Proof.
  intros Hw. eapply wp_mono; [apply (inserts_lawful_log items w Hw) | | auto]; cbn beta.
  intros _ w' (H1 & H2 & H3 & _). auto.
Qed.

(* the loop under a lawful environment, from a fresh access object *)
Lemma visit_stream_lawful fuel (s : stream) (w : world) :
  WF (self w) -> finished s = false -> length (todo s) < fuel ->
  wp (visit_stream E debug fuel s)
     (fun r w' => fst r = stop (todo s) /\ finished (snd r) = true /\ late (snd r) = late s /\
                  polls (snd r) = polls s + S (length (lead (todo s))) /\
                  WF (self w') /\ cap (self w') = cap (self w) /\
                  elems (self w') = l_inserts (elems (self w)) (lead (todo s)) /\
                  logged w w' (ins_evs (elems (self w)) (lead (todo s))))
     (fun w' => WF (self w') /\ cap (self w') = cap (self w)) w.
Proof.
  intros Hw Hf Hl. eapply wp_ext; [apply (visit_stream_eq E debug fuel s w Hf Hl)|].
  apply wp_bind. eapply wp_mono; [apply (inserts_lawful_log (lead (todo s)) w Hw) | | auto]; cbn beta.
  intros _ w1 (H1 & H2 & H3 & H4). apply wp_ret. cbn [fst snd finished late polls]. auto 10.
Qed.

Lemma decode_ok_lawful (s : stream) (w : world) :
  WF (self w) -> finished s = false -> stop (todo s) = ROk ->
  wp (Stream.decode E debug s)
     (fun r w' => fst r = ROk /\ finished (snd r) = true /\ late (snd r) = late s /\
                  elems (self w') = fold_left (fun l kv => fst (fst (l_insert ck l (fst kv) (snd kv) false))) (lead (todo s)) (elems (self w)) /\
                  (* strengthening *)
                  polls (snd r) = polls s + S (length (lead (todo s))) /\
                  WF (self w') /\ cap (self w') = cap (self w) /\
                  logged w w' (ins_evs (elems (self w)) (lead (todo s))))
     (fun w' => True) w.
Proof.
  intros Hw Hf Hs. unfold Stream.decode. apply wp_bind. apply wp_finally_drop.
  eapply wp_mono; [apply (visit_stream_lawful (S (length (todo s))) s w Hw Hf); lia | |]; cbn beta.
  - intros r w1 (Hr & Hfin & Hlate & Hpolls & Hw1 & Hc1 & He1 & Hlg1). rewrite Hr, Hs.
    apply wp_ret. rewrite Hr, Hs. auto 10.
  - intros w1 [H1 _]. exact H1.
Qed.

(* the stream breaks: Err is returned, the access object is never polled again, and every entry decoded so far
   has been destroyed with the local container.  The statement "len (self w') = 0" of the task is FALSE: Drop
   for Map (drop_map) does not reset the length field (see example_decode_err: len = 1).  What holds: every
   slot of the prefix is emptied (the husk owns nothing: elems = []), and the log says exactly which objects were
   destroyed: the duplicates / displaced values during the loop, then every stored pair, in slot order, each
   pair once. *)
Lemma decode_err_lawful (s : stream) (w : world) :
  WF (self w) -> finished s = false -> stop (todo s) = RErr ->
  wp (Stream.decode E debug s)
     (fun r w' => fst r = RErr /\ finished (snd r) = true /\ late (snd r) = late s /\
                  elems (self w') = [] /\
                  (forall j, j < len (self w') -> nth_error (slots (self w')) j = Some None) /\
                  len (self w') = length (l_inserts (elems (self w)) (lead (todo s))) /\
                  cap (self w') = cap (self w) /\
                  polls (snd r) = polls s + S (length (lead (todo s))) /\
                  logged w w' (ins_evs (elems (self w)) (lead (todo s)) ++
                               drops_of (l_inserts (elems (self w)) (lead (todo s)))))
     (fun w' => True) w.
Proof.
  intros Hw Hf Hs. unfold Stream.decode. apply wp_bind. apply wp_finally_drop.
  eapply wp_mono; [apply (visit_stream_lawful (S (length (todo s))) s w Hw Hf); lia | |]; cbn beta.
  - intros r w1 (Hr & Hfin & Hlate & Hpolls & Hw1 & Hc1 & He1 & Hlg1). rewrite Hr, Hs.
    apply wp_bind. unfold drop_map. apply wp_bind. apply wp_get_len.
    eapply wp_mono; [apply (drop_range_lawful E ck cq HL (len (self w1)) 0 w1) | | intros ? []]; cbn beta.
    + intros j Hj. apply Hw1. lia.
    + intros _ w2 (Hlen & Hcap & _ & Hin & Hlg2). apply wp_ret.
      assert (Hn : forall j, j < len (self w2) -> nth_error (slots (self w2)) j = Some None).
      { intros j Hj. apply Hin. lia. }
      split; [rewrite Hr; exact Hs|]. split; [exact Hfin|]. split; [exact Hlate|].
      split; [unfold elems; apply take_live_emptied; exact Hn|]. split; [exact Hn|].
      split; [rewrite Hlen, <- He1; symmetry; apply elems_length; exact Hw1|].
      split; [congruence|]. split; [exact Hpolls|].
      eapply logged_app; [exact Hlg1|]. rewrite <- He1. exact Hlg2.
  - intros w1 [H1 _]. exact H1.
Qed.

End StreamLawful.

(* ======================================================================== *)
(* 5: non-vacuity and counterexamples on the concrete environment of Exec.v  *)
(* ======================================================================== *)
Require Import Model.Exec Proofs.Legacy Proofs.FmtSerde.

Definition sx_sc0 : script := {| sc_adv := false; sc_seed := 0; sc_fk := 0; sc_fa := 0 |}.
Definition sx_st_ok : @stream key vobj :=
  {| todo := [SItem (k_ 1 5) (v_ 2 7); SItem (k_ 3 6) (v_ 4 8); SEnd; SItem (k_ 5 9) (v_ 6 1)];
     finished := false; polls := 0; late := 0 |}.
Definition sx_st_err : @stream key vobj :=
  {| todo := [SItem (k_ 1 5) (v_ 2 7); SFail; SItem (k_ 3 6) (v_ 4 8)];
     finished := false; polls := 0; late := 0 |}.
(* second entry has the key class of the first: the duplicate key object 3 and the displaced value 2 die in the loop *)
Definition sx_st_dup : @stream key vobj :=
  {| todo := [SItem (k_ 1 5) (v_ 2 7); SItem (k_ 3 5) (v_ 4 8); SFail];
     finished := false; polls := 0; late := 0 |}.
Definition sx_w (n : nat) : world key vobj cstate := {| cb := cs0; log := []; self := new_map n |}.

Example example_honest : honest sx_sc0.
Proof. split; reflexivity. Qed.

Example example_lawful : Lawful (env_map sx_sc0) kcls qcls.
Proof. exact (env_map_lawful sx_sc0 example_honest). Qed.

Example example_hyps :
  WF (self (sx_w 4)) /\ finished sx_st_ok = false /\ stop (todo sx_st_ok) = ROk /\
  finished sx_st_err = false /\ stop (todo sx_st_err) = RErr /\
  lead (todo sx_st_ok) = [(k_ 1 5, v_ 2 7); (k_ 3 6, v_ 4 8)].
Proof. split; [apply WF_new|]. repeat split. Qed.

(* two entries, then the end: three polls, none late; the entry after the end marker is never asked for *)
Example example_decode_ok :
  Stream.decode (env_map sx_sc0) false sx_st_ok (sx_w 4) =
  Ok (ROk, {| todo := [SItem (k_ 5 9) (v_ 6 1)]; finished := true; polls := 3; late := 0 |})
     {| cb := {| n_eq := 1; n_clone := 0; n_call := 0; next_id := 100000 |};
        log := [];
        self := {| len := 2; slots := [Some (k_ 1 5, v_ 2 7); Some (k_ 3 6, v_ 4 8); None; None] |} |}.
Proof. vm_compute. reflexivity. Qed.

(* one entry, then the stream breaks: two polls, none late, Err; the decoded entry (objects 1 and 2) has been
   destroyed and every slot is empty.  NOTE len = 1: Drop for Map does not reset the length. *)
Example example_decode_err :
  Stream.decode (env_map sx_sc0) false sx_st_err (sx_w 4) =
  Ok (RErr, {| todo := [SItem (k_ 3 6) (v_ 4 8)]; finished := true; polls := 2; late := 0 |})
     {| cb := cs0;
        log := [EvDrop 1; EvDrop 2];
        self := {| len := 1; slots := [None; None; None; None] |} |}.
Proof. vm_compute. reflexivity. Qed.

Example example_decode_err_empty :
  match Stream.decode (env_map sx_sc0) false sx_st_err (sx_w 4) with
  | Ok (r, s') w' => r = RErr /\ polls s' = 2 /\ late s' = 0 /\ Spec.elems (self w') = [] /\
                     slots (self w') = [None; None; None; None]
  | _ => False
  end.
Proof. vm_compute. repeat split. Qed.

(* duplicates: every object that entered the visitor (1 2 3 4) is destroyed exactly once *)
Example example_decode_err_dup :
  Stream.decode (env_map sx_sc0) false sx_st_dup (sx_w 4) =
  Ok (RErr, {| todo := []; finished := true; polls := 3; late := 0 |})
     {| cb := {| n_eq := 1; n_clone := 0; n_call := 0; next_id := 100000 |};
        log := [EvDrop 3; EvDrop 2; EvDrop 1; EvDrop 4];
        self := {| len := 1; slots := [None; None; None; None] |} |}.
Proof. vm_compute. reflexivity. Qed.

(* a visitor handed an access object that has ALREADY reported the end polls it once: one late poll *)
Example example_decode_late :
  match Stream.decode (env_map sx_sc0) false
          {| todo := todo sx_st_ok; finished := true; polls := 7; late := 0 |} (sx_w 4) with
  | Ok (r, s') w' => r = ROk /\ polls s' = 8 /\ late s' = 1 /\ self w' = new_map 4
  | _ => False
  end.
Proof. vm_compute. repeat split. Qed.

(* ---- why decode_safe does not claim WF on the Err / panic paths: [keeps (decode E debug s)] does not hold ---- *)
(* (a) honest environment, failing stream: what is left is the dropped husk (len = 1, slot emptied), not WF *)
Example keeps_decode_false_err : ~ keeps (Stream.decode (env_map sx_sc0) false sx_st_err).
Proof.
  intros H. specialize (H (sx_w 4) (WF_new 4)). unfold wp in H. rewrite example_decode_err in H.
  destruct H as [[_ Hlive] _]. destruct (Hlive 0) as [p Hp]; [cbn; lia|]. vm_compute in Hp. discriminate Hp.
Qed.

(* (b) honest environment, no failure but too many entries for the capacity: insert panics, the unwinding
   destroys the local container, which is left with len = 1 and an empty slot *)
Example keeps_decode_false_panic : ~ keeps (Stream.decode (env_map sx_sc0) false sx_st_ok).
Proof.
  intros H. specialize (H (sx_w 1) (WF_new 1)). unfold wp in H.
  assert (Hc : Stream.decode (env_map sx_sc0) false sx_st_ok (sx_w 1) =
               Panic {| cb := {| n_eq := 1; n_clone := 0; n_call := 0; next_id := 100000 |};
                        log := [EvDrop 4; EvDrop 3; EvDrop 1; EvDrop 2];
                        self := {| len := 1; slots := [None] |} |}) by (vm_compute; reflexivity).
  rewrite Hc in H. destruct H as [[_ Hlive] _]. destruct (Hlive 0) as [p Hp]; [cbn; lia|].
  vm_compute in Hp. discriminate Hp.
Qed.

(* (c) the destructor of object 1 panics (sc_drop 1), failing stream: the drop of the local container after the
   loop panics; nothing is dropped twice, the outcome is a panic (not UB), the array is the same array *)
Example example_decode_drop_panic :
  Stream.decode (env_map (sc_drop 1)) false sx_st_err (sx_w 4) =
  Panic {| cb := cs0; log := [EvDrop 1; EvDrop 2]; self := {| len := 1; slots := [None; None; None; None] |} |}.
Proof. vm_compute. reflexivity. Qed.

(* two entries, destructor of the first stored key panics: the second entry is leaked, not destroyed *)
Example example_decode_drop_panic_leak :
  match Stream.decode (env_map (sc_drop 1)) false
          {| todo := [SItem (k_ 1 5) (v_ 2 7); SItem (k_ 3 6) (v_ 4 8); SFail]; finished := false; polls := 0; late := 0 |}
          (sx_w 4) with
  | Panic w' => log w' = [EvDrop 1; EvDrop 2] /\
                slots (self w') = [None; Some (k_ 3 6, v_ 4 8); None; None] /\ len (self w') = 2
  | _ => False
  end.
Proof. vm_compute. repeat split. Qed.
