(* ========================================================================== *)
(* C02 — Each element is destroyed exactly once; dead or uninit slots are
         never used

   STATEMENT (properties.jsonl):
     "Each key and value moved or cloned into a Map or Set is at every moment
      in exactly one place - still stored, handed back to the caller, or
      destroyed - and is destroyed exactly once overall, however the container,
      its consuming iterators (into_iter, into_keys, into_values) and its
      drains are used, partially consumed, dropped early or forgotten. No
      operation reads, compares, returns or destroys a slot that does not
      currently hold a live element, and arguments that end up not being stored
      (duplicate key on insert, rejected insert) are destroyed exactly once as
      well."

   QUANTIFIER (properties.jsonl):
     "all operation sequences over Map, Set and every iterator/drain they hand
      out, every point at which an iterator or drain may be abandoned (dropped
      or mem::forget), all fill levels and capacities"

   VOCABULARY
     UB               In the model every unsafe slot accessor (p_ref, p_read,
                      p_drop, ... in Model/Slots.v) yields the outcome UB when
                      the slot is outside the array or holds no live element,
                      and `wp` is False on UB.  "No operation reads, compares,
                      returns or destroys a slot that does not hold a live
                      element"  ==  "UB is unreachable".
     xworld, step, run_ops, run_case, teardown  (Model/Exec.v)
                      the history interpreter used by the correspondence check:
                      four registers (two Map, two Set), one constructor of
                      [op] per API entry point of Map, Set, their iterators,
                      drains (with a `take` count and a `fate`: dropped /
                      forgotten / consumed by for_each), entry chains, set
                      algebra, clone, eq, from_iter, fmt, serde.  The
                      observation [3] is the UB observation.
     WFx x            all four registers satisfy WF (len <= cap, slots
                      [0,len) live) and no UB has happened.
     contract_ok debug o x / safe_op o   (Proofs/ExecSafe.v)
                      the only operation with a precondition is the crate's
                      `unsafe fn insert_unchecked` (release build, full map);
                      safe_op o := o is not OInsertUnchecked.
     ids_pair E p, owned E m, dropped l   (Proofs/Owned.v)
                      the ledger identities carried by a pair / held in ANY
                      slot of m (live or not) / destroyed so far (EvDrop events
                      of the log).
     acct E w w' ins outs lost :=
         Permutation (owned E (self w') ++ outs ++ lost ++ dropped (log w'))
                     (owned E (self w)  ++ ins  ++ dropped (log w))
                      multiset accounting: stored + handed out + leaked +
                      destroyed afterwards = stored + handed in + destroyed before.
     conserves E c ins outs :=
         forall w, WF (self w) ->
           wp c (fun a w' => WF (self w') /\ cap (self w') = cap (self w) /\
                             exists lost, acct E w w' ins (outs a) lost /\
                                          (Tidy (self w) -> lost = [] /\ Tidy (self w')))
                (fun w' => WF (self w') /\ cap (self w') = cap (self w) /\
                           exists lost, acct E w w' ins [] lost)
                w
                      ([ins] = identities moved into the call, [outs a] = moved
                      out with the result; Tidy m = no element sits beyond len.)
                      The environment E is ARBITRARY: ==, Clone, Drop, closures
                      may lie, change their mind and panic.
     cpostN E w ins outs w' / cpostP E w ins w'   (Proofs/Owned.v)
                      the normal / panic postcondition of `conserves` as a
                      predicate, for calls that need an extra precondition:
                      cpostN E w ins outs w' := WF (self w') /\ cap (self w') = cap (self w) /\
                         exists lost, acct E w w' ins outs lost /\
                                      (Tidy (self w) -> lost = [] /\ Tidy (self w'))
                      cpostP E w ins w' := WF (self w') /\ cap (self w') = cap (self w) /\
                         exists lost, acct E w w' ins [] lost
     entry_ok e m     (Proofs/Safety3.v) Occupied i => i < len m | Vacant _ => True
     ids_entry E e    (Proofs/Owned2.v) the key a Vacant entry carries; [] for Occupied
     made_entry E e f w   what or_insert_with's closure f produces from callback
                      state cb w when e is Vacant (idV of the value if it
                      returns, [] if it panics); [] for Occupied (f not called)
     into_keys_next E / into_values_next E   (Proofs/Owned2.v, not in the model)
                      IntoIter::next followed by the drop of the half of the
                      pair that IntoKeys / IntoValues does not hand out
     clone_made E src n i s   the pairs the Clone callbacks return, in order,
                      when cloning slots i, i+1, ... of src from callback
                      state s, up to the first Clone panic
     cloned_from E a k'   k' is what cloneK returned, in some callback state,
                      for a key stored in a

   READING GUIDE (clause -> theorem)
     "No operation reads, compares, returns or destroys a slot that does not
      currently hold a live element" - for all operation sequences over Map,
      Set, iterators, drains, every abandonment point (take/fate parameters):
          one call           C02_step_safe
          any history        C02_run_safe   (release and debug, safe API only)
                             C02_run_safe_debug (debug build, even with the
                                                 unsafe insert_unchecked)
          any case file      C02_run_case_safe
          the contract of insert_unchecked is genuinely needed
                             C02_insert_unchecked_contract_needed
     "at every moment in exactly one place - stored, handed back, destroyed":
          insert / insert_key_value / checked_insert (this also accounts for the
          arguments that end up not stored: with ins = ids of (k,v) and outs =
          ids of what is returned, everything else is stored or destroyed)
                             C02_conserves_insert, C02_conserves_insert_key_value,
                             C02_conserves_checked_insert
          remove / remove_entry / retain / clear
                             C02_conserves_remove, C02_conserves_remove_entry,
                             C02_conserves_retain, C02_conserves_clear
          Drop for Map       C02_drop_map_acct (from a Tidy state everything is
                             destroyed: owned = [] afterwards, nothing lost)
          IntoIter::next     C02_conserves_into_iter_next
          Drain::next / Drain::drop at ANY cursor position
                             C02_drain_next_acct, C02_drain_drop_acct
          collect / from_iter (incl. the partially built map dropped on panic)
                             C02_from_iter_acct
          "exactly one place" = no identity occurs twice in
          stored ++ handed-out ++ destroyed, preserved by every conserving call,
          on normal return AND on panic
                             C02_conserves_NoDup
     "destroyed exactly once overall ... partially consumed, dropped early":
          the log of a whole drain session (take n, then drop the Drain):
          exactly the not-yet-yielded entries are destroyed, each once
                             C02_drain_session_logs
          a fully consumed IntoIter hands out every entry, container empty
                             C02_into_run_all_rev
     Entry API (Proofs/Owned2.v), any environment:
          Map::entry          C02_conserves_entry_of (a Vacant entry holds the key)
          OccupiedEntry::insert / remove_entry / remove
                             C02_conserves_occ_insert, C02_conserves_occ_remove_entry,
                             C02_conserves_occ_remove
          VacantEntry::insert C02_conserves_vac_insert
          or_insert / or_insert_with / and_modify (the unused default of an
          Occupied entry is destroyed, not leaked)
                             C02_conserves_or_insert, C02_conserves_or_insert_with,
                             C02_conserves_and_modify
          the chain entry(k).or_insert(v)
                             C02_conserves_entry_or_insert
     "its consuming iterators (into_iter, into_keys, into_values)":
          IntoKeys::next / IntoValues::next
                             C02_conserves_into_keys_next, C02_conserves_into_values_next
     Set<T,N>, one lemma per method:
          insert / replace / remove / take / clear / retain
                             C02_conserves_s_insert, C02_conserves_s_replace,
                             C02_conserves_s_remove, C02_conserves_s_take,
                             C02_conserves_s_clear, C02_conserves_s_retain
          extend / from_iter (hypothesis: () carries no ledger identity)
                             C02_conserves_s_extend, C02_s_from_iter_acct
          no identity in two places, return and panic
                             C02_s_insert_NoDup, C02_s_take_NoDup
          &Set - &Set        C02_set_sub_acct (the result holds clones of
                             elements of the left operand, each accounted for)
     "cloned into a Map": Clone
                             C02_clone_acct (the clone owns exactly what the Clone
                             callbacks returned; on a Clone panic every object
                             made so far is destroyed by the Drop of the partial
                             clone, or leaked in it)
                             C02_clone_NoDup (none of them twice)

   PARTLY / NOT COVERED BY A THEOREM (left to the correspondence check and the
   harness's leak oracle)
     - Set<T,N> (the wrapper Map<T,(),N>, Model/SetOps.v): NOW COVERED by the
       C02_conserves_s_* / C02_s_* theorems above.  Still without an accounting
       lemma: the read-only Set methods contains / get (Owned2.conserves_s_contains,
       conserves_s_get exist but are not restated here), the set algebra iterators
       (they only borrow) and BitOr/BitAnd/BitXor (only Sub: C02_set_sub_acct);
       their UB-freedom is in C02_step_safe;
     - into_keys / into_values: NOW COVERED per step by C02_conserves_into_keys_next
       / C02_conserves_into_values_next; into_keys_next / into_values_next are
       defined in Proofs/Owned2.v on top of the model's IntoIter::next (the model
       has one IntoIter with a `kind` in Exec.v), so that they match the crate's
       IntoKeys / IntoValues is part of the correspondence check;
     - Entry API: or_insert_with_key has lemmas in Owned2 (conserves_or_insert_with_key and its _vacant, _occupied variants)
       that are not restated here; Entry::or_default, Entry::key, OccupiedEntry::get
       / get_mut / into_mut / key move nothing (C11);
     - Clone: C02_clone_acct is stated for the model's clone_from_src into an EMPTY
       TIDY container of the source's capacity (what Map::clone starts from);
       Clone::clone_from into a non-empty container is not modelled;
     - mem::forget of a Drain / IntoIter: safety is in C02_step_safe (fate
       parameter); that forgetting leaks (and never double-drops) is
       IterSpec.drain_forgotten, listed under C10;
     - on a PANIC the conservation triple allows a leak (`lost`): "destroyed
       exactly once" is then "at most once".  The by-value arguments of a call
       that panics (rejected insert on a full map) ARE in the model: the locals
       a frame owns are destroyed when a panic unwinds through it, they are
       part of `ins` and end up in dropped (log w'); that a rejection loses
       nothing at all (lost = []) is stated exactly in Props/C03.v
       (C03_insert_ii_strong, C03_insert_panic_cases and the panic clauses of
       the C03_*_lawful theorems), not by the `conserves` triple;
     - that lost = [] needs Tidy (no stale element beyond len), which holds in
       all states reachable from new_map (new_map is Tidy and every conserving
       call preserves Tidy on normal return; after a panic Tidy may be lost,
       which is the tolerated leak of C04).
   ========================================================================== *)
Require Import Model.Base Model.Slots Model.MapOps Model.EntryOps Model.SetOps Model.Fmt Model.Exec.
Require Import Proofs.Hoare Proofs.Inv Proofs.Safety Proofs.Safety2 Proofs.Safety3 Proofs.Spec Proofs.IterSpec
               Proofs.Owned Proofs.Owned2 Proofs.ExecSafe Proofs.Legacy.
From Coq Require Import Permutation.

(* -------------------------------------------------------------------------- *)
(* UB-freedom of every history (every script: honest, lying ==, injected panic) *)
Theorem C02_step_safe :
  forall (debug : bool) (sc : script) (o : op) (x : xworld),
  WFx x ->
  contract_ok debug o x ->
  WFx (snd (step debug sc o x)) /\ caps (snd (step debug sc o x)) = caps x.
Proof. exact step_safe. Qed.
Print Assumptions C02_step_safe.

Theorem C02_run_safe :
  forall (debug : bool) (sc : script) (ops : list op) (x : xworld),
  WFx x ->
  Forall safe_op ops ->
  Forall (fun obs : list N => obs <> [3%N]) (run_ops debug sc ops x).
Proof. exact run_safe. Qed.
Print Assumptions C02_run_safe.

Theorem C02_run_safe_debug :
  forall (sc : script) (ops : list op) (x : xworld),
  WFx x ->
  Forall (fun obs : list N => obs <> [3%N]) (run_ops true sc ops x).
Proof. exact run_safe_debug. Qed.
Print Assumptions C02_run_safe_debug.

Theorem C02_run_case_safe :
  forall (debug : bool) (segs : list (list N)),
  debug = true \/ Forall safe_op (List.map decode (tl segs)) ->
  Forall (fun obs : list N => obs <> [3%N]) (run_case debug segs).
Proof. exact run_case_safe. Qed.
Print Assumptions C02_run_case_safe.

Theorem C02_insert_unchecked_contract_needed :
  WFx (init_world 0 0 0 0) /\
  fst (step false {| sc_adv := false; sc_seed := 0; sc_fk := 0; sc_fa := 0 |}
            (OInsertUnchecked 0 (mk 1 1) (mv 2 2)) (init_world 0 0 0 0)) = [3%N].
Proof. exact insert_unchecked_contract_needed. Qed.
Print Assumptions C02_insert_unchecked_contract_needed.

(* -------------------------------------------------------------------------- *)
(* ownership conservation, arbitrary environment                              *)
Theorem C02_conserves_insert :
  forall (K V Q T : Type) (E : env K V Q T) (debug : bool) (k : K) (v : V),
  conserves E (insert E debug k v) (ids_pair E (k, v))
            (fun r : option V => match r with Some v0 => idV E v0 | None => [] end).
Proof. exact (@conserves_insert). Qed.
Print Assumptions C02_conserves_insert.

Theorem C02_conserves_insert_key_value :
  forall (K V Q T : Type) (E : env K V Q T) (debug : bool) (k : K) (v : V),
  conserves E (insert_key_value E debug k v) (ids_pair E (k, v))
            (fun r : option (K * V) => match r with Some p => ids_pair E p | None => [] end).
Proof. exact (@conserves_insert_key_value). Qed.
Print Assumptions C02_conserves_insert_key_value.

Theorem C02_conserves_checked_insert :
  forall (K V Q T : Type) (E : env K V Q T) (debug : bool) (k : K) (v : V),
  conserves E (checked_insert E debug k v) (ids_pair E (k, v))
            (fun r : option (option V) => match r with Some (Some v0) => idV E v0 | _ => [] end).
Proof. exact (@conserves_checked_insert). Qed.
Print Assumptions C02_conserves_checked_insert.

Theorem C02_conserves_remove :
  forall (K V Q T : Type) (E : env K V Q T) (debug : bool) (q : Q),
  conserves E (remove E debug q) []
            (fun r : option V => match r with Some v => idV E v | None => [] end).
Proof. exact (@conserves_remove). Qed.
Print Assumptions C02_conserves_remove.

Theorem C02_conserves_remove_entry :
  forall (K V Q T : Type) (E : env K V Q T) (debug : bool) (q : Q),
  conserves E (remove_entry E debug q) []
            (fun r : option (K * V) => match r with Some p => ids_pair E p | None => [] end).
Proof. exact (@conserves_remove_entry). Qed.
Print Assumptions C02_conserves_remove_entry.

(* the retain closure may rewrite the value in place but not swap its identity *)
Theorem C02_conserves_retain :
  forall (K V Q T : Type) (E : env K V Q T) (debug : bool) (f : @pred_t K V T),
  (forall (s : T) (k : K) (v : V), idV E (snd (fst (f s k v))) = idV E v) ->
  conserves E (retain E debug f) [] (fun _ : unit => []).
Proof. exact (@conserves_retain). Qed.
Print Assumptions C02_conserves_retain.

Theorem C02_conserves_clear :
  forall (K V Q T : Type) (E : env K V Q T),
  conserves E (clear E) [] (fun _ : unit => []).
Proof. exact (@conserves_clear). Qed.
Print Assumptions C02_conserves_clear.

Theorem C02_drop_map_acct :
  forall (K V Q T : Type) (E : env K V Q T) (w : world K V T),
  WF (self w) ->
  wp (drop_map E)
    (fun (_ : unit) (w' : world K V T) =>
       exists lost : list N,
         acct E w w' [] [] lost /\
         (Tidy (self w) -> lost = [] /\ owned E (self w') = []))
    (fun w' : world K V T => exists lost : list N, acct E w w' [] [] lost)
    w.
Proof. exact (@drop_map_acct). Qed.
Print Assumptions C02_drop_map_acct.

Theorem C02_conserves_into_iter_next :
  forall (K V Q T : Type) (E : env K V Q T),
  conserves E into_iter_next []
            (fun r : option (K * V) => match r with Some p => ids_pair E p | None => [] end).
Proof. exact (@conserves_into_iter_next). Qed.
Print Assumptions C02_conserves_into_iter_next.

(* DrainInv c m := len m = 0 /\ snd c <= cap m /\ forall j, fst c <= j < snd c -> live m j
   (the state while a Drain with cursor c is alive) *)
Theorem C02_drain_next_acct :
  forall (K V Q T : Type) (E : env K V Q T) (c : cursor) (w : world K V T),
  DrainInv c (self w) ->
  wp (drain_next c)
    (fun (r : option (K * V) * cursor) (w' : world K V T) =>
       DrainInv (snd r) (self w') /\
       cap (self w') = cap (self w) /\
       acct E w w' [] (match fst r with Some p => ids_pair E p | None => [] end) [] /\
       (forall j : nat,
          j < fst c \/ snd c <= j ->
          nth_error (slots (self w')) j = nth_error (slots (self w)) j) /\
       match fst r with
       | Some _ => snd r = (S (fst c), snd c) /\ nth_error (slots (self w')) (fst c) = Some None
       | None => snd r = c /\ self w' = self w
       end)
    (fun _ : world K V T => False)
    w.
Proof. exact (@drain_next_acct). Qed.
Print Assumptions C02_drain_next_acct.

Theorem C02_drain_drop_acct :
  forall (K V Q T : Type) (E : env K V Q T) (c : cursor) (w : world K V T),
  DrainInv c (self w) ->
  let post := fun (full : bool) (w' : world K V T) =>
    WF (self w') /\
    len (self w') = 0 /\
    cap (self w') = cap (self w) /\
    acct E w w' [] [] [] /\
    (full = true ->
     (forall j : nat,
        j < fst c \/ snd c <= j ->
        nth_error (slots (self w)) j <> None -> nth_error (slots (self w)) j = Some None) ->
     Tidy (self w')) in
  wp (drain_drop E c) (fun _ : unit => post true) (post false) w.
Proof. exact (@drain_drop_acct). Qed.
Print Assumptions C02_drain_drop_acct.

Theorem C02_from_iter_acct :
  forall (K V Q T : Type) (E : env K V Q T) (debug : bool) (nx : T -> ans * T)
         (items : list (K * V)) (w : world K V T),
  WF (self w) ->
  wp (from_iter E debug nx items)
    (fun (_ : unit) (w' : world K V T) =>
       WF (self w') /\
       cap (self w') = cap (self w) /\
       exists lost : list N,
         acct E w w' (flat_map (ids_pair E) items) [] lost /\
         (Tidy (self w) -> lost = [] /\ Tidy (self w')))
    (fun w' : world K V T =>
       exists lost : list N, acct E w w' (flat_map (ids_pair E) items) [] lost)
    w.
Proof. exact (@from_iter_acct). Qed.
Print Assumptions C02_from_iter_acct.

(* headline: no identity is ever in two places, on return and on panic *)
Theorem C02_conserves_NoDup :
  forall (K V Q T : Type) (E : env K V Q T) (A : Type) (c : M K V T A) (ins : list N)
         (outs : A -> list N) (w : world K V T),
  conserves E c ins outs ->
  WF (self w) ->
  NoDup (owned E (self w) ++ ins ++ dropped (log w)) ->
  wp c
    (fun (a : A) (w' : world K V T) => NoDup (owned E (self w') ++ outs a ++ dropped (log w')))
    (fun w' : world K V T => NoDup (owned E (self w') ++ dropped (log w')))
    w.
Proof. exact (@conserves_NoDup). Qed.
Print Assumptions C02_conserves_NoDup.

(* -------------------------------------------------------------------------- *)
(* whole sessions of the consuming iterators                                  *)
(* evp E p := ev_drops (idK E (fst p) ++ idV E (snd p)): the Drop events of pair p *)
Theorem C02_drain_session_logs :
  forall (K V Q T : Type) (E : env K V Q T) (n : nat) (w : world K V T),
  WF (self w) ->
  wp (c <- drain ;; r <- drain_run n c ;; drain_drop E (snd r) ;; ret (fst r))
    (fun (r : list (K * V)) (w' : world K V T) =>
       r = firstn n (Spec.elems (self w)) /\
       log w' = log w ++ flat_map (evp E) (skipn n (Spec.elems (self w))))
    (fun w' : world K V T =>
       exists k : nat,
         log w' = log w ++ flat_map (evp E) (firstn k (skipn n (Spec.elems (self w)))))
    w.
Proof. exact (@drain_session_logs). Qed.
Print Assumptions C02_drain_session_logs.

Theorem C02_into_run_all_rev :
  forall (K V T : Type) (w : world K V T),
  WF (self w) ->
  wp (into_run (len (self w)))
    (fun (r : list (K * V)) (w' : world K V T) =>
       r = rev (Spec.elems (self w)) /\ len (self w') = 0 /\ Spec.elems (self w') = [])
    (fun _ : world K V T => False)
    w.
Proof. exact (@into_run_all_rev). Qed.
Print Assumptions C02_into_run_all_rev.

(* -------------------------------------------------------------------------- *)
(* ownership conservation for the entry API, into_keys / into_values, every Set
   method, clone and the Set subtraction (Proofs/Owned2.v), arbitrary environment *)

(* Map::entry: the key is handed in; a Vacant entry carries it out again *)
Theorem C02_conserves_entry_of :
  forall (K V Q T : Type) (E : env K V Q T) (k : K),
  conserves E (entry_of E k) (idK E k) (ids_entry E).
Proof. exact (@conserves_entry_of). Qed.
Print Assumptions C02_conserves_entry_of.

(* OccupiedEntry::insert: the new value goes in, the old value comes out *)
Theorem C02_conserves_occ_insert :
  forall (K V Q T : Type) (E : env K V Q T) (i : nat) (v : V) (w : world K V T),
  WF (self w) ->
  i < len (self w) ->
  wp (occ_insert i v)
    (fun r : V => cpostN E w (idV E v) (idV E r))
    (cpostP E w (idV E v))
    w.
Proof. exact (@conserves_occ_insert). Qed.
Print Assumptions C02_conserves_occ_insert.

Theorem C02_conserves_occ_remove_entry :
  forall (K V Q T : Type) (E : env K V Q T) (debug : bool) (i : nat) (w : world K V T),
  WF (self w) ->
  i < len (self w) ->
  wp (occ_remove_entry debug i)
    (fun p : K * V => cpostN E w [] (ids_pair E p))
    (cpostP E w [])
    w.
Proof. exact (@conserves_occ_remove_entry). Qed.
Print Assumptions C02_conserves_occ_remove_entry.

Theorem C02_conserves_occ_remove :
  forall (K V Q T : Type) (E : env K V Q T) (debug : bool) (i : nat) (w : world K V T),
  WF (self w) ->
  i < len (self w) ->
  wp (occ_remove E debug i)
    (fun v : V => cpostN E w [] (idV E v))
    (cpostP E w [])
    w.
Proof. exact (@conserves_occ_remove). Qed.
Print Assumptions C02_conserves_occ_remove.

Theorem C02_conserves_vac_insert :
  forall (K V Q T : Type) (E : env K V Q T) (debug : bool) (k : K) (v : V),
  conserves E (vac_insert E debug k v) (ids_pair E (k, v)) (fun _ : nat => []).
Proof. exact (@conserves_vac_insert). Qed.
Print Assumptions C02_conserves_vac_insert.

(* Entry::or_insert: an Occupied entry destroys the unused default value *)
Theorem C02_conserves_or_insert :
  forall (K V Q T : Type) (E : env K V Q T) (debug : bool) (e : @entry K) (v : V) (w : world K V T),
  WF (self w) ->
  entry_ok e (self w) ->
  wp (or_insert E debug e v)
    (fun (i : nat) (w' : world K V T) =>
       cpostN E w (ids_entry E e ++ idV E v) [] w' /\ i < len (self w'))
    (cpostP E w (ids_entry E e ++ idV E v))
    w.
Proof. exact (@conserves_or_insert). Qed.
Print Assumptions C02_conserves_or_insert.

(* Entry::or_insert_with: the closure's value (made_entry) enters only when the
   entry is Vacant and the closure returns *)
Theorem C02_conserves_or_insert_with :
  forall (K V Q T : Type) (E : env K V Q T) (debug : bool) (e : @entry K)
         (f : T -> option V * T) (w : world K V T),
  WF (self w) ->
  entry_ok e (self w) ->
  wp (or_insert_with E debug e f)
    (fun (i : nat) (w' : world K V T) =>
       cpostN E w (ids_entry E e ++ made_entry E e f w) [] w' /\ i < len (self w'))
    (cpostP E w (ids_entry E e ++ made_entry E e f w))
    w.
Proof. exact (@conserves_or_insert_with). Qed.
Print Assumptions C02_conserves_or_insert_with.

(* Entry::and_modify: the closure may rewrite the value in place but not swap
   its identity *)
Theorem C02_conserves_and_modify :
  forall (K V Q T : Type) (E : env K V Q T) (e : @entry K) (f : @modf_t V T) (w : world K V T),
  (forall (s : T) (v : V), idV E (snd (fst (f s v))) = idV E v) ->
  WF (self w) ->
  entry_ok e (self w) ->
  wp (and_modify e f)
    (fun (e' : @entry K) (w' : world K V T) =>
       cpostN E w (ids_entry E e) (ids_entry E e') w' /\ e' = e /\ entry_ok e' (self w'))
    (cpostP E w (ids_entry E e))
    w.
Proof. exact (@conserves_and_modify). Qed.
Print Assumptions C02_conserves_and_modify.

(* the whole chain map.entry(k).or_insert(v) *)
Theorem C02_conserves_entry_or_insert :
  forall (K V Q T : Type) (E : env K V Q T) (debug : bool) (k : K) (v : V),
  conserves E (e <- entry_of E k ;; or_insert E debug e v) (ids_pair E (k, v)) (fun _ : nat => []).
Proof. exact (@conserves_entry_or_insert). Qed.
Print Assumptions C02_conserves_entry_or_insert.

(* IntoKeys::next / IntoValues::next: the other half of the pair is destroyed *)
Theorem C02_conserves_into_keys_next :
  forall (K V Q T : Type) (E : env K V Q T),
  conserves E (into_keys_next E) []
            (fun r : option K => match r with Some k => idK E k | None => [] end).
Proof. exact (@conserves_into_keys_next). Qed.
Print Assumptions C02_conserves_into_keys_next.

Theorem C02_conserves_into_values_next :
  forall (K V Q T : Type) (E : env K V Q T),
  conserves E (into_values_next E) []
            (fun r : option V => match r with Some v => idV E v | None => [] end).
Proof. exact (@conserves_into_values_next). Qed.
Print Assumptions C02_conserves_into_values_next.

(* Set<T,N> = Map<T,(),N>: one conservation lemma per Set method *)
Theorem C02_conserves_s_insert :
  forall (K Q T : Type) (E : env K unit Q T) (debug : bool) (k : K),
  conserves E (s_insert E debug k) (ids_pair E (k, tt))
            (fun r : bool => if r then [] else idV E tt).
Proof. exact (@conserves_s_insert). Qed.
Print Assumptions C02_conserves_s_insert.

Theorem C02_conserves_s_replace :
  forall (K Q T : Type) (E : env K unit Q T) (debug : bool) (k : K),
  conserves E (s_replace E debug k) (ids_pair E (k, tt))
            (fun r : option K => match r with Some k' => ids_pair E (k', tt) | None => [] end).
Proof. exact (@conserves_s_replace). Qed.
Print Assumptions C02_conserves_s_replace.

Theorem C02_conserves_s_remove :
  forall (K Q T : Type) (E : env K unit Q T) (debug : bool) (q : Q),
  conserves E (s_remove E debug q) [] (fun r : bool => if r then idV E tt else []).
Proof. exact (@conserves_s_remove). Qed.
Print Assumptions C02_conserves_s_remove.

Theorem C02_conserves_s_take :
  forall (K Q T : Type) (E : env K unit Q T) (debug : bool) (q : Q),
  conserves E (s_take E debug q) []
            (fun r : option K => match r with Some k' => ids_pair E (k', tt) | None => [] end).
Proof. exact (@conserves_s_take). Qed.
Print Assumptions C02_conserves_s_take.

Theorem C02_conserves_s_clear :
  forall (K Q T : Type) (E : env K unit Q T),
  conserves E (s_clear E) [] (fun _ : unit => []).
Proof. exact (@conserves_s_clear). Qed.
Print Assumptions C02_conserves_s_clear.

Theorem C02_conserves_s_retain :
  forall (K Q T : Type) (E : env K unit Q T) (debug : bool) (f : T -> K -> option bool * T),
  conserves E (s_retain E debug f) [] (fun _ : unit => []).
Proof. exact (@conserves_s_retain). Qed.
Print Assumptions C02_conserves_s_retain.

(* from here on: the unit value () carries no ledger identity *)
Theorem C02_conserves_s_extend :
  forall (K Q T : Type) (E : env K unit Q T) (debug : bool),
  idV E tt = [] ->
  forall (nx : T -> ans * T) (items : list K),
  conserves E (s_extend E debug nx items) (flat_map (fun k : K => ids_pair E (k, tt)) items)
            (fun _ : unit => []).
Proof. exact (@conserves_s_extend). Qed.
Print Assumptions C02_conserves_s_extend.

Theorem C02_s_from_iter_acct :
  forall (K Q T : Type) (E : env K unit Q T) (debug : bool),
  idV E tt = [] ->
  forall (nx : T -> ans * T) (items : list K) (w : world K unit T),
  WF (self w) ->
  wp (s_from_iter E debug nx items)
    (fun (_ : unit) (w' : world K unit T) =>
       WF (self w') /\
       cap (self w') = cap (self w) /\
       exists lost : list N,
         acct E w w' (flat_map (fun k : K => ids_pair E (k, tt)) items) [] lost /\
         (Tidy (self w) -> lost = [] /\ Tidy (self w')))
    (fun w' : world K unit T =>
       exists lost : list N,
         acct E w w' (flat_map (fun k : K => ids_pair E (k, tt)) items) [] lost)
    w.
Proof. exact (@s_from_iter_acct). Qed.
Print Assumptions C02_s_from_iter_acct.

(* "exactly one place" for Set::insert and Set::take, on return and on panic *)
Theorem C02_s_insert_NoDup :
  forall (K Q T : Type) (E : env K unit Q T) (debug : bool) (k : K) (w : world K unit T),
  WF (self w) ->
  NoDup (owned E (self w) ++ ids_pair E (k, tt) ++ dropped (log w)) ->
  wp (s_insert E debug k)
    (fun (r : bool) (w' : world K unit T) =>
       NoDup (owned E (self w') ++ (if r then [] else idV E tt) ++ dropped (log w')))
    (fun w' : world K unit T => NoDup (owned E (self w') ++ dropped (log w')))
    w.
Proof. exact (@s_insert_NoDup). Qed.
Print Assumptions C02_s_insert_NoDup.

Theorem C02_s_take_NoDup :
  forall (K Q T : Type) (E : env K unit Q T) (debug : bool) (q : Q) (w : world K unit T),
  WF (self w) ->
  NoDup (owned E (self w) ++ dropped (log w)) ->
  wp (s_take E debug q)
    (fun (r : option K) (w' : world K unit T) =>
       NoDup (owned E (self w') ++
              match r with Some k' => ids_pair E (k', tt) | None => [] end ++
              dropped (log w')))
    (fun w' : world K unit T => NoDup (owned E (self w') ++ dropped (log w')))
    w.
Proof. exact (@s_take_NoDup). Qed.
Print Assumptions C02_s_take_NoDup.

(* Clone into an empty tidy container of the source's capacity: the clone owns
   exactly the objects the Clone callbacks returned (clone_made), nothing is
   destroyed on normal return; on a panic of a Clone callback the partial clone is
   dropped by the unwinding, and every object made so far has been destroyed by
   that Drop (d) or is left (leaked) in its dead storage (owned E (self w')),
   none twice *)
Theorem C02_clone_acct :
  forall (K V Q T : Type) (E : env K V Q T) (src : map K V) (w : world K V T),
  WF src ->
  WF (self w) ->
  len (self w) = 0 ->
  cap (self w) = cap src ->
  Tidy (self w) ->
  let made := flat_map (ids_pair E) (clone_made E src (len src) 0 (cb w)) in
  wp (clone_from_src E src)
    (fun (_ : unit) (w' : world K V T) =>
       WF (self w') /\
       Tidy (self w') /\
       len (self w') = len src /\
       length (clone_made E src (len src) 0 (cb w)) = len src /\
       dropped (log w') = dropped (log w) /\
       Permutation (owned E (self w')) made)
    (fun w' : world K V T =>
       exists d : list N,
         dropped (log w') = dropped (log w) ++ d /\
         Permutation (owned E (self w') ++ d) made)
    w.
Proof. exact (@clone_acct). Qed.
Print Assumptions C02_clone_acct.

Theorem C02_clone_NoDup :
  forall (K V Q T : Type) (E : env K V Q T) (src : map K V) (w : world K V T),
  WF src ->
  WF (self w) ->
  len (self w) = 0 ->
  cap (self w) = cap src ->
  Tidy (self w) ->
  NoDup (flat_map (ids_pair E) (clone_made E src (len src) 0 (cb w)) ++ dropped (log w)) ->
  wp (clone_from_src E src)
    (fun (_ : unit) (w' : world K V T) => NoDup (owned E (self w') ++ dropped (log w')))
    (fun w' : world K V T => NoDup (owned E (self w') ++ dropped (log w')))
    w.
Proof. exact (@clone_NoDup). Qed.
Print Assumptions C02_clone_NoDup.

(* Set - Set (Sub for &Set): the result register receives clones (cloned_from)
   of elements of a, each accounted for *)
Theorem C02_set_sub_acct :
  forall (K Q T : Type) (E : env K unit Q T) (debug : bool),
  idV E tt = [] ->
  forall (a b : map K unit) (w : world K unit T),
  WF a ->
  WF b ->
  WF (self w) ->
  wp (set_sub E debug a b)
    (fun (_ : unit) (w' : world K unit T) =>
       WF (self w') /\
       cap (self w') = cap (self w) /\
       exists made : list K,
         Forall (cloned_from E a) made /\
         exists lost : list N,
           acct E w w' (flat_map (fun k : K => ids_pair E (k, tt)) made) [] lost /\
           (Tidy (self w) -> lost = [] /\ Tidy (self w')))
    (fun w' : world K unit T =>
       exists made : list K,
         Forall (cloned_from E a) made /\
         exists lost : list N,
           acct E w w' (flat_map (fun k : K => ids_pair E (k, tt)) made) [] lost)
    w.
Proof. exact (@set_sub_acct). Qed.
Print Assumptions C02_set_sub_acct.

(* -------------------------------------------------------------------------- *)
(* non-vacuity                                                                *)
(* well-formed interpreter states exist (any capacities) *)
Example C02_example_WFx : WFx (init_world 2 0 1 3).
Proof. exact (init_WFx 2 0 1 3). Qed.

(* the hypotheses of C02_conserves_NoDup / C02_drop_map_acct hold of the
   3-entry map m3 (Proofs/Legacy.v): well-formed, tidy, six distinct identities *)
Example C02_example_WF : WF m3.
Proof. exact m3_WF. Qed.

Example C02_example_Tidy : Tidy m3.
Proof.
  intros i Hi Hn. cbn [len m3] in Hi.
  destruct i as [|[|[|i]]]; try lia. exfalso. apply Hn. destruct i; reflexivity.
Qed.

Example C02_example_owned :
  owned (env_map (sc_drop 0)) m3 ++ [] ++ dropped [] = [1; 2; 3; 4; 5; 6]%N /\
  NoDup (owned (env_map (sc_drop 0)) m3 ++ [] ++ dropped []).
Proof.
  split; [vm_compute; reflexivity|]. vm_compute.
  repeat constructor; cbn [In]; intros H;
    repeat (destruct H as [H | H]; try discriminate H); exact H.
Qed.

(* a concrete case (release build, honest script, Map register 0 of capacity 1):
   insert (id 1, id 2); a second key overflows and panics (observation 2...),
   the container is unchanged; the final teardown destroys ids 1 and 2, each
   once (the list between 8888 and 8889 of the first register) *)
Example C02_example_run_case :
  run_case false [[0; 0; 0; 0; 1; 0; 1; 0]; [10; 0; 1; 5; 2; 7]; [10; 0; 5; 6; 6; 9]]%N
  = [[1; 0; 7777; 1; 1; 1; 5; 2; 7; 8888; 8889];
     [2; 7777; 1; 1; 1; 5; 2; 7; 8888; 8889];
     [1; 7777; 0; 1; 8888; 1; 2; 8889;  1; 7777; 0; 0; 8888; 8889;
      1; 7777; 0; 1; 8888; 8889;  1; 7777; 0; 0; 8888; 8889;
      8890; 1; 0; 0; 100000]]%N.
Proof. vm_compute. reflexivity. Qed.

(* the hypothesis "() has no identity" of C02_conserves_s_extend,
   C02_s_from_iter_acct, C02_set_sub_acct holds of the interpreter's Set
   environment, for every script *)
Example C02_example_unit_no_id : forall sc : script, idV (env_set sc) tt = [].
Proof. reflexivity. Qed.

(* entry_ok: an Occupied entry of m3 must point below len = 3; Vacant is free *)
Example C02_example_entry_ok :
  entry_ok (@Occupied key 2) m3 /\ entry_ok (Vacant (k_ 9 9)) m3 /\ ~ entry_ok (@Occupied key 3) m3.
Proof. cbn [entry_ok len m3]. repeat split; try lia. Qed.

(* the preconditions of C02_clone_acct / C02_clone_NoDup for cloning m3 into an
   empty container of the same capacity, and what the honest Clone callbacks make *)
Example C02_example_clone :
  let w0 := w_of (new_map (cap m3)) in
  WF (self w0) /\ len (self w0) = 0 /\ cap (self w0) = cap m3 /\ Tidy (self w0) /\
  length (clone_made (env_map (sc_drop 0)) m3 (len m3) 0 (cb w0)) = 3 /\
  NoDup (flat_map (ids_pair (env_map (sc_drop 0)))
                  (clone_made (env_map (sc_drop 0)) m3 (len m3) 0 (cb w0)) ++ dropped (log w0)).
Proof.
  cbv zeta. split; [apply WF_new|]. split; [reflexivity|]. split; [reflexivity|].
  split; [intros i _ Hn; destruct i as [|[|[|i]]]; try reflexivity; exfalso; apply Hn; destruct i; reflexivity|].
  split; [vm_compute; reflexivity|]. vm_compute.
  repeat constructor; cbn [In]; intros H;
    repeat (destruct H as [H | H]; try discriminate H); exact H.
Qed.
