(* Gaps.v — small independent lemmas closing gaps found while writing the
   property files (C03, C04, C09, C11, C13, C15, C18, C19). *)
Require Import Model.Base Model.Slots Model.MapOps Model.EntryOps Model.SetOps Model.Fmt Model.Exec.
Require Import Proofs.Hoare Proofs.Inv Proofs.Safety Proofs.Safety2 Proofs.Safety3 Proofs.Spec Proofs.Lawful Proofs.Lawful2 Proofs.Lawful3 Proofs.IterSpec Proofs.EqClone Proofs.Disjoint Proofs.EntrySpec Proofs.Dict Proofs.Bulk Proofs.FmtSerde Proofs.Legacy Proofs.Algebra Proofs.Algebra2.
From Coq Require Import Permutation.

(* ======================================================================== *)
(* G1 (C04): the repaired retain on the history of finding F3                *)
(* ======================================================================== *)
Lemma retain_fixed_same_history :
  match retain (env_map (sc_drop 1)) false pred_false (w_of m3) with
  | Panic w' => WF (self w') /\ drop_map (env_map (sc_drop 1)) w' <> UB
  | _ => False
  end.
Proof.
  set (r := retain (env_map (sc_drop 1)) false pred_false (w_of m3)).
  vm_compute in r. subst r. cbv beta iota. split.
  - split.
    + cbn [self len cap slots length]. lia.
    + cbn [self len]. intros i Hi. unfold live. cbn [self slots].
      destruct i as [|[|i]]; [eexists; reflexivity | eexists; reflexivity | lia].
  - vm_compute. discriminate.
Qed.

(* the outcome itself: two entries survive, in a well-formed container; only
   the removed pair (ids 1, 2) has been destroyed *)
Lemma retain_fixed_same_history_outcome :
  match retain (env_map (sc_drop 1)) false pred_false (w_of m3) with
  | Panic w' => len (self w') = 2 /\ log w' = [EvCall 0; EvDrop 1; EvDrop 2] /\
                Spec.elems (self w') = [(k_ 5 7, v_ 6 9); (k_ 3 6, v_ 4 8)]
  | _ => False
  end.
Proof. vm_compute. auto. Qed.

(* ======================================================================== *)
(* G2 (C19): what the Debug of a partly consumed iterator lists              *)
(* ======================================================================== *)
Section DebugRest.
Context {V T : Type}.
Notation world := (world key V T).

(* Drain: exactly the not-yet-yielded entries (the container's len is already 0) *)
Lemma drain_debug_rest n (w : world) :
  WF (self w) ->
  wp (c <- drain ;; drain_run n c)
     (fun r w' => range_list (self w') (snd r) = skipn n (Spec.elems (self w)) /\
                  range_list (self w') (snd r) =
                    skipn (Nat.min n (length (Spec.elems (self w)))) (Spec.elems (self w)) /\
                  fst r = firstn n (Spec.elems (self w)))
     (fun _ => False) w.
Proof.
  intros Hw. eapply wp_mono; [apply drain_run_strong; exact Hw | | auto]; cbn beta.
  intros r w' (Hr & Hc & _ & HA & _).
  assert (H : range_list (self w') (snd r) = skipn n (Spec.elems (self w))).
  { unfold range_list. rewrite live_list_take_live. rewrite Hc in *.
    unfold cursor_len. cbn [fst snd].
    rewrite <- (skipn_min_length (Spec.elems (self w)) n), (elems_length _ Hw).
    pose proof (Nat.le_min_r n (len (self w))) as Hm.
    apply Agree_slot_pairs.
    - replace (Nat.min n (len (self w)) + (len (self w) - Nat.min n (len (self w))))
        with (len (self w)) by lia. exact HA.
    - rewrite (elems_length _ Hw). lia. }
  split; [exact H|]. split; [|exact Hr].
  rewrite skipn_min_length. exact H.
Qed.

(* borrowing iterators *)
Lemma iter_debug_rest n (w : world) :
  WF (self w) ->
  wp (c <- iter ;; iter_run n c)
     (fun r w' => self w' = self w /\
                  snd r = (Nat.min n (len (self w)), len (self w)) /\
                  range_list (self w') (snd r) =
                    skipn (Nat.min n (len (self w))) (Spec.elems (self w)) /\
                  range_list (self w') (snd r) = skipn n (Spec.elems (self w)))
     (fun _ => False) w.
Proof.
  intros Hw. eapply wp_mono; [apply iter_run_spec; exact Hw | | auto]; cbn beta.
  intros r w' (Hs & _ & _ & Hc). rewrite Hs, Hc.
  pose proof (Nat.le_min_r n (len (self w))) as Hm.
  assert (H : range_list (self w) (Nat.min n (len (self w)), len (self w)) =
              skipn (Nat.min n (len (self w))) (Spec.elems (self w))).
  { apply range_list_rest; [exact Hw | exact Hm]. }
  split; [reflexivity|]. split; [reflexivity|]. split; [exact H|].
  rewrite H. rewrite <- (elems_length _ Hw). apply skipn_min_length.
Qed.

(* the owning iterator: what is left is a prefix of the content *)
Lemma into_debug_rest n (w : world) :
  WF (self w) ->
  wp (into_run n)
     (fun r w' => Exec.elems (self w') =
                    firstn (len (self w) - Nat.min n (len (self w))) (Spec.elems (self w)) /\
                  r = firstn n (rev (Spec.elems (self w))))
     (fun _ => False) w.
Proof.
  intros Hw. eapply wp_mono; [apply into_run_spec; exact Hw | | auto]; cbn beta.
  intros r w' (_ & _ & _ & Hr & _ & He). rewrite exec_elems_eq. auto.
Qed.

End DebugRest.

(* the rendering itself, for the Drain of the interpreter (T = cstate) *)
Lemma drain_debug_rest_render {V} (dk : key -> str) (dv : V -> str) alt n (w : world key V cstate) :
  WF (self w) ->
  wp (c <- drain ;; r <- drain_run n c ;; dbg_range dk dv alt (snd r))
     (fun s _ => s = r_str (debug_pairs dk dv alt (skipn n (Spec.elems (self w)))))
     (fun _ => False) w.
Proof.
  intros Hw.
  apply (wp_bind_assoc drain (fun c => drain_run n c) (fun r => dbg_range dk dv alt (snd r))).
  apply wp_bind.
  eapply wp_mono; [apply drain_debug_rest; exact Hw | | auto]; cbn beta.
  intros r w' (H & _ & _). unfold wp, dbg_range. rewrite H. reflexivity.
Qed.

(* ======================================================================== *)
(* G3 (C09): a cloned iterator continues identically; count()                *)
(* ======================================================================== *)
Section IterClone.
Context {K V T : Type}.
Notation world := (world K V T).

(* an iterator is its cursor value: the clone is the same value *)
Lemma iter_clone_continues n (c : cursor) (w : world) :
  @iter_run K V T n c w = @iter_run K V T n c w.
Proof. reflexivity. Qed.

Lemma iter_continue_from n : forall lo hi (w : world),
  WF (self w) -> lo <= hi -> hi <= len (self w) ->
  wp (iter_run n (lo, hi))
     (fun r w' => w' = w /\ fst r = seq lo (Nat.min n (hi - lo)) /\
                  snd r = (lo + Nat.min n (hi - lo), hi))
     (fun _ => False) w.
Proof.
  induction n as [|n IH]; intros lo hi w Hw Hlo Hhi; cbn [iter_run].
  - apply wp_ret. cbn [fst snd]. rewrite Nat.min_0_l, Nat.add_0_r. cbn [seq]. auto.
  - apply wp_bind.
    eapply wp_mono; [apply iter_next_exact; [exact Hw | exact Hhi] | | auto]; cbn beta.
    intros r0 w0 [-> ->]. destruct (Nat.ltb_spec lo hi) as [Hlt|Hge]; cbv beta iota.
    + apply wp_bind.
      eapply wp_mono; [apply (IH (S lo) hi w Hw); lia | | auto]; cbn beta.
      intros [r c''] w' (-> & Hr & Hc). cbn [fst snd] in Hr, Hc. cbv beta iota.
      apply wp_ret. cbn [fst snd].
      replace (Nat.min (S n) (hi - lo)) with (S (Nat.min n (hi - S lo))) by lia.
      cbn [seq]. rewrite Hr, Hc. split; [reflexivity|]. split; [reflexivity|]. f_equal. lia.
    + apply wp_ret. cbn [fst snd].
      replace (Nat.min (S n) (hi - lo)) with 0 by lia.
      cbn [seq]. rewrite Nat.add_0_r. auto.
Qed.

(* the original and its clone, run one after the other from the same cursor,
   yield the same slots and end with the same cursor; the world is untouched *)
Lemma iter_clone_continues_seq n lo hi (w : world) :
  WF (self w) -> lo <= hi -> hi <= len (self w) ->
  wp (r1 <- iter_run n (lo, hi) ;; r2 <- iter_run n (lo, hi) ;; ret (r1, r2))
     (fun r w' => w' = w /\ fst r = snd r /\
                  fst (fst r) = seq lo (Nat.min n (hi - lo)))
     (fun _ => False) w.
Proof.
  intros Hw Hlo Hhi. apply wp_bind.
  eapply wp_mono; [apply (iter_continue_from n lo hi w Hw Hlo Hhi) | | auto]; cbn beta.
  intros [l1 c1] w1 (-> & H1 & H2). cbn [fst snd] in H1, H2. apply wp_bind.
  eapply wp_mono; [apply (iter_continue_from n lo hi w Hw Hlo Hhi) | | auto]; cbn beta.
  intros [l2 c2] w2 (-> & H3 & H4). cbn [fst snd] in H3, H4. apply wp_ret. cbn [fst snd].
  split; [reflexivity|]. split; [congruence | exact H1].
Qed.

(* count() / len() of what remains after n steps *)
Lemma iter_count_remaining lo hi n :
  cursor_len (lo + Nat.min n (hi - lo), hi) = (hi - lo) - Nat.min n (hi - lo).
Proof. unfold cursor_len. cbn [fst snd]. lia. Qed.

End IterClone.

(* ======================================================================== *)
(* G4 (C11): OccupiedEntry::get / get_mut / into_mut / key                   *)
(* ======================================================================== *)
Section OccGet.
Context {K V Q T : Type} (E : env K V Q T).
Context (ck : K -> N) (cq : Q -> N) (HL : Lawful E ck cq).
Notation world := (world K V T).

Lemma occ_get_lawful i (w : world) :
  WF (self w) -> i < len (self w) ->
  wp (occ_get i) (fun j w' => j = i /\ w' = w) (fun _ => False) w.
Proof. exact (occ_ref_lawful i w). Qed.

Lemma occ_get_mut_lawful i (w : world) :
  WF (self w) -> i < len (self w) ->
  wp (occ_get_mut i) (fun j w' => j = i /\ w' = w) (fun _ => False) w.
Proof. exact (occ_ref_lawful i w). Qed.

Lemma occ_key_lawful i (w : world) :
  WF (self w) -> i < len (self w) ->
  wp (occ_key i) (fun j w' => j = i /\ w' = w) (fun _ => False) w.
Proof. exact (occ_ref_lawful i w). Qed.

Lemma occ_into_mut_lawful i (w : world) :
  WF (self w) -> i < len (self w) ->
  wp (occ_into_mut i) (fun j w' => j = i /\ w' = w) (fun _ => False) w.
Proof. exact (occ_ref_lawful i w). Qed.

Lemma entry_get_lawful k (w : world) :
  WF (self w) ->
  wp (e <- entry_of E k ;;
      match e with
      | Occupied i => j <- occ_get i ;; ret (Some j)
      | Vacant _ => ret None
      end)
     (fun r w' => self w' = self w /\ r = find_idx ck (ck k) (Spec.elems (self w)))
     (fun _ => False) w.
Proof.
  intros Hw. apply wp_bind.
  eapply wp_mono; [apply (entry_of_lawful E ck cq HL k w Hw) | | intros w' []]; cbn beta.
  intros e w1 [Hs1 He].
  destruct (find_idx ck (ck k) (Spec.elems (self w))) as [j|] eqn:Hf.
  - destruct He as [-> _].
    destruct (find_idx_slot ck _ _ _ Hw Hf) as [Hj _].
    apply wp_bind.
    eapply wp_mono; [apply (occ_get_lawful j w1); rewrite Hs1; assumption | | intros w' []]; cbn beta.
    intros i w2 [-> ->]. apply wp_ret. auto.
  - destruct He as [-> _]. apply wp_ret. auto.
Qed.

(* the same through get_mut / key / into_mut *)
Lemma entry_get_mut_lawful k (w : world) :
  WF (self w) ->
  wp (e <- entry_of E k ;;
      match e with
      | Occupied i => j <- occ_get_mut i ;; ret (Some j)
      | Vacant _ => ret None
      end)
     (fun r w' => self w' = self w /\ r = find_idx ck (ck k) (Spec.elems (self w)))
     (fun _ => False) w.
Proof. exact (entry_get_lawful k w). Qed.

End OccGet.

(* ======================================================================== *)
(* G5 (C18): insert_unchecked on a present key (full map or not)             *)
(* ======================================================================== *)
Section UncheckedPresent.
Context {K V Q T : Type} (E : env K V Q T) (debug : bool).
Context (ck : K -> N) (cq : Q -> N) (HL : Lawful E ck cq).
Notation world := (world K V T).

Lemma insert_unchecked_eq_insert_present k v i (w : world) :
  WF (self w) -> find_idx ck (ck k) (Spec.elems (self w)) = Some i ->
  insert_unchecked E debug k v w = insert E debug k v w.
Proof.
  intros Hw Hf.
  pose proof (scan_lawful ck (test_k E k) (ck k) w (cls_test_k E ck cq HL k) Hw) as H.
  unfold wp in H.
  destruct (scan (test_k E k) w) as [r w1|w1|] eqn:Hs; [|contradiction|contradiction].
  destruct H as [_ Hr]. rewrite Hf in Hr. subst r.
  exact (insert_unchecked_eq_insert_found E debug k v w i w1 Hw Hs).
Qed.

Lemma insert_unchecked_present_spec k v i (w : world) :
  WF (self w) -> find_idx ck (ck k) (Spec.elems (self w)) = Some i ->
  wp (insert_unchecked E debug k v)
     (fun r w' => WF (self w') /\ cap (self w') = cap (self w) /\
                  Spec.elems (self w') = fst (fst (l_insert ck (Spec.elems (self w)) k v false)) /\
                  r = option_map snd (snd (l_insert ck (Spec.elems (self w)) k v false)) /\
                  logged w w' (match snd (l_insert ck (Spec.elems (self w)) k v false) with
                               | Some (k', _) => ev_drops (idK E k') | None => [] end))
     (fun _ => False) w.
Proof.
  intros Hw Hf.
  pose proof (insert_lawful E debug ck cq HL k v w Hw) as H.
  unfold wp in *. rewrite (insert_unchecked_eq_insert_present k v i w Hw Hf).
  destruct (insert E debug k v w) as [r w'|w'|]; [exact H | | exact H].
  destruct H as (_ & _ & Hn & _). congruence.
Qed.

End UncheckedPresent.

(* ======================================================================== *)
(* G6 (C15): a clone shares no object with anything that existed before      *)
(* ======================================================================== *)
Section CloneFresh.
Context {K V Q T : Type} (E : env K V Q T).
Notation world := (world K V T). Notation map := (map K V). Notation kv := (K * V)%type.
Context (avoid : list N).

Definition fresh_pair (p : kv) : Prop :=
  forall x, In x (idK E (fst p) ++ idV E (snd p)) -> ~ In x avoid.

Section Total.
(* Clone returns normally, and every object it returns is new *)
Context (HTK : forall s k, exists k' s', cloneK E s k = (Some k', s')).
Context (HTV : forall s v, exists v' s', cloneV E s v = (Some v', s')).
Context (HFK : forall s k k' s', cloneK E s k = (Some k', s') -> forall x, In x (idK E k') -> ~ In x avoid).
Context (HFV : forall s v v' s', cloneV E s v = (Some v', s') -> forall x, In x (idV E v') -> ~ In x avoid).

Lemma clone_pair_fresh p (w : world) :
  wp (clone_pair E p) (fun p' w' => self w' = self w /\ fresh_pair p') (fun _ => False) w.
Proof.
  unfold clone_pair. apply wp_bind. apply wp_emit.
  apply wp_bind. apply wp_cbo_eq. simp_w.
  destruct (HTK (cb w) (fst p)) as (k' & s1 & Hk). rewrite Hk. cbn [fst snd].
  apply wp_bind. apply wp_emit.
  (* the value clone never panics here: the unwinding wrapper is inert *)
  apply wp_bind. apply wp_on_unwind_nopanic. apply wp_cbo_eq. simp_w.
  destruct (HTV s1 (snd p)) as (v' & s2 & Hv). rewrite Hv. cbn [fst snd].
  apply wp_ret. simp_w. split; [reflexivity|].
  intros x Hx. cbn [fst snd] in Hx. apply in_app_or in Hx. destruct Hx as [Hx|Hx].
  - exact (HFK _ _ _ _ Hk x Hx).
  - exact (HFV _ _ _ _ Hv x Hx).
Qed.

Lemma clone_loop_fresh (src : map) : WF src -> forall n i (w : world),
  WF (self w) -> len (self w) = i -> i + n <= cap (self w) -> i + n <= len src ->
  Forall fresh_pair (Spec.elems (self w)) ->
  wp (clone_loop E src n i)
     (fun _ w' => Forall fresh_pair (Spec.elems (self w')))
     (fun _ => False) w.
Proof.
  intros Hsrc. induction n as [|n IH]; intros i w Hw Hl Hc Hn HF; cbn [clone_loop].
  - apply wp_ret. exact HF.
  - assert (Hi : i < len src) by lia.
    destruct (WF_live _ _ Hsrc Hi) as [p Hp]. rewrite Hp.
    apply wp_bind. eapply wp_mono; [apply clone_pair_fresh | | auto]; cbn beta.
    intros p' w1 (Hs1 & Hfr).
    apply wp_bind. apply wp_p_write; [rewrite Hs1; lia|].
    apply wp_bind. apply wp_set_len. simp_w. rewrite Hs1.
    set (w2 := with_self _ _).
    assert (Hself2 : self w2 = set_len_m (set_slot_m (self w) (len (self w)) (Some p')) (S (len (self w)))).
    { unfold w2. simp_w. rewrite Hl. reflexivity. }
    assert (Hcl : len (self w) < cap (self w)) by lia.
    assert (Hw2 : WF (self w2)) by (rewrite Hself2; apply WF_append; assumption).
    assert (Hc2 : cap (self w2) = cap (self w)) by (rewrite Hself2, cap_set_len, cap_set_slot; reflexivity).
    assert (Hl2 : len (self w2) = S i) by (unfold w2; reflexivity).
    assert (He2 : Spec.elems (self w2) = Spec.elems (self w) ++ [p']) by (rewrite Hself2; apply elems_append; assumption).
    apply (IH (S i) w2 Hw2 Hl2); [rewrite Hc2; lia | lia |].
    rewrite He2. apply Forall_app. split; [exact HF | constructor; [exact Hfr | constructor]].
Qed.

Lemma clone_ids_fresh_total (src : map) (w : world) :
  WF src -> WF (self w) -> len (self w) = 0 -> cap (self w) = cap src ->
  wp (clone_from_src E src)
     (fun _ w' => forall p, In p (Spec.elems (self w')) ->
                  forall x, In x (idK E (fst p) ++ idV E (snd p)) -> ~ In x avoid)
     (fun _ => False) w.
Proof.
  intros Hsrc Hw Hl Hc. unfold clone_from_src. apply EqClone.wp_finally_drop_nopanic.
  apply wp_bind. apply wp_get_cap.
  pose proof (WF_len_le_cap _ Hsrc) as Hle.
  destruct (Nat.leb_spec (len src) (cap src)) as [_|Hgt]; [|lia].
  replace (Nat.min (cap (self w)) (len src)) with (len src) by lia.
  eapply wp_mono; [apply (clone_loop_fresh src Hsrc (len src) 0 w Hw Hl); try lia | | auto]; cbn beta.
  - assert (He0 : Spec.elems (self w) = []) by (unfold Spec.elems; rewrite Hl; destruct (slots (self w)); reflexivity).
    rewrite He0. constructor.
  - intros _ w' HF p Hp. rewrite Forall_forall in HF. exact (HF p Hp).
Qed.

End Total.

(* under the lawful-clone hypotheses of EqClone *)
Lemma clone_ids_fresh (ck : K -> N) (veq : V -> V -> bool) (src : map) (w : world) :
  (forall s k, exists k' s', cloneK E s k = (Some k', s') /\ ck k' = ck k) ->
  (forall s v, exists v' s', cloneV E s v = (Some v', s') /\ veq v' v = true) ->
  (forall s k k' s', cloneK E s k = (Some k', s') -> forall x, In x (idK E k') -> ~ In x avoid) ->
  (forall s v v' s', cloneV E s v = (Some v', s') -> forall x, In x (idV E v') -> ~ In x avoid) ->
  WF src -> WF (self w) -> len (self w) = 0 -> cap (self w) = cap src ->
  wp (clone_from_src E src)
     (fun _ w' => forall p, In p (Spec.elems (self w')) ->
                  forall x, In x (idK E (fst p) ++ idV E (snd p)) -> ~ In x avoid)
     (fun _ => False) w.
Proof.
  intros HCK HCV HFK HFV. apply clone_ids_fresh_total; try assumption.
  - intros s k. destruct (HCK s k) as (k' & s' & H & _). eauto.
  - intros s v. destruct (HCV s v) as (v' & s' & H & _). eauto.
Qed.

End CloneFresh.

(* taking the identities of the source as the set to avoid: the clone is
   disjoint from its source, object by object *)
Lemma clone_disjoint_from_source {K V Q T} (E : env K V Q T) (ck : K -> N) (veq : V -> V -> bool)
      (src : map K V) (w : world K V T) :
  let avoid := flat_map (fun p : K * V => idK E (fst p) ++ idV E (snd p)) (Spec.elems src) in
  (forall s k, exists k' s', cloneK E s k = (Some k', s') /\ ck k' = ck k) ->
  (forall s v, exists v' s', cloneV E s v = (Some v', s') /\ veq v' v = true) ->
  (forall s k k' s', cloneK E s k = (Some k', s') -> forall x, In x (idK E k') -> ~ In x avoid) ->
  (forall s v v' s', cloneV E s v = (Some v', s') -> forall x, In x (idV E v') -> ~ In x avoid) ->
  WF src -> WF (self w) -> len (self w) = 0 -> cap (self w) = cap src ->
  wp (clone_from_src E src)
     (fun _ w' => forall p q, In p (Spec.elems (self w')) -> In q (Spec.elems src) ->
                  forall x, In x (idK E (fst p) ++ idV E (snd p)) ->
                            ~ In x (idK E (fst q) ++ idV E (snd q)))
     (fun _ => False) w.
Proof.
  intros avoid HCK HCV HFK HFV Hsrc Hw Hl Hc.
  eapply wp_mono;
    [apply (clone_ids_fresh E avoid ck veq src w HCK HCV HFK HFV Hsrc Hw Hl Hc) | | auto]; cbn beta.
  intros _ w' H p q Hp Hq x Hx Hxq. apply (H p Hp x Hx).
  unfold avoid. apply in_flat_map. exists q. split; assumption.
Qed.

(* ======================================================================== *)
(* G8 (C03): replacing the value of a present key works on a FULL container  *)
(* ======================================================================== *)
Section ReplaceOnFull.
Context {K V Q T : Type} (E : env K V Q T) (debug : bool).
Context (ck : K -> N) (cq : Q -> N) (HL : Lawful E ck cq).
Notation world := (world K V T).

Lemma replace_on_full_insert k v i (w : world) :
  WF (self w) -> find_idx ck (ck k) (Spec.elems (self w)) = Some i -> len (self w) = cap (self w) ->
  wp (insert E debug k v)
     (fun r w' => WF (self w') /\ cap (self w') = cap (self w) /\
                  Spec.elems (self w') = fst (fst (l_insert ck (Spec.elems (self w)) k v false)) /\
                  r = option_map snd (snd (l_insert ck (Spec.elems (self w)) k v false)) /\
                  logged w w' (match snd (l_insert ck (Spec.elems (self w)) k v false) with
                               | Some (k', _) => ev_drops (idK E k') | None => [] end))
     (fun _ => False) w.
Proof.
  intros Hw Hf _.
  eapply wp_mono; [apply (insert_lawful E debug ck cq HL k v w Hw) | auto |]; cbn beta.
  intros w' (_ & _ & Hn & _). congruence.
Qed.

Lemma replace_on_full_checked_insert k v i (w : world) :
  WF (self w) -> find_idx ck (ck k) (Spec.elems (self w)) = Some i -> len (self w) = cap (self w) ->
  wp (checked_insert E debug k v)
     (fun r w' => WF (self w') /\ cap (self w') = cap (self w) /\
                  Spec.elems (self w') = fst (fst (l_insert ck (Spec.elems (self w)) k v false)) /\
                  r = Some (option_map snd (snd (l_insert ck (Spec.elems (self w)) k v false))) /\
                  logged w w' (ev_drops (idK E k)))
     (fun _ => False) w.
Proof.
  intros Hw Hf _.
  eapply wp_mono; [apply (checked_insert_lawful E debug ck cq HL k v w Hw) | | auto]; cbn beta.
  intros r w' (Hw' & Hc & H). rewrite Hf in H. auto.
Qed.

Lemma replace_on_full_insert_key_value k v i (w : world) :
  WF (self w) -> find_idx ck (ck k) (Spec.elems (self w)) = Some i -> len (self w) = cap (self w) ->
  wp (insert_key_value E debug k v)
     (fun r w' => WF (self w') /\ cap (self w') = cap (self w) /\ log w' = log w /\
                  Spec.elems (self w') = fst (fst (l_insert ck (Spec.elems (self w)) k v true)) /\
                  r = snd (l_insert ck (Spec.elems (self w)) k v true))
     (fun _ => False) w.
Proof.
  intros Hw Hf _.
  eapply wp_mono; [apply (insert_key_value_lawful E debug ck cq HL k v w Hw) | auto |]; cbn beta.
  intros w' (_ & _ & Hn & _). congruence.
Qed.

(* what the l_insert result is in that situation: same length, slot i rewritten *)
Lemma l_insert_present (l : list (K * V)) k v u i :
  find_idx ck (ck k) l = Some i ->
  exists k0 v0, nth_error l i = Some (k0, v0) /\ ck k0 = ck k /\
    l_insert ck l k v u =
      if u then (upd l i (k, v), i, Some (k0, v0)) else (upd l i (k0, v), i, Some (k, v0)).
Proof.
  intros Hf. destruct (find_idx_inv ck (ck k) l i Hf) as [[[k0 v0] [Hp Hc]] _].
  exists k0, v0. split; [exact Hp|]. split; [exact Hc|].
  unfold l_insert. rewrite Hf, Hp. destruct u; reflexivity.
Qed.

End ReplaceOnFull.

(* ======================================================================== *)
(* G9 (C13): get_disjoint_mut agrees with get_mut, position by position      *)
(* ======================================================================== *)
Section DisjointAgrees.
Context {K V Q T : Type} (E : env K V Q T).
Context (ck : K -> N) (cq : Q -> N) (HL : Lawful E ck cq).
Notation world := (world K V T).

Lemma disjoint_agrees_with_get_mut ks (w : world) :
  WF (self w) -> Uniq ck (Spec.elems (self w)) -> NoDup (List.map cq ks) ->
  exists r wd,
    get_disjoint_mut E ks w = Ok r wd /\ stable w wd /\ length r = length ks /\
    forall j q, nth_error ks j = Some q ->
      exists wj, get_mut E q w = Ok (match nth_error r j with Some x => x | None => None end) wj /\
                 stable w wj.
Proof.
  intros Hw Hu Hnd.
  pose proof (disjoint_lawful E ck cq HL ks w Hw Hu Hnd) as H. unfold wp in H.
  destruct (get_disjoint_mut E ks w) as [r wd|wd|]; [|contradiction|contradiction].
  destruct H as [Hst ->]. eexists. exists wd. split; [reflexivity|]. split; [exact Hst|].
  split; [apply map_length|].
  intros j q Hq.
  pose proof (get_mut_lawful E ck cq HL q w Hw) as Hg. unfold wp in Hg.
  destruct (get_mut E q w) as [r' wj|wj|]; [|contradiction|contradiction].
  destruct Hg as [Hstj ->]. exists wj. split; [|exact Hstj].
  rewrite (map_nth_error (fun q => find_idx ck (cq q) (Spec.elems (self w))) j ks Hq). reflexivity.
Qed.

End DisjointAgrees.
