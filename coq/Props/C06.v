(* ========================================================================== *)
(* C06 — No heap: operations never allocate; elements live inside the
         container value

   STATEMENT (properties.jsonl):
     "No Map or Set operation requests heap memory on its own: with key and
      value types that do not allocate, every non-panicking operation -
      construction, insertion, lookup, removal, iteration, set algebra,
      cloning, comparison, formatting into a non-allocating sink - completes
      with zero allocator calls. Every element reference handed out points
      inside the bytes of the container value itself, and the crate builds
      without the standard library."

   QUANTIFIER (properties.jsonl):
     "all operations and operation sequences, capacities and element shapes;
      std feature on and off"

   WHAT IS, AND WHAT IS NOT, A THEOREM HERE
     This property is checked at level "other".  Its three headline clauses -
       (a) zero allocator calls,
       (b) the ADDRESS of every handed-out reference lies inside the bytes of
           the container value,
       (c) the crate builds without the standard library (no_std) -
     are RUNTIME / BUILD OBSERVATIONS MADE BY THE HARNESS: zero allocator calls
     (a counting #[global_allocator] around every container call,
     harness/src/main.rs, ops.rs), addresses inside the container value (the
     `inside` range check on every returned reference, harness/src/ops.rs) and
     the no_std build (a build of the crate without the std feature, driven by
     tools/mmcheck.py).
     The Coq model has no notion of allocator, address or build
     configuration, and no theorem below claims any of (a), (b), (c).

     What the model CAN say, and what the theorems below state, is the
     structural reason behind (a) and (b): the only storage a container has is
     its fixed array  slots m : list (option (K * V))  of length cap m; no
     operation ever grows, shrinks or replaces that array, and every element
     reference handed out is identified by an index of a LIVE slot of that
     array, i < len m <= cap m.

   READING GUIDE
     the storage is never grown or replaced: after ANY operation of ANY history
       (every script), returned or panicked, all four registers have the same
       capacity (= array length) as before         C06_step_safe   (caps x' = caps x)
     references handed out by lookups point into a live slot of the array
       (get / get_mut / get_key_value are the same scan)
                                                   C06_get_result_live
       (C06_get_result_live states `live`, i.e. i < cap, for `get` only; the
        full statement i < len <= cap and live, for get, get_mut,
        get_key_value, Set::get, index, index_mut, is in the AUDIT CLOSURE
        section at the end of this file: C06_get_inside ...)
     a slot i < len holds entry i of the content (a fact about states, it does
       not mention the iterator)                   C06_iter_yield_is_elem
     what the actual session iter ;; next^n yields: slots i < len, all inside
                                                   C06_iter_yields_inside (end of file)
     OccupiedEntry accessors, set algebra adaptors, construction
                                                   AUDIT CLOSURE section (end of file)
     get_disjoint_mut / VacantEntry::insert / or_insert* with `inside` instead of
       `< len`, the retain closure's references    SECOND ROUND section (end of file)
     get_disjoint_mut: every index returned is < len, indices pairwise distinct
                                                   C06_disjoint_safe
     entry API: VacantEntry::insert / or_insert return an index < len
                                                   C06_vac_insert_spec,
                                                   C06_or_insert_spec
     a live slot is inside the array: i < cap m    C06_live_lt_cap

   NOT COVERED BY A THEOREM (observations of the harness, level "other")
     - zero allocator calls (a); addresses inside the container value (b);
       no_std build (c); "formatting into a non-allocating sink";
     - that the Rust array `[MaybeUninit<(K,V)>; N]` is stored inline in the
       Map value (a fact of the type's layout, not of the model).
   ========================================================================== *)
Require Import Model.Base Model.Slots Model.MapOps Model.EntryOps Model.SetOps Model.Fmt Model.Exec.
Require Import Proofs.Hoare Proofs.Inv Proofs.Safety Proofs.Safety2 Proofs.Safety3 Proofs.Spec
               Proofs.IterSpec Proofs.ExecSafe Proofs.Legacy.

Theorem C06_step_safe :
  forall (debug : bool) (sc : script) (o : op) (x : xworld),
  WFx x ->
  contract_ok debug o x ->
  WFx (snd (step debug sc o x)) /\ caps (snd (step debug sc o x)) = caps x.
Proof. exact step_safe. Qed.
Print Assumptions C06_step_safe.

(* every environment; the container is untouched, the slot returned is live *)
Theorem C06_get_result_live :
  forall (K V Q T : Type) (E : env K V Q T) (q : Q) (w : world K V T),
  WF (self w) ->
  wp (get E q)
    (fun (r : option nat) (w' : world K V T) =>
       self w' = self w /\
       match r with
       | Some i => live (self w) i
       | None => True
       end)
    (fun w' : world K V T => self w' = self w)
    w.
Proof. exact (@get_result_live). Qed.
Print Assumptions C06_get_result_live.

Theorem C06_iter_yield_is_elem :
  forall (K V T : Type) (i : nat) (w : world K V T),
  WF (self w) ->
  i < len (self w) ->
  exists p : K * V,
    nth_error (Spec.elems (self w)) i = Some p /\
    nth_error (slots (self w)) i = Some (Some p).
Proof. exact (@iter_yield_is_elem). Qed.
Print Assumptions C06_iter_yield_is_elem.

Theorem C06_disjoint_safe :
  forall (K V Q T : Type) (E : env K V Q T) (ks : list Q) (w : world K V T),
  WF (self w) ->
  wp (get_disjoint_mut E ks)
    (fun (r : list (option nat)) (w' : world K V T) =>
       self w' = self w /\
       length r = length ks /\
       (forall j i : nat, nth_error r j = Some (Some i) -> i < len (self w)) /\
       (forall j1 j2 i : nat,
          nth_error r j1 = Some (Some i) -> nth_error r j2 = Some (Some i) -> j1 = j2))
    (fun w' : world K V T => self w' = self w)
    w.
Proof. exact (@disjoint_safe). Qed.
Print Assumptions C06_disjoint_safe.

Theorem C06_vac_insert_spec :
  forall (K V Q T : Type) (E : env K V Q T) (debug : bool) (k : K) (v : V) (w : world K V T),
  WF (self w) ->
  wp (vac_insert E debug k v)
    (fun (i : nat) (w' : world K V T) =>
       (WF (self w') /\ cap (self w') = cap (self w)) /\ i < len (self w'))
    (fun w' : world K V T => WF (self w') /\ cap (self w') = cap (self w))
    w.
Proof. exact (@vac_insert_spec). Qed.
Print Assumptions C06_vac_insert_spec.

(* entry_ok e m := match e with Occupied i => i < len m | Vacant _ => True end *)
Theorem C06_or_insert_spec :
  forall (K V Q T : Type) (E : env K V Q T) (debug : bool) (e : @entry K) (v : V)
         (w : world K V T),
  WF (self w) ->
  entry_ok e (self w) ->
  wp (or_insert E debug e v)
    (fun (i : nat) (w' : world K V T) =>
       (WF (self w') /\ cap (self w') = cap (self w)) /\ i < len (self w'))
    (fun w' : world K V T => WF (self w') /\ cap (self w') = cap (self w))
    w.
Proof. exact (@or_insert_spec). Qed.
Print Assumptions C06_or_insert_spec.

Theorem C06_live_lt_cap :
  forall (K V : Type) (m : map K V) (i : nat), live m i -> i < cap m.
Proof. exact (@live_lt_cap). Qed.
Print Assumptions C06_live_lt_cap.

(* -------------------------------------------------------------------------- *)
(* non-vacuity                                                                *)
Example C06_example_WFx : WFx (init_world 4 0 2 2).
Proof. exact (init_WFx 4 0 2 2). Qed.

Example C06_example_WF : WF (self (w_of m3)).
Proof. exact m3_WF. Qed.

(* looking up class 6 in m3 hands out slot 1, a live slot of the 3-slot array *)
Example C06_example_get :
  match get (env_map {| sc_adv := false; sc_seed := 0; sc_fk := 0; sc_fa := 0 |})
            (QCls 6) (w_of m3) with
  | Ok r w' => r = Some 1 /\ self w' = m3 /\
               nth_error (slots m3) 1 = Some (Some (k_ 3 6, v_ 4 8)) /\ 1 < cap m3
  | _ => False
  end.
Proof. vm_compute. repeat split; try reflexivity. repeat constructor. Qed.

(* a step of the interpreter leaves all capacities unchanged (insert into a
   capacity-4 Map register) *)
Example C06_example_caps :
  caps (snd (step false {| sc_adv := false; sc_seed := 0; sc_fk := 0; sc_fa := 0 |}
                  (OInsert 0 (mk 1 5) (mv 2 7)) (init_world 4 0 2 2))) = (4, 0, 2, 2).
Proof. vm_compute. reflexivity. Qed.

(* ========================================================================== *)
(* AUDIT CLOSURE for C06 (Proofs/MoreIter.v)

   Clause covered: "Every element reference handed out points inside the
   bytes of the container value itself" (its model half: every reference is
   identified by an index i of the container's own array with
   i < len m <= cap m and slot i live), and "construction".

     inside m i  :=  i < len m /\ len m <= cap m /\ live m i
     opt_inside m r  :=  match r with Some i => inside m i | None => True end

   ALL theorems of this section hold for EVERY environment E (no lawfulness:
   whatever ==, Clone, Drop answer or panic), every capacity including 0; the
   only hypothesis is WF (self w) = the container invariant (every reachable
   state satisfies it, C06_step_safe / C02 / C04).  The panic postcondition
   `self w' = self w` says: a comparison may panic, the container is untouched
   (no reference is handed out on that path).

     lookups (what the audit found stated only for `get`, and with `< cap`):
       C06_get_inside, C06_get_mut_inside, C06_get_key_value_inside,
       C06_s_get_inside (Set::get), C06_index_inside, C06_index_mut_inside
     iteration, for the actual session  iter ;; iter_run n :
       C06_iter_yields_inside   every yielded slot i has i < len and is inside
       C06_iter_next_inside     one next() from any cursor with hi <= len
     OccupiedEntry::get / get_mut / into_mut / key (Gaps.occ_*_lawful restated
     with the location) and the whole chain map.entry(k) -> accessor:
       C06_occ_get_inside, C06_occ_get_mut_inside, C06_occ_into_mut_inside,
       C06_occ_key_inside, C06_entry_ref_inside
     set algebra: an item (false,i) designates slot i of the first operand a,
     (true,i) slot i of the second operand b (Exec.r_side); every item yielded
     lies inside the operand it comes from:
       C06_sel_In_inside        the pure selection of Algebra.v
       C06_diff_next_inside, C06_inter_next_inside   (slots of a)
       C06_union_next_inside, C06_symdiff_next_inside (chain: a and b)
       (chain_ok la lb u: the cursors of the chain lie within la / lb,
        Proofs/Safety3.v; it holds for the chains `union` / `symdiff` return,
        Algebra2.union_lawful / symdiff_lawful, and is preserved by next)
     construction:
       C06_new_map_shape        Map::new(): capacity n, len 0, WF, no element
       C06_with_capacity_shape  with_capacity(c) is accepted iff c = N
       C06_with_capacity_op     the interpreter's with_capacity operation
   ========================================================================== *)
Require Import Proofs.MoreIter Proofs.Algebra.

Theorem C06_inside_lt_cap :
  forall (K V : Type) (m : map K V) (i : nat), inside m i -> i < cap m.
Proof. exact (@inside_lt_cap). Qed.
Print Assumptions C06_inside_lt_cap.

Theorem C06_get_inside :
  forall (K V Q T : Type) (E : env K V Q T) (q : Q) (w : world K V T),
  WF (self w) ->
  wp (get E q)
    (fun (r : option nat) (w' : world K V T) => self w' = self w /\ opt_inside (self w') r)
    (fun w' : world K V T => self w' = self w) w.
Proof. exact (@get_inside). Qed.
Print Assumptions C06_get_inside.

Theorem C06_get_mut_inside :
  forall (K V Q T : Type) (E : env K V Q T) (q : Q) (w : world K V T),
  WF (self w) ->
  wp (get_mut E q)
    (fun (r : option nat) (w' : world K V T) => self w' = self w /\ opt_inside (self w') r)
    (fun w' : world K V T => self w' = self w) w.
Proof. exact (@get_mut_inside). Qed.
Print Assumptions C06_get_mut_inside.

Theorem C06_get_key_value_inside :
  forall (K V Q T : Type) (E : env K V Q T) (q : Q) (w : world K V T),
  WF (self w) ->
  wp (get_key_value E q)
    (fun (r : option nat) (w' : world K V T) => self w' = self w /\ opt_inside (self w') r)
    (fun w' : world K V T => self w' = self w) w.
Proof. exact (@get_key_value_inside). Qed.
Print Assumptions C06_get_key_value_inside.

Theorem C06_s_get_inside :
  forall (K Q T : Type) (E : env K unit Q T) (q : Q) (w : world K unit T),
  WF (self w) ->
  wp (s_get E q)
    (fun (r : option nat) (w' : world K unit T) => self w' = self w /\ opt_inside (self w') r)
    (fun w' : world K unit T => self w' = self w) w.
Proof. exact (@s_get_inside). Qed.
Print Assumptions C06_s_get_inside.

(* Index / IndexMut return a reference only on the normal path; on the panic
   path (key absent, or == panicked) the container is untouched *)
Theorem C06_index_inside :
  forall (K V Q T : Type) (E : env K V Q T) (q : Q) (w : world K V T),
  WF (self w) ->
  wp (index E q)
    (fun (i : nat) (w' : world K V T) => self w' = self w /\ inside (self w') i)
    (fun w' : world K V T => self w' = self w) w.
Proof. exact (@index_inside). Qed.
Print Assumptions C06_index_inside.

Theorem C06_index_mut_inside :
  forall (K V Q T : Type) (E : env K V Q T) (q : Q) (w : world K V T),
  WF (self w) ->
  wp (index_mut E q)
    (fun (i : nat) (w' : world K V T) => self w' = self w /\ inside (self w') i)
    (fun w' : world K V T => self w' = self w) w.
Proof. exact (@index_mut_inside). Qed.
Print Assumptions C06_index_mut_inside.

(* the actual iterator session: iter() then up to n calls of next() *)
Theorem C06_iter_yields_inside :
  forall (K V T : Type) (n : nat) (w : world K V T),
  WF (self w) ->
  wp (c <- iter ;; iter_run n c)
    (fun (r : list nat * cursor) (w' : world K V T) =>
       self w' = self w /\
       Forall (fun i : nat => i < len (self w')) (fst r) /\
       Forall (inside (self w')) (fst r))
    (fun _ : world K V T => False) w.
Proof. exact (@iter_yields_inside). Qed.
Print Assumptions C06_iter_yields_inside.

Theorem C06_iter_next_inside :
  forall (K V T : Type) (lo hi : nat) (w : world K V T),
  WF (self w) -> hi <= len (self w) ->
  wp (iter_next (lo, hi))
    (fun (r : option nat * cursor) (w' : world K V T) => w' = w /\ opt_inside (self w') (fst r))
    (fun _ : world K V T => False) w.
Proof. exact (@iter_next_inside). Qed.
Print Assumptions C06_iter_next_inside.

(* OccupiedEntry accessors: hypothesis i < len = the entry was produced by
   entry_of on this container (C06_entry_ref_inside composes the two) *)
Theorem C06_occ_get_inside :
  forall (K V T : Type) (i : nat) (w : world K V T),
  WF (self w) -> i < len (self w) ->
  wp (occ_get i)
    (fun (j : nat) (w' : world K V T) => w' = w /\ j = i /\ inside (self w') j)
    (fun _ : world K V T => False) w.
Proof. exact (@occ_get_inside). Qed.
Print Assumptions C06_occ_get_inside.

Theorem C06_occ_get_mut_inside :
  forall (K V T : Type) (i : nat) (w : world K V T),
  WF (self w) -> i < len (self w) ->
  wp (occ_get_mut i)
    (fun (j : nat) (w' : world K V T) => w' = w /\ j = i /\ inside (self w') j)
    (fun _ : world K V T => False) w.
Proof. exact (@occ_get_mut_inside). Qed.
Print Assumptions C06_occ_get_mut_inside.

Theorem C06_occ_into_mut_inside :
  forall (K V T : Type) (i : nat) (w : world K V T),
  WF (self w) -> i < len (self w) ->
  wp (occ_into_mut i)
    (fun (j : nat) (w' : world K V T) => w' = w /\ j = i /\ inside (self w') j)
    (fun _ : world K V T => False) w.
Proof. exact (@occ_into_mut_inside). Qed.
Print Assumptions C06_occ_into_mut_inside.

Theorem C06_occ_key_inside :
  forall (K V T : Type) (i : nat) (w : world K V T),
  WF (self w) -> i < len (self w) ->
  wp (occ_key i)
    (fun (j : nat) (w' : world K V T) => w' = w /\ j = i /\ inside (self w') j)
    (fun _ : world K V T => False) w.
Proof. exact (@occ_key_inside). Qed.
Print Assumptions C06_occ_key_inside.

(* map.entry(k) followed by any of the four accessors, every environment *)
Theorem C06_entry_ref_inside :
  forall (K V Q T : Type) (E : env K V Q T) (k : K) (acc : nat -> M K V T nat) (w : world K V T),
  acc = occ_get \/ acc = occ_get_mut \/ acc = occ_into_mut \/ acc = occ_key ->
  WF (self w) ->
  wp (e <- entry_of E k ;;
      match e with
      | Occupied i => j <- acc i ;; ret (Some j)
      | Vacant _ => ret None
      end)
    (fun (r : option nat) (w' : world K V T) => self w' = self w /\ opt_inside (self w') r)
    (fun w' : world K V T => self w' = self w) w.
Proof. exact (@entry_ref_inside). Qed.
Print Assumptions C06_entry_ref_inside.

(* set algebra *)
Theorem C06_sel_In_inside :
  forall (K : Type) (ck : K -> N) (a b : map K unit) (want : bool) (lo n i : nat),
  WF a -> In i (sel ck a b want lo n) -> lo + n <= len a -> i < len a /\ inside a i.
Proof. exact (@sel_In_inside). Qed.
Print Assumptions C06_sel_In_inside.

Theorem C06_diff_next_inside :
  forall (K Q T : Type) (E : env K unit Q T) (a b : map K unit) (c : cursor) (w : world K unit T),
  WF a -> WF b -> snd c <= len a -> fst c <= snd c ->
  wp (diff_next E a b c)
    (fun (r : option nat * cursor) (w' : world K unit T) =>
       self w' = self w /\ snd (snd r) <= len a /\ fst (snd r) <= snd (snd r) /\
       opt_inside a (fst r))
    (fun w' : world K unit T => self w' = self w) w.
Proof. exact (@diff_next_inside). Qed.
Print Assumptions C06_diff_next_inside.

Theorem C06_inter_next_inside :
  forall (K Q T : Type) (E : env K unit Q T) (a b : map K unit) (c : cursor) (w : world K unit T),
  WF a -> WF b -> snd c <= len a -> fst c <= snd c ->
  wp (inter_next E a b c)
    (fun (r : option nat * cursor) (w' : world K unit T) =>
       self w' = self w /\ snd (snd r) <= len a /\ fst (snd r) <= snd (snd r) /\
       opt_inside a (fst r))
    (fun w' : world K unit T => self w' = self w) w.
Proof. exact (@inter_next_inside). Qed.
Print Assumptions C06_inter_next_inside.

(* side_inside a b x := inside (if fst x then b else a) (snd x) *)
Theorem C06_union_next_inside :
  forall (K Q T : Type) (E : env K unit Q T) (a b : map K unit) (u : chain) (w : world K unit T),
  WF a -> WF b -> chain_ok (len b) (len a) u ->
  wp (union_next E a b u)
    (fun (r : option (bool * nat) * chain) (w' : world K unit T) =>
       self w' = self w /\ chain_ok (len b) (len a) (snd r) /\ opt_side_inside a b (fst r))
    (fun w' : world K unit T => self w' = self w) w.
Proof. exact (@union_next_inside). Qed.
Print Assumptions C06_union_next_inside.

Theorem C06_symdiff_next_inside :
  forall (K Q T : Type) (E : env K unit Q T) (a b : map K unit) (u : chain) (w : world K unit T),
  WF a -> WF b -> chain_ok (len a) (len b) u ->
  wp (symdiff_next E a b u)
    (fun (r : option (bool * nat) * chain) (w' : world K unit T) =>
       self w' = self w /\ chain_ok (len a) (len b) (snd r) /\ opt_side_inside a b (fst r))
    (fun w' : world K unit T => self w' = self w) w.
Proof. exact (@symdiff_next_inside). Qed.
Print Assumptions C06_symdiff_next_inside.

(* construction *)
Theorem C06_new_map_shape :
  forall (K V : Type) (n : nat),
  cap (@new_map K V n) = n /\ len (@new_map K V n) = 0 /\ WF (@new_map K V n) /\
  Spec.elems (@new_map K V n) = [] /\ Tidy (@new_map K V n).
Proof. exact (@new_map_shape). Qed.
Print Assumptions C06_new_map_shape.

Theorem C06_with_capacity_shape :
  forall (K V : Type) (c n : nat),
  (with_capacity_ok c n = true <-> c = n) /\
  (with_capacity_ok c n = true ->
   cap (@new_map K V n) = c /\ len (@new_map K V n) = 0 /\ WF (@new_map K V n)).
Proof. exact (@with_capacity_shape). Qed.
Print Assumptions C06_with_capacity_shape.

(* the interpreter's OWithCapacity on a register of capacity N = cap (self w):
   normal return iff c = N, and then the register holds Map::new() of that
   capacity; panic: either c <> N and nothing changed, or the destructor of the
   OLD value panicked and the register already holds the new empty container *)
Theorem C06_with_capacity_op :
  forall (V : Type) (E : env key V query cstate) (c : nat) (w : world key V cstate),
  WF (self w) ->
  wp (n <- get_cap ;; if with_capacity_ok c n then replace_with E (ret tt) [] else panic)
    (fun (_ : list N) (w' : world key V cstate) =>
       c = cap (self w) /\ cap (self w') = c /\ len (self w') = 0 /\ self w' = new_map c)
    (fun w' : world key V cstate =>
       (c <> cap (self w) /\ self w' = self w) \/ (c = cap (self w) /\ self w' = new_map c)) w.
Proof. exact (@with_capacity_op). Qed.
Print Assumptions C06_with_capacity_op.

(* -------------------------------------------------------------------------- *)
(* non-vacuity                                                                *)
Definition C06_sc0 : script := {| sc_adv := false; sc_seed := 0; sc_fk := 0; sc_fa := 0 |}.

(* a full session over m3 yields slots 0,1,2 (all < len = 3 = cap); index of
   class 6 returns slot 1; entry(class 6).get() returns slot 1 *)
Example C06_example_inside :
  (c <- iter ;; iter_run 5 c) (w_of m3) = Ok ([0; 1; 2], (3, 3)) (w_of m3) /\
  len m3 = 3 /\ cap m3 = 3 /\
  match index (env_map C06_sc0) (QCls 6) (w_of m3) with
  | Ok i w' => i = 1 /\ self w' = m3
  | _ => False
  end /\
  match (e <- entry_of (env_map C06_sc0) (k_ 9 6) ;;
         match e with Occupied i => j <- occ_get i ;; ret (Some j) | Vacant _ => ret None end)
          (w_of m3) with
  | Ok r w' => r = Some 1 /\ self w' = m3
  | _ => False
  end.
Proof. vm_compute. repeat split; reflexivity. Qed.

(* two sets a = {5, 6} (capacity 3), b = {6, 7}: they are WF, the chains
   returned by union / symmetric_difference satisfy chain_ok, and the first
   items are (true,0) = slot 0 of b for union, (false,0) = slot 0 of a for
   the symmetric difference *)
Definition C06_sa : map key unit :=
  {| len := 2; slots := [Some (k_ 1 5, tt); Some (k_ 2 6, tt); None] |}.
Definition C06_sb : map key unit :=
  {| len := 2; slots := [Some (k_ 3 6, tt); Some (k_ 4 7, tt)] |}.
Definition C06_ws : world key unit cstate := {| cb := cs0; log := []; self := new_map 0 |}.

Example C06_example_sets_WF : WF C06_sa /\ WF C06_sb.
Proof.
  split; (split; [cbn; lia|]); intros i Hi; cbn [len C06_sa C06_sb] in Hi;
    destruct i as [|[|i]]; try lia; eexists; reflexivity.
Qed.

Example C06_example_algebra :
  match (u <- union C06_sa C06_sb ;; union_next (env_set C06_sc0) C06_sa C06_sb u) C06_ws with
  | Ok r w' => fst r = Some (true, 0) /\ self w' = self C06_ws
  | _ => False
  end /\
  match (u <- symdiff C06_sa C06_sb ;; symdiff_next (env_set C06_sc0) C06_sa C06_sb u) C06_ws with
  | Ok r w' => fst r = Some (false, 0) /\ self w' = self C06_ws
  | _ => False
  end /\
  chain_ok (len C06_sb) (len C06_sa) {| front := Some (0, len C06_sb); back := (0, len C06_sa) |} /\
  chain_ok (len C06_sa) (len C06_sb) {| front := Some (0, len C06_sa); back := (0, len C06_sb) |}.
Proof.
  split; [vm_compute; split; reflexivity|]. split; [vm_compute; split; reflexivity|].
  unfold chain_ok; cbn; lia.
Qed.

(* with_capacity(4) on a capacity-4 register is accepted, with_capacity(5) is not *)
Example C06_example_with_capacity :
  with_capacity_ok 4 4 = true /\ with_capacity_ok 5 4 = false /\
  cap (@new_map key vobj 4) = 4 /\ len (@new_map key vobj 4) = 0.
Proof. vm_compute. repeat split; reflexivity. Qed.

(* ========================================================================== *)
(* AUDIT CLOSURE, SECOND ROUND for C06 (Proofs/MoreIter.v)

   The second audit found that get_disjoint_mut, VacantEntry::insert and
   or_insert were stated with `i < len` only, that or_insert_with,
   or_insert_with_key, or_default had no C06 statement, and that nothing was
   said about the &K / &mut V handed to the retain closure.  All statements
   below: EVERY environment, every capacity, both build profiles.
     inv_post w w' := WF (self w') /\ cap (self w') = cap (self w).
       C06_disjoint_inside       every index returned is `inside` the container
                                 (which is untouched), indices pairwise distinct
       C06_vac_insert_inside, C06_or_insert_inside, C06_or_insert_with_inside
       (or_default is or_insert_with (Default::default)), C06_or_insert_with_key_inside
                                 the slot returned is inside the container AS IT IS
                                 AFTER the call; on the panic path (full container,
                                 panicking ==/closure/Drop) no reference is handed
                                 out and the invariant holds
       C06_entry_or_insert_inside  the whole chains map.entry(k).or_insert*(..)
       C06_call_pred_inside      one call of the retain closure on slot i < len of
                                 a WF container: the pair whose parts it receives is
                                 the one stored in slot i, which is inside; the
                                 value it leaves is written back into that same slot
                                 under the same key and nothing else changes
       C06_retain_chk_eq         retain only ever calls the closure on such slots:
                                 retain with an explicit check "slot i is inside"
                                 (UB otherwise) in front of EVERY closure call is the
                                 same computation, outcome for outcome, on every WF
                                 container (assert_inside i w = Ok tt w <-> inside
                                 (self w) i: C06_assert_inside_ok)
   ========================================================================== *)

Theorem C06_disjoint_inside :
  forall (K V Q T : Type) (E : env K V Q T) (ks : list Q) (w : world K V T),
  WF (self w) ->
  wp (get_disjoint_mut E ks)
    (fun (r : list (option nat)) (w' : world K V T) =>
       self w' = self w /\ length r = length ks /\
       (forall j i : nat, nth_error r j = Some (Some i) -> inside (self w) i) /\
       (forall j1 j2 i : nat,
          nth_error r j1 = Some (Some i) -> nth_error r j2 = Some (Some i) -> j1 = j2))
    (fun w' : world K V T => self w' = self w) w.
Proof. exact (@disjoint_inside). Qed.
Print Assumptions C06_disjoint_inside.

Theorem C06_vac_insert_inside :
  forall (K V Q T : Type) (E : env K V Q T) (debug : bool) (k : K) (v : V) (w : world K V T),
  WF (self w) ->
  wp (vac_insert E debug k v)
    (fun (i : nat) (w' : world K V T) => inv_post w w' /\ inside (self w') i) (inv_post w) w.
Proof. exact (@vac_insert_inside). Qed.
Print Assumptions C06_vac_insert_inside.

Theorem C06_or_insert_inside :
  forall (K V Q T : Type) (E : env K V Q T) (debug : bool) (e : @entry K) (v : V) (w : world K V T),
  WF (self w) -> entry_ok e (self w) ->
  wp (or_insert E debug e v)
    (fun (i : nat) (w' : world K V T) => inv_post w w' /\ inside (self w') i) (inv_post w) w.
Proof. exact (@or_insert_inside). Qed.
Print Assumptions C06_or_insert_inside.

Theorem C06_or_insert_with_inside :
  forall (K V Q T : Type) (E : env K V Q T) (debug : bool) (e : @entry K)
         (f : T -> option V * T) (w : world K V T),
  WF (self w) -> entry_ok e (self w) ->
  wp (or_insert_with E debug e f)
    (fun (i : nat) (w' : world K V T) => inv_post w w' /\ inside (self w') i) (inv_post w) w.
Proof. exact (@or_insert_with_inside). Qed.
Print Assumptions C06_or_insert_with_inside.

Theorem C06_or_insert_with_key_inside :
  forall (K V Q T : Type) (E : env K V Q T) (debug : bool) (e : @entry K)
         (f : K -> T -> option V * T) (w : world K V T),
  WF (self w) -> entry_ok e (self w) ->
  wp (or_insert_with_key E debug e f)
    (fun (i : nat) (w' : world K V T) => inv_post w w' /\ inside (self w') i) (inv_post w) w.
Proof. exact (@or_insert_with_key_inside). Qed.
Print Assumptions C06_or_insert_with_key_inside.

Theorem C06_entry_or_insert_inside :
  forall (K V Q T : Type) (E : env K V Q T) (debug : bool) (k : K)
         (fin : @entry K -> M K V T nat) (w : world K V T),
  (exists v : V, fin = fun e => or_insert E debug e v) \/
  (exists f : T -> option V * T, fin = fun e => or_insert_with E debug e f) \/
  (exists f : K -> T -> option V * T, fin = fun e => or_insert_with_key E debug e f) ->
  WF (self w) ->
  wp (e <- entry_of E k ;; fin e)
    (fun (i : nat) (w' : world K V T) => inv_post w w' /\ inside (self w') i) (inv_post w) w.
Proof. exact (@entry_or_insert_inside). Qed.
Print Assumptions C06_entry_or_insert_inside.

(* the retain closure *)
Theorem C06_call_pred_inside :
  forall (K V T : Type) (f : @pred_t K V T) (i : nat) (w : world K V T),
  WF (self w) -> i < len (self w) ->
  let post := fun w' : world K V T =>
    inside (self w) i /\ inside (self w') i /\ inv_post w w' /\ len (self w') = len (self w) /\
    exists (p : K * V) (v' : V),
      nth_error (slots (self w)) i = Some (Some p) /\
      v' = snd (fst (f (cb w) (fst p) (snd p))) /\
      self w' = set_slot_m (self w) i (Some (fst p, v')) in
  wp (call_pred f i) (fun _ : bool => post) post w.
Proof. exact (@call_pred_inside). Qed.
Print Assumptions C06_call_pred_inside.

Theorem C06_assert_inside_ok :
  forall (K V T : Type) (i : nat) (w : world K V T),
  assert_inside i w = Ok tt w <-> inside (self w) i.
Proof. exact (@assert_inside_ok). Qed.
Print Assumptions C06_assert_inside_ok.

(* retain_chk E debug f: Map::retain with `assert_inside i ;;` in front of every
   call_pred f i (Proofs/MoreIter.v retain_loop_chk) *)
Theorem C06_retain_chk_eq :
  forall (K V Q T : Type) (E : env K V Q T) (debug : bool) (f : @pred_t K V T) (w : world K V T),
  WF (self w) -> retain E debug f w = retain_chk E debug f w.
Proof. exact (@retain_chk_eq). Qed.
Print Assumptions C06_retain_chk_eq.

(* non-vacuity: get_disjoint_mut for classes 7 and 5 on m3 returns slots 2 and 0;
   entry(class 6).or_insert returns slot 1; retain with the closure that removes
   everything runs identically with the checks *)
Example C06_example_round2 :
  match get_disjoint_mut (env_map C06_sc0) [QCls 7; QCls 5] (w_of m3) with
  | Ok r w' => r = [Some 2; Some 0] /\ self w' = m3
  | _ => False
  end /\
  match (e <- entry_of (env_map C06_sc0) (k_ 9 6) ;; or_insert (env_map C06_sc0) false e (v_ 10 10))
          (w_of m3) with
  | Ok i w' => i = 1 /\ len (self w') = 3
  | _ => False
  end /\
  retain (env_map C06_sc0) false pred_false (w_of m3)
  = retain_chk (env_map C06_sc0) false pred_false (w_of m3) /\
  match retain_chk (env_map C06_sc0) false pred_false (w_of m3) with
  | Ok _ w' => len (self w') = 0
  | _ => False
  end.
Proof. vm_compute. repeat split; reflexivity. Qed.
