(* ========================================================================== *)
(* C03 — A full container rejects a new key cleanly in every build profile

   STATEMENT (properties.jsonl):
     "Adding a key that is not present to a container that already holds N
      entries through any safe API (insert, insert_key_value,
      entry(..).or_insert*, VacantEntry::insert, collect/From/extend,
      Set::insert/replace) panics - in release builds exactly as in debug
      builds - without writing outside the container; afterwards the container
      holds exactly its previous entries, stays usable, and the rejected key
      and value have been destroyed once. checked_insert returns None instead
      of panicking and changes nothing, replacing the value of a key that is
      already present succeeds on a full container, and capacity() is always N
      with len() never above it."

   QUANTIFIER (properties.jsonl):
     "every safe insertion entry point x every full state reachable by any
      history x capacities N in {0,1,2,...} x debug and release (and
      sanitizer-instrumented) builds x element shapes (ZST, small Copy,
      heap-owning, large)"

   VOCABULARY
     Lawful E ck cq   == is equality of the classes ck k / cq q, never panics;
                      Drop never panics (Proofs/Spec.v).  "a key that is not
                      present" is  find_idx ck (ck k) (Spec.elems (self w)) = None.
     Spec.elems m     the live prefix slots[0..len) as a list.
     l_insert ck l k v update_key   the list-machine's find-or-append (Spec.v):
                      returns (new list, slot, displaced pair).
     l_extend ck N l items   fold of "insert, overflow = None" over items for
                      capacity N (Proofs/Bulk.v).
     logged w w' evs  := log w' = log w ++ evs
     ev_drops ids     := map EvDrop ids : the events "Drop::drop ran on the
                      object with identity id", one per identity; the log is
                      the ledger of destructions, so
                      logged w w' (ev_drops (idV E v ++ idK E k))
                      says: during the call exactly the value v and the key k
                      were destroyed (in this order: the two parameters of insert
                      die in reverse declaration order), each once, and nothing else.
     wp c Qn Qp w     c started in w does not reach UB; Qn holds of result and
                      final world on return, Qp of the world left by a panic.
     How to read a wp statement as "a full container panics":
       the normal-return clause contains
           find_idx ... = None -> len (self w) < cap (self w)
       so from an absent key on a full container (len = cap) the call cannot
       return; UB is excluded by wp; hence it panics, and the panic clause
       applies:  self w' = self w  (the container holds exactly its previous
       entries) and  logged w w' (ev_drops (idV E v ++ idK E k))  (the
       rejected key and value are destroyed exactly once: the model runs the
       destructors of the locals a frame owns when a panic unwinds through
       it).  Conversely the panic clause says it panics ONLY when the key is
       absent and len = cap - so replacing a present key succeeds on a full
       container.
       `debug : bool` is universally quantified: release exactly as debug.

   READING GUIDE (clause -> theorem)
     insert core (Map::insert_ii, both update_key modes; Set::replace IS
       insert_ii E debug k tt true, Model/SetOps.v)         C03_insert_ii_lawful
     insert (Set::insert IS insert E debug k tt)            C03_insert_lawful
     insert_key_value                                       C03_insert_key_value_lawful
     checked_insert: never panics; on full + absent returns None,
       self w' = self w, and the rejected key and value are destroyed once
       (logged ... ev_drops (idV E v ++ idK E k))           C03_checked_insert_lawful
     entry(k).or_insert(v) / or_insert_with / or_insert_with_key
                                                            C03_or_insert_lawful,
                                                            C03_or_insert_with_lawful,
                                                            C03_or_insert_with_key_lawful
     VacantEntry::insert                                    C03_vac_insert_lawful
     "the rejected key and value have been destroyed once": carried by the
       panic clause of each of the seven theorems above
       (logged w w' (ev_drops (idV E v ++ idK E k)); for or_insert_with* the
       value is the one the closure produced, after its EvCall 2), and by the
       checked_insert theorem for the non-panicking rejection.  For EVERY
       environment (no Lawful): every panic of insert_ii is such a clean
       rejection, nothing lost                             C03_insert_ii_strong
       and Map::insert panics either by such a rejection or because the Drop
       of a displaced key panicked after a successful replacement
                                                            C03_insert_panic_cases
     extend / collect / From<[..;N]>  (Map)                 C03_extend_loop_lawful,
                                                            C03_from_iter_lawful
       exactly when it overflows: more distinct classes than N
                                                            C03_bulk_overflow
     Set extend / collect                                   C03_s_extend_loop_lawful,
                                                            C03_s_from_iter_lawful
     "replacing the value of a key that is already present succeeds on a full
       container": explicitly, with hypotheses  find_idx ... = Some i  and
       len = cap, never panics                              C03_replace_on_full_insert,
                                                            C03_replace_on_full_checked_insert,
                                                            C03_replace_on_full_insert_key_value
       and what the result is (slot i rewritten, same length)
                                                            C03_l_insert_present
     "without writing outside the container": for EVERY environment (lawful or
       not) insert_ii never reaches UB (an out-of-range unchecked write is UB in
       the model; the checked write panics) and keeps WF and the capacity
                                                            C03_keeps_insert_ii
     "stays usable": the panic clauses give self w' = self w (so WF is kept);
       at history level every register stays WF after a panic
                                                            C03_step_safe
     "capacity() is always N with len() never above it"     C03_step_safe (caps
       constant), C03_WF_len_le_cap

   PARTLY / NOT COVERED BY A THEOREM (left to the correspondence check)
     [The first two items below are now CLOSED by the section "AUDIT CLOSURE"
      appended at the end of this file: C03_extend_loop_overflow,
      C03_from_iter_overflow, C03_s_extend_loop_overflow, C03_s_from_iter_overflow
      give the exact contents and the exact Drop log at the overflow; the same
      section states "panics" positively for every single-item entry point
      (C03_*_full_panics), Set::insert / replace, or_default and capacity().]
     - "the rejected key and value have been destroyed once" for the BULK entry
       points: extend / collect (Map and Set) state on panic only WF, unchanged
       capacity and "the list machine overflows"; that the overflowing item and
       the items not yet yielded are destroyed once is in the model
       (extend_loop unwinds them) but not stated by C03_extend_loop_lawful /
       C03_from_iter_lawful / C03_s_*; the single-item entry points ARE covered
       (see above).
     - extend_loop's panic clause gives WF + unchanged capacity + "the list
       machine overflows", not the exact content at the moment of the overflow
       (the items inserted before the overflowing one stay in the container;
       no theorem states which).
     - the panic message / "exactly as in debug builds" beyond panic-vs-return
       (same outcome for debug = true and false) is an observation.
     - sanitizer-instrumented builds and element shapes (ZST, large, heap) are
       runtime configurations of the harness; the model is parametric in K, V.
   ========================================================================== *)
Require Import Model.Base Model.Slots Model.MapOps Model.EntryOps Model.SetOps Model.Fmt Model.Exec.
Require Import Proofs.Hoare Proofs.Inv Proofs.Safety Proofs.Spec Proofs.Lawful Proofs.Lawful2
               Proofs.Lawful3 Proofs.EntrySpec Proofs.Bulk Proofs.FmtSerde Proofs.ExecSafe
               Proofs.Legacy Proofs.Gaps Proofs.Owned.

(* -------------------------------------------------------------------------- *)
(* the insertion core and the three Map entry points                          *)
Theorem C03_insert_ii_lawful :
  forall (K V Q T : Type) (E : env K V Q T) (debug : bool) (ck : K -> N) (cq : Q -> N),
  Lawful E ck cq ->
  forall (k : K) (v : V) (u : bool) (w : world K V T),
  WF (self w) ->
  wp (insert_ii E debug k v u)
    (fun (r : nat * option (K * V)) (w' : world K V T) =>
       WF (self w') /\
       cap (self w') = cap (self w) /\
       log w' = log w /\
       (Spec.elems (self w'), fst r, snd r) = l_insert ck (Spec.elems (self w)) k v u /\
       (find_idx ck (ck k) (Spec.elems (self w)) = None -> len (self w) < cap (self w)))
    (fun w' : world K V T =>
       self w' = self w /\
       logged w w' (ev_drops (idV E v ++ idK E k)) /\
       find_idx ck (ck k) (Spec.elems (self w)) = None /\
       len (self w) = cap (self w))
    w.
Proof. exact (@insert_ii_lawful). Qed.
Print Assumptions C03_insert_ii_lawful.

Theorem C03_insert_lawful :
  forall (K V Q T : Type) (E : env K V Q T) (debug : bool) (ck : K -> N) (cq : Q -> N),
  Lawful E ck cq ->
  forall (k : K) (v : V) (w : world K V T),
  WF (self w) ->
  wp (insert E debug k v)
    (fun (r : option V) (w' : world K V T) =>
       WF (self w') /\
       cap (self w') = cap (self w) /\
       Spec.elems (self w') = fst (fst (l_insert ck (Spec.elems (self w)) k v false)) /\
       r = option_map snd (snd (l_insert ck (Spec.elems (self w)) k v false)) /\
       logged w w'
         match snd (l_insert ck (Spec.elems (self w)) k v false) with
         | Some (k', _) => ev_drops (idK E k')
         | None => []
         end)
    (fun w' : world K V T =>
       self w' = self w /\
       logged w w' (ev_drops (idV E v ++ idK E k)) /\
       find_idx ck (ck k) (Spec.elems (self w)) = None /\
       len (self w) = cap (self w))
    w.
Proof. exact (@insert_lawful). Qed.
Print Assumptions C03_insert_lawful.

Theorem C03_insert_key_value_lawful :
  forall (K V Q T : Type) (E : env K V Q T) (debug : bool) (ck : K -> N) (cq : Q -> N),
  Lawful E ck cq ->
  forall (k : K) (v : V) (w : world K V T),
  WF (self w) ->
  wp (insert_key_value E debug k v)
    (fun (r : option (K * V)) (w' : world K V T) =>
       WF (self w') /\
       cap (self w') = cap (self w) /\
       log w' = log w /\
       Spec.elems (self w') = fst (fst (l_insert ck (Spec.elems (self w)) k v true)) /\
       r = snd (l_insert ck (Spec.elems (self w)) k v true))
    (fun w' : world K V T =>
       self w' = self w /\
       logged w w' (ev_drops (idV E v ++ idK E k)) /\
       find_idx ck (ck k) (Spec.elems (self w)) = None /\
       len (self w) = cap (self w))
    w.
Proof. exact (@insert_key_value_lawful). Qed.
Print Assumptions C03_insert_key_value_lawful.

(* checked_insert never panics (panic postcondition False) *)
Theorem C03_checked_insert_lawful :
  forall (K V Q T : Type) (E : env K V Q T) (debug : bool) (ck : K -> N) (cq : Q -> N),
  Lawful E ck cq ->
  forall (k : K) (v : V) (w : world K V T),
  WF (self w) ->
  wp (checked_insert E debug k v)
    (fun (r : option (option V)) (w' : world K V T) =>
       WF (self w') /\
       cap (self w') = cap (self w) /\
       match find_idx ck (ck k) (Spec.elems (self w)) with
       | Some _ =>
           Spec.elems (self w') = fst (fst (l_insert ck (Spec.elems (self w)) k v false)) /\
           r = Some (option_map snd (snd (l_insert ck (Spec.elems (self w)) k v false))) /\
           logged w w' (ev_drops (idK E k))
       | None =>
           if len (self w) <? cap (self w)
           then Spec.elems (self w') = Spec.elems (self w) ++ [(k, v)] /\
                r = Some None /\
                log w' = log w
           else Spec.elems (self w') = Spec.elems (self w) /\
                self w' = self w /\
                r = None /\
                logged w w' (ev_drops (idV E v ++ idK E k))
       end)
    (fun _ : world K V T => False)
    w.
Proof. exact (@checked_insert_lawful). Qed.
Print Assumptions C03_checked_insert_lawful.

(* -------------------------------------------------------------------------- *)
(* the entry API                                                              *)
Theorem C03_or_insert_lawful :
  forall (K V Q T : Type) (E : env K V Q T) (debug : bool) (ck : K -> N) (cq : Q -> N),
  Lawful E ck cq ->
  forall (k : K) (v : V) (w : world K V T),
  WF (self w) ->
  wp (e <- entry_of E k ;; or_insert E debug e v)
    (fun (i : nat) (w' : world K V T) =>
       WF (self w') /\
       cap (self w') = cap (self w) /\
       match find_idx ck (ck k) (Spec.elems (self w)) with
       | Some j => i = j /\ self w' = self w /\
                   logged w w' (ev_drops (idK E k) ++ ev_drops (idV E v))
       | None => i = length (Spec.elems (self w)) /\
                 Spec.elems (self w') = Spec.elems (self w) ++ [(k, v)] /\
                 log w' = log w
       end)
    (fun w' : world K V T =>
       self w' = self w /\
       logged w w' (ev_drops (idV E v ++ idK E k)) /\
       find_idx ck (ck k) (Spec.elems (self w)) = None /\
       len (self w) = cap (self w))
    w.
Proof. exact (@or_insert_lawful). Qed.
Print Assumptions C03_or_insert_lawful.

(* the closure f is assumed not to panic here (panicking closures: C04); on
   overflow the value v destroyed with the key is the one the closure produced *)
Theorem C03_or_insert_with_lawful :
  forall (K V Q T : Type) (E : env K V Q T) (debug : bool) (ck : K -> N) (cq : Q -> N),
  Lawful E ck cq ->
  forall (k : K) (f : T -> option V * T) (w : world K V T),
  WF (self w) ->
  (forall s : T, exists (v : V) (s' : T), f s = (Some v, s')) ->
  wp (e <- entry_of E k ;; or_insert_with E debug e f)
    (fun (i : nat) (w' : world K V T) =>
       WF (self w') /\
       cap (self w') = cap (self w) /\
       match find_idx ck (ck k) (Spec.elems (self w)) with
       | Some j => i = j /\ self w' = self w /\ logged w w' (ev_drops (idK E k))
       | None => i = length (Spec.elems (self w)) /\
                 (exists v : V, Spec.elems (self w') = Spec.elems (self w) ++ [(k, v)]) /\
                 logged w w' [EvCall 2]
       end)
    (fun w' : world K V T =>
       self w' = self w /\
       (exists (v : V) (s s' : T),
          f s = (Some v, s') /\
          logged w w' ([EvCall 2] ++ ev_drops (idV E v ++ idK E k))) /\
       find_idx ck (ck k) (Spec.elems (self w)) = None /\
       len (self w) = cap (self w))
    w.
Proof. exact (@or_insert_with_lawful). Qed.
Print Assumptions C03_or_insert_with_lawful.

Theorem C03_or_insert_with_key_lawful :
  forall (K V Q T : Type) (E : env K V Q T) (debug : bool) (ck : K -> N) (cq : Q -> N),
  Lawful E ck cq ->
  forall (k : K) (f : K -> T -> option V * T) (w : world K V T),
  WF (self w) ->
  (forall s : T, exists (v : V) (s' : T), f k s = (Some v, s')) ->
  wp (e <- entry_of E k ;; or_insert_with_key E debug e f)
    (fun (i : nat) (w' : world K V T) =>
       WF (self w') /\
       cap (self w') = cap (self w) /\
       match find_idx ck (ck k) (Spec.elems (self w)) with
       | Some j => i = j /\ self w' = self w /\ logged w w' (ev_drops (idK E k))
       | None => i = length (Spec.elems (self w)) /\
                 (exists v : V, Spec.elems (self w') = Spec.elems (self w) ++ [(k, v)]) /\
                 logged w w' [EvCall 2]
       end)
    (fun w' : world K V T =>
       self w' = self w /\
       (exists (v : V) (s s' : T),
          f k s = (Some v, s') /\
          logged w w' ([EvCall 2] ++ ev_drops (idV E v ++ idK E k))) /\
       find_idx ck (ck k) (Spec.elems (self w)) = None /\
       len (self w) = cap (self w))
    w.
Proof. exact (@or_insert_with_key_lawful). Qed.
Print Assumptions C03_or_insert_with_key_lawful.

Theorem C03_vac_insert_lawful :
  forall (K V Q T : Type) (E : env K V Q T) (debug : bool) (ck : K -> N) (cq : Q -> N),
  Lawful E ck cq ->
  forall (k : K) (v : V) (w : world K V T),
  WF (self w) ->
  find_idx ck (ck k) (Spec.elems (self w)) = None ->
  wp (vac_insert E debug k v)
    (fun (i : nat) (w' : world K V T) =>
       WF (self w') /\
       cap (self w') = cap (self w) /\
       log w' = log w /\
       Spec.elems (self w') = Spec.elems (self w) ++ [(k, v)] /\
       i = length (Spec.elems (self w)) /\
       len (self w) < cap (self w))
    (fun w' : world K V T =>
       self w' = self w /\
       logged w w' (ev_drops (idV E v ++ idK E k)) /\
       len (self w) = cap (self w))
    w.
Proof. exact (@vac_insert_lawful). Qed.
Print Assumptions C03_vac_insert_lawful.

(* -------------------------------------------------------------------------- *)
(* bulk insertion; nx is the source iterator's next(), assumed not to panic    *)
Theorem C03_extend_loop_lawful :
  forall (K V Q T : Type) (E : env K V Q T) (debug : bool) (ck : K -> N) (cq : Q -> N),
  Lawful E ck cq ->
  forall (nx : T -> ans * T) (items : list (K * V)) (w : world K V T),
  (forall s : T, fst (nx s) <> Boom) ->
  WF (self w) ->
  wp (extend_loop E debug nx items)
    (fun (_ : unit) (w' : world K V T) =>
       WF (self w') /\
       cap (self w') = cap (self w) /\
       l_extend ck (cap (self w)) (Spec.elems (self w)) items = Some (Spec.elems (self w')))
    (fun w' : world K V T =>
       WF (self w') /\
       cap (self w') = cap (self w) /\
       l_extend ck (cap (self w)) (Spec.elems (self w)) items = None)
    w.
Proof. exact (@extend_loop_lawful). Qed.
Print Assumptions C03_extend_loop_lawful.

Theorem C03_from_iter_lawful :
  forall (K V Q T : Type) (E : env K V Q T) (debug : bool) (ck : K -> N) (cq : Q -> N),
  Lawful E ck cq ->
  forall (nx : T -> ans * T) (items : list (K * V)) (w : world K V T),
  (forall s : T, fst (nx s) <> Boom) ->
  WF (self w) ->
  len (self w) = 0 ->
  wp (from_iter E debug nx items)
    (fun (_ : unit) (w' : world K V T) =>
       WF (self w') /\
       cap (self w') = cap (self w) /\
       l_extend ck (cap (self w)) [] items = Some (Spec.elems (self w')))
    (fun _ : world K V T => l_extend ck (cap (self w)) [] items = None)
    w.
Proof. exact (@from_iter_lawful). Qed.
Print Assumptions C03_from_iter_lawful.

(* collecting overflows exactly when there are more distinct keys than N *)
Theorem C03_bulk_overflow :
  forall (K V : Type) (ck : K -> N) (N0 : nat) (items : list (K * V)),
  l_extend ck N0 [] items = None <->
  N0 < length (nodup N.eq_dec (List.map (fun p : K * V => ck (fst p)) items)).
Proof. exact (@bulk_overflow). Qed.
Print Assumptions C03_bulk_overflow.

Theorem C03_s_extend_loop_lawful :
  forall (K Q T : Type) (E : env K unit Q T) (debug : bool) (ck : K -> N) (cq : Q -> N),
  Lawful E ck cq ->
  forall (nx : T -> ans * T) (items : list K) (w : world K unit T),
  (forall s : T, fst (nx s) <> Boom) ->
  WF (self w) ->
  wp (s_extend_loop E debug nx items)
    (fun (_ : unit) (w' : world K unit T) =>
       WF (self w') /\
       cap (self w') = cap (self w) /\
       l_extend ck (cap (self w)) (Spec.elems (self w)) (List.map (fun k : K => (k, tt)) items)
         = Some (Spec.elems (self w')))
    (fun w' : world K unit T =>
       WF (self w') /\
       cap (self w') = cap (self w) /\
       l_extend ck (cap (self w)) (Spec.elems (self w)) (List.map (fun k : K => (k, tt)) items)
         = None)
    w.
Proof. exact (@s_extend_loop_lawful). Qed.
Print Assumptions C03_s_extend_loop_lawful.

Theorem C03_s_from_iter_lawful :
  forall (K Q T : Type) (E : env K unit Q T) (debug : bool) (ck : K -> N) (cq : Q -> N),
  Lawful E ck cq ->
  forall (nx : T -> ans * T) (items : list K) (w : world K unit T),
  (forall s : T, fst (nx s) <> Boom) ->
  WF (self w) ->
  len (self w) = 0 ->
  wp (s_from_iter E debug nx items)
    (fun (_ : unit) (w' : world K unit T) =>
       WF (self w') /\
       cap (self w') = cap (self w) /\
       l_extend ck (cap (self w)) [] (List.map (fun k : K => (k, tt)) items)
         = Some (Spec.elems (self w')))
    (fun _ : world K unit T =>
       l_extend ck (cap (self w)) [] (List.map (fun k : K => (k, tt)) items) = None)
    w.
Proof. exact (@s_from_iter_lawful). Qed.
Print Assumptions C03_s_from_iter_lawful.

(* -------------------------------------------------------------------------- *)
(* every environment: no UB (nothing written outside the array), WF and the
   capacity are kept, on return and on panic.  (Safety.keeps, unfolded.)      *)
Theorem C03_keeps_insert_ii :
  forall (K V Q T : Type) (E : env K V Q T) (debug : bool) (k : K) (v : V) (u : bool)
         (w : world K V T),
  WF (self w) ->
  wp (insert_ii E debug k v u)
    (fun (_ : nat * option (K * V)) (w' : world K V T) =>
       WF (self w') /\ cap (self w') = cap (self w))
    (fun w' : world K V T => WF (self w') /\ cap (self w') = cap (self w))
    w.
Proof. exact (@keeps_insert_ii). Qed.
Print Assumptions C03_keeps_insert_ii.

(* every environment: EVERY panic of insert_ii (a panicking ==, the debug
   assertion, the bounds check) is a clean rejection: container untouched, the
   pair (k, v) destroyed exactly once (its Drop events appended to the log),
   nothing lost; on return the ownership accounting of Props/C02.v holds.
   (Owned.cpostN and Owned.rejected, unfolded:
      acct E w w' ins outs lost :=
        Permutation (owned E (self w') ++ outs ++ lost ++ dropped (log w'))
                    (owned E (self w) ++ ins ++ dropped (log w))) *)
Theorem C03_insert_ii_strong :
  forall (K V Q T : Type) (E : env K V Q T) (debug : bool) (k : K) (v : V) (u : bool)
         (w : world K V T),
  WF (self w) ->
  wp (insert_ii E debug k v u)
    (fun (r : nat * option (K * V)) (w' : world K V T) =>
       WF (self w') /\
       cap (self w') = cap (self w) /\
       exists lost : list N,
         acct E w w' (ids_pair E (k, v))
              (match snd r with Some p => ids_pair E p | None => [] end) lost /\
         (Tidy (self w) -> lost = [] /\ Tidy (self w')))
    (fun w' : world K V T =>
       self w' = self w /\ log w' = log w ++ ev_drops (idV E v ++ idK E k))
    w.
Proof. exact (@insert_ii_strong). Qed.
Print Assumptions C03_insert_ii_strong.

(* every environment: how Map::insert can panic.  Either the pair was rejected
   (container untouched, k and v destroyed exactly once), or the key was found,
   the value was replaced (intermediate state w1, everything accounted for) and
   the Drop of the displaced key half k' panicked *)
Theorem C03_insert_panic_cases :
  forall (K V Q T : Type) (E : env K V Q T) (debug : bool) (k : K) (v : V) (w : world K V T),
  WF (self w) ->
  wp (insert E debug k v)
    (fun (_ : option V) (_ : world K V T) => True)
    (fun w' : world K V T =>
       (self w' = self w /\ log w' = log w ++ ev_drops (idV E v ++ idK E k)) \/
       (exists (w1 : world K V T) (k' : K) (v' : V),
          (WF (self w1) /\
           cap (self w1) = cap (self w) /\
           exists lost : list N,
             acct E w w1 (ids_pair E (k, v)) (ids_pair E (k', v')) lost /\
             (Tidy (self w) -> lost = [] /\ Tidy (self w1))) /\
          self w' = self w1 /\
          log w' = log w1 ++ ev_drops (idK E k')))
    w.
Proof. exact (@insert_panic_cases). Qed.
Print Assumptions C03_insert_panic_cases.

(* history level: capacities constant, every register WF (hence len <= cap)
   after every call of every history, returned or panicked, every script *)
Theorem C03_step_safe :
  forall (debug : bool) (sc : script) (o : op) (x : xworld),
  WFx x ->
  contract_ok debug o x ->
  WFx (snd (step debug sc o x)) /\ caps (snd (step debug sc o x)) = caps x.
Proof. exact step_safe. Qed.
Print Assumptions C03_step_safe.

Theorem C03_WF_len_le_cap :
  forall (K V : Type) (m : map K V), WF m -> len m <= cap m.
Proof. exact (@WF_len_le_cap). Qed.
Print Assumptions C03_WF_len_le_cap.

(* -------------------------------------------------------------------------- *)
(* "replacing the value of a key that is already present succeeds on a full
   container" (Proofs/Gaps.v): the key is present at slot i, len = cap; the call
   cannot panic (panic postcondition False) and computes l_insert               *)
Theorem C03_replace_on_full_insert :
  forall (K V Q T : Type) (E : env K V Q T) (debug : bool) (ck : K -> N) (cq : Q -> N),
  Lawful E ck cq ->
  forall (k : K) (v : V) (i : nat) (w : world K V T),
  WF (self w) ->
  find_idx ck (ck k) (Spec.elems (self w)) = Some i ->
  len (self w) = cap (self w) ->
  wp (insert E debug k v)
    (fun (r : option V) (w' : world K V T) =>
       WF (self w') /\
       cap (self w') = cap (self w) /\
       Spec.elems (self w') = fst (fst (l_insert ck (Spec.elems (self w)) k v false)) /\
       r = option_map snd (snd (l_insert ck (Spec.elems (self w)) k v false)) /\
       logged w w' (match snd (l_insert ck (Spec.elems (self w)) k v false) with
                    | Some (k', _) => ev_drops (idK E k')
                    | None => []
                    end))
    (fun _ : world K V T => False)
    w.
Proof. exact (@replace_on_full_insert). Qed.
Print Assumptions C03_replace_on_full_insert.

Theorem C03_replace_on_full_checked_insert :
  forall (K V Q T : Type) (E : env K V Q T) (debug : bool) (ck : K -> N) (cq : Q -> N),
  Lawful E ck cq ->
  forall (k : K) (v : V) (i : nat) (w : world K V T),
  WF (self w) ->
  find_idx ck (ck k) (Spec.elems (self w)) = Some i ->
  len (self w) = cap (self w) ->
  wp (checked_insert E debug k v)
    (fun (r : option (option V)) (w' : world K V T) =>
       WF (self w') /\
       cap (self w') = cap (self w) /\
       Spec.elems (self w') = fst (fst (l_insert ck (Spec.elems (self w)) k v false)) /\
       r = Some (option_map snd (snd (l_insert ck (Spec.elems (self w)) k v false))) /\
       logged w w' (ev_drops (idK E k)))
    (fun _ : world K V T => False)
    w.
Proof. exact (@replace_on_full_checked_insert). Qed.
Print Assumptions C03_replace_on_full_checked_insert.

Theorem C03_replace_on_full_insert_key_value :
  forall (K V Q T : Type) (E : env K V Q T) (debug : bool) (ck : K -> N) (cq : Q -> N),
  Lawful E ck cq ->
  forall (k : K) (v : V) (i : nat) (w : world K V T),
  WF (self w) ->
  find_idx ck (ck k) (Spec.elems (self w)) = Some i ->
  len (self w) = cap (self w) ->
  wp (insert_key_value E debug k v)
    (fun (r : option (K * V)) (w' : world K V T) =>
       WF (self w') /\
       cap (self w') = cap (self w) /\
       log w' = log w /\
       Spec.elems (self w') = fst (fst (l_insert ck (Spec.elems (self w)) k v true)) /\
       r = snd (l_insert ck (Spec.elems (self w)) k v true))
    (fun _ : world K V T => False)
    w.
Proof. exact (@replace_on_full_insert_key_value). Qed.
Print Assumptions C03_replace_on_full_insert_key_value.

(* what l_insert is for a present key: same length, only slot i rewritten
   (u = false: stored key kept, new value; u = true: key and value swapped in);
   upd l i p = l with position i replaced by p (Proofs/Hoare.v) *)
Theorem C03_l_insert_present :
  forall (K V : Type) (ck : K -> N) (l : list (K * V)) (k : K) (v : V) (u : bool) (i : nat),
  find_idx ck (ck k) l = Some i ->
  exists (k0 : K) (v0 : V),
    nth_error l i = Some (k0, v0) /\
    ck k0 = ck k /\
    l_insert ck l k v u =
      (if u then (upd l i (k, v), i, Some (k0, v0)) else (upd l i (k0, v), i, Some (k, v0))).
Proof. exact (@l_insert_present). Qed.
Print Assumptions C03_l_insert_present.

(* -------------------------------------------------------------------------- *)
(* non-vacuity: m3 (Proofs/Legacy.v) is a FULL well-formed map (len = cap = 3)
   with classes 5, 6, 7; w_of m3 is the world around it                        *)
Example C03_example_lawful :
  Lawful (env_map {| sc_adv := false; sc_seed := 0; sc_fk := 0; sc_fa := 0 |}) kcls qcls.
Proof.
  exact (env_map_lawful {| sc_adv := false; sc_seed := 0; sc_fk := 0; sc_fa := 0 |}
                        (conj eq_refl eq_refl)).
Qed.

Example C03_example_full :
  WF (self (w_of m3)) /\ len (self (w_of m3)) = cap (self (w_of m3)) /\
  find_idx kcls 9%N (Spec.elems (self (w_of m3))) = None.
Proof. split; [exact m3_WF|]. split; vm_compute; reflexivity. Qed.

(* new key (class 9) into the full map, RELEASE build: panics, container
   untouched, the rejected key (id 9) and value (id 10) destroyed exactly once *)
Example C03_example_insert_full_release :
  match insert (env_map {| sc_adv := false; sc_seed := 0; sc_fk := 0; sc_fa := 0 |}) false
               (k_ 9 9) (v_ 10 10) (w_of m3) with
  | Panic w' => self w' = m3 /\ log w' = [EvDrop 10; EvDrop 9]
  | _ => False
  end.
Proof. vm_compute. split; reflexivity. Qed.

(* the same in a DEBUG build, and for capacity 0 *)
Example C03_example_insert_full_debug :
  match insert (env_map {| sc_adv := false; sc_seed := 0; sc_fk := 0; sc_fa := 0 |}) true
               (k_ 9 9) (v_ 10 10) (w_of m3) with
  | Panic w' => self w' = m3 /\ log w' = [EvDrop 10; EvDrop 9]
  | _ => False
  end.
Proof. vm_compute. split; reflexivity. Qed.

Example C03_example_insert_cap0 :
  match insert (env_map {| sc_adv := false; sc_seed := 0; sc_fk := 0; sc_fa := 0 |}) false
               (k_ 9 9) (v_ 10 10) (w_of (new_map 0)) with
  | Panic w' => self w' = new_map 0 /\ log w' = [EvDrop 10; EvDrop 9]
  | _ => False
  end.
Proof. vm_compute. split; reflexivity. Qed.

(* checked_insert on the full map: None, nothing changed, key 9 and value 10 destroyed once *)
Example C03_example_checked_insert_full :
  match checked_insert (env_map {| sc_adv := false; sc_seed := 0; sc_fk := 0; sc_fa := 0 |}) false
                       (k_ 9 9) (v_ 10 10) (w_of m3) with
  | Ok r w' => r = None /\ self w' = m3 /\ log w' = [EvDrop 10; EvDrop 9]
  | _ => False
  end.
Proof. vm_compute. repeat split; reflexivity. Qed.

(* replacing the value of a present key (class 6) succeeds on the full map *)
Example C03_example_replace_on_full :
  match insert (env_map {| sc_adv := false; sc_seed := 0; sc_fk := 0; sc_fa := 0 |}) false
               (k_ 9 6) (v_ 10 10) (w_of m3) with
  | Ok r w' => r = Some (v_ 4 8) /\ len (self w') = 3 /\ log w' = [EvDrop 9]
  | _ => False
  end.
Proof. vm_compute. repeat split; reflexivity. Qed.

(* collecting 3 items with 2 distinct classes: overflows capacity 1, fits capacity 2 *)
Example C03_example_bulk :
  l_extend kcls 1 [] [(k_ 1 5, v_ 2 7); (k_ 3 5, v_ 4 8); (k_ 5 6, v_ 6 9)] = None /\
  l_extend kcls 2 [] [(k_ 1 5, v_ 2 7); (k_ 3 5, v_ 4 8); (k_ 5 6, v_ 6 9)]
    = Some [(k_ 1 5, v_ 4 8); (k_ 5 6, v_ 6 9)].
Proof. split; vm_compute; reflexivity. Qed.

(* the hypotheses of C03_replace_on_full_* hold of the full map m3 and a key of
   class 6 (present at slot 1); the list machine rewrites slot 1 only *)
Example C03_example_replace_on_full_hyps :
  find_idx kcls (kcls (k_ 9 6)) (Spec.elems (self (w_of m3))) = Some 1 /\
  len (self (w_of m3)) = cap (self (w_of m3)) /\
  l_insert kcls (Spec.elems m3) (k_ 9 6) (v_ 10 10) false
    = ([(k_ 1 5, v_ 2 7); (k_ 3 6, v_ 10 10); (k_ 5 7, v_ 6 9)], 1, Some (k_ 9 6, v_ 4 8)).
Proof. repeat split; vm_compute; reflexivity. Qed.

(* ========================================================================== *)
(* AUDIT CLOSURE (appended).  Proofs/MoreBulk.v.

   1. "panics", POSITIVELY.  The *_lawful theorems above carry the panic only
      contrapositively (the Ok clause contains  find_idx .. = None -> len < cap).
      The theorems below state it as an equation on the run itself,
          op .. w = Panic w'   /\  self w' = self w  /\  logged w w' (ev_drops ..)
      from the three hypotheses "WF (self w)" (representation invariant),
      "find_idx ck (ck k) (Spec.elems (self w)) = None" (the key is not present) and
      "len (self w) = cap (self w)" (the container already holds N entries), for
      EVERY capacity (0 included) and with `debug` universally quantified
      ("in release builds exactly as in debug builds"):
        insert_ii (both update_key modes)   C03_insert_ii_full_panics
        insert                              C03_insert_full_panics
        insert_key_value                    C03_insert_key_value_full_panics
        VacantEntry::insert                 C03_vac_insert_full_panics
        entry(k).or_insert(v)               C03_or_insert_full_panics
        entry(k).or_insert_with(f)          C03_or_insert_with_full_panics
        entry(k).or_insert_with_key(f)      C03_or_insert_with_key_full_panics
        entry(k).or_default()               C03_or_default_full_panics
        Set::insert / Set::replace          C03_s_insert_full_panics, C03_s_replace_full_panics
                                            (and what they compute otherwise:
                                             C03_s_insert_lawful, C03_s_replace_lawful)
        checked_insert: Ok None, no panic   C03_checked_insert_full_none
      For the closure-taking entry points the value destroyed is the one the
      closure produced IN THE ACTUAL CALL: entry_of leaves the world w1
      (C03_entry_of_vacant: a Vacant entry, container and log untouched), the
      closure is called exactly once, at callback state  cb w1
      (C03_or_insert_with_run / C03_or_insert_with_key_run: the run IS
      "log EvCall 2, evaluate f (cb w1), VacantEntry::insert its value"), and
      v is that value:  f (cb w1) = (Some v, s').  The wp forms with the call
      tied in both clauses are C03_or_insert_with_tied / C03_or_insert_with_key_tied
      (they replace the unconstrained  exists v s s', f s = (Some v, s')  of
      C03_or_insert_with(_key)_lawful above).
   2. Bulk paths with the exact contents and the exact event log at the
      overflow: C03_extend_loop_overflow (+ _panics), C03_from_iter_overflow,
      C03_s_extend_loop_overflow (+ _panics), C03_s_from_iter_overflow.
   3. capacity(): C03_capacity_spec, C03_length_spec, C03_capacity_ge_len.
   ========================================================================== *)
Require Import Proofs.SetDict Proofs.MoreBulk.

(* -------------------------------------------------------------------------- *)
(* 1a. "Adding a key that is not present to a container that already holds N
   entries through any safe API ... panics ... afterwards the container holds
   exactly its previous entries ... and the rejected key and value have been
   destroyed once".  Hypotheses: WF = invariant; find_idx = None = key absent;
   len = cap = full.  Conclusion: the run IS a panic; self w' = self w; the log
   grew by exactly the Drop events of k and v.                                 *)
Theorem C03_insert_ii_full_panics :
  forall (K V Q T : Type) (E : env K V Q T) (debug : bool) (ck : K -> N) (cq : Q -> N),
  Lawful E ck cq ->
  forall (k : K) (v : V) (u : bool) (w : world K V T),
  WF (self w) ->
  find_idx ck (ck k) (Spec.elems (self w)) = None ->
  len (self w) = cap (self w) ->
  exists w' : world K V T,
    insert_ii E debug k v u w = Panic w' /\
    self w' = self w /\
    logged w w' (ev_drops (idV E v ++ idK E k)).
Proof. exact (@insert_ii_full_panics). Qed.
Print Assumptions C03_insert_ii_full_panics.

Theorem C03_insert_full_panics :
  forall (K V Q T : Type) (E : env K V Q T) (debug : bool) (ck : K -> N) (cq : Q -> N),
  Lawful E ck cq ->
  forall (k : K) (v : V) (w : world K V T),
  WF (self w) ->
  find_idx ck (ck k) (Spec.elems (self w)) = None ->
  len (self w) = cap (self w) ->
  exists w' : world K V T,
    insert E debug k v w = Panic w' /\
    self w' = self w /\
    logged w w' (ev_drops (idV E v ++ idK E k)).
Proof. exact (@insert_full_panics). Qed.
Print Assumptions C03_insert_full_panics.

Theorem C03_insert_key_value_full_panics :
  forall (K V Q T : Type) (E : env K V Q T) (debug : bool) (ck : K -> N) (cq : Q -> N),
  Lawful E ck cq ->
  forall (k : K) (v : V) (w : world K V T),
  WF (self w) ->
  find_idx ck (ck k) (Spec.elems (self w)) = None ->
  len (self w) = cap (self w) ->
  exists w' : world K V T,
    insert_key_value E debug k v w = Panic w' /\
    self w' = self w /\
    logged w w' (ev_drops (idV E v ++ idK E k)).
Proof. exact (@insert_key_value_full_panics). Qed.
Print Assumptions C03_insert_key_value_full_panics.

Theorem C03_vac_insert_full_panics :
  forall (K V Q T : Type) (E : env K V Q T) (debug : bool) (ck : K -> N) (cq : Q -> N),
  Lawful E ck cq ->
  forall (k : K) (v : V) (w : world K V T),
  WF (self w) ->
  find_idx ck (ck k) (Spec.elems (self w)) = None ->
  len (self w) = cap (self w) ->
  exists w' : world K V T,
    vac_insert E debug k v w = Panic w' /\
    self w' = self w /\
    logged w w' (ev_drops (idV E v ++ idK E k)).
Proof. exact (@vac_insert_full_panics). Qed.
Print Assumptions C03_vac_insert_full_panics.

(* "checked_insert returns None instead of panicking and changes nothing": the
   run IS a normal return of None; container untouched; k and v destroyed once *)
Theorem C03_checked_insert_full_none :
  forall (K V Q T : Type) (E : env K V Q T) (debug : bool) (ck : K -> N) (cq : Q -> N),
  Lawful E ck cq ->
  forall (k : K) (v : V) (w : world K V T),
  WF (self w) ->
  find_idx ck (ck k) (Spec.elems (self w)) = None ->
  len (self w) = cap (self w) ->
  exists w' : world K V T,
    checked_insert E debug k v w = Ok None w' /\
    self w' = self w /\
    logged w w' (ev_drops (idV E v ++ idK E k)).
Proof. exact (@checked_insert_full_none). Qed.
Print Assumptions C03_checked_insert_full_none.

(* -------------------------------------------------------------------------- *)
(* 1b. the entry API.  entry(k) on an absent key returns Vacant k in a world w1
   that differs from w only in the callback state (the == calls of the scan). *)
Theorem C03_entry_of_vacant :
  forall (K V Q T : Type) (E : env K V Q T) (ck : K -> N) (cq : Q -> N),
  Lawful E ck cq ->
  forall (k : K) (w : world K V T),
  WF (self w) ->
  find_idx ck (ck k) (Spec.elems (self w)) = None ->
  exists w1 : world K V T,
    entry_of E k w = Ok (Vacant k) w1 /\ self w1 = self w /\ log w1 = log w.
Proof. exact (@entry_of_vacant). Qed.
Print Assumptions C03_entry_of_vacant.

Theorem C03_or_insert_full_panics :
  forall (K V Q T : Type) (E : env K V Q T) (debug : bool) (ck : K -> N) (cq : Q -> N),
  Lawful E ck cq ->
  forall (k : K) (v : V) (w : world K V T),
  WF (self w) ->
  find_idx ck (ck k) (Spec.elems (self w)) = None ->
  len (self w) = cap (self w) ->
  exists w' : world K V T,
    (e <- entry_of E k ;; or_insert E debug e v) w = Panic w' /\
    self w' = self w /\
    logged w w' (ev_drops (idV E v ++ idK E k)).
Proof. exact (@or_insert_full_panics). Qed.
Print Assumptions C03_or_insert_full_panics.

(* EVERY environment, every closure (panicking or not): on a vacant entry the
   chain is exactly "log the closure call (EvCall 2); evaluate f ONCE at the
   callback state entry_of left; VacantEntry::insert the value, or - if the
   closure panicked (None) - unwind, which destroys the key the VacantEntry owns
   (its Drop events follow EvCall 2; container untouched)" *)
Theorem C03_or_insert_with_run :
  forall (K V Q T : Type) (E : env K V Q T) (debug : bool)
         (k : K) (f : T -> option V * T) (w w1 : world K V T),
  entry_of E k w = Ok (Vacant k) w1 ->
  (e <- entry_of E k ;; or_insert_with E debug e f) w =
  match fst (f (cb w1)) with
  | Some v => vac_insert E debug k v
                {| cb := snd (f (cb w1)); log := log w1 ++ [EvCall 2]; self := self w1 |}
  | None => Panic {| cb := snd (dropK E (snd (f (cb w1))) k);
                     log := (log w1 ++ [EvCall 2]) ++ ev_drops (idK E k); self := self w1 |}
  end.
Proof. exact (@or_insert_with_run). Qed.
Print Assumptions C03_or_insert_with_run.

Theorem C03_or_insert_with_key_run :
  forall (K V Q T : Type) (E : env K V Q T) (debug : bool)
         (k : K) (f : K -> T -> option V * T) (w w1 : world K V T),
  entry_of E k w = Ok (Vacant k) w1 ->
  (e <- entry_of E k ;; or_insert_with_key E debug e f) w =
  match fst (f k (cb w1)) with
  | Some v => vac_insert E debug k v
                {| cb := snd (f k (cb w1)); log := log w1 ++ [EvCall 2]; self := self w1 |}
  | None => Panic {| cb := snd (dropK E (snd (f k (cb w1))) k);
                     log := (log w1 ++ [EvCall 2]) ++ ev_drops (idK E k); self := self w1 |}
  end.
Proof. exact (@or_insert_with_key_run). Qed.
Print Assumptions C03_or_insert_with_key_run.

(* the closure is assumed not to panic ("forall s, exists v s', f s = (Some v, s')":
   panicking closures are C04's); the value v destroyed with the key is the
   result of THE call:  f (cb w1) = (Some v, s')  with w1 the world entry_of left *)
Theorem C03_or_insert_with_full_panics :
  forall (K V Q T : Type) (E : env K V Q T) (debug : bool) (ck : K -> N) (cq : Q -> N),
  Lawful E ck cq ->
  forall (k : K) (f : T -> option V * T) (w : world K V T),
  WF (self w) ->
  find_idx ck (ck k) (Spec.elems (self w)) = None ->
  len (self w) = cap (self w) ->
  (forall s : T, exists (v : V) (s' : T), f s = (Some v, s')) ->
  exists (w1 : world K V T) (v : V) (s' : T) (w' : world K V T),
    entry_of E k w = Ok (Vacant k) w1 /\ self w1 = self w /\ log w1 = log w /\
    f (cb w1) = (Some v, s') /\
    (e <- entry_of E k ;; or_insert_with E debug e f) w = Panic w' /\
    self w' = self w /\
    logged w w' ([EvCall 2] ++ ev_drops (idV E v ++ idK E k)).
Proof. exact (@or_insert_with_full_panics). Qed.
Print Assumptions C03_or_insert_with_full_panics.

Theorem C03_or_insert_with_key_full_panics :
  forall (K V Q T : Type) (E : env K V Q T) (debug : bool) (ck : K -> N) (cq : Q -> N),
  Lawful E ck cq ->
  forall (k : K) (f : K -> T -> option V * T) (w : world K V T),
  WF (self w) ->
  find_idx ck (ck k) (Spec.elems (self w)) = None ->
  len (self w) = cap (self w) ->
  (forall s : T, exists (v : V) (s' : T), f k s = (Some v, s')) ->
  exists (w1 : world K V T) (v : V) (s' : T) (w' : world K V T),
    entry_of E k w = Ok (Vacant k) w1 /\ self w1 = self w /\ log w1 = log w /\
    f k (cb w1) = (Some v, s') /\
    (e <- entry_of E k ;; or_insert_with_key E debug e f) w = Panic w' /\
    self w' = self w /\
    logged w w' ([EvCall 2] ++ ev_drops (idV E v ++ idK E k)).
Proof. exact (@or_insert_with_key_full_panics). Qed.
Print Assumptions C03_or_insert_with_key_full_panics.

(* The model has NO definition named or_default (see ROUND 2 below for the term the
   interpreter runs).  Entry::or_default() is or_insert_with(Default::default).  [d] is the
   default-maker (a total function: Default::default() here does not panic);
   mk_of d := fun s => (Some (fst (d s)), snd (d s))  (Proofs/MoreBulk.v).
   On a FULL map with an absent key it panics; the default WAS built (one
   closure call, EvCall 2) and is destroyed with the key, exactly once. *)
Theorem C03_or_default_full_panics :
  forall (K V Q T : Type) (E : env K V Q T) (debug : bool) (ck : K -> N) (cq : Q -> N),
  Lawful E ck cq ->
  forall (k : K) (d : T -> V * T) (w : world K V T),
  WF (self w) ->
  find_idx ck (ck k) (Spec.elems (self w)) = None ->
  len (self w) = cap (self w) ->
  exists w1 w' : world K V T,
    entry_of E k w = Ok (Vacant k) w1 /\ self w1 = self w /\ log w1 = log w /\
    (e <- entry_of E k ;; or_insert_with E debug e (mk_of d)) w = Panic w' /\
    self w' = self w /\
    logged w w' ([EvCall 2] ++ ev_drops (idV E (fst (d (cb w1))) ++ idK E k)).
Proof. exact (@or_default_full_panics). Qed.
Print Assumptions C03_or_default_full_panics.

(* wp forms with the closure call tied to its state in BOTH clauses: on return
   the value stored is the closure's, on overflow the value destroyed is *)
Theorem C03_or_insert_with_tied :
  forall (K V Q T : Type) (E : env K V Q T) (debug : bool) (ck : K -> N) (cq : Q -> N),
  Lawful E ck cq ->
  forall (k : K) (f : T -> option V * T) (w : world K V T),
  WF (self w) ->
  (forall s : T, exists (v : V) (s' : T), f s = (Some v, s')) ->
  wp (e <- entry_of E k ;; or_insert_with E debug e f)
    (fun (i : nat) (w' : world K V T) =>
       WF (self w') /\
       cap (self w') = cap (self w) /\
       match find_idx ck (ck k) (Spec.elems (self w)) with
       | Some j => i = j /\ self w' = self w /\ logged w w' (ev_drops (idK E k))
       | None => i = length (Spec.elems (self w)) /\
                 (exists (w1 : world K V T) (v : V) (s' : T),
                    entry_of E k w = Ok (Vacant k) w1 /\
                    f (cb w1) = (Some v, s') /\
                    Spec.elems (self w') = Spec.elems (self w) ++ [(k, v)]) /\
                 logged w w' [EvCall 2]
       end)
    (fun w' : world K V T =>
       self w' = self w /\
       (exists (w1 : world K V T) (v : V) (s' : T),
          entry_of E k w = Ok (Vacant k) w1 /\
          f (cb w1) = (Some v, s') /\
          logged w w' ([EvCall 2] ++ ev_drops (idV E v ++ idK E k))) /\
       find_idx ck (ck k) (Spec.elems (self w)) = None /\
       len (self w) = cap (self w))
    w.
Proof. exact (@or_insert_with_tied). Qed.
Print Assumptions C03_or_insert_with_tied.

Theorem C03_or_insert_with_key_tied :
  forall (K V Q T : Type) (E : env K V Q T) (debug : bool) (ck : K -> N) (cq : Q -> N),
  Lawful E ck cq ->
  forall (k : K) (f : K -> T -> option V * T) (w : world K V T),
  WF (self w) ->
  (forall s : T, exists (v : V) (s' : T), f k s = (Some v, s')) ->
  wp (e <- entry_of E k ;; or_insert_with_key E debug e f)
    (fun (i : nat) (w' : world K V T) =>
       WF (self w') /\
       cap (self w') = cap (self w) /\
       match find_idx ck (ck k) (Spec.elems (self w)) with
       | Some j => i = j /\ self w' = self w /\ logged w w' (ev_drops (idK E k))
       | None => i = length (Spec.elems (self w)) /\
                 (exists (w1 : world K V T) (v : V) (s' : T),
                    entry_of E k w = Ok (Vacant k) w1 /\
                    f k (cb w1) = (Some v, s') /\
                    Spec.elems (self w') = Spec.elems (self w) ++ [(k, v)]) /\
                 logged w w' [EvCall 2]
       end)
    (fun w' : world K V T =>
       self w' = self w /\
       (exists (w1 : world K V T) (v : V) (s' : T),
          entry_of E k w = Ok (Vacant k) w1 /\
          f k (cb w1) = (Some v, s') /\
          logged w w' ([EvCall 2] ++ ev_drops (idV E v ++ idK E k))) /\
       find_idx ck (ck k) (Spec.elems (self w)) = None /\
       len (self w) = cap (self w))
    w.
Proof. exact (@or_insert_with_key_tied). Qed.
Print Assumptions C03_or_insert_with_key_tied.

(* -------------------------------------------------------------------------- *)
(* 1c. Set::insert / Set::replace (Model/SetOps.v: s_insert k = Map::insert k ()
   mapped to "was it new", s_replace k = insert_ii k () true mapped to the old
   element): what they compute, and that they panic on a full set.  idV E tt is
   the identity list of the unit value (empty in the harness environment).     *)
Theorem C03_s_insert_lawful :
  forall (K Q T : Type) (E : env K unit Q T) (debug : bool) (ck : K -> N) (cq : Q -> N),
  Lawful E ck cq ->
  forall (k : K) (w : world K unit T),
  WF (self w) ->
  wp (s_insert E debug k)
    (fun (r : bool) (w' : world K unit T) =>
       WF (self w') /\
       cap (self w') = cap (self w) /\
       r = match find_idx ck (ck k) (Spec.elems (self w)) with Some _ => false | None => true end /\
       Spec.elems (self w') =
         match find_idx ck (ck k) (Spec.elems (self w)) with
         | Some _ => Spec.elems (self w)
         | None => Spec.elems (self w) ++ [(k, tt)]
         end /\
       (find_idx ck (ck k) (Spec.elems (self w)) = None -> len (self w) < cap (self w)))
    (fun w' : world K unit T =>
       self w' = self w /\
       logged w w' (ev_drops (idV E tt ++ idK E k)) /\
       find_idx ck (ck k) (Spec.elems (self w)) = None /\
       len (self w) = cap (self w))
    w.
Proof. exact (@s_insert_lawful). Qed.
Print Assumptions C03_s_insert_lawful.

Theorem C03_s_replace_lawful :
  forall (K Q T : Type) (E : env K unit Q T) (debug : bool) (ck : K -> N) (cq : Q -> N),
  Lawful E ck cq ->
  forall (k : K) (w : world K unit T),
  WF (self w) ->
  wp (s_replace E debug k)
    (fun (r : option K) (w' : world K unit T) =>
       WF (self w') /\
       cap (self w') = cap (self w) /\
       log w' = log w /\
       r = option_map fst (lookup ck (Spec.elems (self w)) (ck k)) /\
       Spec.elems (self w') =
         match find_idx ck (ck k) (Spec.elems (self w)) with
         | Some i => upd (Spec.elems (self w)) i (k, tt)
         | None => Spec.elems (self w) ++ [(k, tt)]
         end /\
       (find_idx ck (ck k) (Spec.elems (self w)) = None -> len (self w) < cap (self w)))
    (fun w' : world K unit T =>
       self w' = self w /\
       logged w w' (ev_drops (idV E tt ++ idK E k)) /\
       find_idx ck (ck k) (Spec.elems (self w)) = None /\
       len (self w) = cap (self w))
    w.
Proof. exact (@s_replace_lawful). Qed.
Print Assumptions C03_s_replace_lawful.

Theorem C03_s_insert_full_panics :
  forall (K Q T : Type) (E : env K unit Q T) (debug : bool) (ck : K -> N) (cq : Q -> N),
  Lawful E ck cq ->
  forall (k : K) (w : world K unit T),
  WF (self w) ->
  find_idx ck (ck k) (Spec.elems (self w)) = None ->
  len (self w) = cap (self w) ->
  exists w' : world K unit T,
    s_insert E debug k w = Panic w' /\
    self w' = self w /\
    logged w w' (ev_drops (idV E tt ++ idK E k)).
Proof. exact (@s_insert_full_panics). Qed.
Print Assumptions C03_s_insert_full_panics.

Theorem C03_s_replace_full_panics :
  forall (K Q T : Type) (E : env K unit Q T) (debug : bool) (ck : K -> N) (cq : Q -> N),
  Lawful E ck cq ->
  forall (k : K) (w : world K unit T),
  WF (self w) ->
  find_idx ck (ck k) (Spec.elems (self w)) = None ->
  len (self w) = cap (self w) ->
  exists w' : world K unit T,
    s_replace E debug k w = Panic w' /\
    self w' = self w /\
    logged w w' (ev_drops (idV E tt ++ idK E k)).
Proof. exact (@s_replace_full_panics). Qed.
Print Assumptions C03_s_replace_full_panics.

(* -------------------------------------------------------------------------- *)
(* 2. "collect/From/extend ... panics ... without writing outside the container;
   afterwards the container holds exactly its previous entries [plus what the
   items before the overflowing one added], stays usable, and the rejected key
   and value have been destroyed once".

   Vocabulary (Proofs/MoreBulk.v; the two definitions are restated as theorems):
     pair_drops E p        the Drop events of a TUPLE p the source still owns (or a stored
                           entry): key then value, ev_drops (idK E (fst p) ++ idV E (snd p))
     arg_drops E p         the Drop events of a rejected ARGUMENT pair (the two parameters
                           k, v of insert are destroyed in reverse declaration order):
                           value then key, ev_drops (idV E (snd p) ++ idK E (fst p))
     ext_evs E ck l items  the events of inserting items one by one into the list l:
                           per item one EvCall 1 (the pull), then - if its key was
                           present - the Drop of the SUPPLIED key object and of the
                           DISPLACED value; nothing else.
   On overflow: items = pre ++ x :: post, where
     - l_extend .. pre = Some (Spec.elems (self w')): the container holds exactly
       what the items before the overflowing one built (Extend keeps them);
     - find_idx .. (ck (fst x)) .. = None and length = cap: x is a new key and the
       container is full (nothing was written: cap unchanged, WF kept, no UB);
     - the log is EXACTLY: what building pre logged, the pull that yielded x, the
       Drop of x (once; arg_drops: value first), the Drop of every item of post (once each, in order: they
       were never yielded; the source iterator owning them is dropped by the
       unwinding) - and nothing else;
     - from_iter (collect / From<[_; N]>) then destroys the partial container
       res = what pre built, entry by entry: its Drop events close the log.      *)
Theorem C03_pair_drops_def :
  forall (K V Q T : Type) (E : env K V Q T) (p : K * V),
  pair_drops E p = ev_drops (idK E (fst p) ++ idV E (snd p)).
Proof. reflexivity. Qed.
Print Assumptions C03_pair_drops_def.

Theorem C03_arg_drops_def :
  forall (K V Q T : Type) (E : env K V Q T) (p : K * V),
  arg_drops E p = ev_drops (idV E (snd p) ++ idK E (fst p)).
Proof. reflexivity. Qed.
Print Assumptions C03_arg_drops_def.

Theorem C03_ext_evs_def :
  forall (K V Q T : Type) (E : env K V Q T) (ck : K -> N) (l : list (K * V)),
  ext_evs E ck l [] = [] /\
  forall (k : K) (v : V) (rest : list (K * V)),
    ext_evs E ck l ((k, v) :: rest) =
    [EvCall 1] ++
    match snd (l_insert ck l k v false) with
    | Some (k', v0) => ev_drops (idK E k') ++ ev_drops (idV E v0)
    | None => []
    end ++
    ext_evs E ck (fst (fst (l_insert ck l k v false))) rest.
Proof. intros. split; reflexivity. Qed.
Print Assumptions C03_ext_evs_def.

Theorem C03_extend_loop_overflow :
  forall (K V Q T : Type) (E : env K V Q T) (debug : bool) (ck : K -> N) (cq : Q -> N),
  Lawful E ck cq ->
  forall (nx : T -> ans * T) (items : list (K * V)),
  (forall s : T, fst (nx s) <> Boom) ->
  forall w : world K V T,
  WF (self w) ->
  wp (extend_loop E debug nx items)
    (fun (_ : unit) (w' : world K V T) =>
       WF (self w') /\
       cap (self w') = cap (self w) /\
       l_extend ck (cap (self w)) (Spec.elems (self w)) items = Some (Spec.elems (self w')) /\
       log w' = log w ++ ext_evs E ck (Spec.elems (self w)) items ++ [EvCall 1])
    (fun w' : world K V T =>
       WF (self w') /\
       cap (self w') = cap (self w) /\
       l_extend ck (cap (self w)) (Spec.elems (self w)) items = None /\
       exists (pre : list (K * V)) (x : K * V) (post : list (K * V)),
         items = pre ++ x :: post /\
         l_extend ck (cap (self w)) (Spec.elems (self w)) pre = Some (Spec.elems (self w')) /\
         find_idx ck (ck (fst x)) (Spec.elems (self w')) = None /\
         length (Spec.elems (self w')) = cap (self w) /\
         log w' = log w ++ ext_evs E ck (Spec.elems (self w)) pre ++ [EvCall 1] ++
                           arg_drops E x ++ flat_map (pair_drops E) post)
    w.
Proof. exact (@extend_loop_overflow). Qed.
Print Assumptions C03_extend_loop_overflow.

(* positively: if the list machine overflows, Extend panics, in both builds *)
Theorem C03_extend_loop_overflow_panics :
  forall (K V Q T : Type) (E : env K V Q T) (debug : bool) (ck : K -> N) (cq : Q -> N),
  Lawful E ck cq ->
  forall (nx : T -> ans * T) (items : list (K * V)) (w : world K V T),
  (forall s : T, fst (nx s) <> Boom) ->
  WF (self w) ->
  l_extend ck (cap (self w)) (Spec.elems (self w)) items = None ->
  exists (w' : world K V T) (pre : list (K * V)) (x : K * V) (post : list (K * V)),
    extend_loop E debug nx items w = Panic w' /\
    WF (self w') /\
    cap (self w') = cap (self w) /\
    items = pre ++ x :: post /\
    l_extend ck (cap (self w)) (Spec.elems (self w)) pre = Some (Spec.elems (self w')) /\
    find_idx ck (ck (fst x)) (Spec.elems (self w')) = None /\
    length (Spec.elems (self w')) = cap (self w) /\
    log w' = log w ++ ext_evs E ck (Spec.elems (self w)) pre ++ [EvCall 1] ++
                      arg_drops E x ++ flat_map (pair_drops E) post.
Proof. exact (@extend_loop_overflow_panics). Qed.
Print Assumptions C03_extend_loop_overflow_panics.

(* collect / From<[(K,V); N]>: len (self w) = 0 is "the fresh Map::new()" *)
Theorem C03_from_iter_overflow :
  forall (K V Q T : Type) (E : env K V Q T) (debug : bool) (ck : K -> N) (cq : Q -> N),
  Lawful E ck cq ->
  forall (nx : T -> ans * T) (items : list (K * V)) (w : world K V T),
  (forall s : T, fst (nx s) <> Boom) ->
  WF (self w) ->
  len (self w) = 0 ->
  wp (from_iter E debug nx items)
    (fun (_ : unit) (w' : world K V T) =>
       WF (self w') /\
       cap (self w') = cap (self w) /\
       l_extend ck (cap (self w)) [] items = Some (Spec.elems (self w')) /\
       log w' = log w ++ ext_evs E ck [] items ++ [EvCall 1])
    (fun w' : world K V T =>
       l_extend ck (cap (self w)) [] items = None /\
       exists (pre : list (K * V)) (x : K * V) (post res : list (K * V)),
         items = pre ++ x :: post /\
         l_extend ck (cap (self w)) [] pre = Some res /\
         find_idx ck (ck (fst x)) res = None /\
         length res = cap (self w) /\
         log w' = log w ++ ext_evs E ck [] pre ++ [EvCall 1] ++
                           arg_drops E x ++ flat_map (pair_drops E) post ++
                           flat_map (pair_drops E) res)
    w.
Proof. exact (@from_iter_overflow). Qed.
Print Assumptions C03_from_iter_overflow.

(* Set: unit_items items = map (fun k => (k, tt)) items (Proofs/Bulk.v);
   s_ext_evs is ext_evs without a value Drop (() has no destructor) *)
Theorem C03_s_ext_evs_def :
  forall (K Q T : Type) (E : env K unit Q T) (ck : K -> N) (l : list (K * unit)),
  s_ext_evs E ck l [] = [] /\
  forall (k : K) (rest : list K),
    s_ext_evs E ck l (k :: rest) =
    [EvCall 1] ++
    match snd (l_insert ck l k tt false) with
    | Some (k', _) => ev_drops (idK E k')
    | None => []
    end ++
    s_ext_evs E ck (fst (fst (l_insert ck l k tt false))) rest.
Proof. intros. split; reflexivity. Qed.
Print Assumptions C03_s_ext_evs_def.

Theorem C03_s_extend_loop_overflow :
  forall (K Q T : Type) (E : env K unit Q T) (debug : bool) (ck : K -> N) (cq : Q -> N),
  Lawful E ck cq ->
  forall (nx : T -> ans * T) (items : list K),
  (forall s : T, fst (nx s) <> Boom) ->
  forall w : world K unit T,
  WF (self w) ->
  wp (s_extend_loop E debug nx items)
    (fun (_ : unit) (w' : world K unit T) =>
       WF (self w') /\
       cap (self w') = cap (self w) /\
       l_extend ck (cap (self w)) (Spec.elems (self w)) (unit_items items) = Some (Spec.elems (self w')) /\
       log w' = log w ++ s_ext_evs E ck (Spec.elems (self w)) items ++ [EvCall 1])
    (fun w' : world K unit T =>
       WF (self w') /\
       cap (self w') = cap (self w) /\
       l_extend ck (cap (self w)) (Spec.elems (self w)) (unit_items items) = None /\
       exists (pre : list K) (x : K) (post : list K),
         items = pre ++ x :: post /\
         l_extend ck (cap (self w)) (Spec.elems (self w)) (unit_items pre) = Some (Spec.elems (self w')) /\
         find_idx ck (ck x) (Spec.elems (self w')) = None /\
         length (Spec.elems (self w')) = cap (self w) /\
         log w' = log w ++ s_ext_evs E ck (Spec.elems (self w)) pre ++ [EvCall 1] ++
                           arg_drops E (x, tt) ++ flat_map (pair_drops E) (unit_items post))
    w.
Proof. exact (@s_extend_loop_overflow). Qed.
Print Assumptions C03_s_extend_loop_overflow.

Theorem C03_s_extend_loop_overflow_panics :
  forall (K Q T : Type) (E : env K unit Q T) (debug : bool) (ck : K -> N) (cq : Q -> N),
  Lawful E ck cq ->
  forall (nx : T -> ans * T) (items : list K) (w : world K unit T),
  (forall s : T, fst (nx s) <> Boom) ->
  WF (self w) ->
  l_extend ck (cap (self w)) (Spec.elems (self w)) (unit_items items) = None ->
  exists (w' : world K unit T) (pre : list K) (x : K) (post : list K),
    s_extend_loop E debug nx items w = Panic w' /\
    WF (self w') /\
    cap (self w') = cap (self w) /\
    items = pre ++ x :: post /\
    l_extend ck (cap (self w)) (Spec.elems (self w)) (unit_items pre) = Some (Spec.elems (self w')) /\
    find_idx ck (ck x) (Spec.elems (self w')) = None /\
    length (Spec.elems (self w')) = cap (self w) /\
    log w' = log w ++ s_ext_evs E ck (Spec.elems (self w)) pre ++ [EvCall 1] ++
                      arg_drops E (x, tt) ++ flat_map (pair_drops E) (unit_items post).
Proof. exact (@s_extend_loop_overflow_panics). Qed.
Print Assumptions C03_s_extend_loop_overflow_panics.

Theorem C03_s_from_iter_overflow :
  forall (K Q T : Type) (E : env K unit Q T) (debug : bool) (ck : K -> N) (cq : Q -> N),
  Lawful E ck cq ->
  forall (nx : T -> ans * T) (items : list K) (w : world K unit T),
  (forall s : T, fst (nx s) <> Boom) ->
  WF (self w) ->
  len (self w) = 0 ->
  wp (s_from_iter E debug nx items)
    (fun (_ : unit) (w' : world K unit T) =>
       WF (self w') /\
       cap (self w') = cap (self w) /\
       l_extend ck (cap (self w)) [] (unit_items items) = Some (Spec.elems (self w')) /\
       log w' = log w ++ s_ext_evs E ck [] items ++ [EvCall 1])
    (fun w' : world K unit T =>
       l_extend ck (cap (self w)) [] (unit_items items) = None /\
       exists (pre : list K) (x : K) (post : list K) (res : list (K * unit)),
         items = pre ++ x :: post /\
         l_extend ck (cap (self w)) [] (unit_items pre) = Some res /\
         find_idx ck (ck x) res = None /\
         length res = cap (self w) /\
         log w' = log w ++ s_ext_evs E ck [] pre ++ [EvCall 1] ++
                           arg_drops E (x, tt) ++ flat_map (pair_drops E) (unit_items post) ++
                           flat_map (pair_drops E) res)
    w.
Proof. exact (@s_from_iter_overflow). Qed.
Print Assumptions C03_s_from_iter_overflow.

(* -------------------------------------------------------------------------- *)
(* 3. "capacity() is always N with len() never above it".  The model's
   capacity() (Model/MapOps.v: capacity := get_cap) returns the size of the slot
   array - the const parameter N - in EVERY world, reads nothing else, changes
   nothing and cannot panic; len() likewise returns the len field.  That the
   value never changes along a history is C03_step_safe (caps constant) and the
   cap clause of every theorem above (Safety.keeps: cap (self w') = cap (self w)). *)
Theorem C03_capacity_spec :
  forall (K V T : Type) (w : world K V T), @capacity K V T w = Ok (cap (self w)) w.
Proof. exact (@capacity_spec). Qed.
Print Assumptions C03_capacity_spec.

Theorem C03_length_spec :
  forall (K V T : Type) (w : world K V T), @length_ K V T w = Ok (len (self w)) w.
Proof. exact (@length_spec). Qed.
Print Assumptions C03_length_spec.

Theorem C03_capacity_ge_len :
  forall (K V T : Type) (w : world K V T),
  WF (self w) ->
  exists n c : nat,
    @length_ K V T w = Ok n w /\ @capacity K V T w = Ok c w /\ n <= c /\ c = cap (self w).
Proof. exact (@capacity_ge_len). Qed.
Print Assumptions C03_capacity_ge_len.

(* -------------------------------------------------------------------------- *)
(* non-vacuity.  sc0 is the honest script; m3 (Proofs/Legacy.v) is full (3/3)
   with classes 5,6,7; the key k_ 9 9 (id 9, class 9) is absent
   (C03_example_full above gives the three hypotheses for w_of m3).            *)
Definition C03_sc0 : script := {| sc_adv := false; sc_seed := 0; sc_fk := 0; sc_fa := 0 |}.

(* the closure hypotheses hold of the harness closures under an honest script *)
Example C03_example_mk_val_total :
  forall s : cstate, exists (v : vobj) (s' : cstate), mk_val C03_sc0 (v_ 10 10) s = (Some v, s').
Proof. intros s. eexists. eexists. reflexivity. Qed.

Example C03_example_mk_default_total :
  forall s : cstate, exists (v : vobj) (s' : cstate), mk_default C03_sc0 s = (Some v, s').
Proof. intros s. eexists. eexists. reflexivity. Qed.

(* entry(k).or_insert(v) on the full map, DEBUG build *)
Example C03_example_or_insert_full :
  match (e <- entry_of (env_map C03_sc0) (k_ 9 9) ;; or_insert (env_map C03_sc0) true e (v_ 10 10)) (w_of m3) with
  | Panic w' => self w' = m3 /\ log w' = [EvDrop 10; EvDrop 9]
  | _ => False
  end.
Proof. vm_compute. split; reflexivity. Qed.

(* or_insert_with: one closure call, then key 9 and the closure's value 10 destroyed *)
Example C03_example_or_insert_with_full :
  match (e <- entry_of (env_map C03_sc0) (k_ 9 9) ;;
         or_insert_with (env_map C03_sc0) false e (mk_val C03_sc0 (v_ 10 10))) (w_of m3) with
  | Panic w' => self w' = m3 /\ log w' = [EvCall 2; EvDrop 10; EvDrop 9] /\ n_call (cb w') = 1%N
  | _ => False
  end.
Proof. vm_compute. repeat split; reflexivity. Qed.

(* or_default: the default object (fresh id 100000) IS built and destroyed *)
Example C03_example_or_default_full :
  match (e <- entry_of (env_map C03_sc0) (k_ 9 9) ;;
         or_insert_with (env_map C03_sc0) false e (mk_default C03_sc0)) (w_of m3) with
  | Panic w' => self w' = m3 /\ log w' = [EvCall 2; EvDrop 100000; EvDrop 9] /\ n_call (cb w') = 1%N
  | _ => False
  end.
Proof. vm_compute. repeat split; reflexivity. Qed.

(* a full Set (2/2, classes 5 and 6) rejects element 9: insert (release) and replace (debug) *)
Definition C03_s2 : map key unit := {| len := 2; slots := [Some (k_ 1 5, tt); Some (k_ 3 6, tt)] |}.
Definition C03_ws (m : map key unit) : world key unit cstate := {| cb := cs0; log := []; self := m |}.

Example C03_example_set_full :
  WF (self (C03_ws C03_s2)) /\ len (self (C03_ws C03_s2)) = cap (self (C03_ws C03_s2)) /\
  find_idx kcls 9%N (Spec.elems (self (C03_ws C03_s2))) = None.
Proof.
  split; [|split; vm_compute; reflexivity].
  split; [vm_compute; lia|]. intros i Hi. cbn [len C03_ws C03_s2 self] in Hi.
  destruct i as [|[|i]]; try lia; eexists; reflexivity.
Qed.

Example C03_example_s_insert_full :
  match s_insert (env_set C03_sc0) false (k_ 9 9) (C03_ws C03_s2) with
  | Panic w' => self w' = C03_s2 /\ log w' = [EvDrop 9]
  | _ => False
  end.
Proof. vm_compute. split; reflexivity. Qed.

Example C03_example_s_replace_full :
  match s_replace (env_set C03_sc0) true (k_ 9 9) (C03_ws C03_s2) with
  | Panic w' => self w' = C03_s2 /\ log w' = [EvDrop 9]
  | _ => False
  end.
Proof. vm_compute. split; reflexivity. Qed.

(* Extend onto a NON-EMPTY map (2/3: classes 5, 6) with four items of classes
   6, 7, 8, 5: item 1 replaces the value of class 6 (supplied key 11 and old value
   4 destroyed), item 2 (class 7) fills the map, item 3 (class 8) overflows:
   pre = items 1-2, x = item 3, post = item 4.  At the panic the map holds what
   pre built; x (value 16, then key 15) and post (17, 18) are destroyed once; 3 pulls. *)
Definition C03_m2 : map key vobj :=
  {| len := 2; slots := [Some (k_ 1 5, v_ 2 7); Some (k_ 3 6, v_ 4 8); None] |}.
Definition C03_items : list (key * vobj) :=
  [(k_ 11 6, v_ 12 1); (k_ 13 7, v_ 14 2); (k_ 15 8, v_ 16 3); (k_ 17 5, v_ 18 4)].

Example C03_example_extend_overflow :
  match extend_loop (env_map C03_sc0) false nx_none C03_items (w_of C03_m2) with
  | Panic w' =>
      Spec.elems (self w') = [(k_ 1 5, v_ 2 7); (k_ 3 6, v_ 12 1); (k_ 13 7, v_ 14 2)] /\
      l_extend kcls 3 (Spec.elems C03_m2) [(k_ 11 6, v_ 12 1); (k_ 13 7, v_ 14 2)]
        = Some (Spec.elems (self w')) /\
      cap (self w') = 3 /\
      log w' = [EvCall 1; EvDrop 11; EvDrop 4; EvCall 1; EvCall 1;
                EvDrop 16; EvDrop 15; EvDrop 17; EvDrop 18]
  | _ => False
  end.
Proof. vm_compute. repeat split; reflexivity. Qed.

(* collect of the same items into capacity 2: overflow at item 3; the partial
   map (11,12),(13,14) is destroyed after the rejected item and the rest *)
Example C03_example_from_iter_overflow :
  match from_iter (env_map C03_sc0) true nx_none C03_items (w_of (new_map 2)) with
  | Panic w' =>
      log w' = [EvCall 1; EvCall 1; EvCall 1; EvDrop 16; EvDrop 15; EvDrop 17; EvDrop 18;
                EvDrop 11; EvDrop 12; EvDrop 13; EvDrop 14]
  | _ => False
  end.
Proof. vm_compute. reflexivity. Qed.

(* capacity() / len() on the full map *)
Example C03_example_capacity :
  @capacity key vobj cstate (w_of m3) = Ok 3 (w_of m3) /\
  @length_ key vobj cstate (w_of m3) = Ok 3 (w_of m3) /\
  @capacity key vobj cstate (w_of (new_map 0)) = Ok 0 (w_of (new_map 0)).
Proof. repeat split; reflexivity. Qed.

(* a PANICKING closure (script: closure call number 0 panics) on the same full
   map: the run is "EvCall 2, evaluate f, destroy the VacantEntry's key 9"
   (C03_or_insert_with_run, None branch); the container is untouched *)
Example C03_example_or_insert_with_closure_panics :
  let sc := {| sc_adv := false; sc_seed := 0; sc_fk := 4; sc_fa := 0 |} in
  match (e <- entry_of (env_map sc) (k_ 9 9) ;;
         or_insert_with (env_map sc) false e (mk_val sc (v_ 10 10))) (w_of m3) with
  | Panic w' => self w' = m3 /\ log w' = [EvCall 2; EvDrop 9]
  | _ => False
  end.
Proof. vm_compute. split; reflexivity. Qed.

(* ========================================================================== *)
(* AUDIT CLOSURE, ROUND 2 (appended).  Proofs/MoreBulk.v, sections 4-5.

   (1) "collect/From ... panics": stated POSITIVELY for the real entry points
       FromIterator / From<[_; N]> (from_iter) and their Set twins (s_from_iter):
       C03_from_iter_overflow_panics, C03_s_from_iter_overflow_panics - when the
       list machine overflows (more distinct keys than N: C03_bulk_overflow) the
       run IS a panic, for both values of `debug`, with the exact log of
       C03_from_iter_overflow / C03_s_from_iter_overflow.  Nothing is said about
       self w': it is the partly built LOCAL container after its destructor ran
       (all its entries are in the log as destroyed); the caller never sees it.
   (2) or_default.  The model has NO definition named or_default: the crate's
       Entry::or_default() is `or_insert_with(Default::default)`, and
       C03_or_default_full_panics above is a statement about
           or_insert_with E debug e (mk_of d)
       for an arbitrary total default-maker d.  What the interpreter runs for
       entry chain 3 (Model/Exec.v, entry_chain: `or_insert_with Em debug e
       (mk_default sc)`) is an instance: C03_mk_default_is_mk_of shows
       mk_default sc = mk_of (d_default sc) pointwise unless the script makes
       that very closure call panic (sc_fk sc = 4), and
       C03_or_default_exec_full_panics is the panic theorem for exactly the term
       the interpreter runs.  d_default sc s (Proofs/MoreBulk.v, restated in
       C03_d_default_def) ticks the closure counter and builds the fresh object
       {vid := next_id; vdat := 0}.
   (3) Examples for the closure hypothesis of C03_or_insert_with_key_lawful /
       _full_panics / _tied: C03_example_mk_val_key_total and the run
       C03_example_or_insert_with_key_full.
   ========================================================================== *)

Theorem C03_from_iter_overflow_panics :
  forall (K V Q T : Type) (E : env K V Q T) (debug : bool) (ck : K -> N) (cq : Q -> N),
  Lawful E ck cq ->
  forall (nx : T -> ans * T) (items : list (K * V)) (w : world K V T),
  (forall s : T, fst (nx s) <> Boom) ->
  WF (self w) ->
  len (self w) = 0 ->
  l_extend ck (cap (self w)) [] items = None ->
  exists (w' : world K V T) (pre : list (K * V)) (x : K * V) (post res : list (K * V)),
    from_iter E debug nx items w = Panic w' /\
    items = pre ++ x :: post /\
    l_extend ck (cap (self w)) [] pre = Some res /\
    find_idx ck (ck (fst x)) res = None /\
    length res = cap (self w) /\
    log w' = log w ++ ext_evs E ck [] pre ++ [EvCall 1] ++
                      arg_drops E x ++ flat_map (pair_drops E) post ++
                      flat_map (pair_drops E) res.
Proof. exact (@from_iter_overflow_panics). Qed.
Print Assumptions C03_from_iter_overflow_panics.

Theorem C03_s_from_iter_overflow_panics :
  forall (K Q T : Type) (E : env K unit Q T) (debug : bool) (ck : K -> N) (cq : Q -> N),
  Lawful E ck cq ->
  forall (nx : T -> ans * T) (items : list K) (w : world K unit T),
  (forall s : T, fst (nx s) <> Boom) ->
  WF (self w) ->
  len (self w) = 0 ->
  l_extend ck (cap (self w)) [] (unit_items items) = None ->
  exists (w' : world K unit T) (pre : list K) (x : K) (post : list K) (res : list (K * unit)),
    s_from_iter E debug nx items w = Panic w' /\
    items = pre ++ x :: post /\
    l_extend ck (cap (self w)) [] (unit_items pre) = Some res /\
    find_idx ck (ck x) res = None /\
    length res = cap (self w) /\
    log w' = log w ++ s_ext_evs E ck [] pre ++ [EvCall 1] ++
                      arg_drops E (x, tt) ++ flat_map (pair_drops E) (unit_items post) ++
                      flat_map (pair_drops E) res.
Proof. exact (@s_from_iter_overflow_panics). Qed.
Print Assumptions C03_s_from_iter_overflow_panics.

(* the hypotheses hold of: capacity 2, the four items of C03_items (classes 6,7,8,5) *)
Example C03_example_from_iter_overflow_hyps :
  WF (self (w_of (new_map 2))) /\ len (self (w_of (new_map 2))) = 0 /\
  l_extend kcls (cap (self (w_of (new_map 2)))) [] C03_items = None /\
  (forall s : cstate, fst (nx_none s) <> Boom).
Proof.
  split; [apply WF_new|]. split; [reflexivity|]. split; [vm_compute; reflexivity|].
  intros s. cbn. discriminate.
Qed.

(* -------------------------------------------------------------------------- *)
(* (2) or_default as the interpreter runs it *)
Theorem C03_d_default_def :
  forall (sc : script) (s : cstate),
  d_default sc s =
  let s' := snd (call_tick sc s) in
  ({| vid := next_id s'; vdat := 0 |},
   {| n_eq := n_eq s'; n_clone := n_clone s'; n_call := n_call s'; next_id := next_id s' + 1 |}).
Proof. reflexivity. Qed.
Print Assumptions C03_d_default_def.

Theorem C03_mk_default_is_mk_of :
  forall sc : script, sc_fk sc <> 4%N -> forall s : cstate, mk_default sc s = mk_of (d_default sc) s.
Proof. exact mk_default_is_mk_of. Qed.
Print Assumptions C03_mk_default_is_mk_of.

(* E is any lawful environment over the interpreter's element types (env_map sc
   for an honest script: C03_example_lawful); sc_fk sc <> 4: the script does not
   make a closure call panic *)
Theorem C03_or_default_exec_full_panics :
  forall (E : env key vobj query cstate) (debug : bool) (ck : key -> N) (cq : query -> N),
  Lawful E ck cq ->
  forall (sc : script) (k : key) (w : world key vobj cstate),
  sc_fk sc <> 4%N ->
  WF (self w) ->
  find_idx ck (ck k) (Spec.elems (self w)) = None ->
  len (self w) = cap (self w) ->
  exists w1 w' : world key vobj cstate,
    entry_of E k w = Ok (Vacant k) w1 /\ self w1 = self w /\ log w1 = log w /\
    (e <- entry_of E k ;; or_insert_with E debug e (mk_default sc)) w = Panic w' /\
    self w' = self w /\
    logged w w' ([EvCall 2] ++ ev_drops (idV E (fst (d_default sc (cb w1))) ++ idK E k)).
Proof. exact or_default_exec_full_panics. Qed.
Print Assumptions C03_or_default_exec_full_panics.

Example C03_example_or_default_exec_hyps : sc_fk C03_sc0 <> 4%N.
Proof. cbn. discriminate. Qed.
(* the run: C03_example_or_default_full above (default object id 100000 built,
   then destroyed before the key 9) *)

(* -------------------------------------------------------------------------- *)
(* (3) the closure hypothesis of the or_insert_with_key theorems,
       forall s, exists v s', f k s = (Some v, s'),
   holds of the closure the interpreter uses for chain 2 under an honest script *)
Example C03_example_mk_val_key_total :
  forall s : cstate, exists (v : vobj) (s' : cstate),
    (fun _ : key => mk_val C03_sc0 (v_ 10 10)) (k_ 9 9) s = (Some v, s').
Proof. intros s. eexists. eexists. reflexivity. Qed.

Example C03_example_or_insert_with_key_full :
  match (e <- entry_of (env_map C03_sc0) (k_ 9 9) ;;
         or_insert_with_key (env_map C03_sc0) true e (fun _ : key => mk_val C03_sc0 (v_ 10 10))) (w_of m3) with
  | Panic w' => self w' = m3 /\ log w' = [EvCall 2; EvDrop 10; EvDrop 9] /\ n_call (cb w') = 1%N
  | _ => False
  end.
Proof. vm_compute. repeat split; reflexivity. Qed.
