#!/usr/bin/env python3
"""Case generator for the correspondence check.

A case is one line:  cfg ; op ; op ; ...   (integer tokens, see coq/Model/Exec.v)
cfg = adv seed fk fa cap_m0 cap_m1 cap_s0 cap_s1.

The generator keeps a light-weight *lawful* simulation of the registers (an
ordered list with swap-remove, like the crate) only to aim its choices: present
vs absent keys, full containers, slot positions.  It is not an oracle.
"""
import random

CAPS = [0, 1, 2, 3, 4, 8]   # (17 is supported by the harness too: used by the large-container histories)


class Sim:
    """lawful simulation of one container: list of (kid, cls, vid, dat)"""

    def __init__(self, cap):
        self.cap = cap
        self.e = []

    def find(self, cls):
        for i, x in enumerate(self.e):
            if x[1] == cls:
                return i
        return None

    def classes(self):
        return [x[1] for x in self.e]

    def full(self):
        return len(self.e) >= self.cap

    def insert(self, kid, cls, vid, dat, upd=False):
        i = self.find(cls)
        if i is not None:
            old = self.e[i]
            self.e[i] = (kid if upd else old[0], cls, vid, dat)
            return True
        if self.full():
            return False
        self.e.append((kid, cls, vid, dat))
        return True

    def remove(self, cls):
        i = self.find(cls)
        if i is None:
            return
        last = self.e.pop()
        if i < len(self.e):
            self.e[i] = last


class Gen:
    def __init__(self, rng, caps=None, ncls=6, adv=0, seed=0):
        self.r = rng
        self.caps = caps or [rng.choice(CAPS) for _ in range(4)]
        self.ncls = ncls
        self.adv = adv
        self.seed = seed
        self.nid = 1
        self.sim = [Sim(c) for c in self.caps]
        self.ops = []

    # -- identities ---------------------------------------------------------
    def fid(self):
        self.nid += 1
        return self.nid

    def cls_for(self, r, want_present=None):
        """pick a class, aiming at present / absent ones"""
        s = self.sim[r]
        pres = s.classes()
        if want_present is None:
            want_present = self.r.random() < 0.55
        if want_present and pres:
            # first / middle / last slots equally
            return self.r.choice([pres[0], pres[-1], self.r.choice(pres)])
        absent = [c for c in range(1, self.ncls + 1) if c not in pres]
        if absent:
            return self.r.choice(absent)
        return self.r.randint(1, self.ncls)

    def query(self, r, want_present=None):
        c = self.cls_for(r, want_present)
        if self.r.random() < 0.5:
            return [0, c]
        return [1, self.fid(), c]

    def ensure_filled(self, r, p=0.85):
        """sessions on an empty container say little: refill first (most of the time)"""
        s = self.sim[r]
        if s.cap == 0 or self.r.random() > p:
            return
        want = self.r.randint(1, s.cap)
        tries = 0
        while len(s.e) < want and tries < 3 * s.cap:
            tries += 1
            if r < 2:
                self.ins(r, code=10, want_present=False)
            else:
                self.s_ins(r, code=110, want_present=False)

    # -- map operations -----------------------------------------------------
    def ins(self, r, code=None, want_present=None):
        code = code or self.r.choice([10, 10, 11, 12])
        c = self.cls_for(r, want_present)
        kid, vid, dat = self.fid(), self.fid(), self.r.randint(0, 9)
        s = self.sim[r]
        if code == 13 and s.full() and s.find(c) is None:
            code = 10  # precondition of insert_unchecked not met
        self.ops.append([code, r, kid, c, vid, dat])
        s.insert(kid, c, vid, dat, upd=(code == 11))

    def lookup(self, r, code=None):
        code = code or self.r.choice([20, 21, 22, 23, 24, 25])
        q = self.query(r)
        op = [code, r] + q
        if code in (21, 25):
            op.append(self.r.randint(10, 99))
        self.ops.append(op)

    def rem(self, r, code=None):
        code = code or self.r.choice([30, 31])
        q = self.query(r)
        self.ops.append([code, r] + q)
        self.sim[r].remove(q[-1])

    def retain(self, r):
        dflt = self.r.choice([0, 1, 1, 2])
        tab = []
        for c in range(1, self.ncls + 1):
            if self.r.random() < 0.4:
                tab += [c, self.r.choice([0, 1, 2])]
        self.ops.append([32, r, dflt, len(tab) // 2] + tab)
        t = dict(zip(tab[0::2], tab[1::2]))
        s = self.sim[r]
        for c in list(s.classes()):
            if t.get(c, dflt) == 0:
                s.remove(c)

    def clear(self, r):
        self.ops.append([33, r])
        self.sim[r].e = []

    def drain(self, r):
        self.ensure_filled(r)
        n = len(self.sim[r].e)
        take = self.r.randint(0, n + 2)
        fate = self.r.choice([0, 0, 0, 2, 2, 1, 3, 3])
        self.ops.append([34, r, take, fate])
        self.sim[r].e = []

    def default(self, r):
        self.ops.append([68 if r < 2 else 168, r])
        self.sim[r].e = []

    def with_capacity(self, r, good=None):
        c = self.caps[r] if (good if good is not None else self.r.random() < 0.5) else self.caps[r] + 1
        self.ops.append([35, r, c])
        if c == self.caps[r]:
            self.sim[r].e = []

    def iter_sess(self, r, kind=None):
        self.ensure_filled(r)
        n = len(self.sim[r].e)
        kind = self.r.randint(0, 4) if kind is None else kind
        self.ops.append([40, r, kind, self.r.randint(0, n + 2), self.r.randint(100, 900)])

    def nth_sess(self, r, which=None):
        """Iterator::nth / skip on a borrowing iterator, a drain or a consuming iterator"""
        self.ensure_filled(r)
        n = len(self.sim[r].e)
        pre = self.r.randint(0, n)
        nk = self.r.choice([0, 0, 1, 2, max(0, n - pre - 1), max(0, n - pre), n - pre + 1, n + 3])
        which = self.r.choice(["iter", "drain", "into"]) if which is None else which
        if r < 2:
            if which == "iter":
                self.ops.append([42, r, self.r.randint(0, 4), pre, nk])
            elif which == "drain":
                self.ops.append([43, r, pre, nk])
                self.sim[r].e = []
            else:
                self.ops.append([44, r, self.r.randint(0, 2), pre, nk])
                self.sim[r].e = []
        else:
            code = {"iter": 142, "drain": 143, "into": 144}[which]
            self.ops.append([code, r, pre, nk])
            if which != "iter":
                self.sim[r].e = []

    def into_sess(self, r, kind=None):
        self.ensure_filled(r)
        n = len(self.sim[r].e)
        kind = self.r.randint(0, 2) if kind is None else kind
        fate = self.r.choice([0, 0, 0, 2, 2, 1, 3, 3])
        self.ops.append([41, r, kind, self.r.randint(0, n + 2), fate])
        self.sim[r].e = []

    def entry(self, r, chain=None, want_present=None):
        chain = self.r.randint(0, 11) if chain is None else chain
        c = self.cls_for(r, want_present)
        kid, vid, dat = self.fid(), self.fid(), self.r.randint(0, 9)
        self.ops.append([50, r, kid, c, chain, vid, dat])
        s = self.sim[r]
        present = s.find(c) is not None
        if not present and chain in (0, 1, 2, 3, 4, 8, 11):
            s.insert(kid, c, vid, dat)
        if present and chain in (9, 10):
            s.remove(c)

    def disjoint(self, r, unchecked=False, j=None, allow_dup=True):
        j = self.r.randint(0, 4) if j is None else j
        cs = []
        for _ in range(j):
            cs.append(self.cls_for(r))
        if unchecked or not allow_dup:
            seen = []
            for c in cs:
                if c not in seen:
                    seen.append(c)
            cs = seen
        self.ops.append([51, r, 1 if unchecked else 0, self.r.randint(100, 900), len(cs)] + cs)

    def clone(self, r, r2):
        code = 60 if (self.r.random() < 0.6 or r == r2) else 67   # 67: Clone::clone_from
        self.ops.append([code, r, r2])
        if self.caps[r] == self.caps[r2]:
            self.sim[r2].e = list(self.sim[r].e)

    def eq(self, r, r2):
        self.ops.append([61, r, r2])

    def from_iter(self, r, arr=False, n=None):
        cap = self.caps[r]
        n = cap if arr else (self.r.randint(0, cap + 2) if n is None else n)
        items = []
        s = Sim(cap)
        ok = True
        # repeats on purpose
        pool = [self.r.randint(1, self.ncls) for _ in range(max(1, n))]
        for i in range(n):
            c = self.r.choice(pool) if self.r.random() < 0.6 else self.r.randint(1, self.ncls)
            kid, vid, dat = self.fid(), self.fid(), self.r.randint(0, 9)
            items += [kid, c, vid, dat]
            if ok and not s.insert(kid, c, vid, dat):
                ok = False
        self.ops.append([62, r, 1 if arr else 0, n] + items)
        if ok:
            self.sim[r] = s

    def fmt(self, r, style=None):
        self.ensure_filled(r, p=0.7)
        self.ops.append([64 if r < 2 else 164, r, self.r.randint(0, 2) if style is None else style])

    def serde(self, r, r2):
        self.ops.append([66 if r < 2 else 166, r, r2])
        if len(self.sim[r].e) <= self.caps[r2]:
            self.sim[r2].e = list(self.sim[r].e)

    # -- set operations -----------------------------------------------------
    def s_ins(self, r, code=None, want_present=None):
        code = code or self.r.choice([110, 110, 111])
        c = self.cls_for(r, want_present)
        kid = self.fid()
        self.ops.append([code, r, kid, c])
        self.sim[r].insert(kid, c, 0, 0, upd=(code == 111))

    def s_lookup(self, r, code=None):
        code = code or self.r.choice([122, 123])
        self.ops.append([code, r] + self.query(r))

    def s_rem(self, r, code=None):
        code = code or self.r.choice([130, 131])
        q = self.query(r)
        self.ops.append([code, r] + q)
        self.sim[r].remove(q[-1])

    def s_retain(self, r):
        dflt = self.r.choice([0, 1, 1])
        tab = []
        for c in range(1, self.ncls + 1):
            if self.r.random() < 0.4:
                tab += [c, self.r.choice([0, 1])]
        self.ops.append([132, r, dflt, len(tab) // 2] + tab)
        t = dict(zip(tab[0::2], tab[1::2]))
        s = self.sim[r]
        for c in list(s.classes()):
            if t.get(c, dflt) == 0:
                s.remove(c)

    def s_clear(self, r):
        self.ops.append([133, r])
        self.sim[r].e = []

    def s_drain(self, r):
        self.ensure_filled(r)
        n = len(self.sim[r].e)
        fate = self.r.choice([0, 0, 0, 2, 2, 1, 3, 3])
        self.ops.append([134, r, self.r.randint(0, n + 2), fate])
        self.sim[r].e = []

    def s_extend(self, r, n=None):
        cap = self.caps[r]
        n = self.r.randint(0, 3) if n is None else n
        items = []
        for _ in range(n):
            c = self.cls_for(r)
            kid = self.fid()
            items += [kid, c]
            self.sim[r].insert(kid, c, 0, 0)
        self.ops.append([135, r, n] + items)

    def s_iter(self, r):
        self.ensure_filled(r)
        n = len(self.sim[r].e)
        self.ops.append([140, r, self.r.randint(0, n + 2)])

    def s_into(self, r):
        self.ensure_filled(r)
        n = len(self.sim[r].e)
        fate = self.r.choice([0, 0, 0, 2, 2, 1, 3, 3])
        self.ops.append([141, r, self.r.randint(0, n + 2), fate])
        self.sim[r].e = []

    def s_clone(self, r, r2):
        code = 160 if (self.r.random() < 0.6 or r == r2) else 167
        self.ops.append([code, r, r2])
        if self.caps[r] == self.caps[r2]:
            self.sim[r2].e = list(self.sim[r].e)

    def s_eq(self, r, r2):
        self.ops.append([161, r, r2])

    def s_from_iter(self, r, arr=False):
        cap = self.caps[r]
        n = cap if arr else self.r.randint(0, cap + 2)
        items = []
        s = Sim(cap)
        ok = True
        for _ in range(n):
            c = self.r.randint(1, self.ncls)
            kid = self.fid()
            items += [kid, c]
            if ok and not s.insert(kid, c, 0, 0):
                ok = False
        self.ops.append([162, r, 1 if arr else 0, n] + items)
        if ok:
            self.sim[r] = s

    def s_alg(self, kind=None, steps=None, mode=None, a=2, b=3):
        # randomly filled registers rarely overlap: most of the time make sure the operands are non-empty and share
        # an element, so that intersection / difference / symmetric difference have something to decide
        if a != b and self.r.random() < 0.7:
            self.ensure_filled(a, p=0.6)
            self.ensure_filled(b, p=0.6)
            sa, sb = self.sim[a], self.sim[b]
            if sa.e and not (set(sa.classes()) & set(sb.classes())) and not sb.full():
                c = self.r.choice(list(sa.classes()))
                kid = self.fid()
                self.ops.append([110, b, kid, c])
                sb.insert(kid, c, 0, 0)
        n = len(self.sim[a].e) + len(self.sim[b].e)
        kind = self.r.randint(0, 4) if kind is None else kind
        steps = self.r.randint(0, n + 1) if steps is None else steps
        mode = self.r.randint(0, 3) if mode is None else mode
        self.ops.append([170, kind, a, b, steps, mode])

    def s_pred(self, kind=None, a=2, b=3):
        self.ops.append([171, self.r.randint(0, 2) if kind is None else kind, a, b])

    def s_sub(self, a=2, b=3):
        self.ops.append([172, a, b])

    # -- assembling ---------------------------------------------------------
    def line(self, fk=0, fa=0):
        cfg = [self.adv, self.seed, fk, fa] + self.caps
        return " ; ".join(" ".join(str(t) for t in seg) for seg in [cfg] + self.ops)


def case_with_fault(line, fk, fa, keep_unsafe=False):
    """the same history with one injected panic.  The generator's lawful simulation no longer describes the
    containers once a call has been cut short by the injected panic, so it can no longer guarantee the
    contract of the unsafe fast paths: in fault variants they are replaced by their safe counterparts
    (insert_unchecked -> insert, get_disjoint_unchecked_mut -> get_disjoint_mut) -- unless the caller asks to keep
    them (the driver does, and then lets the MODEL decide whether the variant stays inside the contract: a variant
    on which the release-profile model reaches UB is outside it and is replaced by the safe rewriting)."""
    segs = line.split(" ; ")
    cfg = segs[0].split()
    cfg[2], cfg[3] = str(fk), str(fa)
    ops = []
    for seg in segs[1:]:
        t = seg.split()
        if keep_unsafe:
            pass
        elif t[0] == "13":
            t[0] = "10"
        elif t[0] == "51" and t[2] == "1":
            t[2] = "0"
        ops.append(" ".join(t))
    return " ; ".join([" ".join(cfg)] + ops)


def has_unsafe_ops(line):
    for seg in line.split(" ; ")[1:]:
        t = seg.split()
        if t[0] == "13" or (t[0] == "51" and t[2] == "1"):
            return True
    return False


# ---------------------------------------------------------------------------
# weighted random histories

MAP_CORE = ["ins", "ins", "ins", "lookup", "lookup", "rem", "retain", "clear", "drain"]


def rand_history(rng, n_ops, menu, caps=None, adv=0, seed=0, ncls=6, same_caps=False):
    """menu: list of (weight, callable(gen))"""
    if caps is None:
        caps = [rng.choice(CAPS) for _ in range(4)]
        if same_caps:
            caps[1] = caps[0]
            caps[3] = caps[2]
    g = Gen(rng, caps=caps, ncls=ncls, adv=adv, seed=seed)
    tot = sum(w for w, _ in menu)
    for _ in range(n_ops):
        x = rng.random() * tot
        for w, f in menu:
            x -= w
            if x <= 0:
                f(g)
                break
    return g


def m_reg(g):
    return g.r.randint(0, 1)


def s_reg(g):
    return g.r.randint(2, 3)


MENU_MAP_CORE = [
    (6, lambda g: g.ins(m_reg(g))),
    (4, lambda g: g.lookup(m_reg(g))),
    (3, lambda g: g.rem(m_reg(g))),
    (1, lambda g: g.retain(m_reg(g))),
    (0.4, lambda g: g.clear(m_reg(g))),
    (0.7, lambda g: g.drain(m_reg(g))),
]
MENU_MAP_ITER = [
    (1.5, lambda g: g.nth_sess(m_reg(g))),
    (3, lambda g: g.iter_sess(m_reg(g))),
    (1.5, lambda g: g.into_sess(m_reg(g))),
    (1, lambda g: g.drain(m_reg(g))),
]
MENU_MAP_ENTRY = [(4, lambda g: g.entry(m_reg(g)))]
MENU_MAP_DISJ = [(3, lambda g: g.disjoint(m_reg(g)))]
MENU_MAP_BULK = [
    (1, lambda g: g.clone(m_reg(g), m_reg(g))),
    (1, lambda g: g.eq(m_reg(g), m_reg(g))),
    (1, lambda g: g.from_iter(m_reg(g))),
    (0.5, lambda g: g.from_iter(m_reg(g), arr=True)),
    (0.3, lambda g: g.with_capacity(m_reg(g))),
    (0.2, lambda g: g.default(m_reg(g))),
]
MENU_MAP_FMT = [(1, lambda g: g.fmt(m_reg(g)))]
MENU_MAP_SERDE = [(1, lambda g: g.serde(m_reg(g), m_reg(g)))]
MENU_MAP_UNCHECKED = [
    (3, lambda g: g.ins(m_reg(g), code=13)),
    (2, lambda g: g.disjoint(m_reg(g), unchecked=True)),
]
MENU_SET_CORE = [
    (6, lambda g: g.s_ins(s_reg(g))),
    (4, lambda g: g.s_lookup(s_reg(g))),
    (3, lambda g: g.s_rem(s_reg(g))),
    (1, lambda g: g.s_retain(s_reg(g))),
    (0.4, lambda g: g.s_clear(s_reg(g))),
    (0.7, lambda g: g.s_drain(s_reg(g))),
    (1, lambda g: g.s_extend(s_reg(g))),
]
MENU_SET_ITER = [
    (1, lambda g: g.nth_sess(s_reg(g))),
    (2, lambda g: g.s_iter(s_reg(g))),
    (1, lambda g: g.s_into(s_reg(g))),
]
MENU_SET_BULK = [
    (1, lambda g: g.s_clone(s_reg(g), s_reg(g))),
    (1, lambda g: g.s_eq(s_reg(g), s_reg(g))),
    (1, lambda g: g.s_from_iter(s_reg(g))),
    (0.4, lambda g: g.s_from_iter(s_reg(g), arr=True)),
    (0.2, lambda g: g.default(s_reg(g))),
]
MENU_SET_ALG = [
    (4, lambda g: g.s_alg(a=2, b=3) if g.r.random() < 0.5 else g.s_alg(a=3, b=2)),
    (2, lambda g: g.s_pred(a=2, b=3) if g.r.random() < 0.5 else g.s_pred(a=3, b=2)),
    (1, lambda g: g.s_sub(a=2, b=3) if g.r.random() < 0.5 else g.s_sub(a=3, b=2)),
]
MENU_SET_FMT = [(1, lambda g: g.fmt(s_reg(g)))]
MENU_SET_SERDE = [(1, lambda g: g.serde(s_reg(g), s_reg(g)))]

MENU_ALL = (MENU_MAP_CORE + MENU_MAP_ITER + MENU_MAP_ENTRY + MENU_MAP_DISJ + MENU_MAP_BULK
            + MENU_MAP_FMT + MENU_MAP_SERDE + MENU_MAP_UNCHECKED + MENU_SET_CORE + MENU_SET_ITER
            + MENU_SET_BULK + MENU_SET_ALG + MENU_SET_FMT + MENU_SET_SERDE)
MENU_ALL_SAFE = (MENU_MAP_CORE + MENU_MAP_ITER + MENU_MAP_ENTRY + MENU_MAP_DISJ + MENU_MAP_BULK
                 + MENU_MAP_FMT + MENU_MAP_SERDE + MENU_SET_CORE + MENU_SET_ITER
                 + MENU_SET_BULK + MENU_SET_ALG + MENU_SET_FMT + MENU_SET_SERDE)


def scale(menu, k):
    return [(w * k, f) for w, f in menu]


# ---------------------------------------------------------------------------
# suites: property id -> list of case lines (base cases; faults are added by
# the driver for suites flagged fault=True)

def suite(prop, rng, tier):
    big = tier == "thorough"
    N = lambda q, t: t if big else q
    cases = []

    def rnd(menu, count, nops, **kw):
        for _ in range(count):
            cases.append(rand_history(rng, rng.randint(nops[0], nops[1]), menu, **kw).line())

    if prop == "C01":
        cases += exhaustive_map(3 if not big else 4)
        rnd(MENU_MAP_CORE, N(250, 4000), (8, 40))
        rnd(MENU_MAP_CORE, N(60, 600), (40, 90), ncls=9)
    elif prop == "C02":
        rnd(MENU_ALL, N(300, 5000), (10, 50))
        rnd(MENU_MAP_CORE + scale(MENU_MAP_ITER, 2), N(100, 1500), (10, 40))
        rnd(MENU_SET_CORE + scale(MENU_SET_ITER, 2), N(80, 1000), (10, 40))
    elif prop == "C03":
        cases += full_reject_cases(rng, N(1, 4))
        rnd(scale(MENU_MAP_CORE, 1) + MENU_MAP_ENTRY + MENU_MAP_BULK + MENU_SET_CORE + MENU_SET_BULK,
            N(150, 2500), (15, 50), ncls=10)
    elif prop == "C04":
        rnd(MENU_ALL, N(70, 700), (6, 18))
        cases += known_fault_bases()
        cases += consumer_fault_bases()
        cases += clone_fault_bases()
    elif prop == "C05":
        rnd(MENU_ALL, N(300, 5000), (10, 60))
    elif prop == "C06":
        rnd(MENU_ALL, N(300, 4000), (10, 50))
        # every element reference the set algebra hands out lies inside the set it promises (the receiver for
        # difference / intersection): overlapping operands, every adaptor, stepping and internal iteration
        cases += algebra_pairs(rng, big)[::2]
    elif prop == "C07":
        cases += exhaustive_set(3 if not big else 4)
        rnd(MENU_SET_CORE, N(250, 4000), (8, 40))
    elif prop == "C08":
        cases += algebra_pairs(rng, big)
        rnd(scale(MENU_SET_CORE, 0.5) + scale(MENU_SET_ALG, 2), N(100, 2000), (10, 40))
    elif prop == "C09":
        rnd(MENU_MAP_CORE + scale([(3, lambda g: g.iter_sess(m_reg(g)))], 2) + [(3, lambda g: g.nth_sess(m_reg(g), "iter"))]
            + MENU_SET_CORE + [(4, lambda g: g.s_iter(s_reg(g))), (2, lambda g: g.nth_sess(s_reg(g), "iter"))], N(300, 4000), (10, 40))
    elif prop == "C10":
        rnd(MENU_MAP_CORE + [(4, lambda g: g.into_sess(m_reg(g))), (4, lambda g: g.drain(m_reg(g))),
                             (2, lambda g: g.nth_sess(m_reg(g), "drain")), (2, lambda g: g.nth_sess(m_reg(g), "into"))]
            + MENU_SET_CORE + [(3, lambda g: g.s_into(s_reg(g))), (3, lambda g: g.s_drain(s_reg(g))),
                               (1.5, lambda g: g.nth_sess(s_reg(g), "drain")), (1.5, lambda g: g.nth_sess(s_reg(g), "into"))],
            N(300, 4000), (10, 40))
    elif prop == "C11":
        rnd(MENU_MAP_CORE + scale(MENU_MAP_ENTRY, 4), N(300, 5000), (10, 40))
    elif prop == "C12":
        rnd(MENU_MAP_CORE + scale(MENU_MAP_ENTRY, 1) + MENU_SET_CORE, N(200, 3000), (10, 40), ncls=3)
        # the bulk constructors follow the same stored-key rule (the first of equal keys is kept): few classes,
        # arrays and iterators with several groups of equal keys
        rnd([(2, lambda g: g.from_iter(m_reg(g))), (2, lambda g: g.from_iter(m_reg(g), arr=True)),
             (2, lambda g: g.s_from_iter(s_reg(g))), (3, lambda g: g.s_from_iter(s_reg(g), arr=True)),
             (2, lambda g: g.s_extend(s_reg(g))), (1, lambda g: g.lookup(m_reg(g), 22)), (1, lambda g: g.s_lookup(s_reg(g), 122))],
            N(120, 2000), (4, 12), ncls=3, caps=[4, 8, 4, 8])
        # larger containers: the stored-key rules must hold at every slot position
        rnd([(8, lambda g: g.ins(m_reg(g))), (2, lambda g: g.lookup(m_reg(g), 22)), (1, lambda g: g.rem(m_reg(g), 31)),
             (6, lambda g: g.s_ins(s_reg(g))), (1, lambda g: g.s_rem(s_reg(g), 131)), (1, lambda g: g.s_lookup(s_reg(g), 122)),
             (2, lambda g: g.entry(m_reg(g)))],
            N(150, 2500), (25, 60), ncls=9, caps=[8, 8, 8, 8])
    elif prop == "C13":
        rnd(MENU_MAP_CORE + scale(MENU_MAP_DISJ, 4), N(300, 5000), (8, 30))
        # "the mutable references it returns never alias one another" holds whatever == answers (non-transitive,
        # changing between calls): safe get_disjoint_mut under all four kinds of misbehaving ==
        menu_d = [(5, lambda g: g.ins(m_reg(g))), (6, lambda g: g.disjoint(m_reg(g), j=g.r.randint(2, 4))),
                  (1, lambda g: g.rem(m_reg(g))), (1, lambda g: g.lookup(m_reg(g)))]
        for _ in range(N(150, 2000)):
            cases.append(rand_history(rng, rng.randint(6, 24), menu_d, adv=1, seed=rng.getrandbits(48),
                                      ncls=rng.choice([2, 3, 6])).line())
    elif prop == "C14":
        cases += eq_pairs(rng, big)
        cases += eq_small_caps(rng, big)
        rnd(MENU_MAP_CORE + [(5, lambda g: g.eq(m_reg(g), m_reg(g)))] + MENU_SET_CORE
            + [(4, lambda g: g.s_eq(s_reg(g), s_reg(g)))], N(150, 3000), (10, 40), ncls=4)
    elif prop == "C15":
        cases += clone_fault_bases()
        rnd(MENU_MAP_CORE + [(4, lambda g: g.clone(m_reg(g), m_reg(g))), (2, lambda g: g.eq(0, 1))]
            + MENU_SET_CORE + [(3, lambda g: g.s_clone(s_reg(g), s_reg(g))), (1, lambda g: g.s_eq(2, 3))],
            N(300, 4000), (10, 40), same_caps=True)
    elif prop == "C16":
        rnd(scale(MENU_MAP_CORE, 0.5) + [(4, lambda g: g.from_iter(m_reg(g))), (2, lambda g: g.from_iter(m_reg(g), arr=True))]
            + scale(MENU_SET_CORE, 0.5) + [(3, lambda g: g.s_from_iter(s_reg(g))), (1.5, lambda g: g.s_from_iter(s_reg(g), arr=True)),
               (3, lambda g: g.s_extend(s_reg(g), n=g.r.randint(0, 6)))], N(300, 5000), (6, 25), ncls=5)
    elif prop == "C17":
        for i in range(N(350, 5000)):
            cases.append(rand_history(rng, rng.randint(8, 40), MENU_ALL_SAFE, adv=1, seed=rng.getrandbits(48)).line())
        # get_disjoint_mut is the one safe operation whose internal bookkeeping (a scratch stack of J hits) rests on a
        # counting argument about == : under every kind of misbehaving == (more stored keys matching one needle than
        # there are needles, needles matching several keys) it may panic or answer wrongly, never touch foreign memory
        menu_d = [(5, lambda g: g.ins(m_reg(g))), (6, lambda g: g.disjoint(m_reg(g), j=g.r.randint(2, 4))),
                  (1, lambda g: g.rem(m_reg(g))), (1, lambda g: g.lookup(m_reg(g)))]
        for i in range(N(150, 2000)):
            sd = rng.getrandbits(48)
            if i % 2:
                sd = sd - sd % 5 + 3          # every second one under the operand-determined asymmetric kind
            cases.append(rand_history(rng, rng.randint(6, 24), menu_d, adv=1, seed=sd, ncls=rng.choice([3, 6, 9])).line())
        # the entry API scans twice (entry(), then VacantEntry::insert): an == whose answers CHANGE BETWEEN CALLS
        # (alternating, lying now and then) can make the two scans disagree -- entry-heavy histories under those kinds
        menu_e = MENU_MAP_CORE + scale(MENU_MAP_ENTRY, 5)
        for i in range(N(200, 2500)):
            sd = rng.getrandbits(48)
            sd = sd - sd % 5 + (2 if i % 2 else 4)
            cases.append(rand_history(rng, rng.randint(8, 30), menu_e, adv=1, seed=sd, ncls=rng.choice([2, 3, 6])).line())
    elif prop == "C18":
        rnd(MENU_MAP_CORE + scale(MENU_MAP_UNCHECKED, 3), N(300, 5000), (10, 40))
        # insert_unchecked under a MISBEHAVING == (non-reflexive, always / never equal, alternating): its precondition
        # "the map is not full" does not depend on ==, so histories with fewer insertions than slots stay inside it
        # whatever == answers, and there it must behave exactly like insert (the model's any-environment theorems)
        menu_u = [(5, lambda g: g.ins(m_reg(g), code=13)), (2, lambda g: g.ins(m_reg(g), code=10)),
                  (3, lambda g: g.lookup(m_reg(g))), (2, lambda g: g.rem(m_reg(g)))]
        for _ in range(N(160, 2000)):
            cap = rng.choice([8, 8, 17])
            cases.append(rand_history(rng, rng.randint(3, cap - 1), menu_u, adv=1, seed=rng.getrandbits(48),
                                      caps=[cap] * 4, ncls=rng.choice([3, 6, 12])).line())
    elif prop == "C19":
        rnd(MENU_MAP_CORE + scale(MENU_MAP_FMT, 5) + scale(MENU_MAP_ITER, 1.5) + MENU_SET_CORE + scale(MENU_SET_FMT, 5)
            + scale([(1, lambda g: g.s_alg(a=2, b=3))], 3), N(300, 4000), (8, 30))
    elif prop == "C20":
        rnd(MENU_MAP_CORE + scale(MENU_MAP_SERDE, 6) + MENU_SET_CORE + scale(MENU_SET_SERDE, 6), N(250, 4000), (8, 30))
    else:
        raise SystemExit("unknown property " + prop)
    # large containers: more than 8 live elements, hits at slot positions >= 8, an odd capacity that is no power of
    # two (block-wise or masked code has a remainder there), pairs of registers of different capacity
    for caps in ([17, 17, 17, 17], [17, 8, 17, 4]):
        # (C04 enumerates EVERY fault position of every base history: a few shorter ones there)
        for _ in range(N(2, 12) if prop == "C04" else N(12, 150)):
            if prop == "C17":
                cases.append(rand_history(rng, rng.randint(40, 90), MENU_ALL_SAFE, adv=1, seed=rng.getrandbits(48),
                                          caps=list(caps), ncls=24).line())
            else:
                cases.append(rand_history(rng, rng.randint(25, 45) if prop == "C04" else rng.randint(40, 90), MENU_ALL,
                                          caps=list(caps), ncls=24).line())
    # the fifth kind of misbehaving == (seed mod 5 = 3) is determined by the OPERANDS (a == b iff class a <= class b:
    # asymmetric), not by a call counter: under it the order of the operands of every comparison the crate makes is
    # observable, and model and crate must agree on it -- a slice of such histories in every suite
    for _ in range(N(60, 800)):
        caps = None if rng.random() < 0.7 else [17, 8, 17, 4]
        cases.append(rand_history(rng, rng.randint(8, 36), MENU_ALL_SAFE, adv=1, seed=rng.getrandbits(40) * 5 + 3,
                                  caps=caps, ncls=(24 if caps else 6)).line())
    # ... the same kind on SMALL containers (full states, where the overflow / replace-on-full paths scan) and with the
    # property's own mix of operations
    own = {"C01": MENU_MAP_CORE, "C03": MENU_MAP_CORE + MENU_MAP_ENTRY + MENU_MAP_BULK + MENU_SET_CORE + MENU_SET_BULK,
           "C07": MENU_SET_CORE, "C08": scale(MENU_SET_CORE, 0.5) + scale(MENU_SET_ALG, 2),
           "C11": MENU_MAP_CORE + scale(MENU_MAP_ENTRY, 4), "C12": MENU_MAP_CORE + MENU_MAP_ENTRY + MENU_SET_CORE,
           "C13": MENU_MAP_CORE + scale(MENU_MAP_DISJ, 4), "C16": MENU_MAP_CORE + MENU_MAP_BULK + MENU_SET_CORE + MENU_SET_BULK,
           "C19": scale(MENU_MAP_CORE, 0.5) + scale(MENU_MAP_FMT, 2) + MENU_SET_CORE + scale(MENU_SET_FMT, 2) + scale(MENU_SET_ALG, 4),
           "C20": MENU_MAP_CORE + scale(MENU_MAP_SERDE, 4) + MENU_SET_CORE + scale(MENU_SET_SERDE, 4)}.get(prop, MENU_ALL_SAFE)
    for _ in range(N(200, 2000)):
        caps = rng.choice([[2, 2, 2, 2], [3, 3, 3, 3], [1, 2, 3, 4], [4, 3, 2, 1], [4, 4, 4, 4]])
        cases.append(rand_history(rng, rng.randint(8, 30), own, adv=1, seed=rng.getrandbits(40) * 5 + 3,
                                  caps=list(caps), ncls=rng.choice([4, 6, 9])).line())
    if prop not in ("C02", "C04", "C05", "C06"):
        # every suite also carries a slice of whole-API histories: the theorems of every property rest on the
        # same model, so a correspondence break anywhere concerns them all (those four suites draw from MENU_ALL already)
        rnd(MENU_ALL, N(80, 800), (10, 40))
    return cases


# ---------------------------------------------------------------------------
# enumerations

def exhaustive_map(depth):
    """all histories of length <= depth over a reduced alphabet on one map
    register, capacities 0..2; 2 classes x 2 identities"""
    import itertools
    cases = []
    alpha = []
    for c in (1, 2):
        alpha.append(("ins", 10, c))
        alpha.append(("ins", 11, c))
        alpha.append(("ins", 12, c))
        alpha.append(("get", 22, c))
        alpha.append(("rem", 31, c))
    alpha.append(("retain", 0, 0))
    alpha.append(("drain", 0, 0))
    for cap in (0, 1, 2):
        for d in range(1, depth + 1):
            for seq in itertools.product(alpha, repeat=d):
                nid = [10]

                def f():
                    nid[0] += 1
                    return nid[0]
                ops = []
                for kind, code, c in seq:
                    if kind == "ins":
                        ops.append([code, 0, f(), c, f(), len(ops)])
                    elif kind == "get":
                        ops.append([code, 0, 0, c])
                    elif kind == "rem":
                        ops.append([code, 0, 1, f(), c])
                    elif kind == "retain":
                        ops.append([32, 0, 1, 1, 1, 0])
                    else:
                        ops.append([34, 0, 1, 0])
                cfg = [0, 0, 0, 0, cap, 0, 0, 0]
                cases.append(" ; ".join(" ".join(map(str, s)) for s in [cfg] + ops))
    return cases


def exhaustive_set(depth):
    import itertools
    cases = []
    alpha = []
    for c in (1, 2):
        alpha += [("i", 110, c), ("i", 111, c), ("q", 122, c), ("q", 130, c), ("q", 131, c)]
    alpha.append(("retain", 0, 0))
    for cap in (0, 1, 2):
        for d in range(1, depth + 1):
            for seq in itertools.product(alpha, repeat=d):
                nid = [10]

                def f():
                    nid[0] += 1
                    return nid[0]
                ops = []
                for kind, code, c in seq:
                    if kind == "i":
                        ops.append([code, 2, f(), c])
                    elif kind == "q":
                        ops.append([code, 2, 0, c])
                    else:
                        ops.append([132, 2, 1, 1, 1, 0])
                cfg = [0, 0, 0, 0, 0, 0, cap, 0]
                cases.append(" ; ".join(" ".join(map(str, s)) for s in [cfg] + ops))
    return cases


def build_set_ops(r, order, detour, nid):
    """ops that build the set {order...} in that internal order; detour inserts
    and removes an extra element first so that the order arises by a second path"""
    ops = []
    if detour and order:
        nid[0] += 1
        ops.append([110, r, nid[0], 9])
    for c in order:
        nid[0] += 1
        ops.append([110, r, nid[0], c])
    if detour and order:
        ops.append([130, r, 0, 9])  # swap-remove moves the last element to slot 0
    return ops


def algebra_pairs(rng, big):
    """all ordered pairs of subsets of a 3-class (quick) / 4-class (thorough)
    universe, in all internal orders, over capacity pairs"""
    import itertools
    cases = []
    uni = [1, 2, 3, 4] if big else [1, 2, 3]
    subsets = []
    for k in range(len(uni) + 1):
        for comb in itertools.combinations(uni, k):
            for perm in itertools.permutations(comb):
                subsets.append(list(perm))
    cappairs = [(4, 4), (4, 8), (8, 4)] if big else [(4, 4)]
    for a in subsets:
        for b in subsets:
            for (ca, cb) in cappairs:
                nid = [10]
                detour = rng.random() < 0.3 and ca >= len(a) + 1
                ops = build_set_ops(2, a, detour, nid) + build_set_ops(3, b, False, nid)
                tot = len(a) + len(b)
                for kind in range(5):
                    ops.append([170, kind, 2, 3, rng.randint(0, tot + 1), rng.randint(0, 3)])
                for kind in range(3):
                    ops.append([171, kind, 2, 3])
                ops.append([172, 2, 3])
                cfg = [0, 0, 0, 0, 0, 0, ca, cb]
                cases.append(" ; ".join(" ".join(map(str, s)) for s in [cfg] + ops))
    if not big:
        rng.shuffle(cases)
        cases = cases[:220]
    return cases


def eq_pairs(rng, big):
    import itertools
    cases = []
    uni = [1, 2, 3]
    contents = []
    for k in range(len(uni) + 1):
        for comb in itertools.combinations(uni, k):
            for perm in itertools.permutations(comb):
                for dats in itertools.product((0, 1), repeat=k):
                    contents.append(list(zip(perm, dats)))
    pairs = [(a, b) for a in contents for b in contents]
    if not big:
        rng.shuffle(pairs)
        pairs = pairs[:250]
    for a, b in pairs:
        ca, cb = rng.choice([(3, 3), (3, 4), (4, 3), (8, 3)])
        nid = [10]
        ops = []
        for r, cont in ((0, a), (1, b)):
            for c, d in cont:
                nid[0] += 2
                ops.append([10, r, nid[0], c, nid[0] + 1, d])
        ops += [[61, 0, 1], [61, 1, 0], [61, 0, 0]]
        sops = []
        nid[0] += 2     # (the last value of the maps has identity nid + 1: identities are unique within a case)
        for r, cont in ((2, a), (3, b)):
            for c, d in cont:
                nid[0] += 1
                sops.append([110, r, nid[0], c])
        sops += [[161, 2, 3], [161, 3, 2], [161, 2, 2]]
        cfg = [0, 0, 0, 0, ca, cb, ca, cb]
        cases.append(" ; ".join(" ".join(map(str, s)) for s in [cfg] + ops + sops))
    return cases


def eq_small_caps(rng, big):
    """== between containers of SMALL and DIFFERENT capacities (0, 1, 2 against 0..3): every content that fits, both
    directions, maps and sets -- compile-time special cases on the capacity live here"""
    import itertools
    cases = []
    uni = [1, 2, 3]

    def contents(cap):
        out = []
        for k in range(min(cap, len(uni)) + 1):
            for comb in itertools.combinations(uni, k):
                for perm in itertools.permutations(comb):
                    for dats in itertools.product((0, 1), repeat=k):
                        out.append(list(zip(perm, dats)))
        return out
    for ca in (0, 1, 2):
        for cb in (0, 1, 2, 3):
            pairs = [(a, b) for a in contents(ca) for b in contents(cb)]
            if not big and len(pairs) > 40:
                rng.shuffle(pairs)
                pairs = pairs[:40]
            for a, b in pairs:
                nid = [10]
                ops = []
                for r, cont in ((0, a), (1, b)):
                    for c, d in cont:
                        nid[0] += 2
                        ops.append([10, r, nid[0], c, nid[0] + 1, d])
                ops += [[61, 0, 1], [61, 1, 0]]
                sops = []
                nid[0] += 2
                for r, cont in ((2, a), (3, b)):
                    for c, d in cont:
                        nid[0] += 1
                        sops.append([110, r, nid[0], c])
                sops += [[161, 2, 3], [161, 3, 2]]
                cfg = [0, 0, 0, 0, ca, cb, ca, cb]
                cases.append(" ; ".join(" ".join(map(str, s_)) for s_ in [cfg] + ops + sops))
    return cases


def full_reject_cases(rng, reps):
    """fill a container completely (by several routes), then push one more new
    key through every safe insertion entry point"""
    cases = []
    for _ in range(reps):
        for cap in CAPS:
            for entry_point in range(14):
                nid = [10]

                def f():
                    nid[0] += 1
                    return nid[0]
                mops, sops = [], []
                classes = list(range(1, cap + 1))
                rng.shuffle(classes)
                route = rng.randint(0, 2)
                if route == 0:
                    for c in classes:
                        mops.append([10, 0, f(), c, f(), c])
                        sops.append([110, 2, f(), c])
                elif route == 1:
                    items = []
                    for c in classes:
                        items += [f(), c, f(), c]
                    mops.append([62, 0, 1, cap] + items)
                    ks = []
                    for c in classes:
                        ks += [f(), c]
                    sops.append([162, 2, 1, cap] + ks)
                else:
                    for c in classes:
                        mops.append([50, 0, f(), c, 0, f(), c])
                        sops.append([111, 2, f(), c])
                    if cap > 0:  # remove and re-add one, so the full state has a history
                        mops.append([30, 0, 0, classes[0]])
                        mops.append([12, 0, f(), classes[0], f(), 7])
                        sops.append([130, 2, 0, classes[0]])
                        sops.append([110, 2, f(), classes[0]])
                new = cap + 1
                ep = entry_point
                if ep == 0:
                    mops.append([10, 0, f(), new, f(), 1])
                elif ep == 1:
                    mops.append([11, 0, f(), new, f(), 1])
                elif ep == 2:
                    mops.append([12, 0, f(), new, f(), 1])
                elif ep in (3, 4, 5, 6, 7):
                    mops.append([50, 0, f(), new, ep - 3, f(), 1])
                elif ep == 8:
                    mops.append([50, 0, f(), new, 8, f(), 1])
                elif ep == 9:
                    mops.append([50, 0, f(), new, 11, f(), 1])
                elif ep == 10:
                    items = []
                    for c in classes + [new]:
                        items += [f(), c, f(), c]
                    mops.append([62, 1, 0, cap + 1] + items)
                elif ep == 11:
                    sops.append([110, 2, f(), new])
                elif ep == 12:
                    sops.append([111, 2, f(), new])
                else:
                    sops.append([135, 2, 2, f(), classes[0] if classes else new, f(), new])
                    ks = []
                    for c in classes + [new]:
                        ks += [f(), c]
                    sops.append([162, 3, 0, cap + 1] + ks)
                # replacing a present key on the full container still works
                if cap > 0:
                    mops.append([10, 0, f(), classes[-1], f(), 8])
                    mops.append([12, 0, f(), classes[0], f(), 9])
                    mops.append([11, 0, f(), classes[0], f(), 9])
                    sops.append([110, 2, f(), classes[-1]])
                    sops.append([111, 2, f(), classes[0]])
                mops.append([35, 0, cap + 1])
                mops.append([35, 0, cap])
                cfg = [0, 0, 0, 0, cap, cap, cap, cap]
                cases.append(" ; ".join(" ".join(map(str, s)) for s in [cfg] + mops + sops))
    return cases


def known_fault_bases():
    """base histories behind findings F1-F3 (the fault positions are enumerated
    by the driver like for every other C04 base case)"""
    b = []
    b.append("0 0 0 0 3 3 2 2 ; 10 0 1 5 2 7 ; 10 0 3 6 4 8 ; 10 0 5 7 6 9 ; 33 0 ; 20 0 0 5")
    b.append("0 0 0 0 3 3 2 2 ; 10 0 1 5 2 7 ; 10 0 3 6 4 8 ; 10 0 5 7 6 9 ; 32 0 0 0 ; 20 0 0 5")
    b.append("0 0 0 0 3 3 2 2 ; 10 0 1 5 2 7 ; 10 0 3 6 4 8 ; 10 0 5 7 6 9 ; 60 0 1 ; 20 1 0 5")
    b.append("0 0 0 0 3 3 3 3 ; 110 2 1 5 ; 110 2 3 6 ; 110 2 5 7 ; 133 2 ; 160 2 3 ; 132 3 0 0")
    return b


def consumer_fault_bases():
    """a filled container handed to a consuming iterator or drain that is advanced 0..2 steps and
    then finished by internal iteration (for_each: fate 2), by dropping it (fate 0) or by forgetting
    it (fate 1): every closure / Drop fault position inside the consumer gets enumerated"""
    b = []
    fill_m = " ; ".join(f"10 0 {2 * i + 1} {5 + i} {2 * i + 2} {7 + i}" for i in range(4))
    fill_s = " ; ".join(f"110 2 {i + 1} {5 + i}" for i in range(4))
    for steps in (0, 1, 2):
        for fate in (2, 0, 3):
            for kind in (0, 1, 2):
                b.append(f"0 0 0 0 4 2 4 2 ; {fill_m} ; 41 0 {kind} {steps} {fate} ; 20 0 0 5 ; 10 0 20 5 21 7")
            b.append(f"0 0 0 0 4 2 4 2 ; {fill_m} ; 34 0 {steps} {fate} ; 20 0 0 5 ; 10 0 20 5 21 7")
            b.append(f"0 0 0 0 4 2 4 2 ; {fill_s} ; 141 2 {steps} {fate} ; 122 2 0 5 ; 110 2 20 5")
            b.append(f"0 0 0 0 4 2 4 2 ; {fill_s} ; 134 2 {steps} {fate} ; 122 2 0 5 ; 110 2 20 5")
    return b


def clone_fault_bases():
    """clone / clone_from between registers of equal capacity whose contents overlap in a different slot order
    (a key of the source sits at a LATER slot of the destination), then the destination is used: every Clone /
    Drop fault position inside the copy gets enumerated"""
    b = []
    for cf in (67, 60):
        # maps: source register 0 = classes [6, 5, 7], destination register 1 = [5, 6]
        b.append(f"0 0 0 0 3 3 3 3 ; 10 0 1 6 2 60 ; 10 0 3 5 4 50 ; 10 0 5 7 6 70 ; 10 1 7 5 8 51 ; 10 1 9 6 10 61 ; "
                 f"{cf} 0 1 ; 20 1 0 5 ; 31 1 0 6 ; 20 1 0 6 ; 10 1 20 8 21 80 ; 61 0 1")
        b.append(f"0 0 0 0 3 3 3 3 ; 10 0 1 6 2 60 ; 10 1 7 5 8 51 ; 10 1 9 6 10 61 ; 10 1 11 7 12 71 ; "
                 f"{cf} 0 1 ; 20 1 0 6 ; 31 1 0 6 ; 20 1 0 6 ; 61 0 1")
        c = cf + 100
        b.append(f"0 0 0 0 3 3 3 3 ; 110 2 1 6 ; 110 2 2 5 ; 110 2 3 7 ; 110 3 4 5 ; 110 3 5 6 ; "
                 f"{c} 2 3 ; 122 3 0 5 ; 131 3 0 6 ; 122 3 0 6 ; 110 3 20 8 ; 161 2 3")
        b.append(f"0 0 0 0 3 3 3 3 ; 110 2 1 6 ; 110 3 4 5 ; 110 3 5 6 ; 110 3 6 7 ; "
                 f"{c} 2 3 ; 122 3 0 6 ; 131 3 0 6 ; 161 2 3")
    return b


def panic_slice_bases():
    """states reached THROUGH A CAUGHT PANIC, then looked at by every kind of observer: the quantifier of every
    property ("every reachable state") includes them, and a suite of honest histories never visits them.  The driver
    enumerates every fault position (==, Clone, Drop of each object, closure / source) of these bases."""
    b = known_fault_bases() + clone_fault_bases() + consumer_fault_bases()[::3]
    fill_m = " ; ".join(f"10 0 {2 * i + 1} {5 + i} {2 * i + 2} {7 + i}" for i in range(4))       # classes 5..8
    fill_s = " ; ".join(f"110 2 {i + 1} {5 + i}" for i in range(4))
    tail_m = "40 0 0 9 100 ; 40 0 3 2 100 ; 20 0 0 5 ; 61 0 1 ; 64 0 0 ; 51 0 0 100 2 5 8 ; 10 0 40 5 41 3 ; 60 0 1"
    tail_s = "140 2 9 ; 122 2 0 5 ; 161 2 3 ; 164 2 0 ; 110 2 40 5 ; 170 0 2 3 9 0 ; 160 2 3"
    cfg = "0 0 0 0 8 8 8 8"
    mids = ["32 0 0 0", "32 0 1 2 6 0 7 0", "32 0 2 1 6 0", "33 0", "34 0 1 0", "34 0 2 2", "30 0 0 6", "31 0 0 5",
            "10 0 30 6 31 3", "11 0 30 6 31 3", "12 0 30 9 31 3", "62 0 0 4 30 9 31 1 32 6 33 2 34 9 35 3 36 5 37 4",
            "41 0 0 1 2", "43 0 1 1", "66 0 1",
            # From<[(K, V); N]> with repeated classes: every pair of the array -- stored, displaced or not yet reached
            # when a callback unwinds -- has exactly one owner
            "62 0 1 8 " + " ".join(f"{60 + 2 * i} {c} {61 + 2 * i} {i}" for i, c in enumerate([9, 9, 6, 5, 9, 3, 6, 4]))]
    mids += [f"50 0 30 9 {ch} 31 3" for ch in range(12)] + [f"50 0 30 6 {ch} 31 3" for ch in (0, 1, 5, 6, 7, 9, 10)]
    for m in mids:
        b.append(f"{cfg} ; {fill_m} ; {m} ; {tail_m}")
    sids = ["132 2 0 0", "132 2 1 2 6 0 7 0", "133 2", "134 2 1 0", "134 2 2 2", "130 2 0 6", "131 2 0 5", "110 2 30 6",
            "111 2 30 6", "135 2 4 30 9 31 6 32 9 33 5", "162 2 0 4 30 9 31 6 32 9 33 5", "141 2 1 2", "166 2 3", "172 2 3",
            "162 2 1 8 " + " ".join(f"{60 + i} {c}" for i, c in enumerate([9, 9, 6, 5, 9, 3, 6, 4]))]
    for m in sids:
        b.append(f"{cfg} ; {fill_s} ; 110 3 20 6 ; 110 3 21 9 ; {m} ; {tail_s}")
    return b


if __name__ == "__main__":
    import sys
    rng = random.Random(int(sys.argv[3]) if len(sys.argv) > 3 else 1)
    for l in suite(sys.argv[1], rng, sys.argv[2] if len(sys.argv) > 2 else "quick"):
        print(l)
