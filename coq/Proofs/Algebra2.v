(* Algebra2.v — rest of C08 under a lawful environment: Union,
   SymmetricDifference (fold = next, mathematical content, size_hint through
   core::iter::Chain) and the '-' operator (Sub). *)
Require Import Model.Base Model.Slots Model.MapOps Model.SetOps Proofs.Hoare Proofs.Inv Proofs.Safety Proofs.Safety2 Proofs.Safety3 Proofs.Spec Proofs.Lawful Proofs.Lawful2 Proofs.Lawful3 Proofs.Algebra.
From Coq Require Import Permutation.

(* ------------------------------------------------------------------ *)
(* pure list helpers                                                   *)
(* ------------------------------------------------------------------ *)
Section ListHelpers2.
Context {A : Type}.

Lemma NoDup_app_intro (l1 l2 : list A) :
  NoDup l1 -> NoDup l2 -> (forall x, In x l1 -> ~ In x l2) -> NoDup (l1 ++ l2).
Proof.
  induction l1 as [|x t IH]; intros H1 H2 Hd; cbn [app]; [exact H2|].
  inversion H1 as [|y l' Hn Ht]; subst. constructor.
  - intros Hin. apply in_app_or in Hin. destruct Hin as [Hin|Hin]; [exact (Hn Hin)|].
    exact (Hd x (or_introl eq_refl) Hin).
  - apply IH; [exact Ht | exact H2|]. intros z Hz. apply Hd. right. exact Hz.
Qed.

Lemma map_nth_error_seq (l : list A) :
  List.map (fun i => nth_error l i) (seq 0 (length l)) = List.map Some l.
Proof.
  induction l as [|x t IH]; [reflexivity|].
  cbn [length seq List.map nth_error]. f_equal.
  rewrite <- seq_shift, map_map. cbn [nth_error]. exact IH.
Qed.

End ListHelpers2.

(* ------------------------------------------------------------------ *)
Section Algebra2.
Context {K Q T : Type} (E : env K unit Q T) (debug : bool).
Context (ck : K -> N) (cq : Q -> N) (HL : Lawful E ck cq).
Notation M := (M K unit T). Notation world := (world K unit T). Notation smap := (map K unit). Notation kv := (K * unit)%type.

Notation cls := (fun p : kv => ck (fst p)).

(* the (side, slot) lists the two chained adaptors still have to yield *)
Definition union_items (a b : smap) (u : chain) : list (bool * nat) :=
  (match front u with
   | Some c => List.map (fun i => (true, i)) (seq (fst c) (cursor_len c))
   | None => []
   end)
  ++ List.map (fun i => (false, i)) (sel ck a b false (fst (back u)) (cursor_len (back u))).

Definition symdiff_items (a b : smap) (u : chain) : list (bool * nat) :=
  (match front u with
   | Some c => List.map (fun i => (false, i)) (sel ck a b false (fst c) (cursor_len c))
   | None => []
   end)
  ++ List.map (fun i => (true, i)) (sel ck b a false (fst (back u)) (cursor_len (back u))).

(* the chains the constructors return *)
Definition union_init (a b : smap) : chain := {| front := Some (0, len b); back := (0, len a) |}.
Definition symdiff_init (a b : smap) : chain := {| front := Some (0, len a); back := (0, len b) |}.

(* the pair an item designates: (false, i) = slot i of a, (true, i) = slot i of b *)
Definition item_pair (a b : smap) (x : bool * nat) : option kv :=
  nth_error (elems (if fst x then b else a)) (snd x).

(* ------------------------------------------------------------------ *)
(* constructors                                                        *)
(* ------------------------------------------------------------------ *)
Lemma difference_lawful (a : smap) (w : world) :
  WF a ->
  wp (difference a) (fun c w' => stable w w' /\ c = (0, len a)) (fun _ => False) w.
Proof. intros Ha. unfold difference. apply on_map_iter_lawful. exact Ha. Qed.

Lemma union_lawful (a b : smap) (w : world) :
  WF a -> WF b ->
  wp (union a b) (fun u w' => stable w w' /\ u = union_init a b /\ chain_ok (len b) (len a) u)
     (fun _ => False) w.
Proof.
  intros Ha Hb. unfold union. apply wp_bind.
  eapply wp_mono; [apply on_map_iter_lawful; exact Hb | | auto]; cbn beta.
  intros f w1 [Hst1 ->]. apply wp_bind.
  eapply wp_mono; [apply difference_lawful; exact Ha | | auto]; cbn beta.
  intros k w2 [Hst2 ->]. apply wp_ret. split; [eapply stable_trans; eauto|].
  split; [reflexivity|]. unfold chain_ok. cbn [front back fst snd]. lia.
Qed.

Lemma symdiff_lawful (a b : smap) (w : world) :
  WF a -> WF b ->
  wp (symdiff a b) (fun u w' => stable w w' /\ u = symdiff_init a b /\ chain_ok (len a) (len b) u)
     (fun _ => False) w.
Proof.
  intros Ha Hb. unfold symdiff. apply wp_bind.
  eapply wp_mono; [apply difference_lawful; exact Ha | | auto]; cbn beta.
  intros f w1 [Hst1 ->]. apply wp_bind.
  eapply wp_mono; [apply difference_lawful; exact Hb | | auto]; cbn beta.
  intros k w2 [Hst2 ->]. apply wp_ret. split; [eapply stable_trans; eauto|].
  split; [reflexivity|]. unfold chain_ok. cbn [front back fst snd]. lia.
Qed.

(* ------------------------------------------------------------------ *)
(* 1. Chain::fold                                                      *)
(* ------------------------------------------------------------------ *)
Lemma siter_fold_lawful (b : smap) n : forall lo acc (w : world),
  WF b -> lo + n <= len b ->
  wp (siter_fold b n lo acc)
     (fun r w' => stable w w' /\ r = acc ++ List.map (fun i => (true, i)) (seq lo n))
     (fun _ => False) w.
Proof.
  induction n as [|n IH]; intros lo acc w Hb Hn; cbn [siter_fold].
  - apply wp_ret. split; [apply stable_refl|]. cbn [seq List.map]. rewrite app_nil_r. reflexivity.
  - assert (Hlo : lo < len b) by lia.
    destruct (WF_live _ _ Hb Hlo) as [p Hp]. rewrite Hp.
    eapply wp_mono; [apply IH; [exact Hb | lia] | | auto]; cbn beta.
    intros r w' [Hst ->]. split; [exact Hst|].
    cbn [seq List.map]. rewrite <- app_assoc. reflexivity.
Qed.

Lemma diff_fold_lawful (x y : smap) (c : cursor) (w : world) :
  WF x -> WF y -> fst c <= snd c -> snd c <= len x ->
  wp (diff_fold E x y c [])
     (fun r w' => stable w w' /\ r = sel ck x y false (fst c) (cursor_len c))
     (fun _ => False) w.
Proof.
  intros Hx Hy H1 H2. unfold diff_fold.
  eapply wp_mono; [apply (filter_fold_lawful E ck cq HL); [exact Hx | exact Hy | unfold cursor_len; lia]
                  | | auto]; cbn beta.
  intros r w' [Hst ->]. split; [exact Hst | reflexivity].
Qed.

Lemma union_fold_lawful (a b : smap) (u : chain) (w : world) :
  WF a -> WF b -> chain_ok (len b) (len a) u ->
  wp (union_fold E a b u)
     (fun r w' => stable w w' /\
        r = (match front u with
             | Some c => List.map (fun i => (true, i)) (seq (fst c) (cursor_len c))
             | None => []
             end)
            ++ List.map (fun i => (false, i)) (sel ck a b false (fst (back u)) (cursor_len (back u))))
     (fun _ => False) w.
Proof.
  intros Ha Hb Hu. destruct u as [fr bk]. unfold chain_ok in Hu. cbn [front back] in Hu.
  destruct Hu as (Hf & Hk1 & Hk2). unfold union_fold. cbn [front back].
  assert (Htail : forall acc (w1 : world), stable w w1 ->
            wp (l <- diff_fold E a b bk [] ;; ret (acc ++ List.map (fun i => (false, i)) l))
               (fun r w' => stable w w' /\
                  r = acc ++ List.map (fun i => (false, i)) (sel ck a b false (fst bk) (cursor_len bk)))
               (fun _ => False) w1).
  { intros acc w1 Hst1. apply wp_bind.
    eapply wp_mono; [apply diff_fold_lawful; assumption | | auto]; cbn beta.
    intros l w2 [Hst2 ->]. apply wp_ret. split; [eapply stable_trans; eauto | reflexivity]. }
  apply wp_bind. destruct fr as [c|].
  - destruct Hf as [Hc1 Hc2].
    eapply wp_mono; [apply siter_fold_lawful; [exact Hb | unfold cursor_len; lia] | | auto]; cbn beta.
    intros acc w1 [Hst1 ->]. cbn [app]. apply Htail. exact Hst1.
  - apply wp_ret. apply Htail. apply stable_refl.
Qed.

Lemma symdiff_fold_lawful (a b : smap) (u : chain) (w : world) :
  WF a -> WF b -> chain_ok (len a) (len b) u ->
  wp (symdiff_fold E a b u)
     (fun r w' => stable w w' /\
        r = (match front u with
             | Some c => List.map (fun i => (false, i)) (sel ck a b false (fst c) (cursor_len c))
             | None => []
             end)
            ++ List.map (fun i => (true, i)) (sel ck b a false (fst (back u)) (cursor_len (back u))))
     (fun _ => False) w.
Proof.
  intros Ha Hb Hu. destruct u as [fr bk]. unfold chain_ok in Hu. cbn [front back] in Hu.
  destruct Hu as (Hf & Hk1 & Hk2). unfold symdiff_fold. cbn [front back].
  assert (Htail : forall l1 (w1 : world), stable w w1 ->
            wp (l2 <- diff_fold E b a bk [] ;;
                ret (List.map (fun i => (false, i)) l1 ++ List.map (fun i => (true, i)) l2))
               (fun r w' => stable w w' /\
                  r = List.map (fun i => (false, i)) l1
                      ++ List.map (fun i => (true, i)) (sel ck b a false (fst bk) (cursor_len bk)))
               (fun _ => False) w1).
  { intros l1 w1 Hst1. apply wp_bind.
    eapply wp_mono; [apply diff_fold_lawful; assumption | | auto]; cbn beta.
    intros l w2 [Hst2 ->]. apply wp_ret. split; [eapply stable_trans; eauto | reflexivity]. }
  apply wp_bind. destruct fr as [c|].
  - destruct Hf as [Hc1 Hc2].
    eapply wp_mono; [apply diff_fold_lawful; assumption | | auto]; cbn beta.
    intros l1 w1 [Hst1 ->]. apply Htail. exact Hst1.
  - apply wp_ret. apply (Htail [] w). apply stable_refl.
Qed.

(* ------------------------------------------------------------------ *)
(* 2. stepping = folding                                               *)
(* ------------------------------------------------------------------ *)

(* any iterator whose next() pops the head of a list of pending items *)
Lemma run_lawful {X St : Type} (next : St -> M (option X * St)) (run : nat -> St -> M (list X))
      (ok : St -> Prop) (items : St -> list X) :
  (forall f s, run (S f) s =
               (x <- next s ;;
                match fst x with
                | None => ret []
                | Some it => r <- run f (snd x) ;; ret (it :: r)
                end)) ->
  (forall s (w : world), ok s ->
     wp (next s)
        (fun x w' => stable w w' /\ ok (snd x) /\ fst x = hd_error (items s) /\
                     items (snd x) = tl (items s))
        (fun _ => False) w) ->
  forall f s (w : world), ok s -> length (items s) < f ->
    wp (run f s) (fun r w' => stable w w' /\ r = items s) (fun _ => False) w.
Proof.
  intros Hrun Hnext. induction f as [|f IH]; intros s w Hok Hf; [lia|].
  rewrite Hrun. apply wp_bind.
  eapply wp_mono; [apply Hnext; exact Hok | | auto]; cbn beta.
  intros x w1 (Hst & Hok1 & Hhd & Htl). rewrite Hhd.
  destruct (items s) as [|it rest] eqn:Hi; cbn [hd_error tl length] in *.
  - apply wp_ret. split; [exact Hst | reflexivity].
  - apply wp_bind.
    eapply wp_mono; [apply (IH (snd x) w1 Hok1); rewrite Htl; lia | | auto]; cbn beta.
    intros r w2 [Hst2 ->]. apply wp_ret. split; [eapply stable_trans; eauto|].
    rewrite Htl. reflexivity.
Qed.

Lemma siter_next_lawful (b : smap) (c : cursor) (w : world) :
  WF b -> fst c <= snd c -> snd c <= len b ->
  wp (siter_next b c)
     (fun r w' => stable w w' /\
                  r = if fst c <? snd c then (Some (fst c), (S (fst c), snd c)) else (None, c))
     (fun _ => False) w.
Proof.
  intros Hb H1 H2. unfold siter_next. apply wp_on_map_stable. intros w0 Hs.
  destruct c as [lo hi]. cbn [fst snd] in *. cbn [iter_next].
  destruct (Nat.ltb_spec lo hi) as [Hlt|Hge].
  - assert (Hlo : lo < len b) by lia.
    destruct (WF_live _ _ Hb Hlo) as [p Hp].
    apply wp_bind. eapply wp_p_ref; [rewrite Hs; exact Hp|].
    apply wp_ret. split; [apply stable_refl | reflexivity].
  - apply wp_ret. split; [apply stable_refl | reflexivity].
Qed.

(* the back half of a chain: a difference over [x] against [y], tagged by [g] *)
Lemma back_step_lawful {X} (x y : smap) (bk : cursor) (g : nat -> X) (w : world) :
  WF x -> WF y -> fst bk <= snd bk -> snd bk <= len x ->
  wp ('(r2, k') <- diff_next E x y bk ;; ret (option_map g r2, {| front := None; back := k' |}))
     (fun r w' => stable w w' /\
        front (snd r) = None /\
        fst (back (snd r)) <= snd (back (snd r)) /\ snd (back (snd r)) <= len x /\
        fst r = hd_error (List.map g (sel ck x y false (fst bk) (cursor_len bk))) /\
        List.map g (sel ck x y false (fst (back (snd r))) (cursor_len (back (snd r))))
        = tl (List.map g (sel ck x y false (fst bk) (cursor_len bk))))
     (fun _ => False) w.
Proof.
  intros Hx Hy H1 H2. apply wp_bind. unfold diff_next.
  assert (Hc : fst bk + cursor_len bk = snd bk) by (unfold cursor_len; lia).
  eapply wp_mono; [apply (filter_next_lawful E ck cq HL); [exact Hx | exact Hy | lia] | | auto];
    cbn beta.
  intros [r2 k'] w' (Hst & Hr1 & Hr2). cbn [fst snd] in Hr1, Hr2. subst r2 k'.
  apply wp_ret. cbn [fst snd front back]. split; [exact Hst|]. split; [reflexivity|].
  destruct (sel ck x y false (fst bk) (cursor_len bk)) as [|i rest] eqn:Hsel;
    cbn [hd_error List.map tl option_map fst snd].
  - split; [lia|]. split; [lia|]. split; [reflexivity|].
    unfold cursor_len. cbn [fst snd]. rewrite Nat.sub_diag. reflexivity.
  - destruct (sel_cons ck x y false _ _ _ _ Hsel) as [Hi Hrest].
    split; [lia|]. split; [lia|]. split; [reflexivity|].
    unfold cursor_len at 1. cbn [fst snd]. rewrite Hrest. reflexivity.
Qed.

Lemma union_next_lawful (a b : smap) (u : chain) (w : world) :
  WF a -> WF b -> chain_ok (len b) (len a) u ->
  wp (union_next E a b u)
     (fun x w' => stable w w' /\ chain_ok (len b) (len a) (snd x) /\
                  fst x = hd_error (union_items a b u) /\
                  union_items a b (snd x) = tl (union_items a b u))
     (fun _ => False) w.
Proof.
  intros Ha Hb Hu. destruct u as [fr bk]. unfold chain_ok in Hu. cbn [front back] in Hu.
  destruct Hu as (Hf & Hk1 & Hk2). unfold union_next. cbn [front back].
  assert (Hback : forall (w1 : world), stable w w1 ->
    wp ('(r2, k') <- diff_next E a b bk ;;
        ret (option_map (fun i => (false, i)) r2, {| front := None; back := k' |}))
       (fun x w' => stable w w' /\ chain_ok (len b) (len a) (snd x) /\
          fst x = hd_error (union_items a b {| front := None; back := bk |}) /\
          union_items a b (snd x) = tl (union_items a b {| front := None; back := bk |}))
       (fun _ => False) w1).
  { intros w1 Hst1.
    eapply wp_mono; [apply (back_step_lawful a b bk (fun i => (false, i)) w1); assumption | | auto];
      cbn beta.
    intros x w2 (Hst2 & Hfr & Hb1 & Hb2 & Hhd & Htl).
    split; [eapply stable_trans; eauto|].
    split; [unfold chain_ok; rewrite Hfr; auto|].
    unfold union_items. rewrite Hfr. cbn [front back app]. split; assumption. }
  destruct fr as [c|].
  - destruct Hf as [Hc1 Hc2]. apply wp_bind.
    eapply wp_mono; [apply siter_next_lawful; [exact Hb | exact Hc1 | exact Hc2] | | auto]; cbn beta.
    intros [r c'] w1 [Hst1 Hr].
    destruct (Nat.ltb_spec (fst c) (snd c)) as [Hlt|Hge]; injection Hr as -> ->.
    + apply wp_ret. cbn [fst snd]. split; [exact Hst1|].
      split; [unfold chain_ok; cbn [front back fst snd]; lia|].
      unfold union_items. cbn [front back].
      assert (Hcl : cursor_len c = S (cursor_len (S (fst c), snd c)))
        by (unfold cursor_len; cbn [fst snd]; lia).
      rewrite Hcl. cbn [seq List.map app hd_error tl fst]. split; reflexivity.
    + assert (Hcl : cursor_len c = 0) by (unfold cursor_len; lia).
      eapply wp_mono; [apply Hback; exact Hst1 | | auto]; cbn beta.
      intros x w2 (Hst2 & Hok & Hhd & Htl). split; [exact Hst2|]. split; [exact Hok|].
      unfold union_items in *. cbn [front back] in *. rewrite Hcl. cbn [seq List.map].
      split; assumption.
  - apply Hback. apply stable_refl.
Qed.

Lemma symdiff_next_lawful (a b : smap) (u : chain) (w : world) :
  WF a -> WF b -> chain_ok (len a) (len b) u ->
  wp (symdiff_next E a b u)
     (fun x w' => stable w w' /\ chain_ok (len a) (len b) (snd x) /\
                  fst x = hd_error (symdiff_items a b u) /\
                  symdiff_items a b (snd x) = tl (symdiff_items a b u))
     (fun _ => False) w.
Proof.
  intros Ha Hb Hu. destruct u as [fr bk]. unfold chain_ok in Hu. cbn [front back] in Hu.
  destruct Hu as (Hf & Hk1 & Hk2). unfold symdiff_next. cbn [front back].
  assert (Hback : forall (w1 : world), stable w w1 ->
    wp ('(r2, k') <- diff_next E b a bk ;;
        ret (option_map (fun i => (true, i)) r2, {| front := None; back := k' |}))
       (fun x w' => stable w w' /\ chain_ok (len a) (len b) (snd x) /\
          fst x = hd_error (symdiff_items a b {| front := None; back := bk |}) /\
          symdiff_items a b (snd x) = tl (symdiff_items a b {| front := None; back := bk |}))
       (fun _ => False) w1).
  { intros w1 Hst1.
    eapply wp_mono; [apply (back_step_lawful b a bk (fun i => (true, i)) w1); assumption | | auto];
      cbn beta.
    intros x w2 (Hst2 & Hfr & Hb1 & Hb2 & Hhd & Htl).
    split; [eapply stable_trans; eauto|].
    split; [unfold chain_ok; rewrite Hfr; auto|].
    unfold symdiff_items. rewrite Hfr. cbn [front back app]. split; assumption. }
  destruct fr as [c|].
  - destruct Hf as [Hc1 Hc2]. apply wp_bind. unfold diff_next at 1.
    assert (Hc : fst c + cursor_len c = snd c) by (unfold cursor_len; lia).
    eapply wp_mono; [apply (filter_next_lawful E ck cq HL); [exact Ha | exact Hb | lia] | | auto];
      cbn beta.
    intros [r c'] w1 (Hst1 & Hr1 & Hr2). cbn [fst snd] in Hr1, Hr2. subst r c'.
    destruct (sel ck a b false (fst c) (cursor_len c)) as [|i rest] eqn:Hsel; cbn [hd_error].
    + eapply wp_mono; [apply Hback; exact Hst1 | | auto]; cbn beta.
      intros x w2 (Hst2 & Hok & Hhd & Htl). split; [exact Hst2|]. split; [exact Hok|].
      unfold symdiff_items in *. cbn [front back] in *. rewrite Hsel. cbn [List.map].
      split; assumption.
    + destruct (sel_cons ck a b false _ _ _ _ Hsel) as [Hi Hrest].
      apply wp_ret. cbn [fst snd]. split; [exact Hst1|].
      split; [unfold chain_ok; cbn [front back fst snd]; lia|].
      unfold symdiff_items. cbn [front back]. rewrite Hsel.
      change (cursor_len (S i, fst c + cursor_len c)) with (fst c + cursor_len c - S i).
      cbn [fst snd]. rewrite <- Hrest.
      cbn [List.map app hd_error tl]. split; reflexivity.
  - apply Hback. apply stable_refl.
Qed.

Fixpoint union_run (a b : smap) (fuel : nat) (u : chain) : M (list (bool * nat)) :=
  match fuel with
  | 0 => ret []
  | S f => x <- union_next E a b u ;;
           match fst x with
           | None => ret []
           | Some it => r <- union_run a b f (snd x) ;; ret (it :: r)
           end
  end.

Fixpoint symdiff_run (a b : smap) (fuel : nat) (u : chain) : M (list (bool * nat)) :=
  match fuel with
  | 0 => ret []
  | S f => x <- symdiff_next E a b u ;;
           match fst x with
           | None => ret []
           | Some it => r <- symdiff_run a b f (snd x) ;; ret (it :: r)
           end
  end.

Lemma union_items_length (a b : smap) (u : chain) :
  length (union_items a b u)
  <= match front u with Some c => cursor_len c | None => 0 end + cursor_len (back u).
Proof.
  unfold union_items. rewrite app_length, map_length.
  pose proof (sel_length_le ck a b false (fst (back u)) (cursor_len (back u))).
  destruct (front u) as [c|]; [rewrite map_length, seq_length | cbn [length]]; lia.
Qed.

Lemma symdiff_items_length (a b : smap) (u : chain) :
  length (symdiff_items a b u)
  <= match front u with Some c => cursor_len c | None => 0 end + cursor_len (back u).
Proof.
  unfold symdiff_items. rewrite app_length, map_length.
  pose proof (sel_length_le ck b a false (fst (back u)) (cursor_len (back u))).
  destruct (front u) as [c|]; [rewrite map_length | cbn [length]]; [|lia].
  pose proof (sel_length_le ck a b false (fst c) (cursor_len c)). lia.
Qed.

(* any sufficient fuel *)
Lemma union_run_fuel (a b : smap) (fuel : nat) (u : chain) (w : world) :
  WF a -> WF b -> chain_ok (len b) (len a) u -> length (union_items a b u) < fuel ->
  wp (union_run a b fuel u) (fun r w' => stable w w' /\ r = union_items a b u) (fun _ => False) w.
Proof.
  intros Ha Hb Hu Hf.
  apply (run_lawful (union_next E a b) (union_run a b) (chain_ok (len b) (len a)) (union_items a b));
    [reflexivity | | exact Hu | exact Hf].
  intros s w0 Hs. apply union_next_lawful; assumption.
Qed.

Lemma symdiff_run_fuel (a b : smap) (fuel : nat) (u : chain) (w : world) :
  WF a -> WF b -> chain_ok (len a) (len b) u -> length (symdiff_items a b u) < fuel ->
  wp (symdiff_run a b fuel u) (fun r w' => stable w w' /\ r = symdiff_items a b u) (fun _ => False) w.
Proof.
  intros Ha Hb Hu Hf.
  apply (run_lawful (symdiff_next E a b) (symdiff_run a b) (chain_ok (len a) (len b)) (symdiff_items a b));
    [reflexivity | | exact Hu | exact Hf].
  intros s w0 Hs. apply symdiff_next_lawful; assumption.
Qed.

Lemma union_run_lawful (a b : smap) (u : chain) (w : world) :
  WF a -> WF b -> chain_ok (len b) (len a) u ->
  wp (union_run a b (S (S (match front u with Some c => cursor_len c | None => 0 end
                           + cursor_len (back u)))) u)
     (fun r w' => stable w w' /\
        r = (match front u with
             | Some c => List.map (fun i => (true, i)) (seq (fst c) (cursor_len c))
             | None => []
             end)
            ++ List.map (fun i => (false, i)) (sel ck a b false (fst (back u)) (cursor_len (back u))))
     (fun _ => False) w.
Proof.
  intros Ha Hb Hu. apply union_run_fuel; try assumption.
  pose proof (union_items_length a b u). lia.
Qed.

Lemma symdiff_run_lawful (a b : smap) (u : chain) (w : world) :
  WF a -> WF b -> chain_ok (len a) (len b) u ->
  wp (symdiff_run a b (S (S (match front u with Some c => cursor_len c | None => 0 end
                             + cursor_len (back u)))) u)
     (fun r w' => stable w w' /\
        r = (match front u with
             | Some c => List.map (fun i => (false, i)) (sel ck a b false (fst c) (cursor_len c))
             | None => []
             end)
            ++ List.map (fun i => (true, i)) (sel ck b a false (fst (back u)) (cursor_len (back u))))
     (fun _ => False) w.
Proof.
  intros Ha Hb Hu. apply symdiff_run_fuel; try assumption.
  pose proof (symdiff_items_length a b u). lia.
Qed.

(* stepping to exhaustion and folding give the same list *)
Lemma union_run_is_fold (a b : smap) (u : chain) (w1 w2 : world) :
  WF a -> WF b -> chain_ok (len b) (len a) u ->
  wp (union_run a b (S (S (match front u with Some c => cursor_len c | None => 0 end
                           + cursor_len (back u)))) u)
     (fun r _ => wp (union_fold E a b u) (fun r' _ => r' = r) (fun _ => False) w2)
     (fun _ => False) w1.
Proof.
  intros Ha Hb Hu.
  eapply wp_mono; [apply union_run_lawful; assumption | | auto]; cbn beta.
  intros r w' [_ ->].
  eapply wp_mono; [apply union_fold_lawful; assumption | | auto]; cbn beta.
  intros r' w'' [_ ->]. reflexivity.
Qed.

Lemma symdiff_run_is_fold (a b : smap) (u : chain) (w1 w2 : world) :
  WF a -> WF b -> chain_ok (len a) (len b) u ->
  wp (symdiff_run a b (S (S (match front u with Some c => cursor_len c | None => 0 end
                             + cursor_len (back u)))) u)
     (fun r _ => wp (symdiff_fold E a b u) (fun r' _ => r' = r) (fun _ => False) w2)
     (fun _ => False) w1.
Proof.
  intros Ha Hb Hu.
  eapply wp_mono; [apply symdiff_run_lawful; assumption | | auto]; cbn beta.
  intros r w' [_ ->].
  eapply wp_mono; [apply symdiff_fold_lawful; assumption | | auto]; cbn beta.
  intros r' w'' [_ ->]. reflexivity.
Qed.

(* ------------------------------------------------------------------ *)
(* 3. mathematical content                                             *)
(* ------------------------------------------------------------------ *)
Lemma filter_eqb_false_negb (b : smap) (l : list kv) :
  filter (fun p => Bool.eqb (mem ck b (fst p)) false) l = filter (fun p => negb (mem ck b (fst p))) l.
Proof. apply filter_ext. intros p. destruct (mem ck b (fst p)); reflexivity. Qed.

Lemma cls_in_filter (a b : smap) (c : N) :
  In c (List.map cls (filter (fun p => negb (mem ck b (fst p))) (elems a)))
  <-> In c (List.map cls (elems a)) /\ ~ In c (List.map cls (elems b)).
Proof.
  split.
  - intros Hin. apply in_map_iff in Hin. destruct Hin as [p [Hc Hp]].
    apply filter_In in Hp. destruct Hp as [Hp Hm].
    apply Bool.negb_true_iff in Hm. apply mem_false_iff in Hm. cbn beta in Hc. subst c.
    split; [apply in_map_iff; exists p; split; [reflexivity | exact Hp] | exact Hm].
  - intros [Hin Hn]. apply in_map_iff in Hin. destruct Hin as [p [Hc Hp]].
    apply in_map_iff. exists p. split; [exact Hc|].
    apply filter_In. split; [exact Hp|]. apply Bool.negb_true_iff. apply mem_false_iff.
    cbn beta in Hc. rewrite Hc. exact Hn.
Qed.

Lemma union_spec (a b : smap) :
  WF a -> WF b -> Uniq ck (elems a) -> Uniq ck (elems b) ->
  let res := elems b ++ filter (fun p => negb (mem ck b (fst p))) (elems a) in
  Uniq ck res /\
  (forall c, In c (List.map (fun p => ck (fst p)) res)
             <-> In c (List.map (fun p => ck (fst p)) (elems a))
                 \/ In c (List.map (fun p => ck (fst p)) (elems b))).
Proof.
  intros Ha Hb Hua Hub res. unfold res. split.
  - unfold Uniq. rewrite map_app. apply NoDup_app_intro.
    + exact Hub.
    + apply (Uniq_filter ck). exact Hua.
    + intros c Hc1 Hc2. apply cls_in_filter in Hc2. destruct Hc2 as [_ Hn]. exact (Hn Hc1).
  - intros c. rewrite map_app, in_app_iff, cls_in_filter. split.
    + intros [H|[H _]]; [right | left]; exact H.
    + intros [H|H]; [|left; exact H].
      destruct (in_dec N.eq_dec c (List.map cls (elems b))) as [Hin|Hnin]; [left; exact Hin|].
      right. split; assumption.
Qed.

Lemma union_elems (a b : smap) :
  WF a -> WF b ->
  List.map (item_pair a b) (union_items a b (union_init a b))
  = List.map Some (elems b ++ filter (fun p => negb (mem ck b (fst p))) (elems a)).
Proof.
  intros Ha Hb. unfold union_items, union_init, cursor_len. cbn [front back fst snd].
  rewrite !Nat.sub_0_r. rewrite !map_app, !map_map. unfold item_pair. cbn [fst snd]. f_equal.
  - rewrite <- (elems_length b Hb). apply map_nth_error_seq.
  - rewrite (sel_elems ck a b false Ha). rewrite filter_eqb_false_negb. reflexivity.
Qed.

Lemma symdiff_spec (a b : smap) :
  WF a -> WF b -> Uniq ck (elems a) -> Uniq ck (elems b) ->
  let res := filter (fun p => negb (mem ck b (fst p))) (elems a)
             ++ filter (fun p => negb (mem ck a (fst p))) (elems b) in
  Uniq ck res /\
  (forall c, In c (List.map (fun p => ck (fst p)) res)
             <-> (In c (List.map (fun p => ck (fst p)) (elems a))
                  /\ ~ In c (List.map (fun p => ck (fst p)) (elems b)))
                 \/ (In c (List.map (fun p => ck (fst p)) (elems b))
                     /\ ~ In c (List.map (fun p => ck (fst p)) (elems a)))).
Proof.
  intros Ha Hb Hua Hub res. unfold res. split.
  - unfold Uniq. rewrite map_app. apply NoDup_app_intro.
    + apply (Uniq_filter ck). exact Hua.
    + apply (Uniq_filter ck). exact Hub.
    + intros c Hc1 Hc2. apply cls_in_filter in Hc1. apply cls_in_filter in Hc2.
      destruct Hc1 as [Hin _]. destruct Hc2 as [_ Hn]. exact (Hn Hin).
  - intros c. rewrite map_app, in_app_iff, !cls_in_filter. reflexivity.
Qed.

Lemma symdiff_elems (a b : smap) :
  WF a -> WF b ->
  List.map (item_pair a b) (symdiff_items a b (symdiff_init a b))
  = List.map Some (filter (fun p => negb (mem ck b (fst p))) (elems a)
                   ++ filter (fun p => negb (mem ck a (fst p))) (elems b)).
Proof.
  intros Ha Hb. unfold symdiff_items, symdiff_init, cursor_len. cbn [front back fst snd].
  rewrite !Nat.sub_0_r. rewrite !map_app, !map_map. unfold item_pair. cbn [fst snd]. f_equal.
  - rewrite (sel_elems ck a b false Ha). rewrite filter_eqb_false_negb. reflexivity.
  - rewrite (sel_elems ck b a false Hb). rewrite filter_eqb_false_negb. reflexivity.
Qed.

(* ------------------------------------------------------------------ *)
(* 4. size_hint through Chain                                          *)
(* ------------------------------------------------------------------ *)
Lemma union_hint_brackets (a b : smap) (u : chain) :
  WF a -> WF b -> Uniq ck (elems a) -> Uniq ck (elems b) -> chain_ok (len b) (len a) u ->
  let n := length ((match front u with
                    | Some c => List.map (fun i => (true, i)) (seq (fst c) (cursor_len c))
                    | None => []
                    end)
                   ++ List.map (fun i => (false, i))
                        (sel ck a b false (fst (back u)) (cursor_len (back u)))) in
  fst (union_size_hint b u) <= n <= snd (union_size_hint b u).
Proof.
  intros Ha Hb Hua Hub Hu n. unfold n. clear n.
  destruct u as [fr bk]. unfold chain_ok in Hu. cbn [front back] in *.
  destruct Hu as (Hf & Hk1 & Hk2).
  pose proof (diff_hint_brackets ck a b bk Ha Hb Hua Hub Hk1 Hk2) as Hd.
  unfold union_size_hint. cbn [front back].
  destruct (diff_size_hint b bk) as [lo2 hi2]. cbn [fst snd] in Hd.
  rewrite app_length, map_length.
  destruct fr as [c|]; [rewrite map_length, seq_length | cbn [length]]; cbn [fst snd]; lia.
Qed.

Lemma symdiff_hint_brackets (a b : smap) (u : chain) :
  WF a -> WF b -> Uniq ck (elems a) -> Uniq ck (elems b) -> chain_ok (len a) (len b) u ->
  let n := length ((match front u with
                    | Some c => List.map (fun i => (false, i)) (sel ck a b false (fst c) (cursor_len c))
                    | None => []
                    end)
                   ++ List.map (fun i => (true, i))
                        (sel ck b a false (fst (back u)) (cursor_len (back u)))) in
  fst (symdiff_size_hint a b u) <= n <= snd (symdiff_size_hint a b u).
Proof.
  intros Ha Hb Hua Hub Hu n. unfold n. clear n.
  destruct u as [fr bk]. unfold chain_ok in Hu. cbn [front back] in *.
  destruct Hu as (Hf & Hk1 & Hk2).
  pose proof (diff_hint_brackets ck b a bk Hb Ha Hub Hua Hk1 Hk2) as Hd.
  unfold symdiff_size_hint. cbn [front back].
  destruct (diff_size_hint a bk) as [lo2 hi2]. cbn [fst snd] in Hd.
  rewrite app_length, map_length.
  destruct fr as [c|].
  - destruct Hf as [Hc1 Hc2].
    pose proof (diff_hint_brackets ck a b c Ha Hb Hua Hub Hc1 Hc2) as Hd1.
    destruct (diff_size_hint b c) as [lo1 hi1]. cbn [fst snd] in *.
    rewrite map_length. lia.
  - cbn [length fst snd]. lia.
Qed.

(* ------------------------------------------------------------------ *)
(* 5. the '-' operator                                                 *)
(* ------------------------------------------------------------------ *)
Lemma wp_finally_drop_nopanic {A} (c : M A) (Qn : A -> world -> Prop) (w : world) :
  wp c Qn (fun _ => False) w -> wp (finally_drop E c) Qn (fun _ => False) w.
Proof.
  unfold wp at 1 2, finally_drop. destruct (c w) as [x w'|w'|]; auto. intros [].
Qed.

Definition is_clone_k (e : event) : bool := match e with EvCloneK _ => true | _ => false end.

Lemma clone_events_all (xs : list N) :
  length (filter is_clone_k (List.map EvCloneK xs)) = length xs.
Proof.
  induction xs as [|x xs IHx]; [reflexivity|].
  cbn [List.map filter is_clone_k length]. rewrite IHx. reflexivity.
Qed.

Lemma clone_events_count (l : list kv) :
  length (filter is_clone_k (flat_map (fun p : kv => List.map EvCloneK (idK E (fst p))) l))
  = list_sum (List.map (fun p : kv => length (idK E (fst p))) l).
Proof.
  induction l as [|p t IH]; [reflexivity|].
  cbn [flat_map List.map list_sum]. rewrite filter_app, app_length, IH, clone_events_all.
  reflexivity.
Qed.

(* when every key carries exactly one ledger identity the count is the
   number of items *)
Lemma clone_events_count_single (l : list kv) :
  (forall k, length (idK E k) = 1) ->
  list_sum (List.map (fun p : kv => length (idK E (fst p))) l) = length l * 1.
Proof.
  intros H1. induction l as [|p t IH]; [reflexivity|].
  unfold list_sum in *. cbn [List.map fold_right length]. rewrite IH, H1. lia.
Qed.

Lemma sel_map_elems {X} (f : option kv -> X) (a b : smap) :
  WF a ->
  List.map (fun i => f (nth_error (elems a) i)) (sel ck a b false 0 (len a))
  = List.map (fun p => f (Some p)) (filter (fun p => negb (mem ck b (fst p))) (elems a)).
Proof.
  intros Ha.
  transitivity (List.map f (List.map (fun i => nth_error (elems a) i) (sel ck a b false 0 (len a)))).
  - symmetry. apply map_map.
  - rewrite (sel_elems ck a b false Ha), map_map, filter_eqb_false_negb. reflexivity.
Qed.

Definition cls_o (o : option kv) : N := match o with Some p => ck (fst p) | None => 0%N end.
Definition ev_o (o : option kv) : list event :=
  match o with Some p => List.map EvCloneK (idK E (fst p)) | None => [] end.

Section Sub.
Context (HCK : forall s k, exists k' s', cloneK E s k = (Some k', s') /\ ck k' = ck k).

Lemma clone_key_lawful (k : K) (w : world) :
  wp (clone_key E k)
     (fun k' w' => self w' = self w /\ ck k' = ck k /\
                   log w' = log w ++ List.map EvCloneK (idK E k))
     (fun _ => False) w.
Proof.
  unfold clone_key. apply wp_bind. apply wp_emit. apply wp_cbo_eq. simp_w.
  destruct (HCK (cb w) k) as (k' & s' & Hc & Hk). rewrite Hc. cbn [fst snd]. simp_w.
  split; [reflexivity|]. split; [exact Hk | reflexivity].
Qed.

(* inserting a key whose class is not yet present appends it *)
Lemma s_insert_fresh (k : K) (w : world) :
  WF (self w) -> ~ In (ck k) (List.map cls (elems (self w))) -> len (self w) < cap (self w) ->
  wp (s_insert E debug k)
     (fun _ w' => WF (self w') /\ cap (self w') = cap (self w) /\
                  elems (self w') = elems (self w) ++ [(k, tt)] /\ log w' = log w)
     (fun _ => False) w.
Proof.
  intros Hw Hfresh Hcap. unfold s_insert. apply wp_bind.
  assert (Hf : find_idx ck (ck k) (elems (self w)) = None).
  { destruct (find_idx ck (ck k) (elems (self w))) as [x|] eqn:Hf; [|reflexivity].
    exfalso. apply Hfresh. destruct (find_idx_inv ck _ _ _ Hf) as [[q [Hq Hc]] _].
    apply in_map_iff. exists q. split; [exact Hc | eapply nth_error_In; exact Hq]. }
  eapply wp_mono; [apply (insert_lawful E debug ck cq HL k tt w Hw) | |]; cbn beta.
  - intros r w' (Hw' & Hc' & He' & _ & Hlg). unfold l_insert in He', Hlg. rewrite Hf in He', Hlg.
    cbn [fst snd] in He', Hlg. apply wp_ret.
    split; [exact Hw'|]. split; [exact Hc'|]. split; [exact He'|].
    unfold logged in Hlg. rewrite Hlg. apply app_nil_r.
  - intros w' (_ & _ & Hfull). lia.
Qed.

Lemma sub_loop_lawful (a b : smap) :
  WF a -> WF b ->
  forall fuel (c : cursor) (w : world),
    WF (self w) -> fst c <= snd c -> snd c <= len a -> cursor_len c < fuel ->
    NoDup (List.map cls (elems (self w))
           ++ List.map (fun i => cls_o (nth_error (elems a) i))
                       (sel ck a b false (fst c) (cursor_len c))) ->
    len (self w) + length (sel ck a b false (fst c) (cursor_len c)) <= cap (self w) ->
    wp (sub_loop E debug a b fuel c)
       (fun _ w' => WF (self w') /\ cap (self w') = cap (self w) /\
          List.map cls (elems (self w'))
          = List.map cls (elems (self w))
            ++ List.map (fun i => cls_o (nth_error (elems a) i))
                        (sel ck a b false (fst c) (cursor_len c)) /\
          log w' = log w ++ flat_map (fun i => ev_o (nth_error (elems a) i))
                                     (sel ck a b false (fst c) (cursor_len c)))
       (fun _ => False) w.
Proof.
  intros Ha Hb. induction fuel as [|fuel IH]; intros c w Hw H1 H2 Hfu Hnd Hcap; [lia|].
  cbn [sub_loop]. apply wp_bind. unfold diff_next.
  assert (Hc : fst c + cursor_len c = snd c) by (unfold cursor_len; lia).
  eapply wp_mono; [apply (filter_next_lawful E ck cq HL); [exact Ha | exact Hb | lia] | | auto];
    cbn beta.
  intros [r c'] w1 ([Hs1 Hl1] & Hr1 & Hr2). cbn [fst snd] in Hr1, Hr2. subst r c'.
  destruct (sel ck a b false (fst c) (cursor_len c)) as [|i rest] eqn:Hsel; cbn [hd_error].
  - apply wp_ret. rewrite Hs1, Hl1. cbn [List.map flat_map]. rewrite !app_nil_r.
    split; [exact Hw|]. split; [reflexivity|]. split; reflexivity.
  - destruct (sel_cons ck a b false _ _ _ _ Hsel) as [Hi Hrest].
    assert (Hia : i < len a) by lia.
    destruct (WF_live _ _ Ha Hia) as [[k u] Hp]. rewrite Hp. cbn beta iota.
    assert (Hpe : nth_error (elems a) i = Some (k, u)) by (apply elems_nth; auto).
    cbn [List.map flat_map length] in *. rewrite Hpe in *. cbn [cls_o ev_o fst] in *.
    apply wp_bind. eapply wp_mono; [apply clone_key_lawful | | auto]; cbn beta.
    intros k' w2 (Hs2 & Hk' & Hl2).
    assert (Hs2' : self w2 = self w) by congruence.
    apply wp_bind.
    eapply wp_mono; [apply (s_insert_fresh k' w2) | | auto]; cbn beta.
    + rewrite Hs2'. exact Hw.
    + rewrite Hs2', Hk'. apply NoDup_remove_2 in Hnd. intros Hin. apply Hnd.
      apply in_or_app. left. exact Hin.
    + rewrite Hs2'. lia.
    + intros _ w3 (Hw3 & Hc3 & He3 & Hl3). rewrite Hs2' in *.
      assert (Hlen3 : len (self w3) = S (len (self w))).
      { rewrite <- (elems_length _ Hw3), He3, app_length, (elems_length _ Hw). cbn [length]. lia. }
      assert (Hcl3 : List.map cls (elems (self w3)) = List.map cls (elems (self w)) ++ [ck k]).
      { rewrite He3, map_app. cbn [List.map fst]. rewrite Hk'. reflexivity. }
      assert (Hrest' : sel ck a b false (fst (S i, fst c + cursor_len c))
                           (cursor_len (S i, fst c + cursor_len c)) = rest)
        by (symmetry; exact Hrest).
      eapply wp_mono; [apply (IH (S i, fst c + cursor_len c) w3 Hw3) | | auto];
        rewrite ?Hrest'.
      * cbn [fst snd]. lia.
      * cbn [fst snd]. lia.
      * unfold cursor_len in *. cbn [fst snd]. lia.
      * rewrite Hcl3, <- app_assoc. exact Hnd.
      * lia.
      * cbn beta.
        intros _ w4 (Hw4 & Hc4 & Hcl4 & Hl4).
        split; [exact Hw4|]. split; [congruence|].
        split; [rewrite Hcl4, Hcl3, <- app_assoc; reflexivity|].
        rewrite Hl4, Hl3, Hl2, Hl1, <- app_assoc. reflexivity.
Qed.

(* TRUE formulation of the clone count: one EvCloneK per ledger identity of
   every element of the difference (idK may carry any number of identities
   per key).  The exact event list is given as well. *)
Lemma set_sub_lawful (a b : smap) (w : world) :
  WF a -> WF b -> Uniq ck (elems a) -> WF (self w) -> len (self w) = 0 -> cap (self w) = cap a ->
  wp (set_sub E debug a b)
     (fun _ w' =>
        WF (self w') /\ cap (self w') = cap a /\
        List.map (fun p => ck (fst p)) (elems (self w'))
        = List.map (fun p => ck (fst p)) (filter (fun p => negb (mem ck b (fst p))) (elems a)) /\
        exists evs, log w' = log w ++ evs /\
          evs = flat_map (fun p : kv => List.map EvCloneK (idK E (fst p)))
                         (filter (fun p => negb (mem ck b (fst p))) (elems a)) /\
          length (filter (fun e => match e with EvCloneK _ => true | _ => false end) evs)
          = list_sum (List.map (fun p : kv => length (idK E (fst p)))
                               (filter (fun p => negb (mem ck b (fst p))) (elems a))))
     (fun _ => False) w.
Proof.
  intros Ha Hb Hua Hw Hlen Hcap. unfold set_sub. apply wp_finally_drop_nopanic. apply wp_bind.
  eapply wp_mono; [apply difference_lawful; exact Ha | | auto]; cbn beta.
  intros c w1 [[Hs1 Hl1] ->].
  assert (Hnil : elems (self w) = []) by (unfold elems; rewrite Hlen; reflexivity).
  assert (Hcl : cursor_len (0, len a) = len a) by (unfold cursor_len; cbn [fst snd]; lia).
  pose proof (sel_map_elems cls_o a b Ha) as Hm1.
  pose proof (sel_map_elems ev_o a b Ha) as Hm2.
  eapply wp_mono; [apply (sub_loop_lawful a b Ha Hb (S (cursor_len (0, len a))) (0, len a) w1) | | auto];
    cbn [fst snd]; rewrite ?Hcl, ?Hs1; try lia; try exact Hw.
  - rewrite Hnil. cbn [List.map app]. rewrite Hm1. cbn [cls_o]. apply (Uniq_filter ck). exact Hua.
  - pose proof (sel_length_le ck a b false 0 (len a)). pose proof (WF_len_le_cap a Ha). lia.
  - cbn beta. intros _ w2 (Hw2 & Hc2 & Hcl2 & Hl2).
    split; [exact Hw2|]. split; [congruence|].
    split; [rewrite Hcl2, Hnil, Hm1; reflexivity|].
    eexists. split; [rewrite Hl2, Hl1; reflexivity|].
    rewrite flat_map_concat_map, Hm2, <- flat_map_concat_map. cbn [ev_o].
    split; [reflexivity|]. apply clone_events_count.
Qed.

(* the formulation with "* 1" holds when every key carries one identity *)
Lemma set_sub_lawful_single_id (a b : smap) (w : world) :
  (forall k, length (idK E k) = 1) ->
  WF a -> WF b -> Uniq ck (elems a) -> WF (self w) -> len (self w) = 0 -> cap (self w) = cap a ->
  wp (set_sub E debug a b)
     (fun _ w' =>
        WF (self w') /\ cap (self w') = cap a /\
        List.map (fun p => ck (fst p)) (elems (self w'))
        = List.map (fun p => ck (fst p)) (filter (fun p => negb (mem ck b (fst p))) (elems a)) /\
        exists evs, log w' = log w ++ evs /\
          length (filter (fun e => match e with EvCloneK _ => true | _ => false end) evs)
          = length (filter (fun p => negb (mem ck b (fst p))) (elems a)) * 1)
     (fun _ => False) w.
Proof.
  intros Hid Ha Hb Hua Hw Hlen Hcap.
  eapply wp_mono; [apply set_sub_lawful; assumption | | auto]; cbn beta.
  intros _ w' (Hw' & Hc' & Hcl & evs & Hlg & _ & Hcnt).
  split; [exact Hw'|]. split; [exact Hc'|]. split; [exact Hcl|].
  exists evs. split; [exact Hlg|]. rewrite Hcnt. apply clone_events_count_single. exact Hid.
Qed.

End Sub.

End Algebra2.
