(* PureEqHist.v — HISTORIES under an arbitrary operand-determined ==.
   Whatever relation R the user's == answers (Related E ck cq R; R need not be an
   equivalence), a whole history of Map operations is a deterministic function of
   a pure LIST machine on the live prefix: slot order matters (the first related
   stored key wins), removal is swap-remove, insertion into a full map with no
   related key panics and leaves the list alone. *)
Require Import Model.Base Model.Slots Model.MapOps Model.EntryOps Model.Exec.
Require Import Proofs.Hoare Proofs.Inv Proofs.Safety Proofs.Safety2 Proofs.Safety3
               Proofs.Spec Proofs.Lawful Proofs.Lawful2 Proofs.Lawful3 Proofs.PureEq.

Section PureEqHist.
Context {K V Q T : Type} (E : env K V Q T) (debug : bool) (ck : K -> N) (cq : Q -> N)
        (R : N -> N -> bool) (HR : Related E ck cq R).
Notation M := (M K V T).
Notation world := (world K V T).
Notation map := (map K V).
Notation kv := (K * V)%type.

Inductive rop :=
  RInsert (k : K) (v : V) | RInsertKV (k : K) (v : V) | RGet (q : Q) | RContains (q : Q)
| RRemove (q : Q) | RRemoveEntry (q : Q).
Inductive rres :=
  ONone | OVal (v : V) | OPair (p : K * V) | OSlot (i : option nat) | OBool (b : bool) | OPanic.

Definition oval (r : option V) : rres := match r with None => ONone | Some v0 => OVal v0 end.
Definition opair (r : option kv) : rres := match r with None => ONone | Some p => OPair p end.

(* insertion of a key of class c panics: no related stored key and no room *)
Definition ins_full (cap : nat) (c : N) (l : list kv) : bool :=
  match find_rel ck R c l with Some _ => false | None => cap <=? length l end.

Definition rstep (cap : nat) (o : rop) (l : list kv) : rres * list kv :=
  match o with
  | RInsert k v =>
      if ins_full cap (ck k) l then (OPanic, l)
      else (oval (option_map snd (snd (l_insert_rel ck R l k v false))),
            fst (fst (l_insert_rel ck R l k v false)))
  | RInsertKV k v =>
      if ins_full cap (ck k) l then (OPanic, l)
      else (opair (snd (l_insert_rel ck R l k v true)),
            fst (fst (l_insert_rel ck R l k v true)))
  | RGet q => (OSlot (find_rel ck R (cq q) l), l)
  | RContains q => (OBool (match find_rel ck R (cq q) l with Some _ => true | None => false end), l)
  | RRemove q => (oval (option_map snd (snd (l_remove_rel ck R l (cq q)))), fst (l_remove_rel ck R l (cq q)))
  | RRemoveEntry q => (opair (snd (l_remove_rel ck R l (cq q))), fst (l_remove_rel ck R l (cq q)))
  end.

Definition mop (o : rop) : M rres :=
  match o with
  | RInsert k v => r <- insert E debug k v ;; ret (oval r)
  | RInsertKV k v => r <- insert_key_value E debug k v ;; ret (opair r)
  | RGet q => r <- get E q ;; ret (OSlot r)
  | RContains q => b <- contains_key E q ;; ret (OBool b)
  | RRemove q => r <- remove E debug q ;; ret (oval r)
  | RRemoveEntry q => r <- remove_entry E debug q ;; ret (opair r)
  end.

(* results of running ops in sequence; a panic is recorded and the run continues
   on the world left by unwinding; UB is recorded as nothing more *)
Fixpoint mrun_r (ops : list rop) (w : world) : list rres :=
  match ops with
  | [] => []
  | o :: t => match mop o w with
              | Ok r w' => r :: mrun_r t w'
              | Panic w' => OPanic :: mrun_r t w'
              | UB => []
              end
  end.

Fixpoint lrun_r (cap : nat) (ops : list rop) (l : list kv) : list rres :=
  match ops with
  | [] => []
  | o :: t => let '(r, l') := rstep cap o l in r :: lrun_r cap t l'
  end.

(* a successful insertion proves there was room *)
Lemma ins_room (m m' : map) k v u :
  WF m -> WF m' -> cap m' = cap m ->
  elems m' = fst (fst (l_insert_rel ck R (elems m) k v u)) ->
  ins_full (cap m) (ck k) (elems m) = false.
Proof.
  intros Hw Hw' Hc He. unfold ins_full. unfold l_insert_rel in He.
  destruct (find_rel ck R (ck k) (elems m)) as [i|]; [reflexivity|].
  cbn [fst] in He. apply Nat.leb_gt.
  pose proof (WF_len_le_cap _ Hw') as Hle.
  pose proof (elems_length _ Hw') as Hl'. rewrite He, app_length in Hl'. cbn [length] in Hl'.
  lia.
Qed.

Lemma ins_full_panic (m : map) k :
  WF m -> find_rel ck R (ck k) (elems m) = None -> len m = cap m ->
  ins_full (cap m) (ck k) (elems m) = true.
Proof.
  intros Hw Hf Hl. unfold ins_full. rewrite Hf, (elems_length _ Hw), Hl. apply Nat.leb_refl.
Qed.

(* ---- 1. every operation computes rstep on the live prefix ---- *)
Lemma mop_refines o (w : world) :
  WF (self w) ->
  wp (mop o)
     (fun r w' => WF (self w') /\ cap (self w') = cap (self w) /\
                  (r, elems (self w')) = rstep (cap (self w)) o (elems (self w)))
     (fun w' => WF (self w') /\ cap (self w') = cap (self w) /\
                (OPanic, elems (self w')) = rstep (cap (self w)) o (elems (self w))) w.
Proof.
  intros Hw. destruct o as [k v|k v|q|q|q|q]; cbn [mop rstep]; apply wp_bind.
  - eapply wp_mono; [apply (insert_rel E debug ck cq R HR k v w Hw) | | ]; cbn beta.
    + intros r w' (Hw' & Hc' & He & Hr & _). apply wp_ret.
      split; [exact Hw'|]. split; [exact Hc'|].
      rewrite (ins_room (self w) (self w') k v false Hw Hw' Hc' He), He, Hr. reflexivity.
    + intros w' (Hs & _ & Hf & Hlen). rewrite Hs.
      split; [exact Hw|]. split; [reflexivity|].
      rewrite (ins_full_panic (self w) k Hw Hf Hlen). reflexivity.
  - eapply wp_mono; [apply (insert_key_value_rel E debug ck cq R HR k v w Hw) | | ]; cbn beta.
    + intros r w' (Hw' & Hc' & _ & He & Hr). apply wp_ret.
      split; [exact Hw'|]. split; [exact Hc'|].
      rewrite (ins_room (self w) (self w') k v true Hw Hw' Hc' He), He, Hr. reflexivity.
    + intros w' (Hs & _ & Hf & Hlen). rewrite Hs.
      split; [exact Hw|]. split; [reflexivity|].
      rewrite (ins_full_panic (self w) k Hw Hf Hlen). reflexivity.
  - eapply wp_mono; [apply (get_rel E ck cq R HR q w Hw) | | intros ? []]; cbn beta.
    intros r w' [[Hs _] ->]. apply wp_ret. rewrite Hs.
    split; [exact Hw|]. split; reflexivity.
  - eapply wp_mono; [apply (contains_key_rel E ck cq R HR q w Hw) | | intros ? []]; cbn beta.
    intros r w' [[Hs _] ->]. apply wp_ret. rewrite Hs.
    split; [exact Hw|]. split; reflexivity.
  - eapply wp_mono; [apply (remove_rel E debug ck cq R HR q w Hw) | | intros ? []]; cbn beta.
    intros r w' (Hw' & Hc' & He & Hr & _). apply wp_ret.
    split; [exact Hw'|]. split; [exact Hc'|]. rewrite He, Hr. reflexivity.
  - eapply wp_mono; [apply (remove_entry_rel E debug ck cq R HR q w Hw) | | intros ? []]; cbn beta.
    intros r w' (Hw' & Hc' & _ & He & Hr). apply wp_ret.
    split; [exact Hw'|]. split; [exact Hc'|]. rewrite He, Hr. reflexivity.
Qed.

(* the same without wp: never UB; the outcome is the list machine's *)
Theorem mop_step o (w : world) :
  WF (self w) ->
  match mop o w with
  | Ok r w' => WF (self w') /\ cap (self w') = cap (self w) /\
               (r, elems (self w')) = rstep (cap (self w)) o (elems (self w))
  | Panic w' => WF (self w') /\ cap (self w') = cap (self w) /\
                (OPanic, elems (self w')) = rstep (cap (self w)) o (elems (self w))
  | UB => False
  end.
Proof. intros Hw. exact (mop_refines o w Hw). Qed.

(* ---- 2. THE HISTORY THEOREM ---- *)
Theorem run_refines_rel ops (w : world) :
  WF (self w) -> mrun_r ops w = lrun_r (cap (self w)) ops (elems (self w)).
Proof.
  revert w; induction ops as [|o t IH]; intros w Hw; [reflexivity|].
  cbn [mrun_r lrun_r]. pose proof (mop_step o w Hw) as Hs.
  destruct (rstep (cap (self w)) o (elems (self w))) as [r' l'] eqn:Hd.
  destruct (mop o w) as [r w'|w'|].
  - destruct Hs as (Hw' & Hc' & He). injection He as <- <-.
    f_equal. rewrite <- Hc'. apply IH. exact Hw'.
  - destruct Hs as (Hw' & Hc' & He). injection He as <- <-.
    f_equal. rewrite <- Hc'. apply IH. exact Hw'.
  - destruct Hs.
Qed.

(* a history from the empty map of capacity n *)
Theorem run_refines_rel_new n ops s lg :
  mrun_r ops {| cb := s; log := lg; self := new_map n |} = lrun_r n ops [].
Proof.
  pose proof (run_refines_rel ops {| cb := s; log := lg; self := @new_map K V n |}) as H.
  cbn [self] in H. rewrite cap_new in H. apply H. apply WF_new.
Qed.

End PureEqHist.

(* ======================================================================== *)
(* 3. NON-VACUITY. *)
Section Instance.

Definition idN (n : N) : N := n.

(* R = "stored <= needle": insert 5, insert 3, get 4 finds slot 1 ... *)
Example hist_leb :
  @lrun_r N N N idN idN N.leb 4 [RInsert 5%N 10%N; RInsert 3%N 20%N; RGet 4%N] []
  = [ONone; ONone; OSlot (Some 1)].
Proof. vm_compute. reflexivity. Qed.

(* ... where equality finds nothing *)
Example hist_eqb :
  @lrun_r N N N idN idN N.eqb 4 [RInsert 5%N 10%N; RInsert 3%N 20%N; RGet 4%N] []
  = [ONone; ONone; OSlot None].
Proof. vm_compute. reflexivity. Qed.

Example hist_leb_differs :
  @lrun_r N N N idN idN N.leb 4 [RInsert 5%N 10%N; RInsert 3%N 20%N; RGet 4%N] [] <>
  @lrun_r N N N idN idN N.eqb 4 [RInsert 5%N 10%N; RInsert 3%N 20%N; RGet 4%N] [].
Proof. vm_compute. discriminate. Qed.

(* slot order matters, first related key wins, the stored key is kept, removal is
   swap-remove, and a full map panics only when no stored key is related *)
Example hist_leb_long :
  @lrun_r N N N idN idN N.leb 2
    [RInsert 5%N 10%N; RInsert 3%N 20%N; RInsert 1%N 30%N; RInsert 7%N 40%N;
     RContains 4%N; RRemoveEntry 9%N; RGet 9%N; RRemove 0%N] []
  = [ONone; ONone; OPanic; OVal 10%N; OBool true; OPair (5%N, 40%N); OSlot (Some 0); ONone].
Proof. vm_compute. reflexivity. Qed.

(* the history theorem at the interpreter's asymmetric == *)
Theorem run_refines_asym sc debug ops (w : world key vobj cstate) :
  asym sc = true -> sc_fk sc = 0%N -> WF (self w) ->
  mrun_r (env_map sc) debug ops w = lrun_r kcls qcls N.leb (cap (self w)) ops (elems (self w)).
Proof.
  intros Has Hf Hw.
  exact (run_refines_rel (env_map sc) debug kcls qcls N.leb (env_map_related sc Has Hf) ops w Hw).
Qed.

End Instance.
