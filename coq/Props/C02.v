(* ========================================================================== *)
(* C02 — Each element is destroyed exactly once; dead or uninit slots are
         never used

   STATEMENT (properties.jsonl):
     "Each key and value moved or cloned into a Map or Set is at every moment
      in exactly one place - still stored, handed back to the caller, or
      destroyed - and is destroyed exactly once overall, however the container,
      its consuming iterators (into_iter, into_keys, into_values) and its
      drains are used, partially consumed, dropped early or forgotten. No
      operation reads, compares, returns or destroys a slot that does not
      currently hold a live element, and arguments that end up not being stored
      (duplicate key on insert, rejected insert) are destroyed exactly once as
      well."

   QUANTIFIER (properties.jsonl):
     "all operation sequences over Map, Set and every iterator/drain they hand
      out, every point at which an iterator or drain may be abandoned (dropped
      or mem::forget), all fill levels and capacities"

   VOCABULARY
     UB               In the model every unsafe slot accessor (p_ref, p_read,
                      p_drop, ... in Model/Slots.v) yields the outcome UB when
                      the slot is outside the array or holds no live element,
                      and `wp` is False on UB.  "No operation reads, compares,
                      returns or destroys a slot that does not hold a live
                      element"  ==  "UB is unreachable".
     xworld, step, run_ops, run_case, teardown  (Model/Exec.v)
                      the history interpreter used by the correspondence check:
                      four registers (two Map, two Set), one constructor of
                      [op] per API entry point of Map, Set, their iterators,
                      drains (with a `take` count and a `fate`: dropped /
                      forgotten / consumed by for_each), entry chains, set
                      algebra, clone, eq, from_iter, fmt, serde.  The
                      observation [3] is the UB observation.
     WFx x            all four registers satisfy WF (len <= cap, slots
                      [0,len) live) and no UB has happened.
     contract_ok debug o x / safe_op o   (Proofs/ExecSafe.v)
                      the only operation with a precondition is the crate's
                      `unsafe fn insert_unchecked` (release build, full map);
                      safe_op o := o is not OInsertUnchecked.
     ids_pair E p, owned E m, dropped l   (Proofs/Owned.v)
                      the ledger identities carried by a pair / held in ANY
                      slot of m (live or not) / destroyed so far (EvDrop events
                      of the log).
     acct E w w' ins outs lost :=
         Permutation (owned E (self w') ++ outs ++ lost ++ dropped (log w'))
                     (owned E (self w)  ++ ins  ++ dropped (log w))
                      multiset accounting: stored + handed out + leaked +
                      destroyed afterwards = stored + handed in + destroyed before.
     conserves E c ins outs :=
         forall w, WF (self w) ->
           wp c (fun a w' => WF (self w') /\ cap (self w') = cap (self w) /\
                             exists lost, acct E w w' ins (outs a) lost /\
                                          (Tidy (self w) -> lost = [] /\ Tidy (self w')))
                (fun w' => WF (self w') /\ cap (self w') = cap (self w) /\
                           exists lost, acct E w w' ins [] lost)
                w
                      ([ins] = identities moved into the call, [outs a] = moved
                      out with the result; Tidy m = no element sits beyond len.)
                      The environment E is ARBITRARY: ==, Clone, Drop, closures
                      may lie, change their mind and panic.
     cpostN E w ins outs w' / cpostP E w ins w'   (Proofs/Owned.v)
                      the normal / panic postcondition of `conserves` as a
                      predicate, for calls that need an extra precondition:
                      cpostN E w ins outs w' := WF (self w') /\ cap (self w') = cap (self w) /\
                         exists lost, acct E w w' ins outs lost /\
                                      (Tidy (self w) -> lost = [] /\ Tidy (self w'))
                      cpostP E w ins w' := WF (self w') /\ cap (self w') = cap (self w) /\
                         exists lost, acct E w w' ins [] lost
     entry_ok e m     (Proofs/Safety3.v) Occupied i => i < len m | Vacant _ => True
     ids_entry E e    (Proofs/Owned2.v) the key a Vacant entry carries; [] for Occupied
     made_entry E e f w   what or_insert_with's closure f produces from callback
                      state cb w when e is Vacant (idV of the value if it
                      returns, [] if it panics); [] for Occupied (f not called)
     into_keys_next E / into_values_next E   (Proofs/Owned2.v, not in the model)
                      IntoIter::next followed by the drop of the half of the
                      pair that IntoKeys / IntoValues does not hand out
     clone_made E src n i s   the pairs the Clone callbacks return, in order,
                      when cloning slots i, i+1, ... of src from callback
                      state s, up to the first Clone panic
     clone_orphans E src n i s   the identities of the key K::clone had just made
                      when the V::clone of the same pair panicked ([] otherwise):
                      it is destroyed by unwinding
     cloned_from E a k'   k' is what cloneK returned, in some callback state,
                      for a key stored in a

   READING GUIDE (clause -> theorem)
     "No operation reads, compares, returns or destroys a slot that does not
      currently hold a live element" - for all operation sequences over Map,
      Set, iterators, drains, every abandonment point (take/fate parameters):
          one call           C02_step_safe
          any history        C02_run_safe   (release and debug, safe API only)
                             C02_run_safe_debug (debug build, even with the
                                                 unsafe insert_unchecked)
          any case file      C02_run_case_safe
          the contract of insert_unchecked is genuinely needed
                             C02_insert_unchecked_contract_needed
     "at every moment in exactly one place - stored, handed back, destroyed":
          insert / insert_key_value / checked_insert (this also accounts for the
          arguments that end up not stored: with ins = ids of (k,v) and outs =
          ids of what is returned, everything else is stored or destroyed)
                             C02_conserves_insert, C02_conserves_insert_key_value,
                             C02_conserves_checked_insert
          remove / remove_entry / retain / clear
                             C02_conserves_remove, C02_conserves_remove_entry,
                             C02_conserves_retain, C02_conserves_clear
          Drop for Map       C02_drop_map_acct (from a Tidy state everything is
                             destroyed: owned = [] afterwards, nothing lost)
          IntoIter::next     C02_conserves_into_iter_next
          Drain::next / Drain::drop at ANY cursor position
                             C02_drain_next_acct, C02_drain_drop_acct
          collect / from_iter (incl. the partially built map dropped on panic)
                             C02_from_iter_acct
          "exactly one place" = no identity occurs twice in
          stored ++ handed-out ++ destroyed, preserved by every conserving call,
          on normal return AND on panic
                             C02_conserves_NoDup
     "destroyed exactly once overall ... partially consumed, dropped early":
          the log of a whole drain session (take n, then drop the Drain):
          exactly the not-yet-yielded entries are destroyed, each once
                             C02_drain_session_logs
          a fully consumed IntoIter hands out every entry, container empty
                             C02_into_run_all_rev
     Entry API (Proofs/Owned2.v), any environment:
          Map::entry          C02_conserves_entry_of (a Vacant entry holds the key)
          OccupiedEntry::insert / remove_entry / remove
                             C02_conserves_occ_insert, C02_conserves_occ_remove_entry,
                             C02_conserves_occ_remove
          VacantEntry::insert C02_conserves_vac_insert
          or_insert / or_insert_with / and_modify (the unused default of an
          Occupied entry is destroyed, not leaked)
                             C02_conserves_or_insert, C02_conserves_or_insert_with,
                             C02_conserves_and_modify
          the chain entry(k).or_insert(v)
                             C02_conserves_entry_or_insert
     "its consuming iterators (into_iter, into_keys, into_values)":
          IntoKeys::next / IntoValues::next
                             C02_conserves_into_keys_next, C02_conserves_into_values_next
     Set<T,N>, one lemma per method:
          insert / replace / remove / take / clear / retain
                             C02_conserves_s_insert, C02_conserves_s_replace,
                             C02_conserves_s_remove, C02_conserves_s_take,
                             C02_conserves_s_clear, C02_conserves_s_retain
          extend / from_iter (hypothesis: () carries no ledger identity)
                             C02_conserves_s_extend, C02_s_from_iter_acct
          no identity in two places, return and panic
                             C02_s_insert_NoDup, C02_s_take_NoDup
          &Set - &Set        C02_set_sub_acct (the result holds clones of
                             elements of the left operand, each accounted for)
     "cloned into a Map": Clone
                             C02_clone_acct (the clone owns exactly what the Clone
                             callbacks returned; on a Clone panic every object
                             made so far - incl. the orphan key of the failing
                             pair - is destroyed exactly once by the unwinding,
                             nothing is left in the partial clone)
                             C02_clone_NoDup (none of them twice)

   PARTLY / NOT COVERED BY A THEOREM (left to the correspondence check and the
   harness's leak oracle)
     - Set<T,N> (the wrapper Map<T,(),N>, Model/SetOps.v): NOW COVERED by the
       C02_conserves_s_* / C02_s_* theorems above.  Still without an accounting
       lemma: the read-only Set methods contains / get (Owned2.conserves_s_contains,
       conserves_s_get exist but are not restated here), the set algebra iterators
       (they only borrow) and BitOr/BitAnd/BitXor (only Sub: C02_set_sub_acct);
       their UB-freedom is in C02_step_safe;
     - into_keys / into_values: NOW COVERED per step by C02_conserves_into_keys_next
       / C02_conserves_into_values_next; into_keys_next / into_values_next are
       defined in Proofs/Owned2.v on top of the model's IntoIter::next (the model
       has one IntoIter with a `kind` in Exec.v), so that they match the crate's
       IntoKeys / IntoValues is part of the correspondence check;
     - Entry API: or_insert_with_key is NOW restated (C02_conserves_or_insert_with_key; its _vacant, _occupied
       variants in Owned2 are not); Entry::or_default, Entry::key, OccupiedEntry::get
       / get_mut / into_mut / key move nothing (C11);
     - Clone: C02_clone_acct is stated for the model's clone_from_src into an EMPTY
       TIDY container of the source's capacity (what Map::clone starts from);
       Clone::clone_from into a non-empty container is not modelled;
     - mem::forget of a Drain / IntoIter: safety is in C02_step_safe (fate
       parameter); that forgetting leaks (and never double-drops) is
       IterSpec.drain_forgotten, listed under C10;
     - on a PANIC the conservation triple allows a leak (`lost`): "destroyed
       exactly once" is then "at most once".  The by-value arguments of a call
       that panics (rejected insert on a full map) ARE in the model: the locals
       a frame owns are destroyed when a panic unwinds through it, they are
       part of `ins` and end up in dropped (log w'); that a rejection loses
       nothing at all (lost = []) is stated exactly in Props/C03.v
       (C03_insert_ii_strong, C03_insert_panic_cases and the panic clauses of
       the C03_*_lawful theorems), not by the `conserves` triple;
     - that lost = [] needs Tidy (no stale element beyond len), which holds in
       all states reachable from new_map (new_map is Tidy and every conserving
       call preserves Tidy on normal return; after a panic Tidy may be lost,
       which is the tolerated leak of C04).
   SECOND ADDENDUM (very end of this file, lemmas in Proofs/MoreHist.v):
     richer histories for arbitrary environments (closures, clone_from, collect,
     get_disjoint_mut, ==, consuming iterators, forgotten drains)
                                           C02_crun_acct, C02_crun_NoDup, C02_crun_no_double_drop
     "exactly once" for unlawful calm environments; Dict2 Tidy / exact
                                           C02_run_exact_calm, C02_srun_exact_calm,
                                           C02_run2_exact, C02_run2_tidy
     provenance (stale slots above len take no part)
                                           C02_mstep_live_acct, C02_mstep_provenance,
                                           C02_drain_forgotten_then_run_refines
     into_keys / into_values anchored to Exec
                                           C02_into_steps_item_kinds, C02_into_steps_keys_next,
                                           C02_into_steps_values_next
   AUDIT ADDENDUM (end of this file, lemmas in Proofs/MoreOwned.v) - NOW COVERED:
     - "destroyed exactly once OVERALL": the per-call triples composed over any
       history, every environment          C02_run_acct, C02_run_NoDup,
                                           C02_run_no_double_drop, C02_run_NoDup_prefix,
                                           C02_run2_NoDup, C02_srun_NoDup
     - Tidy along a run, exact accounting (lawful environment)
                                           C02_step_tidy, C02_run_tidy, C02_run_exact,
                                           C02_run_exact_new, C02_srun_tidy, C02_srun_exact
     - into_iter / into_keys / into_values partially consumed then dropped
                                           C02_into_session_logs, C02_into_session_NoDup,
                                           C02_into_session_acct, C02_into_keys_session_acct,
                                           C02_into_values_session_acct
     - a forgotten Drain destroys nothing  C02_drain_forgotten_log
     - retain / and_modify closures that REPLACE the value
                                           C02_retain_conserves_gen, C02_call_pred_acct_gen,
                                           C02_and_modify_acct_gen, C02_call_modf_acct_gen
     - clone_from, From<[_;N]>, collect, serde decode
                                           C02_op_clone_acct, C02_op_from_iter_acct,
                                           C02_from_iter_arr_acct, C02_from_iter_NoDup,
                                           C02_conserves_visit_map, C02_conserves_visit_seq,
                                           C02_op_serde_acct, C02_op_serde_set_acct
   ========================================================================== *)
Require Import Model.Base Model.Slots Model.MapOps Model.EntryOps Model.SetOps Model.Fmt Model.Exec.
Require Import Proofs.Hoare Proofs.Inv Proofs.Safety Proofs.Safety2 Proofs.Safety3 Proofs.Spec Proofs.IterSpec
               Proofs.Owned Proofs.Owned2 Proofs.ExecSafe Proofs.Legacy.
From Coq Require Import Permutation.

(* -------------------------------------------------------------------------- *)
(* UB-freedom of every history (every script: honest, lying ==, injected panic) *)
Theorem C02_step_safe :
  forall (debug : bool) (sc : script) (o : op) (x : xworld),
  WFx x ->
  contract_ok debug o x ->
  WFx (snd (step debug sc o x)) /\ caps (snd (step debug sc o x)) = caps x.
Proof. exact step_safe. Qed.
Print Assumptions C02_step_safe.

Theorem C02_run_safe :
  forall (debug : bool) (sc : script) (ops : list op) (x : xworld),
  WFx x ->
  Forall safe_op ops ->
  Forall (fun obs : list N => obs <> [3%N]) (run_ops debug sc ops x).
Proof. exact run_safe. Qed.
Print Assumptions C02_run_safe.

Theorem C02_run_safe_debug :
  forall (sc : script) (ops : list op) (x : xworld),
  WFx x ->
  Forall (fun obs : list N => obs <> [3%N]) (run_ops true sc ops x).
Proof. exact run_safe_debug. Qed.
Print Assumptions C02_run_safe_debug.

Theorem C02_run_case_safe :
  forall (debug : bool) (segs : list (list N)),
  debug = true \/ Forall safe_op (List.map decode (tl segs)) ->
  Forall (fun obs : list N => obs <> [3%N]) (run_case debug segs).
Proof. exact run_case_safe. Qed.
Print Assumptions C02_run_case_safe.

Theorem C02_insert_unchecked_contract_needed :
  WFx (init_world 0 0 0 0) /\
  fst (step false {| sc_adv := false; sc_seed := 0; sc_fk := 0; sc_fa := 0 |}
            (OInsertUnchecked 0 (mk 1 1) (mv 2 2)) (init_world 0 0 0 0)) = [3%N].
Proof. exact insert_unchecked_contract_needed. Qed.
Print Assumptions C02_insert_unchecked_contract_needed.

(* -------------------------------------------------------------------------- *)
(* ownership conservation, arbitrary environment                              *)
Theorem C02_conserves_insert :
  forall (K V Q T : Type) (E : env K V Q T) (debug : bool) (k : K) (v : V),
  conserves E (insert E debug k v) (ids_pair E (k, v))
            (fun r : option V => match r with Some v0 => idV E v0 | None => [] end).
Proof. exact (@conserves_insert). Qed.
Print Assumptions C02_conserves_insert.

Theorem C02_conserves_insert_key_value :
  forall (K V Q T : Type) (E : env K V Q T) (debug : bool) (k : K) (v : V),
  conserves E (insert_key_value E debug k v) (ids_pair E (k, v))
            (fun r : option (K * V) => match r with Some p => ids_pair E p | None => [] end).
Proof. exact (@conserves_insert_key_value). Qed.
Print Assumptions C02_conserves_insert_key_value.

Theorem C02_conserves_checked_insert :
  forall (K V Q T : Type) (E : env K V Q T) (debug : bool) (k : K) (v : V),
  conserves E (checked_insert E debug k v) (ids_pair E (k, v))
            (fun r : option (option V) => match r with Some (Some v0) => idV E v0 | _ => [] end).
Proof. exact (@conserves_checked_insert). Qed.
Print Assumptions C02_conserves_checked_insert.

Theorem C02_conserves_remove :
  forall (K V Q T : Type) (E : env K V Q T) (debug : bool) (q : Q),
  conserves E (remove E debug q) []
            (fun r : option V => match r with Some v => idV E v | None => [] end).
Proof. exact (@conserves_remove). Qed.
Print Assumptions C02_conserves_remove.

Theorem C02_conserves_remove_entry :
  forall (K V Q T : Type) (E : env K V Q T) (debug : bool) (q : Q),
  conserves E (remove_entry E debug q) []
            (fun r : option (K * V) => match r with Some p => ids_pair E p | None => [] end).
Proof. exact (@conserves_remove_entry). Qed.
Print Assumptions C02_conserves_remove_entry.

(* the retain closure may rewrite the value in place but not swap its identity *)
Theorem C02_conserves_retain :
  forall (K V Q T : Type) (E : env K V Q T) (debug : bool) (f : @pred_t K V T),
  (forall (s : T) (k : K) (v : V), idV E (snd (fst (f s k v))) = idV E v) ->
  conserves E (retain E debug f) [] (fun _ : unit => []).
Proof. exact (@conserves_retain). Qed.
Print Assumptions C02_conserves_retain.

Theorem C02_conserves_clear :
  forall (K V Q T : Type) (E : env K V Q T),
  conserves E (clear E) [] (fun _ : unit => []).
Proof. exact (@conserves_clear). Qed.
Print Assumptions C02_conserves_clear.

Theorem C02_drop_map_acct :
  forall (K V Q T : Type) (E : env K V Q T) (w : world K V T),
  WF (self w) ->
  wp (drop_map E)
    (fun (_ : unit) (w' : world K V T) =>
       exists lost : list N,
         acct E w w' [] [] lost /\
         (Tidy (self w) -> lost = [] /\ owned E (self w') = []))
    (fun w' : world K V T => exists lost : list N, acct E w w' [] [] lost)
    w.
Proof. exact (@drop_map_acct). Qed.
Print Assumptions C02_drop_map_acct.

Theorem C02_conserves_into_iter_next :
  forall (K V Q T : Type) (E : env K V Q T),
  conserves E into_iter_next []
            (fun r : option (K * V) => match r with Some p => ids_pair E p | None => [] end).
Proof. exact (@conserves_into_iter_next). Qed.
Print Assumptions C02_conserves_into_iter_next.

(* DrainInv c m := len m = 0 /\ snd c <= cap m /\ forall j, fst c <= j < snd c -> live m j
   (the state while a Drain with cursor c is alive) *)
Theorem C02_drain_next_acct :
  forall (K V Q T : Type) (E : env K V Q T) (c : cursor) (w : world K V T),
  DrainInv c (self w) ->
  wp (drain_next c)
    (fun (r : option (K * V) * cursor) (w' : world K V T) =>
       DrainInv (snd r) (self w') /\
       cap (self w') = cap (self w) /\
       acct E w w' [] (match fst r with Some p => ids_pair E p | None => [] end) [] /\
       (forall j : nat,
          j < fst c \/ snd c <= j ->
          nth_error (slots (self w')) j = nth_error (slots (self w)) j) /\
       match fst r with
       | Some _ => snd r = (S (fst c), snd c) /\ nth_error (slots (self w')) (fst c) = Some None
       | None => snd r = c /\ self w' = self w
       end)
    (fun _ : world K V T => False)
    w.
Proof. exact (@drain_next_acct). Qed.
Print Assumptions C02_drain_next_acct.

Theorem C02_drain_drop_acct :
  forall (K V Q T : Type) (E : env K V Q T) (c : cursor) (w : world K V T),
  DrainInv c (self w) ->
  let post := fun (full : bool) (w' : world K V T) =>
    WF (self w') /\
    len (self w') = 0 /\
    cap (self w') = cap (self w) /\
    acct E w w' [] [] [] /\
    (full = true ->
     (forall j : nat,
        j < fst c \/ snd c <= j ->
        nth_error (slots (self w)) j <> None -> nth_error (slots (self w)) j = Some None) ->
     Tidy (self w')) in
  wp (drain_drop E c) (fun _ : unit => post true) (post false) w.
Proof. exact (@drain_drop_acct). Qed.
Print Assumptions C02_drain_drop_acct.

Theorem C02_from_iter_acct :
  forall (K V Q T : Type) (E : env K V Q T) (debug : bool) (nx : T -> ans * T)
         (items : list (K * V)) (w : world K V T),
  WF (self w) ->
  wp (from_iter E debug nx items)
    (fun (_ : unit) (w' : world K V T) =>
       WF (self w') /\
       cap (self w') = cap (self w) /\
       exists lost : list N,
         acct E w w' (flat_map (ids_pair E) items) [] lost /\
         (Tidy (self w) -> lost = [] /\ Tidy (self w')))
    (fun w' : world K V T =>
       exists lost : list N, acct E w w' (flat_map (ids_pair E) items) [] lost)
    w.
Proof. exact (@from_iter_acct). Qed.
Print Assumptions C02_from_iter_acct.

(* headline: no identity is ever in two places, on return and on panic *)
Theorem C02_conserves_NoDup :
  forall (K V Q T : Type) (E : env K V Q T) (A : Type) (c : M K V T A) (ins : list N)
         (outs : A -> list N) (w : world K V T),
  conserves E c ins outs ->
  WF (self w) ->
  NoDup (owned E (self w) ++ ins ++ dropped (log w)) ->
  wp c
    (fun (a : A) (w' : world K V T) => NoDup (owned E (self w') ++ outs a ++ dropped (log w')))
    (fun w' : world K V T => NoDup (owned E (self w') ++ dropped (log w')))
    w.
Proof. exact (@conserves_NoDup). Qed.
Print Assumptions C02_conserves_NoDup.

(* -------------------------------------------------------------------------- *)
(* whole sessions of the consuming iterators                                  *)
(* evp E p := ev_drops (idK E (fst p) ++ idV E (snd p)): the Drop events of pair p *)
Theorem C02_drain_session_logs :
  forall (K V Q T : Type) (E : env K V Q T) (n : nat) (w : world K V T),
  WF (self w) ->
  wp (c <- drain ;; r <- drain_run n c ;; drain_drop E (snd r) ;; ret (fst r))
    (fun (r : list (K * V)) (w' : world K V T) =>
       r = firstn n (Spec.elems (self w)) /\
       log w' = log w ++ flat_map (evp E) (skipn n (Spec.elems (self w))))
    (fun w' : world K V T =>
       exists k : nat,
         log w' = log w ++ flat_map (evp E) (firstn k (skipn n (Spec.elems (self w)))))
    w.
Proof. exact (@drain_session_logs). Qed.
Print Assumptions C02_drain_session_logs.

Theorem C02_into_run_all_rev :
  forall (K V T : Type) (w : world K V T),
  WF (self w) ->
  wp (into_run (len (self w)))
    (fun (r : list (K * V)) (w' : world K V T) =>
       r = rev (Spec.elems (self w)) /\ len (self w') = 0 /\ Spec.elems (self w') = [])
    (fun _ : world K V T => False)
    w.
Proof. exact (@into_run_all_rev). Qed.
Print Assumptions C02_into_run_all_rev.

(* -------------------------------------------------------------------------- *)
(* ownership conservation for the entry API, into_keys / into_values, every Set
   method, clone and the Set subtraction (Proofs/Owned2.v), arbitrary environment *)

(* Map::entry: the key is handed in; a Vacant entry carries it out again *)
Theorem C02_conserves_entry_of :
  forall (K V Q T : Type) (E : env K V Q T) (k : K),
  conserves E (entry_of E k) (idK E k) (ids_entry E).
Proof. exact (@conserves_entry_of). Qed.
Print Assumptions C02_conserves_entry_of.

(* OccupiedEntry::insert: the new value goes in, the old value comes out *)
Theorem C02_conserves_occ_insert :
  forall (K V Q T : Type) (E : env K V Q T) (i : nat) (v : V) (w : world K V T),
  WF (self w) ->
  i < len (self w) ->
  wp (occ_insert i v)
    (fun r : V => cpostN E w (idV E v) (idV E r))
    (cpostP E w (idV E v))
    w.
Proof. exact (@conserves_occ_insert). Qed.
Print Assumptions C02_conserves_occ_insert.

Theorem C02_conserves_occ_remove_entry :
  forall (K V Q T : Type) (E : env K V Q T) (debug : bool) (i : nat) (w : world K V T),
  WF (self w) ->
  i < len (self w) ->
  wp (occ_remove_entry debug i)
    (fun p : K * V => cpostN E w [] (ids_pair E p))
    (cpostP E w [])
    w.
Proof. exact (@conserves_occ_remove_entry). Qed.
Print Assumptions C02_conserves_occ_remove_entry.

Theorem C02_conserves_occ_remove :
  forall (K V Q T : Type) (E : env K V Q T) (debug : bool) (i : nat) (w : world K V T),
  WF (self w) ->
  i < len (self w) ->
  wp (occ_remove E debug i)
    (fun v : V => cpostN E w [] (idV E v))
    (cpostP E w [])
    w.
Proof. exact (@conserves_occ_remove). Qed.
Print Assumptions C02_conserves_occ_remove.

Theorem C02_conserves_vac_insert :
  forall (K V Q T : Type) (E : env K V Q T) (debug : bool) (k : K) (v : V),
  conserves E (vac_insert E debug k v) (ids_pair E (k, v)) (fun _ : nat => []).
Proof. exact (@conserves_vac_insert). Qed.
Print Assumptions C02_conserves_vac_insert.

(* Entry::or_insert: an Occupied entry destroys the unused default value *)
Theorem C02_conserves_or_insert :
  forall (K V Q T : Type) (E : env K V Q T) (debug : bool) (e : @entry K) (v : V) (w : world K V T),
  WF (self w) ->
  entry_ok e (self w) ->
  wp (or_insert E debug e v)
    (fun (i : nat) (w' : world K V T) =>
       cpostN E w (ids_entry E e ++ idV E v) [] w' /\ i < len (self w'))
    (cpostP E w (ids_entry E e ++ idV E v))
    w.
Proof. exact (@conserves_or_insert). Qed.
Print Assumptions C02_conserves_or_insert.

(* Entry::or_insert_with: the closure's value (made_entry) enters only when the
   entry is Vacant and the closure returns.  PANIC clause, second conjunct
   (Owned2.entry_closure_exit): when the entry is Vacant and it is the CLOSURE
   that panics (fst (f (cb w)) = None), the VacantEntry - alive while the closure
   runs - is destroyed by unwinding: the container is untouched and the key is
   destroyed exactly once, nothing is lost:
     closure_panic_exit E k w w' :=
       self w' = self w /\ log w' = (log w ++ [EvCall 2]) ++ ev_drops (idK E k)
     entry_closure_exit E e f w w' :=
       match e with Occupied _ => True
                  | Vacant k => fst (f (cb w)) = None -> closure_panic_exit E k w w' end
   (hence acct E w w' (idK E k) [] []: C02_closure_panic_exit_acct) *)
Theorem C02_conserves_or_insert_with :
  forall (K V Q T : Type) (E : env K V Q T) (debug : bool) (e : @entry K)
         (f : T -> option V * T) (w : world K V T),
  WF (self w) ->
  entry_ok e (self w) ->
  wp (or_insert_with E debug e f)
    (fun (i : nat) (w' : world K V T) =>
       cpostN E w (ids_entry E e ++ made_entry E e f w) [] w' /\ i < len (self w'))
    (fun w' : world K V T =>
       cpostP E w (ids_entry E e ++ made_entry E e f w) w' /\ entry_closure_exit E e f w w')
    w.
Proof. exact (@conserves_or_insert_with). Qed.
Print Assumptions C02_conserves_or_insert_with.

Theorem C02_closure_panic_exit_acct :
  forall (K V Q T : Type) (E : env K V Q T) (k : K) (w w' : world K V T),
  closure_panic_exit E k w w' -> acct E w w' (idK E k) [] [].
Proof. exact (@closure_panic_exit_acct). Qed.
Print Assumptions C02_closure_panic_exit_acct.

(* Entry::or_insert_with_key: the same, the closure receives the key by reference *)
Theorem C02_conserves_or_insert_with_key :
  forall (K V Q T : Type) (E : env K V Q T) (debug : bool) (e : @entry K)
         (f : K -> T -> option V * T) (w : world K V T),
  WF (self w) ->
  entry_ok e (self w) ->
  let made := match e with Occupied _ => [] | Vacant k => made_val E (f k) w end in
  wp (or_insert_with_key E debug e f)
    (fun (i : nat) (w' : world K V T) =>
       cpostN E w (ids_entry E e ++ made) [] w' /\ i < len (self w'))
    (fun w' : world K V T =>
       cpostP E w (ids_entry E e ++ made) w' /\
       match e with Occupied _ => True | Vacant k => entry_closure_exit E e (f k) w w' end)
    w.
Proof. exact (@conserves_or_insert_with_key). Qed.
Print Assumptions C02_conserves_or_insert_with_key.

(* Entry::and_modify: the closure may rewrite the value in place but not swap
   its identity *)
Theorem C02_conserves_and_modify :
  forall (K V Q T : Type) (E : env K V Q T) (e : @entry K) (f : @modf_t V T) (w : world K V T),
  (forall (s : T) (v : V), idV E (snd (fst (f s v))) = idV E v) ->
  WF (self w) ->
  entry_ok e (self w) ->
  wp (and_modify e f)
    (fun (e' : @entry K) (w' : world K V T) =>
       cpostN E w (ids_entry E e) (ids_entry E e') w' /\ e' = e /\ entry_ok e' (self w'))
    (cpostP E w (ids_entry E e))
    w.
Proof. exact (@conserves_and_modify). Qed.
Print Assumptions C02_conserves_and_modify.

(* the whole chain map.entry(k).or_insert(v) *)
Theorem C02_conserves_entry_or_insert :
  forall (K V Q T : Type) (E : env K V Q T) (debug : bool) (k : K) (v : V),
  conserves E (e <- entry_of E k ;; or_insert E debug e v) (ids_pair E (k, v)) (fun _ : nat => []).
Proof. exact (@conserves_entry_or_insert). Qed.
Print Assumptions C02_conserves_entry_or_insert.

(* IntoKeys::next / IntoValues::next: the other half of the pair is destroyed *)
Theorem C02_conserves_into_keys_next :
  forall (K V Q T : Type) (E : env K V Q T),
  conserves E (into_keys_next E) []
            (fun r : option K => match r with Some k => idK E k | None => [] end).
Proof. exact (@conserves_into_keys_next). Qed.
Print Assumptions C02_conserves_into_keys_next.

Theorem C02_conserves_into_values_next :
  forall (K V Q T : Type) (E : env K V Q T),
  conserves E (into_values_next E) []
            (fun r : option V => match r with Some v => idV E v | None => [] end).
Proof. exact (@conserves_into_values_next). Qed.
Print Assumptions C02_conserves_into_values_next.

(* Set<T,N> = Map<T,(),N>: one conservation lemma per Set method *)
Theorem C02_conserves_s_insert :
  forall (K Q T : Type) (E : env K unit Q T) (debug : bool) (k : K),
  conserves E (s_insert E debug k) (ids_pair E (k, tt))
            (fun r : bool => if r then [] else idV E tt).
Proof. exact (@conserves_s_insert). Qed.
Print Assumptions C02_conserves_s_insert.

Theorem C02_conserves_s_replace :
  forall (K Q T : Type) (E : env K unit Q T) (debug : bool) (k : K),
  conserves E (s_replace E debug k) (ids_pair E (k, tt))
            (fun r : option K => match r with Some k' => ids_pair E (k', tt) | None => [] end).
Proof. exact (@conserves_s_replace). Qed.
Print Assumptions C02_conserves_s_replace.

Theorem C02_conserves_s_remove :
  forall (K Q T : Type) (E : env K unit Q T) (debug : bool) (q : Q),
  conserves E (s_remove E debug q) [] (fun r : bool => if r then idV E tt else []).
Proof. exact (@conserves_s_remove). Qed.
Print Assumptions C02_conserves_s_remove.

Theorem C02_conserves_s_take :
  forall (K Q T : Type) (E : env K unit Q T) (debug : bool) (q : Q),
  conserves E (s_take E debug q) []
            (fun r : option K => match r with Some k' => ids_pair E (k', tt) | None => [] end).
Proof. exact (@conserves_s_take). Qed.
Print Assumptions C02_conserves_s_take.

Theorem C02_conserves_s_clear :
  forall (K Q T : Type) (E : env K unit Q T),
  conserves E (s_clear E) [] (fun _ : unit => []).
Proof. exact (@conserves_s_clear). Qed.
Print Assumptions C02_conserves_s_clear.

Theorem C02_conserves_s_retain :
  forall (K Q T : Type) (E : env K unit Q T) (debug : bool) (f : T -> K -> option bool * T),
  conserves E (s_retain E debug f) [] (fun _ : unit => []).
Proof. exact (@conserves_s_retain). Qed.
Print Assumptions C02_conserves_s_retain.

(* from here on: the unit value () carries no ledger identity *)
Theorem C02_conserves_s_extend :
  forall (K Q T : Type) (E : env K unit Q T) (debug : bool),
  idV E tt = [] ->
  forall (nx : T -> ans * T) (items : list K),
  conserves E (s_extend E debug nx items) (flat_map (fun k : K => ids_pair E (k, tt)) items)
            (fun _ : unit => []).
Proof. exact (@conserves_s_extend). Qed.
Print Assumptions C02_conserves_s_extend.

Theorem C02_s_from_iter_acct :
  forall (K Q T : Type) (E : env K unit Q T) (debug : bool),
  idV E tt = [] ->
  forall (nx : T -> ans * T) (items : list K) (w : world K unit T),
  WF (self w) ->
  wp (s_from_iter E debug nx items)
    (fun (_ : unit) (w' : world K unit T) =>
       WF (self w') /\
       cap (self w') = cap (self w) /\
       exists lost : list N,
         acct E w w' (flat_map (fun k : K => ids_pair E (k, tt)) items) [] lost /\
         (Tidy (self w) -> lost = [] /\ Tidy (self w')))
    (fun w' : world K unit T =>
       exists lost : list N,
         acct E w w' (flat_map (fun k : K => ids_pair E (k, tt)) items) [] lost)
    w.
Proof. exact (@s_from_iter_acct). Qed.
Print Assumptions C02_s_from_iter_acct.

(* "exactly one place" for Set::insert and Set::take, on return and on panic *)
Theorem C02_s_insert_NoDup :
  forall (K Q T : Type) (E : env K unit Q T) (debug : bool) (k : K) (w : world K unit T),
  WF (self w) ->
  NoDup (owned E (self w) ++ ids_pair E (k, tt) ++ dropped (log w)) ->
  wp (s_insert E debug k)
    (fun (r : bool) (w' : world K unit T) =>
       NoDup (owned E (self w') ++ (if r then [] else idV E tt) ++ dropped (log w')))
    (fun w' : world K unit T => NoDup (owned E (self w') ++ dropped (log w')))
    w.
Proof. exact (@s_insert_NoDup). Qed.
Print Assumptions C02_s_insert_NoDup.

Theorem C02_s_take_NoDup :
  forall (K Q T : Type) (E : env K unit Q T) (debug : bool) (q : Q) (w : world K unit T),
  WF (self w) ->
  NoDup (owned E (self w) ++ dropped (log w)) ->
  wp (s_take E debug q)
    (fun (r : option K) (w' : world K unit T) =>
       NoDup (owned E (self w') ++
              match r with Some k' => ids_pair E (k', tt) | None => [] end ++
              dropped (log w')))
    (fun w' : world K unit T => NoDup (owned E (self w') ++ dropped (log w')))
    w.
Proof. exact (@s_take_NoDup). Qed.
Print Assumptions C02_s_take_NoDup.

(* Clone into an empty tidy container of the source's capacity: the clone owns
   exactly the objects the Clone callbacks returned (clone_made), nothing is
   destroyed on normal return; on a panic of a Clone callback the partial clone is
   destroyed by the unwinding (finally_drop runs the panic-free unwind_map): its
   storage is EMPTY afterwards (owned E (self w') = []) and exactly the objects
   made so far - the complete pairs (made) and, when it is a value's Clone that
   panicked, the freshly cloned key of that pair (orphan = clone_orphans) - have
   been destroyed, each once (Permutation d (made ++ orphan)): nothing is leaked *)
Theorem C02_clone_acct :
  forall (K V Q T : Type) (E : env K V Q T) (src : map K V) (w : world K V T),
  WF src ->
  WF (self w) ->
  len (self w) = 0 ->
  cap (self w) = cap src ->
  Tidy (self w) ->
  let made := flat_map (ids_pair E) (clone_made E src (len src) 0 (cb w)) in
  let orphan := clone_orphans E src (len src) 0 (cb w) in
  wp (clone_from_src E src)
    (fun (_ : unit) (w' : world K V T) =>
     WF (self w') /\
     Tidy (self w') /\
     len (self w') = len src /\
     length (clone_made E src (len src) 0 (cb w)) = len src /\
     dropped (log w') = dropped (log w) /\ Permutation (owned E (self w')) made)
    (fun w' : world K V T =>
     owned E (self w') = [] /\
     (exists d : list N,
        dropped (log w') = dropped (log w) ++ d /\ Permutation d (made ++ orphan))) w.
Proof. exact (@clone_acct). Qed.
Print Assumptions C02_clone_acct.

Theorem C02_clone_NoDup :
  forall (K V Q T : Type) (E : env K V Q T) (src : map K V) (w : world K V T),
  WF src ->
  WF (self w) ->
  len (self w) = 0 ->
  cap (self w) = cap src ->
  Tidy (self w) ->
  NoDup
    (flat_map (ids_pair E) (clone_made E src (len src) 0 (cb w)) ++
     clone_orphans E src (len src) 0 (cb w) ++ dropped (log w)) ->
  wp (clone_from_src E src)
    (fun (_ : unit) (w' : world K V T) => NoDup (owned E (self w') ++ dropped (log w')))
    (fun w' : world K V T => NoDup (owned E (self w') ++ dropped (log w'))) w.
Proof. exact (@clone_NoDup). Qed.
Print Assumptions C02_clone_NoDup.

(* Set - Set (Sub for &Set): the result register receives clones (cloned_from)
   of elements of a, each accounted for *)
Theorem C02_set_sub_acct :
  forall (K Q T : Type) (E : env K unit Q T) (debug : bool),
  idV E tt = [] ->
  forall (a b : map K unit) (w : world K unit T),
  WF a ->
  WF b ->
  WF (self w) ->
  wp (set_sub E debug a b)
    (fun (_ : unit) (w' : world K unit T) =>
       WF (self w') /\
       cap (self w') = cap (self w) /\
       exists made : list K,
         Forall (cloned_from E a) made /\
         exists lost : list N,
           acct E w w' (flat_map (fun k : K => ids_pair E (k, tt)) made) [] lost /\
           (Tidy (self w) -> lost = [] /\ Tidy (self w')))
    (fun w' : world K unit T =>
       exists made : list K,
         Forall (cloned_from E a) made /\
         exists lost : list N,
           acct E w w' (flat_map (fun k : K => ids_pair E (k, tt)) made) [] lost)
    w.
Proof. exact (@set_sub_acct). Qed.
Print Assumptions C02_set_sub_acct.

(* -------------------------------------------------------------------------- *)
(* non-vacuity                                                                *)
(* well-formed interpreter states exist (any capacities) *)
Example C02_example_WFx : WFx (init_world 2 0 1 3).
Proof. exact (init_WFx 2 0 1 3). Qed.

(* the hypotheses of C02_conserves_NoDup / C02_drop_map_acct hold of the
   3-entry map m3 (Proofs/Legacy.v): well-formed, tidy, six distinct identities *)
Example C02_example_WF : WF m3.
Proof. exact m3_WF. Qed.

Example C02_example_Tidy : Tidy m3.
Proof.
  intros i Hi Hn. cbn [len m3] in Hi.
  destruct i as [|[|[|i]]]; try lia. exfalso. apply Hn. destruct i; reflexivity.
Qed.

Example C02_example_owned :
  owned (env_map (sc_drop 0)) m3 ++ [] ++ dropped [] = [1; 2; 3; 4; 5; 6]%N /\
  NoDup (owned (env_map (sc_drop 0)) m3 ++ [] ++ dropped []).
Proof.
  split; [vm_compute; reflexivity|]. vm_compute.
  repeat constructor; cbn [In]; intros H;
    repeat (destruct H as [H | H]; try discriminate H); exact H.
Qed.

(* a concrete case (release build, honest script, Map register 0 of capacity 1):
   insert (id 1, id 2); a second key overflows and panics (observation 2...),
   the container is unchanged; the final teardown destroys ids 1 and 2, each
   once (the list between 8888 and 8889 of the first register) *)
Example C02_example_run_case :
  run_case false [[0; 0; 0; 0; 1; 0; 1; 0]; [10; 0; 1; 5; 2; 7]; [10; 0; 5; 6; 6; 9]]%N
  = [[1; 0; 7777; 1; 1; 1; 5; 2; 7; 8888; 8889];
     [2; 7777; 1; 1; 1; 5; 2; 7; 8888; 8889];
     [1; 7777; 0; 1; 8888; 1; 2; 8889;  1; 7777; 0; 0; 8888; 8889;
      1; 7777; 0; 1; 8888; 8889;  1; 7777; 0; 0; 8888; 8889;
      8890; 1; 0; 0; 100000]]%N.
Proof. vm_compute. reflexivity. Qed.

(* the hypothesis "() has no identity" of C02_conserves_s_extend,
   C02_s_from_iter_acct, C02_set_sub_acct holds of the interpreter's Set
   environment, for every script *)
Example C02_example_unit_no_id : forall sc : script, idV (env_set sc) tt = [].
Proof. reflexivity. Qed.

(* entry_ok: an Occupied entry of m3 must point below len = 3; Vacant is free *)
Example C02_example_entry_ok :
  entry_ok (@Occupied key 2) m3 /\ entry_ok (Vacant (k_ 9 9)) m3 /\ ~ entry_ok (@Occupied key 3) m3.
Proof. cbn [entry_ok len m3]. repeat split; try lia. Qed.

(* the preconditions of C02_clone_acct / C02_clone_NoDup for cloning m3 into an
   empty container of the same capacity, and what the honest Clone callbacks make *)
Example C02_example_clone :
  let w0 := w_of (new_map (cap m3)) in
  WF (self w0) /\ len (self w0) = 0 /\ cap (self w0) = cap m3 /\ Tidy (self w0) /\
  length (clone_made (env_map (sc_drop 0)) m3 (len m3) 0 (cb w0)) = 3 /\
  NoDup (flat_map (ids_pair (env_map (sc_drop 0)))
                  (clone_made (env_map (sc_drop 0)) m3 (len m3) 0 (cb w0)) ++
         clone_orphans (env_map (sc_drop 0)) m3 (len m3) 0 (cb w0) ++ dropped (log w0)).
Proof.
  cbv zeta. split; [apply WF_new|]. split; [reflexivity|]. split; [reflexivity|].
  split; [intros i _ Hn; destruct i as [|[|[|i]]]; try reflexivity; exfalso; apply Hn; destruct i; reflexivity|].
  split; [vm_compute; reflexivity|]. vm_compute.
  repeat constructor; cbn [In]; intros H;
    repeat (destruct H as [H | H]; try discriminate H); exact H.
Qed.

(* the panic clause of C02_clone_acct with an orphan: cloning m3 where the clone
   call number 3 - the V::clone of the SECOND pair - panics (script sc_clone 3):
   one complete pair (ids 100000, 100001) and the orphan key 100002 had been
   made; unwinding destroys exactly these three (the orphan first), and nothing
   is left in the partial clone *)
Example C02_example_clone_orphan :
  clone_made (env_map (sc_clone 3)) m3 (len m3) 0 cs0 = [(k_ 100000 5, v_ 100001 7)] /\
  clone_orphans (env_map (sc_clone 3)) m3 (len m3) 0 cs0 = [100002]%N /\
  match clone_from_src (env_map (sc_clone 3)) m3 (w_of (new_map 3)) with
  | Panic w' => owned (env_map (sc_clone 3)) (self w') = [] /\
                dropped (log w') = [100002; 100000; 100001]%N
  | _ => False
  end.
Proof. vm_compute. repeat split; reflexivity. Qed.


(* ========================================================================== *)
(* ADDENDUM (audit closure) — ownership ALONG A HISTORY, abandoned iterators,
   closures that replace the value.   New lemmas: Proofs/MoreOwned.v.

   VOCABULARY (Proofs/MoreOwned.v, Proofs/Dict.v, Dict2.v, SetDict.v)
     mstep E debug o / mfinal E debug ops w   (Dict.v) the 13 dictionary
                      operations insert, insert_key_value, checked_insert, get,
                      get_mut(+write), get_key_value, contains_key, index,
                      index_mut(+write), remove, remove_entry, retain, clear as
                      one interpreter step / the world after the whole history
                      (a step that PANICS continues on the world left by
                      unwinding; None = UB happened).  mstep2 / mfinal2 (Dict2.v)
                      add drain(take n, then drop), whole-container iteration,
                      entry(k).or_insert(v) and extend; sstep / smfinal
                      (SetDict.v) are the Set methods insert, replace, contains,
                      get, remove, take, retain, clear, extend.
     op_ins E o       identities the call takes from the caller: ids of (k,v) for
                      the inserts, ids of v' for get_mut/index_mut followed by
                      `*r = v'`, [] otherwise.         (op2_ins, sop_ins alike)
     op_outs E o r    identities handed back with result r: the displaced value
                      (insert, get_mut+write, index_mut+write), the removed value
                      / pair, the displaced pair (insert_key_value); for get_mut
                      on an absent key the never-moved v'; [] otherwise (a value
                      read through a shared reference is not handed out).
     op_ok E o        only for DRetain g: the closure may rewrite the value in
                      place but keeps its identity, forall k v,
                      idV E (snd (g k v)) = idV E v  (C02_retain_conserves_gen
                      below is the form without this restriction); True otherwise.
     mouts E debug ops w   concatenation of op_outs of every step of the history
                      that RETURNED (a step that panicked hands nothing back):
                      what the caller holds after the history.
     mouts_x          the same, plus what a panicking IndexMut left with the
                      caller (op_pouts: the v' that was never moved).
     conservesW       `conserves` without its Tidy clause.
     exactly / xpost  both outcomes: WF, same cap, Tidy again, acct with lost = [].
   ========================================================================== *)
Require Import Proofs.Lawful Proofs.Dict Proofs.Dict2 Proofs.SetDict Proofs.ExecUniq Proofs.FmtSerde Proofs.MoreOwned.

(* -------------------------------------------------------------------------- *)
(* "is destroyed exactly once overall, however the container ... [is] used":
   one conservation triple per interpreter step, for EVERY environment ...     *)
Theorem C02_mstep_conserves :
  forall (K V Q T : Type) (E : env K V Q T) (debug : bool) (o : dop),
  op_ok E o -> conserves E (mstep E debug o) (op_ins E o) (op_outs E o).
Proof. exact (@mstep_conserves). Qed.
Print Assumptions C02_mstep_conserves.

Theorem C02_mstep2_conservesW :
  forall (K V Q T : Type) (E : env K V Q T) (debug : bool) (o : dop2),
  op2_ok E o -> conservesW E (mstep2 E debug o) (op2_ins E o) (op2_outs E o).
Proof. exact (@mstep2_conservesW). Qed.
Print Assumptions C02_mstep2_conservesW.

Theorem C02_sstep_conserves :
  forall (K Q T : Type) (E : env K unit Q T) (debug : bool),
  idV E tt = [] -> forall o : sop, conserves E (sstep E debug o) (sop_ins E o) (sop_outs E o).
Proof. exact (@sstep_conserves). Qed.
Print Assumptions C02_sstep_conserves.

(* ... composed over ANY history by induction (both outcomes of every step: a
   panicking step continues on the unwound state).  E is arbitrary: ==, Clone,
   Drop may lie, change their mind and panic.  `lost` collects what panicking
   steps leaked. *)
Theorem C02_run_acct :
  forall (K V Q T : Type) (E : env K V Q T) (debug : bool) (ops : list dop) (w : world K V T),
  WF (self w) ->
  Forall (op_ok E) ops ->
  exists (wf : world K V T) (lost : list N),
    mfinal E debug ops w = Some wf /\
    WF (self wf) /\
    cap (self wf) = cap (self w) /\
    Permutation (owned E (self wf) ++ mouts E debug ops w ++ lost ++ dropped (log wf))
      (owned E (self w) ++ flat_map (op_ins E) ops ++ dropped (log w)).
Proof. exact (@run_acct). Qed.
Print Assumptions C02_run_acct.

(* Assumed: the identities stored at the start, those of ALL arguments of
   the history, those of uninvolved objects (extra) and those already destroyed
   are pairwise distinct.  Conclusion: after the history no identity occurs twice
   among stored ++ held by the caller ++ extra ++ destroyed - nothing is
   destroyed twice anywhere in the history, nothing destroyed is still stored. *)
Theorem C02_run_NoDup :
  forall (K V Q T : Type) (E : env K V Q T) (debug : bool) (ops : list dop)
    (w wf : world K V T) (extra : list N),
  WF (self w) ->
  Forall (op_ok E) ops ->
  NoDup (owned E (self w) ++ flat_map (op_ins E) ops ++ extra ++ dropped (log w)) ->
  mfinal E debug ops w = Some wf ->
  NoDup (owned E (self wf) ++ mouts E debug ops w ++ extra ++ dropped (log wf)).
Proof. exact (@run_NoDup). Qed.
Print Assumptions C02_run_NoDup.

Theorem C02_run_no_double_drop :
  forall (K V Q T : Type) (E : env K V Q T) (debug : bool) (ops : list dop)
    (w wf : world K V T),
  WF (self w) ->
  Forall (op_ok E) ops ->
  NoDup (owned E (self w) ++ flat_map (op_ins E) ops ++ dropped (log w)) ->
  mfinal E debug ops w = Some wf ->
  NoDup (dropped (log wf)) /\
  NoDup (owned E (self wf)) /\
  (forall x : N,
   In x (owned E (self wf)) -> ~ In x (dropped (log wf)) /\ ~ In x (mouts E debug ops w)) /\
  (forall x : N, In x (mouts E debug ops w) -> ~ In x (dropped (log wf))).
Proof. exact (@run_no_double_drop). Qed.
Print Assumptions C02_run_no_double_drop.

(* "at every moment": after any prefix of the history, counting the arguments of
   the operations still to come *)
Theorem C02_run_NoDup_prefix :
  forall (K V Q T : Type) (E : env K V Q T) (debug : bool) (ops : list dop) 
    (n : nat) (w wn : world K V T),
  WF (self w) ->
  Forall (op_ok E) ops ->
  NoDup (owned E (self w) ++ flat_map (op_ins E) ops ++ dropped (log w)) ->
  mfinal E debug (firstn n ops) w = Some wn ->
  NoDup
    (owned E (self wn) ++
     mouts E debug (firstn n ops) w ++ flat_map (op_ins E) (skipn n ops) ++ dropped (log wn)).
Proof. exact (@run_NoDup_prefix). Qed.
Print Assumptions C02_run_NoDup_prefix.

(* the same with drains (taken n, then dropped), iteration, entry and extend
   interleaved, and for Set (hypothesis: () carries no identity,
   C02_example_unit_no_id) *)
Theorem C02_run2_acct :
  forall (K V Q T : Type) (E : env K V Q T) (debug : bool) (ops : list dop2) (w : world K V T),
  WF (self w) ->
  Forall (op2_ok E) ops ->
  exists (wf : world K V T) (lost : list N),
    mfinal2 E debug ops w = Some wf /\
    WF (self wf) /\
    cap (self wf) = cap (self w) /\
    Permutation (owned E (self wf) ++ mouts2 E debug ops w ++ lost ++ dropped (log wf))
      (owned E (self w) ++ flat_map (op2_ins E) ops ++ dropped (log w)).
Proof. exact (@run2_acct). Qed.
Print Assumptions C02_run2_acct.

Theorem C02_run2_NoDup :
  forall (K V Q T : Type) (E : env K V Q T) (debug : bool) (ops : list dop2)
    (w wf : world K V T) (extra : list N),
  WF (self w) ->
  Forall (op2_ok E) ops ->
  NoDup (owned E (self w) ++ flat_map (op2_ins E) ops ++ extra ++ dropped (log w)) ->
  mfinal2 E debug ops w = Some wf ->
  NoDup (owned E (self wf) ++ mouts2 E debug ops w ++ extra ++ dropped (log wf)).
Proof. exact (@run2_NoDup). Qed.
Print Assumptions C02_run2_NoDup.

Theorem C02_srun_acct :
  forall (K Q T : Type) (E : env K unit Q T) (debug : bool),
  idV E tt = [] ->
  forall (ops : list sop) (w : world K unit T),
  WF (self w) ->
  exists (wf : world K unit T) (lost : list N),
    smfinal E debug ops w = Some wf /\
    WF (self wf) /\
    cap (self wf) = cap (self w) /\
    Permutation (owned E (self wf) ++ souts E debug ops w ++ lost ++ dropped (log wf))
      (owned E (self w) ++ flat_map (sop_ins E) ops ++ dropped (log w)).
Proof. exact (@srun_acct). Qed.
Print Assumptions C02_srun_acct.

Theorem C02_srun_NoDup :
  forall (K Q T : Type) (E : env K unit Q T) (debug : bool),
  idV E tt = [] ->
  forall (ops : list sop) (w wf : world K unit T) (extra : list N),
  WF (self w) ->
  NoDup (owned E (self w) ++ flat_map (sop_ins E) ops ++ extra ++ dropped (log w)) ->
  smfinal E debug ops w = Some wf ->
  NoDup (owned E (self wf) ++ souts E debug ops w ++ extra ++ dropped (log wf)).
Proof. exact (@srun_NoDup). Qed.
Print Assumptions C02_srun_NoDup.

(* -------------------------------------------------------------------------- *)
(* "that lost = [] needs Tidy ... never shown to be preserved along a run":
   under a lawful environment (Spec.Lawful: == is class equality and never
   panics, Drop never panics; closures of mstep are pure) every step, returning
   OR panicking, leaves the container Tidy, and the accounting is EXACT (no
   `lost`): every identity is in exactly one place - stored / with the caller /
   destroyed - after every history.  A lawful panic is a rejection (insert into a
   full map: the arguments are destroyed once; Index of an absent key). *)
Theorem C02_step_tidy :
  forall (K V Q T : Type) (E : env K V Q T) (debug : bool) (ck : K -> N) (cq : Q -> N),
  Lawful E ck cq ->
  forall (o : dop) (w : world K V T),
  op_ok E o ->
  WF (self w) ->
  Tidy (self w) ->
  match mstep E debug o w with
  | Ok _ w' | Panic w' => Tidy (self w')
  | UB => False
  end.
Proof. exact (@step_tidy). Qed.
Print Assumptions C02_step_tidy.

Theorem C02_run_tidy :
  forall (K V Q T : Type) (E : env K V Q T) (debug : bool) (ck : K -> N) (cq : Q -> N),
  Lawful E ck cq ->
  forall (ops : list dop) (w wf : world K V T),
  WF (self w) ->
  Tidy (self w) -> Forall (op_ok E) ops -> mfinal E debug ops w = Some wf -> Tidy (self wf).
Proof. exact (@run_tidy). Qed.
Print Assumptions C02_run_tidy.

Theorem C02_run_exact :
  forall (K V Q T : Type) (E : env K V Q T) (debug : bool) (ck : K -> N) (cq : Q -> N),
  Lawful E ck cq ->
  forall (ops : list dop) (w : world K V T),
  WF (self w) ->
  Tidy (self w) ->
  Forall (op_ok E) ops ->
  exists wf : world K V T,
    mfinal E debug ops w = Some wf /\
    WF (self wf) /\
    cap (self wf) = cap (self w) /\
    Tidy (self wf) /\
    Permutation (owned E (self wf) ++ mouts_x E debug ops w ++ dropped (log wf))
      (owned E (self w) ++ flat_map (op_ins E) ops ++ dropped (log w)).
Proof. exact (@run_exact). Qed.
Print Assumptions C02_run_exact.

Theorem C02_run_exact_new :
  forall (K V Q T : Type) (E : env K V Q T) (debug : bool) (ck : K -> N) (cq : Q -> N),
  Lawful E ck cq ->
  forall (n : nat) (ops : list dop) (s : T),
  Forall (op_ok E) ops ->
  let w0 := {| cb := s; log := []; self := new_map n |} in
  exists wf : world K V T,
    mfinal E debug ops w0 = Some wf /\
    Tidy (self wf) /\
    Permutation (owned E (self wf) ++ mouts_x E debug ops w0 ++ dropped (log wf))
      (flat_map (op_ins E) ops).
Proof. exact (@run_exact_new). Qed.
Print Assumptions C02_run_exact_new.

Theorem C02_sstep_tidy :
  forall (K Q T : Type) (E : env K unit Q T) (debug : bool) (ck : K -> N) (cq : Q -> N),
  Lawful E ck cq ->
  idV E tt = [] ->
  forall (o : sop) (w : world K unit T),
  WF (self w) ->
  Tidy (self w) ->
  match sstep E debug o w with
  | Ok _ w' | Panic w' => Tidy (self w')
  | UB => False
  end.
Proof. exact (@sstep_tidy). Qed.
Print Assumptions C02_sstep_tidy.

Theorem C02_srun_tidy :
  forall (K Q T : Type) (E : env K unit Q T) (debug : bool) (ck : K -> N) (cq : Q -> N),
  Lawful E ck cq ->
  idV E tt = [] ->
  forall (ops : list sop) (w wf : world K unit T),
  WF (self w) -> Tidy (self w) -> smfinal E debug ops w = Some wf -> Tidy (self wf).
Proof. exact (@srun_tidy). Qed.
Print Assumptions C02_srun_tidy.

Theorem C02_srun_exact :
  forall (K Q T : Type) (E : env K unit Q T) (debug : bool) (ck : K -> N) (cq : Q -> N),
  Lawful E ck cq ->
  idV E tt = [] ->
  forall (ops : list sop) (w : world K unit T),
  WF (self w) ->
  Tidy (self w) ->
  exists wf : world K unit T,
    smfinal E debug ops w = Some wf /\
    WF (self wf) /\
    cap (self wf) = cap (self w) /\
    Tidy (self wf) /\
    Permutation (owned E (self wf) ++ souts E debug ops w ++ dropped (log wf))
      (owned E (self w) ++ flat_map (sop_ins E) ops ++ dropped (log w)).
Proof. exact (@srun_exact). Qed.
Print Assumptions C02_srun_exact.

(* -------------------------------------------------------------------------- *)
(* "its consuming iterators (into_iter, into_keys, into_values) ... partially
   consumed, dropped early": take n items, then drop the iterator (Drop for Map
   on what is left).  into_run n = n calls of IntoIter::next (pops from the END);
   evp E p = the drop events of pair p.  The destructor destroys exactly the
   len - n entries not yet yielded, each once, in slot order; every original
   entry is yielded or destroyed, never both; if a Drop panics a prefix of them
   was destroyed (the rest leaks). *)
Theorem C02_into_session_logs :
  forall (K V Q T : Type) (E : env K V Q T) (n : nat) (w : world K V T),
  WF (self w) ->
  wp (r <- into_run n;; drop_map E;; ret r)
    (fun (r : list (K * V)) (w' : world K V T) =>
     r = firstn n (rev (elems (self w))) /\
     log w' = log w ++ flat_map (evp E) (firstn (len (self w) - n) (elems (self w))) /\
     Permutation (r ++ firstn (len (self w) - n) (elems (self w))) (elems (self w)))
    (fun w' : world K V T =>
     exists k : nat,
       log w' =
       log w ++ flat_map (evp E) (firstn k (firstn (len (self w) - n) (elems (self w))))) w.
Proof. exact (@into_session_logs). Qed.
Print Assumptions C02_into_session_logs.

Theorem C02_into_session_NoDup :
  forall (K V Q T : Type) (E : env K V Q T) (n : nat) (w : world K V T),
  WF (self w) ->
  NoDup (flat_map (ids_pair E) (elems (self w))) ->
  wp (r <- into_run n;; drop_map E;; ret r)
    (fun (r : list (K * V)) (w' : world K V T) =>
     exists evs : list event,
       log w' = log w ++ evs /\
       NoDup (flat_map (ids_pair E) r ++ dropped evs) /\
       Permutation (flat_map (ids_pair E) r ++ dropped evs)
         (flat_map (ids_pair E) (elems (self w))))
    (fun w' : world K V T =>
     exists evs : list event,
       log w' = log w ++ evs /\
       NoDup (flat_map (ids_pair E) (firstn n (rev (elems (self w)))) ++ dropped evs)) w.
Proof. exact (@into_session_NoDup). Qed.
Print Assumptions C02_into_session_NoDup.

(* ledger form, also for IntoKeys / IntoValues (ss_into_keys_run E n = n calls of
   Owned2.into_keys_next E, which destroys the value half of each yielded pair):
   from a Tidy state nothing is lost and nothing remains stored *)
Theorem C02_into_session_acct :
  forall (K V Q T : Type) (E : env K V Q T) (n : nat) (w : world K V T),
  WF (self w) ->
  wp (r <- into_run n;; drop_map E;; ret r)
    (fun (r : list (K * V)) (w' : world K V T) =>
     exists lost : list N,
       acct E w w' [] (flat_map (ids_pair E) r) lost /\
       (Tidy (self w) -> lost = [] /\ owned E (self w') = []))
    (fun w' : world K V T => exists lost : list N, acct E w w' [] [] lost) w.
Proof. exact (@into_session_acct). Qed.
Print Assumptions C02_into_session_acct.

Theorem C02_into_keys_session_acct :
  forall (K V Q T : Type) (E : env K V Q T) (n : nat) (w : world K V T),
  WF (self w) ->
  wp (r <- ss_into_keys_run E n;; drop_map E;; ret r)
    (fun (r : list K) (w' : world K V T) =>
     exists lost : list N,
       acct E w w' [] (flat_map (idK E) r) lost /\
       (Tidy (self w) -> lost = [] /\ owned E (self w') = []))
    (fun w' : world K V T => exists lost : list N, acct E w w' [] [] lost) w.
Proof. exact (@into_keys_session_acct). Qed.
Print Assumptions C02_into_keys_session_acct.

Theorem C02_into_values_session_acct :
  forall (K V Q T : Type) (E : env K V Q T) (n : nat) (w : world K V T),
  WF (self w) ->
  wp (r <- ss_into_values_run E n;; drop_map E;; ret r)
    (fun (r : list V) (w' : world K V T) =>
     exists lost : list N,
       acct E w w' [] (flat_map (idV E) r) lost /\
       (Tidy (self w) -> lost = [] /\ owned E (self w') = []))
    (fun w' : world K V T => exists lost : list N, acct E w w' [] [] lost) w.
Proof. exact (@into_values_session_acct). Qed.
Print Assumptions C02_into_values_session_acct.

(* "or forgotten": mem::forget of a Drain after n items destroys NOTHING (log
   unchanged); the map is empty at once (len = 0), the yielded items are the
   caller's and the not-yielded elements stay in the dead slots at or above len
   (they are part of owned E (self w'): leaked).  This theorem alone does not say
   that they are never read again; that is C02_mstep_provenance (every later
   operation hands out / destroys only LIVE elements and its arguments, any
   environment) and C02_drain_forgotten_then_run_refines (the continued history
   is indistinguishable from one on a fresh empty map, lawful environment) *)
Theorem C02_drain_forgotten_log :
  forall (K V Q T : Type) (E : env K V Q T) (n : nat) (w : world K V T),
  WF (self w) ->
  wp (c <- drain;; drain_run n c)
    (fun (r : list (K * V) * cursor) (w' : world K V T) =>
     WF (self w') /\
     len (self w') = 0 /\
     cap (self w') = cap (self w) /\
     log w' = log w /\
     fst r = firstn n (elems (self w)) /\
     Permutation (owned E (self w') ++ flat_map (ids_pair E) (fst r)) (owned E (self w)))
    (fun _ : world K V T => False) w.
Proof. exact (@drain_forgotten_log). Qed.
Print Assumptions C02_drain_forgotten_log.

(* -------------------------------------------------------------------------- *)
(* retain / and_modify when the closure REPLACES `*v` by a new object.  The model
   writes the value the closure returns into the slot and logs no drop event for
   the old one (in Rust the assignment inside the closure runs the old value's
   destructor in USER code): the old value's identities are handed OUT to the
   closure, the new one's come IN.
     ss_pred_post E f i w w' := exists k v v', slot i of w held (k,v) /\
        v' = snd (fst (f (cb w) k v)) /\ slot i of w' holds (k,v') /\
        cpostN E w (idV E v') (idV E v) w' /\ len (self w') = len (self w)
     ss_modf_post: the same for and_modify's closure
     ss_pred_rel f v v' := exists s k, snd (fst (f s k v)) = v'
   For the whole retain: olds = the values the closure replaced, news = what it
   returned for them; nothing is lost from a tidy state even when the closure or
   a Drop panics (the panic postcondition is the full cpostN). *)
Theorem C02_call_pred_acct_gen :
  forall (K V Q T : Type) (E : env K V Q T) (f : pred_t) (i : nat) (w : world K V T),
  WF (self w) ->
  i < len (self w) ->
  wp (call_pred f i) (fun _ : bool => ss_pred_post E f i w) (ss_pred_post E f i w) w.
Proof. exact (@call_pred_acct_gen). Qed.
Print Assumptions C02_call_pred_acct_gen.

Theorem C02_retain_conserves_gen :
  forall (K V Q T : Type) (E : env K V Q T) (debug : bool) (f : pred_t) (w : world K V T),
  WF (self w) ->
  wp (retain E debug f)
    (fun (_ : unit) (w' : world K V T) =>
     exists olds news : list V,
       Forall2 (ss_pred_rel f) olds news /\
       cpostN E w (flat_map (idV E) news) (flat_map (idV E) olds) w')
    (fun w' : world K V T =>
     exists olds news : list V,
       Forall2 (ss_pred_rel f) olds news /\
       cpostN E w (flat_map (idV E) news) (flat_map (idV E) olds) w') w.
Proof. exact (@retain_conserves_gen). Qed.
Print Assumptions C02_retain_conserves_gen.

Theorem C02_call_modf_acct_gen :
  forall (K V Q T : Type) (E : env K V Q T) (f : modf_t) (i : nat) (w : world K V T),
  WF (self w) ->
  i < len (self w) ->
  wp (call_modf f i) (fun _ : unit => ss_modf_post E f i w) (ss_modf_post E f i w) w.
Proof. exact (@call_modf_acct_gen). Qed.
Print Assumptions C02_call_modf_acct_gen.

Theorem C02_and_modify_acct_gen :
  forall (K V Q T : Type) (E : env K V Q T) (e : entry) (f : modf_t) (w : world K V T),
  WF (self w) ->
  entry_ok e (self w) ->
  wp (and_modify e f)
    (fun (e' : entry) (w' : world K V T) =>
     e' = e /\
     entry_ok e' (self w') /\
     match e with
     | Occupied i => ss_modf_post E f i w w'
     | Vacant k => cpostN E w (idK E k) (idK E k) w'
     end)
    (fun w' : world K V T =>
     match e with
     | Occupied i => ss_modf_post E f i w w'
     | Vacant _ => False
     end) w.
Proof. exact (@and_modify_acct_gen). Qed.
Print Assumptions C02_and_modify_acct_gen.

(* the identity hypothesis of C02_conserves_retain / C02_conserves_and_modify and
   of op_ok holds of the interpreter's closures, for EVERY script *)
Theorem C02_pred_m_keeps_id :
  forall (sc : script) (dflt : N) (tab : list (N * N)) (s : cstate) (k : key) (v : vobj),
  idV (env_map sc) (snd (fst (pred_m sc dflt tab s k v))) = idV (env_map sc) v.
Proof. exact (@pred_m_keeps_id). Qed.
Print Assumptions C02_pred_m_keeps_id.

Theorem C02_conserves_retain_pred_m :
  forall (debug : bool) (sc : script) (dflt : N) (tab : list (N * N)),
  conserves (env_map sc) (retain (env_map sc) debug (pred_m sc dflt tab)) []
    (fun _ : unit => []).
Proof. exact (@conserves_retain_pred_m). Qed.
Print Assumptions C02_conserves_retain_pred_m.

Theorem C02_modf_add_keeps_id :
  forall (sc : script) (s : cstate) (v : vobj),
  idV (env_map sc) (snd (fst (modf_add sc s v))) = idV (env_map sc) v.
Proof. exact (@modf_add_keeps_id). Qed.
Print Assumptions C02_modf_add_keeps_id.

(* -------------------------------------------------------------------------- *)
(* Clone::clone / clone_from, FromIterator, From<[_; N]>, serde decode at
   OPERATION level (the shape the interpreter runs: Exec.replace_with E build
   body = build a fresh container in a local starting from Map::new(), install
   it in the register, then drop the old contents).  EVERY environment.
   Normal return: the register holds the fresh container (Tidy); d = what the
   drop of the OLD contents destroyed, d ++ lost = the old contents (lost = []
   from a tidy register); everything built is stored or was destroyed once.
   Panic, first disjunct: the BUILD panicked - self w' = self w: the register is
   untouched, what had been built was destroyed by the unwinding of the local
   (for Clone: exactly made ++ orphan, nothing leaked).  Panic, second disjunct: the build succeeded and a Drop of an old
   element panicked: the register already holds the new container. *)
Theorem C02_replace_with_build_panic_keeps_self :
  forall (V : Type) (E : env key V query cstate) (build : M key V cstate unit) 
    (body : list N) (w w1 : world key V cstate),
  build (with_self w (new_map (cap (self w)))) = Panic w1 ->
  replace_with E build body w = Panic (with_self w1 (self w)).
Proof. exact (@replace_with_build_panic_keeps_self). Qed.
Print Assumptions C02_replace_with_build_panic_keeps_self.

Theorem C02_replace_with_acct :
  forall (V : Type) (E : env key V query cstate) (build : M key V cstate unit)
    (body ins : list N) (w : world key V cstate),
  WF (self w) ->
  wp build
    (fun (_ : unit) (w1 : world key V cstate) =>
     WF (self w1) /\
     cap (self w1) = cap (self w) /\
     Tidy (self w1) /\
     Permutation (owned E (self w1) ++ dropped (log w1)) (ins ++ dropped (log w)))
    (fun w1 : world key V cstate =>
     exists lost : list N, Permutation (lost ++ dropped (log w1)) (ins ++ dropped (log w)))
    (with_self w (new_map (cap (self w)))) ->
  wp (replace_with E build body)
    (fun (r : list N) (w' : world key V cstate) =>
     r = body /\
     WF (self w') /\
     cap (self w') = cap (self w) /\
     Tidy (self w') /\
     (exists d lost : list N,
        Permutation (d ++ lost) (owned E (self w)) /\
        Permutation (owned E (self w') ++ dropped (log w')) (ins ++ dropped (log w) ++ d) /\
        (Tidy (self w) -> lost = [])))
    (fun w' : world key V cstate =>
     self w' = self w /\
     (exists lost : list N, Permutation (lost ++ dropped (log w')) (ins ++ dropped (log w))) \/
     WF (self w') /\
     cap (self w') = cap (self w) /\
     Tidy (self w') /\
     (exists d lost : list N,
        Permutation (d ++ lost) (owned E (self w)) /\
        Permutation (owned E (self w') ++ dropped (log w')) (ins ++ dropped (log w) ++ d))) w.
Proof. exact (@replace_with_acct). Qed.
Print Assumptions C02_replace_with_acct.

Theorem C02_replace_with_acct_NoDup :
  forall (V : Type) (E : env key V query cstate) (build : M key V cstate unit)
    (body ins : list N) (w : world key V cstate),
  WF (self w) ->
  wp build
    (fun (_ : unit) (w1 : world key V cstate) =>
     WF (self w1) /\
     cap (self w1) = cap (self w) /\
     Tidy (self w1) /\
     Permutation (owned E (self w1) ++ dropped (log w1)) (ins ++ dropped (log w)))
    (fun w1 : world key V cstate =>
     exists lost : list N, Permutation (lost ++ dropped (log w1)) (ins ++ dropped (log w)))
    (with_self w (new_map (cap (self w)))) ->
  NoDup (owned E (self w) ++ ins ++ dropped (log w)) ->
  wp (replace_with E build body)
    (fun (_ : list N) (w' : world key V cstate) =>
     NoDup (owned E (self w') ++ dropped (log w')))
    (fun w' : world key V cstate => NoDup (owned E (self w') ++ dropped (log w'))) w.
Proof. exact (@replace_with_acct_NoDup). Qed.
Print Assumptions C02_replace_with_acct_NoDup.

(* clone / clone_from (OClone, OCloneFrom, SClone, SCloneFrom): made = what the
   Clone callbacks returned (Owned2.clone_made); src is a parameter: untouched *)
Theorem C02_op_clone_acct :
  forall (V : Type) (E : env key V query cstate) (src : map key V) 
    (body : list N) (w : world key V cstate),
  WF src ->
  WF (self w) ->
  cap src = cap (self w) ->
  let made := flat_map (ids_pair E) (clone_made E src (len src) 0 (cb w)) in
  let orphan := clone_orphans E src (len src) 0 (cb w) in
  wp (replace_with E (clone_from_src E src) body)
    (fun (r : list N) (w' : world key V cstate) =>
     r = body /\
     WF (self w') /\
     cap (self w') = cap (self w) /\
     Tidy (self w') /\
     len (self w') = len src /\
     length (clone_made E src (len src) 0 (cb w)) = len src /\
     Permutation (owned E (self w')) made /\
     (exists d lost : list N,
        dropped (log w') = dropped (log w) ++ d /\
        Permutation (d ++ lost) (owned E (self w)) /\ (Tidy (self w) -> lost = [])))
    (fun w' : world key V cstate =>
     self w' = self w /\
     (exists d : list N,
        dropped (log w') = dropped (log w) ++ d /\ Permutation d (made ++ orphan)) \/
     WF (self w') /\
     cap (self w') = cap (self w) /\
     Tidy (self w') /\
     len (self w') = len src /\
     Permutation (owned E (self w')) made /\
     (exists d lost : list N,
        dropped (log w') = dropped (log w) ++ d /\ Permutation (d ++ lost) (owned E (self w))))
    w.
Proof. exact (@op_clone_acct). Qed.
Print Assumptions C02_op_clone_acct.

(* collect / From<[_; N]>: any source nx; the array source never panics:
   nx = fun s => (No, s) (Exec.nx_none).  Every item is stored or destroyed
   exactly once, in both outcomes *)
Theorem C02_op_from_iter_acct :
  forall (V : Type) (E : env key V query cstate) (debug : bool) (nx : cstate -> ans * cstate)
    (items : list (key * V)) (body : list N) (w : world key V cstate),
  WF (self w) ->
  let ins := flat_map (ids_pair E) items in
  wp (replace_with E (from_iter E debug nx items) body)
    (fun (r : list N) (w' : world key V cstate) =>
     r = body /\
     WF (self w') /\
     cap (self w') = cap (self w) /\
     Tidy (self w') /\
     (exists d lost : list N,
        Permutation (d ++ lost) (owned E (self w)) /\
        Permutation (owned E (self w') ++ dropped (log w')) (ins ++ dropped (log w) ++ d) /\
        (Tidy (self w) -> lost = [])))
    (fun w' : world key V cstate =>
     self w' = self w /\
     (exists lost : list N, Permutation (lost ++ dropped (log w')) (ins ++ dropped (log w))) \/
     WF (self w') /\
     cap (self w') = cap (self w) /\
     Tidy (self w') /\
     (exists d lost : list N,
        Permutation (d ++ lost) (owned E (self w)) /\
        Permutation (owned E (self w') ++ dropped (log w')) (ins ++ dropped (log w) ++ d))) w.
Proof. exact (@op_from_iter_acct). Qed.
Print Assumptions C02_op_from_iter_acct.

Theorem C02_from_iter_arr_acct :
  forall (K V Q T : Type) (E : env K V Q T) (debug : bool) (items : list (K * V))
    (w : world K V T),
  WF (self w) ->
  wp (from_iter E debug (fun s : T => (No, s)) items)
    (fun (_ : unit) (w' : world K V T) =>
     WF (self w') /\
     cap (self w') = cap (self w) /\
     (exists lost : list N,
        acct E w w' (flat_map (ids_pair E) items) [] lost /\
        (Tidy (self w) -> lost = [] /\ Tidy (self w'))))
    (fun w' : world K V T =>
     exists lost : list N, acct E w w' (flat_map (ids_pair E) items) [] lost) w.
Proof. exact (@from_iter_arr_acct). Qed.
Print Assumptions C02_from_iter_arr_acct.

Theorem C02_from_iter_NoDup :
  forall (K V Q T : Type) (E : env K V Q T) (debug : bool) (nx : T -> ans * T)
    (items : list (K * V)) (w : world K V T),
  WF (self w) ->
  NoDup (owned E (self w) ++ flat_map (ids_pair E) items ++ dropped (log w)) ->
  wp (from_iter E debug nx items)
    (fun (_ : unit) (w' : world K V T) => NoDup (owned E (self w') ++ dropped (log w')))
    (fun w' : world K V T => NoDup (owned E (self w') ++ dropped (log w'))) w.
Proof. exact (@from_iter_NoDup). Qed.
Print Assumptions C02_from_iter_NoDup.

Theorem C02_s_from_iter_arr_acct :
  forall (K Q T : Type) (E : env K unit Q T) (debug : bool),
  idV E tt = [] ->
  forall (items : list K) (w : world K unit T),
  WF (self w) ->
  wp (s_from_iter E debug (fun s : T => (No, s)) items)
    (fun (_ : unit) (w' : world K unit T) =>
     WF (self w') /\
     cap (self w') = cap (self w) /\
     (exists lost : list N,
        acct E w w' (flat_map (fun k : K => ids_pair E (k, tt)) items) [] lost /\
        (Tidy (self w) -> lost = [] /\ Tidy (self w'))))
    (fun w' : world K unit T =>
     exists lost : list N,
       acct E w w' (flat_map (fun k : K => ids_pair E (k, tt)) items) [] lost) w.
Proof. exact (@cf_s_from_iter_arr_acct). Qed.
Print Assumptions C02_s_from_iter_arr_acct.

Theorem C02_op_s_from_iter_acct :
  forall (E : env key unit query cstate) (debug : bool),
  idV E tt = [] ->
  forall (nx : cstate -> ans * cstate) (items : list key) (body : list N) (w : sworld),
  WF (self w) ->
  let ins := flat_map (fun k : key => ids_pair E (k, tt)) items in
  wp (replace_with E (s_from_iter E debug nx items) body)
    (fun (r : list N) (w' : sworld) =>
     r = body /\
     WF (self w') /\
     cap (self w') = cap (self w) /\
     Tidy (self w') /\
     (exists d lost : list N,
        Permutation (d ++ lost) (owned E (self w)) /\
        Permutation (owned E (self w') ++ dropped (log w')) (ins ++ dropped (log w) ++ d) /\
        (Tidy (self w) -> lost = [])))
    (fun w' : sworld =>
     self w' = self w /\
     (exists lost : list N, Permutation (lost ++ dropped (log w')) (ins ++ dropped (log w))) \/
     WF (self w') /\
     cap (self w') = cap (self w) /\
     Tidy (self w') /\
     (exists d lost : list N,
        Permutation (d ++ lost) (owned E (self w)) /\
        Permutation (owned E (self w') ++ dropped (log w')) (ins ++ dropped (log w) ++ d))) w.
Proof. exact (@cf_op_s_from_iter_acct). Qed.
Print Assumptions C02_op_s_from_iter_acct.

(* serde decode (Exec.visit_map / visit_seq): decoding entry j creates the fresh
   objects next_id, next_id+1 (key, value; one per element for a Set);
   cf_fresh_ids a n = [a; a+1; ...; a+n-1].  All of them are stored or destroyed
   once; on a panic after n entries exactly 2n (n) ids were created. *)
Theorem C02_conserves_visit_map :
  forall (debug : bool) (sc : script) (items : list (key * vobj)) (w : mworld),
  WF (self w) ->
  wp (visit_map debug sc items)
    (fun (_ : unit) (w' : mworld) =>
     cpostN (env_map sc) w (cf_fresh_ids (next_id (cb w)) (2 * length items)) [] w' /\
     next_id (cb w') = (next_id (cb w) + N.of_nat (2 * length items))%N)
    (fun w' : mworld =>
     exists n : nat,
       n <= length items /\
       cpostP (env_map sc) w (cf_fresh_ids (next_id (cb w)) (2 * n)) w' /\
       next_id (cb w') = (next_id (cb w) + N.of_nat (2 * n))%N) w.
Proof. exact (@conserves_visit_map). Qed.
Print Assumptions C02_conserves_visit_map.

Theorem C02_conserves_visit_seq :
  forall (debug : bool) (sc : script) (items : list key) (w : sworld),
  WF (self w) ->
  wp (visit_seq debug sc items)
    (fun (_ : unit) (w' : sworld) =>
     cpostN (env_set sc) w (cf_fresh_ids (next_id (cb w)) (length items)) [] w' /\
     next_id (cb w') = (next_id (cb w) + N.of_nat (length items))%N)
    (fun w' : sworld =>
     exists n : nat,
       n <= length items /\
       cpostP (env_set sc) w (cf_fresh_ids (next_id (cb w)) n) w' /\
       next_id (cb w') = (next_id (cb w) + N.of_nat n)%N) w.
Proof. exact (@conserves_visit_seq). Qed.
Print Assumptions C02_conserves_visit_seq.

Theorem C02_op_serde_acct :
  forall (debug : bool) (sc : script) (src : map key vobj) (body : list N) (w : mworld),
  WF (self w) ->
  let L := length (Exec.elems src) in
  let a := next_id (cb w) in
  wp
    (replace_with (env_map sc)
       (finally_drop (env_map sc) (visit_map debug sc (Exec.elems src))) body)
    (fun (r : list N) (w' : mworld) =>
     r = body /\
     WF (self w') /\
     cap (self w') = cap (self w) /\
     Tidy (self w') /\
     next_id (cb w') = (a + N.of_nat (2 * L))%N /\
     (exists d lost : list N,
        Permutation (d ++ lost) (owned (env_map sc) (self w)) /\
        Permutation (owned (env_map sc) (self w') ++ dropped (log w'))
          (cf_fresh_ids a (2 * L) ++ dropped (log w) ++ d) /\ (Tidy (self w) -> lost = [])))
    (fun w' : mworld =>
     self w' = self w /\
     (exists (n : nat) (lost : list N),
        n <= L /\
        next_id (cb w') = (a + N.of_nat (2 * n))%N /\
        Permutation (lost ++ dropped (log w')) (cf_fresh_ids a (2 * n) ++ dropped (log w))) \/
     WF (self w') /\
     cap (self w') = cap (self w) /\
     Tidy (self w') /\
     next_id (cb w') = (a + N.of_nat (2 * L))%N /\
     (exists d lost : list N,
        Permutation (d ++ lost) (owned (env_map sc) (self w)) /\
        Permutation (owned (env_map sc) (self w') ++ dropped (log w'))
          (cf_fresh_ids a (2 * L) ++ dropped (log w) ++ d))) w.
Proof. exact (@op_serde_acct). Qed.
Print Assumptions C02_op_serde_acct.

Theorem C02_op_serde_set_acct :
  forall (debug : bool) (sc : script) (src : map key unit) (body : list N) (w : sworld),
  WF (self w) ->
  let L := length (List.map fst (Exec.elems src)) in
  let a := next_id (cb w) in
  wp
    (replace_with (env_set sc)
       (finally_drop (env_set sc) (visit_seq debug sc (List.map fst (Exec.elems src)))) body)
    (fun (r : list N) (w' : sworld) =>
     r = body /\
     WF (self w') /\
     cap (self w') = cap (self w) /\
     Tidy (self w') /\
     next_id (cb w') = (a + N.of_nat L)%N /\
     (exists d lost : list N,
        Permutation (d ++ lost) (owned (env_set sc) (self w)) /\
        Permutation (owned (env_set sc) (self w') ++ dropped (log w'))
          (cf_fresh_ids a L ++ dropped (log w) ++ d) /\ (Tidy (self w) -> lost = [])))
    (fun w' : sworld =>
     self w' = self w /\
     (exists (n : nat) (lost : list N),
        n <= L /\
        next_id (cb w') = (a + N.of_nat n)%N /\
        Permutation (lost ++ dropped (log w')) (cf_fresh_ids a n ++ dropped (log w))) \/
     WF (self w') /\
     cap (self w') = cap (self w) /\
     Tidy (self w') /\
     next_id (cb w') = (a + N.of_nat L)%N /\
     (exists d lost : list N,
        Permutation (d ++ lost) (owned (env_set sc) (self w)) /\
        Permutation (owned (env_set sc) (self w') ++ dropped (log w'))
          (cf_fresh_ids a L ++ dropped (log w) ++ d))) w.
Proof. exact (@cf_op_serde_set_acct). Qed.
Print Assumptions C02_op_serde_set_acct.

(* -------------------------------------------------------------------------- *)
(* non-vacuity of the history theorems: a concrete history on the full 3-entry
   map m3 under an ADVERSARIAL script (seed 4: == lies pseudo-randomly; the other
   three kinds of misbehaving == are in Props/C17.v): WF, op_ok,
   freshness hold; the run exists.  The first insert (class 9, absent) gets a
   wrong "equal" answer and overwrites the value of another key - a wrong answer
   - yet the ledger balances: stored 13 14, with the caller 4 2 8 6 1 11,
   destroyed 7 10 3 5 12, and 15 (the value a panicking IndexMut never moved)
   is the only identity in `lost`. *)
Definition C02_ops1 : list (@dop key vobj query) :=
  [DInsert (k_ 7 9) (v_ 8 1); DInsert (k_ 10 5) (v_ 11 2); DRemove (QCls 6); DGetMut (QCls 7) (v_ 12 3);
   DRetain (fun k v => (N.eqb (kcls k) 5, v)); DInsertKV (k_ 13 5) (v_ 14 4); DIndexMut (QCls 99) (v_ 15 0)].
Definition C02_sc_adv : script := {| sc_adv := true; sc_seed := 4; sc_fk := 0; sc_fa := 0 |}.   (* 4 mod 4 = 0: PRNG lies *)
Definition C02_sc0 : script := {| sc_adv := false; sc_seed := 0; sc_fk := 0; sc_fa := 0 |}.

Example C02_example_history_hyps :
  WF (self (w_of m3)) /\ Forall (op_ok (env_map C02_sc_adv)) C02_ops1 /\
  NoDup (owned (env_map C02_sc_adv) (self (w_of m3)) ++ flat_map (op_ins (env_map C02_sc_adv)) C02_ops1 ++
         dropped (log (w_of m3))).
Proof.
  split; [exact m3_WF|]. split; [repeat constructor|].
  vm_compute. repeat constructor; cbn [In]; intros H;
    repeat (destruct H as [H | H]; try discriminate H); exact H.
Qed.

Example C02_example_history_adversarial :
  match mfinal (env_map C02_sc_adv) false C02_ops1 (w_of m3) with
  | Some wf => owned (env_map C02_sc_adv) (self wf) = [13; 14]%N /\
               mouts (env_map C02_sc_adv) false C02_ops1 (w_of m3) = [4; 2; 8; 6; 1; 11]%N /\
               dropped (log wf) = [7; 10; 3; 5; 12]%N
  | None => False
  end.
Proof. vm_compute. repeat split; reflexivity. Qed.

(* the same history under the honest script: env_map C02_sc0 is Lawful, m3 is
   Tidy (C02_example_Tidy); the accounting is exact, 15 is with the caller *)
Example C02_example_lawful : Lawful (env_map C02_sc0) kcls qcls.
Proof. apply env_map_lawful. split; reflexivity. Qed.

Example C02_example_history_honest :
  match mfinal (env_map C02_sc0) false C02_ops1 (w_of m3) with
  | Some wf => owned (env_map C02_sc0) (self wf) = [13; 14]%N /\
               mouts_x (env_map C02_sc0) false C02_ops1 (w_of m3) = [2; 4; 6; 1; 11; 15]%N /\
               dropped (log wf) = [8; 7; 10; 3; 5; 12]%N
  | None => False
  end.
Proof. vm_compute. repeat split; reflexivity. Qed.

(* the freshness hypothesis of C02_into_session_NoDup holds of m3 *)
Example C02_example_into_session :
  NoDup (flat_map (ids_pair (env_map C02_sc0)) (Spec.elems (self (w_of m3)))).
Proof.
  vm_compute. repeat constructor; cbn [In]; intros H;
    repeat (destruct H as [H | H]; try discriminate H); exact H.
Qed.


(* ========================================================================== *)
(* ADDENDUM 2 (second audit round).  New lemmas: Proofs/MoreHist.v.

   VOCABULARY (Proofs/MoreHist.v)
     cop / cstep E debug o / cfinal E debug ops w
        a RICHER history interpreter for an ARBITRARY environment E, composed
        from the model's functions as Exec.step composes them:
          CBase o            the operations of Dict2 (13 dictionary operations,
                             drain(take n)+drop, iteration, entry().or_insert, extend)
          CRetainF f         retain with a STATEFUL predicate f : pred_t that may panic
          CEntryWith k f     *entry(k).or_insert_with(f), f : T -> option V * T (None = panics)
          CEntryWithKey k f  *entry(k).or_insert_with_key(f)
          CAndModify k f v   *entry(k).and_modify(f).or_insert(v), f : modf_t may panic
          CDisjoint ks u     get_disjoint_mut ks / get_disjoint_unchecked_mut ks (u = true)
          CCloneFrom src     self.clone_from(&src): replace_g E (clone_from_src E src)
                             when the capacities agree (as Exec.step, OCloneFrom)
          CFromIter nx items *self = items.collect(): replace_g E (from_iter E debug nx items);
                             the source's next() = nx may panic at any call
          CEq other          *self == other (map_eq)
          CIntoRun kind n forget   mem::take(self).into_iter() / into_keys() / into_values():
                             the container is detached (detach_g; the register is left
                             empty), n items are taken inside finally_drop (the iterator
                             is a local: a panic unwinds through its destructor), then the
                             iterator is dropped (drop_map) or forgotten
          CDrainForget n     drain(), n items taken, mem::forget(drain)
        replace_g / swap_g / detach_g are Exec.replace_with / swap_self / the
        `get_cap; get_self; put_self (new_map c); swap_self old ..` prefix of the
        OIntoIter arm at arbitrary types (C02_replace_g_is_replace_with).
     c_ins E o w       identities the step takes in, as a function of the state it starts
                       from: the arguments AND the objects user code CREATES during the
                       step - the value the entry closure returns (made_entry / made_val at
                       the callback state after entry()'s scan), the clones (clone_made ++
                       clone_orphans from cb w).  cins E debug ops w concatenates them along
                       the actual run.
     c_outs E o r      identities handed back: as op2_outs for CBase; the yielded pairs /
                       keys / values of a consuming session; the items of a forgotten drain.
     c_ok E o          what the ledger needs: CBase o: op2_ok; CRetainF f and CAndModify _ f _:
                       the closure may rewrite the value in place but keeps its identity
                       (a REPLACING closure creates objects inside the loop from
                       intermediate callback states; the model has no function naming them:
                       C02_retain_conserves_gen gives them existentially, per call);
                       CCloneFrom src, CEq other: the other container is WF.  No hypothesis
                       on ==, Clone, Drop, on whether closures / predicates / the source
                       panic, nor on entry closures.
     dconserves E stp ins outs o := forall w, WF (self w) -> wp (stp o)
                       (fun a w' => WF (self w') /\ cap (self w') = cap (self w) /\
                                    exists lost, acct E w w' (ins o w) (outs o a) lost)
                       (fun w' => ... acct E w w' (ins o w) [] lost) w
     DropCalm E        no Drop ever panics (== and Clone arbitrary: == may lie AND panic)
     live_ids E m      flat_map (ids_pair E) (Spec.elems m): identities of the LIVE prefix;
     pv_stale_ids E m  those sitting in slots at or above len
   ========================================================================== *)
Require Import Proofs.MoreIter Proofs.MoreHist.

(* -------------------------------------------------------------------------- *)
(* "however the container, its consuming iterators and its drains are used":
   the ledger along histories that interleave stateful / panicking predicates and
   closures, get_disjoint_mut, clone_from, collect from a panicking source, ==,
   consuming iterators dropped or forgotten midway and forgotten drains with the
   dictionary operations - EVERY environment, both outcomes of every step *)
Theorem C02_cstep_dconserves :
  forall (K V Q T : Type) (E : env K V Q T) (debug : bool) (o : cop),
  c_ok E o -> dconserves E (cstep E debug) (c_ins E) (c_outs E) o.
Proof. exact (@cstep_dconserves). Qed.
Print Assumptions C02_cstep_dconserves.

Theorem C02_crun_acct :
  forall (K V Q T : Type) (E : env K V Q T) (debug : bool) (ops : list cop) (w : world K V T),
  WF (self w) ->
  Forall (c_ok E) ops ->
  exists (wf : world K V T) (lost : list N),
    cfinal E debug ops w = Some wf /\
    WF (self wf) /\
    cap (self wf) = cap (self w) /\
    Permutation (owned E (self wf) ++ couts E debug ops w ++ lost ++ dropped (log wf))
      (owned E (self w) ++ cins E debug ops w ++ dropped (log w)).
Proof. exact (@crun_acct). Qed.
Print Assumptions C02_crun_acct.

(* Assumed: the identities stored at the start, everything the history takes in
   (arguments and every object user code creates on the way: cins), uninvolved
   ones and those already destroyed are pairwise distinct.  Then at the end no
   identity occurs twice among stored ++ with the caller ++ extra ++ destroyed *)
Theorem C02_crun_NoDup :
  forall (K V Q T : Type) (E : env K V Q T) (debug : bool) (ops : list cop)
    (w wf : world K V T) (extra : list N),
  WF (self w) ->
  Forall (c_ok E) ops ->
  NoDup (owned E (self w) ++ cins E debug ops w ++ extra ++ dropped (log w)) ->
  cfinal E debug ops w = Some wf ->
  NoDup (owned E (self wf) ++ couts E debug ops w ++ extra ++ dropped (log wf)).
Proof. exact (@crun_NoDup). Qed.
Print Assumptions C02_crun_NoDup.

Theorem C02_crun_no_double_drop :
  forall (K V Q T : Type) (E : env K V Q T) (debug : bool) (ops : list cop)
    (w wf : world K V T),
  WF (self w) ->
  Forall (c_ok E) ops ->
  NoDup (owned E (self w) ++ cins E debug ops w ++ dropped (log w)) ->
  cfinal E debug ops w = Some wf ->
  NoDup (dropped (log wf)) /\
  NoDup (owned E (self wf)) /\
  (forall x : N,
   In x (owned E (self wf)) -> ~ In x (dropped (log wf)) /\ ~ In x (couts E debug ops w)) /\
  (forall x : N, In x (couts E debug ops w) -> ~ In x (dropped (log wf))).
Proof. exact (@crun_no_double_drop). Qed.
Print Assumptions C02_crun_no_double_drop.

(* the new interpreter extends the old one; its replace_g is Exec.replace_with *)
Theorem C02_cfinal_base :
  forall (K V Q T : Type) (E : env K V Q T) (debug : bool) (ops : list dop2) (w : world K V T),
  cfinal E debug (List.map CBase ops) w = mfinal2 E debug ops w.
Proof. exact (@cfinal_base). Qed.
Print Assumptions C02_cfinal_base.

Theorem C02_replace_g_is_replace_with :
  forall (V : Type) (E : env key V query cstate) (build : M key V cstate unit) 
    (body : list N) (w : world key V cstate),
  (replace_g E build;; ret body) w = replace_with E build body w.
Proof. exact (@replace_g_is_replace_with). Qed.
Print Assumptions C02_replace_g_is_replace_with.

(* -------------------------------------------------------------------------- *)
(* "exactly once" (not only "at most once") for an UNLAWFUL environment: == may
   lie in any way, even panic; only Drop must not panic (DropCalm).  From a Tidy
   state every history keeps Tidy and the accounting is exact (no `lost`).
   op_pouts_c: what a panicking get_mut / index_mut leaves with the caller (the
   value that was to be written).  Map (13 operations) and Set (all 9). *)
Theorem C02_run_exact_calm :
  forall (K V Q T : Type) (E : env K V Q T) (debug : bool) (ops : list dop) (w : world K V T),
  DropCalm E ->
  WF (self w) ->
  Tidy (self w) ->
  Forall (op_ok E) ops ->
  exists wf : world K V T,
    mfinal E debug ops w = Some wf /\
    WF (self wf) /\
    cap (self wf) = cap (self w) /\
    Tidy (self wf) /\
    Permutation
      (owned E (self wf) ++
       gouts (mstep E debug) (op_outs E) (op_pouts_c E) ops w ++ dropped (log wf))
      (owned E (self w) ++ flat_map (op_ins E) ops ++ dropped (log w)).
Proof. exact (@run_exact_calm). Qed.
Print Assumptions C02_run_exact_calm.

Theorem C02_run_tidy_calm :
  forall (K V Q T : Type) (E : env K V Q T) (debug : bool) (ops : list dop)
    (w wf : world K V T),
  DropCalm E ->
  WF (self w) ->
  Tidy (self w) -> Forall (op_ok E) ops -> mfinal E debug ops w = Some wf -> Tidy (self wf).
Proof. exact (@run_tidy_calm). Qed.
Print Assumptions C02_run_tidy_calm.

Theorem C02_run_exact_calm_new :
  forall (K V Q T : Type) (E : env K V Q T) (debug : bool) (n : nat) (ops : list dop) (s : T),
  DropCalm E ->
  Forall (op_ok E) ops ->
  let w0 := {| cb := s; log := []; self := new_map n |} in
  exists wf : world K V T,
    mfinal E debug ops w0 = Some wf /\
    Tidy (self wf) /\
    Permutation
      (owned E (self wf) ++
       gouts (mstep E debug) (op_outs E) (op_pouts_c E) ops w0 ++ dropped (log wf))
      (flat_map (op_ins E) ops).
Proof. exact (@run_exact_calm_new). Qed.
Print Assumptions C02_run_exact_calm_new.

Theorem C02_srun_exact_calm :
  forall (K Q T : Type) (E : env K unit Q T) (debug : bool),
  idV E tt = [] ->
  forall (ops : list sop) (w : world K unit T),
  DropCalm E ->
  WF (self w) ->
  Tidy (self w) ->
  exists wf : world K unit T,
    smfinal E debug ops w = Some wf /\
    WF (self wf) /\
    cap (self wf) = cap (self w) /\
    Tidy (self wf) /\
    Permutation (owned E (self wf) ++ souts E debug ops w ++ dropped (log wf))
      (owned E (self w) ++ flat_map (sop_ins E) ops ++ dropped (log w)).
Proof. exact (@srun_exact_calm). Qed.
Print Assumptions C02_srun_exact_calm.

Theorem C02_srun_tidy_calm :
  forall (K Q T : Type) (E : env K unit Q T) (debug : bool),
  idV E tt = [] ->
  forall (ops : list sop) (w wf : world K unit T),
  DropCalm E ->
  WF (self w) -> Tidy (self w) -> smfinal E debug ops w = Some wf -> Tidy (self wf).
Proof. exact (@srun_tidy_calm). Qed.
Print Assumptions C02_srun_tidy_calm.

(* Tidy and exact accounting for the interleaved Dict2 histories (drain + drop,
   iteration, entry().or_insert, extend), lawful environment *)
Theorem C02_run2_exact :
  forall (K V Q T : Type) (E : env K V Q T) (debug : bool) (ck : K -> N) (cq : Q -> N),
  Lawful E ck cq ->
  forall (ops : list dop2) (w : world K V T),
  WF (self w) ->
  Tidy (self w) ->
  Forall (op2_ok E) ops ->
  exists wf : world K V T,
    mfinal2 E debug ops w = Some wf /\
    WF (self wf) /\
    cap (self wf) = cap (self w) /\
    Tidy (self wf) /\
    Permutation
      (owned E (self wf) ++
       gouts (mstep2 E debug) (op2_outs E) (op2_pouts E) ops w ++ dropped (log wf))
      (owned E (self w) ++ flat_map (op2_ins E) ops ++ dropped (log w)).
Proof. exact (@run2_exact). Qed.
Print Assumptions C02_run2_exact.

Theorem C02_run2_tidy :
  forall (K V Q T : Type) (E : env K V Q T) (debug : bool) (ck : K -> N) (cq : Q -> N),
  Lawful E ck cq ->
  forall (ops : list dop2) (w wf : world K V T),
  WF (self w) ->
  Tidy (self w) -> Forall (op2_ok E) ops -> mfinal2 E debug ops w = Some wf -> Tidy (self wf).
Proof. exact (@run2_tidy). Qed.
Print Assumptions C02_run2_tidy.

(* -------------------------------------------------------------------------- *)
(* PROVENANCE.  The model's UB only excludes reading an empty or out-of-range
   slot; a stale element left above len by an earlier panic (WF but not Tidy
   states) would be readable without UB.  The ledger restricted to the LIVE
   prefix: what a step hands out, destroys or keeps live comes from the live
   elements or from its own arguments - stale slots take no part (every
   environment, both outcomes, all 13 operations) *)
Theorem C02_owned_split :
  forall (K V Q T : Type) (E : env K V Q T) (m : map K V),
  WF m -> Permutation (owned E m) (live_ids E m ++ pv_stale_ids E m).
Proof. exact (@pv_owned_split). Qed.
Print Assumptions C02_owned_split.

Theorem C02_mstep_live_acct :
  forall (K V Q T : Type) (E : env K V Q T) (debug : bool) (o : dop) (w : world K V T),
  op_ok E o ->
  WF (self w) ->
  wp (mstep E debug o)
    (fun (r : dres) (w' : world K V T) =>
     exists d lost : list N,
       dropped (log w') = dropped (log w) ++ d /\
       Permutation (live_ids E (self w') ++ op_outs E o r ++ lost ++ d)
         (live_ids E (self w) ++ op_ins E o))
    (fun w' : world K V T =>
     exists d lost : list N,
       dropped (log w') = dropped (log w) ++ d /\
       Permutation (live_ids E (self w') ++ lost ++ d) (live_ids E (self w) ++ op_ins E o)) w.
Proof. exact (@mstep_live_acct). Qed.
Print Assumptions C02_mstep_live_acct.

Theorem C02_mstep_provenance :
  forall (K V Q T : Type) (E : env K V Q T) (debug : bool) (o : dop) (w : world K V T),
  op_ok E o ->
  WF (self w) ->
  wp (mstep E debug o)
    (fun (r : dres) (w' : world K V T) =>
     exists d : list N,
       dropped (log w') = dropped (log w) ++ d /\
       incl (op_outs E o r ++ d) (live_ids E (self w) ++ op_ins E o) /\
       incl (live_ids E (self w')) (live_ids E (self w) ++ op_ins E o))
    (fun w' : world K V T =>
     exists d : list N,
       dropped (log w') = dropped (log w) ++ d /\
       incl d (live_ids E (self w) ++ op_ins E o) /\
       incl (live_ids E (self w')) (live_ids E (self w) ++ op_ins E o)) w.
Proof. exact (@mstep_provenance). Qed.
Print Assumptions C02_mstep_provenance.

(* a history continued after a FORGOTTEN drain behaves exactly like a history on
   a fresh empty map of the same capacity: the leaked elements left in the dead
   slots are never observed again (lawful environment) *)
Theorem C02_drain_forgotten_then_run_refines :
  forall (K V Q T : Type) (E : env K V Q T) (debug : bool) (ck : K -> N) (cq : Q -> N),
  Lawful E ck cq ->
  forall (take : nat) (ops : list dop) (w : world K V T),
  WF (self w) ->
  match (c <- drain;; drain_run take c) w with
  | Ok _ w' =>
      cap (self w') = cap (self w) /\
      mrun E debug ops w' = drun ck cq (cap (self w)) ops [] /\
      (forall (s : T) (lg : list event),
       mrun E debug ops w' =
       mrun E debug ops {| cb := s; log := lg; self := new_map (cap (self w)) |})
  | _ => False
  end.
Proof. exact (@drain_forgotten_then_run_refines). Qed.
Print Assumptions C02_drain_forgotten_then_run_refines.

(* -------------------------------------------------------------------------- *)
(* the accounting of into_keys / into_values (C02_conserves_into_keys_next,
   C02_into_keys_session_acct, ...) is about Owned2.into_keys_next /
   into_values_next; the interpreter's consuming sessions (Exec.into_steps, kind
   1 / 2) compute exactly these *)
Theorem C02_into_steps_item_kinds :
  forall (sc : script) (p : key * vobj),
  into_steps_item sc 0 p = ret (r_pair p) /\
  into_steps_item sc 1 p = drop_val (env_map sc) (snd p);; ret (r_key (fst p)) /\
  into_steps_item sc 2 p = drop_key (env_map sc) (fst p);; ret (r_val (snd p)).
Proof. exact (@into_steps_item_kinds). Qed.
Print Assumptions C02_into_steps_item_kinds.

Theorem C02_into_steps_keys_next :
  forall (sc : script) (w : mworld),
  (o <- into_iter_next;;
   match o with
   | Some p => it <- into_steps_item sc 1 p;; ret (Some it)
   | None => ret None
   end) w = (o <- into_keys_next (env_map sc);; ret (option_map r_key o)) w.
Proof. exact (@into_steps_keys_next). Qed.
Print Assumptions C02_into_steps_keys_next.

Theorem C02_into_steps_values_next :
  forall (sc : script) (w : mworld),
  (o <- into_iter_next;;
   match o with
   | Some p => it <- into_steps_item sc 2 p;; ret (Some it)
   | None => ret None
   end) w = (o <- into_values_next (env_map sc);; ret (option_map r_val o)) w.
Proof. exact (@into_steps_values_next). Qed.
Print Assumptions C02_into_steps_values_next.

(* -------------------------------------------------------------------------- *)
(* non-vacuity                                                                *)
(* a cop history on the full map m3 under the "nothing equals anything" == (seed
   6) with the interpreter's stateful closures: hypotheses of C02_crun_NoDup, and
   the run: 20 identities taken in (7 8 10 11 arguments, 100000..100005 the clones
   of m3, 12..19 collected, 20 and the default value 100006 of the entry closure) *)
Definition C02_cops (sc : script) : list (@cop key vobj query cstate) :=
  [CBase (DBase (DRemove (QCls 6)));
   CEntryWith (k_ 7 9) (mk_val sc (v_ 8 1));
   CRetainF (pred_m sc 1 [(5, 2)]%N);
   CAndModify (k_ 10 5) (modf_add sc) (v_ 11 2);
   CDisjoint [QCls 5; QCls 7] false;
   CEq m3;
   CCloneFrom m3;
   CFromIter (nx_cb sc) [(k_ 12 1, v_ 13 1); (k_ 14 2, v_ 15 2)];
   CIntoRun IKeys 1 false;
   CFromIter (nx_cb sc) [(k_ 16 1, v_ 17 1); (k_ 18 2, v_ 19 2)];
   CDrainForget 1;
   CEntryWithKey (k_ 20 3) (fun _ => mk_default sc)].
Definition C02_sc_never : script := {| sc_adv := true; sc_seed := 6; sc_fk := 0; sc_fa := 0 |}.
(* seed 4 (PRNG lies) and the clone call number 3 - a V::clone - panics *)
Definition C02_sc_clone_fault : script := {| sc_adv := true; sc_seed := 4; sc_fk := 2; sc_fa := 3 |}.

Example C02_example_cops_ok : forall sc, Forall (c_ok (env_map sc)) (C02_cops sc).
Proof.
  intros sc. unfold C02_cops.
  repeat (apply Forall_cons; [cbn [c_ok op2_ok op_ok]; try exact I; try exact m3_WF|]); [| |apply Forall_nil].
  - intros s k v. apply pred_m_keeps_id.
  - intros s v. apply modf_add_keeps_id.
Qed.

Example C02_example_cops_fresh :
  NoDup (owned (env_map C02_sc_never) (self (w_of m3)) ++
         cins (env_map C02_sc_never) false (C02_cops C02_sc_never) (w_of m3) ++ dropped (log (w_of m3))).
Proof.
  vm_compute. repeat constructor; cbn [In]; intros H;
    repeat (destruct H as [H | H]; try discriminate H); exact H.
Qed.

Example C02_example_cops_run :
  match cfinal (env_map C02_sc_never) false (C02_cops C02_sc_never) (w_of m3) with
  | Some wf => owned (env_map C02_sc_never) (self wf) = [20; 100006; 18; 19]%N /\
               couts (env_map C02_sc_never) false (C02_cops C02_sc_never) (w_of m3) = [14; 16; 17]%N /\
               dropped (log wf) = [8; 7; 11; 10; 1; 2; 3; 4; 5; 6; 100000; 100001; 100002; 100003; 100004;
                                   100005; 15; 12; 13]%N
  | None => False
  end.
Proof. vm_compute. repeat split; reflexivity. Qed.

(* the same history when a V::clone panics inside clone_from: the orphan key
   100002 and the complete pair 100000 100001 are destroyed by unwinding, the
   register keeps its old contents, the history goes on *)
Example C02_example_cops_clone_panic :
  cins (env_map C02_sc_clone_fault) false (C02_cops C02_sc_clone_fault) (w_of m3) =
    [7; 8; 10; 11; 100000; 100001; 100002; 12; 13; 14; 15; 16; 17; 18; 19; 20; 100003]%N /\
  match cfinal (env_map C02_sc_clone_fault) false (C02_cops C02_sc_clone_fault) (w_of m3) with
  | Some wf => owned (env_map C02_sc_clone_fault) (self wf) = [20; 100003]%N /\
               couts (env_map C02_sc_clone_fault) false (C02_cops C02_sc_clone_fault) (w_of m3) = [14; 16; 19]%N /\
               dropped (log wf) = [8; 7; 10; 11; 100002; 100000; 100001; 1; 2; 3; 4; 5; 6; 15; 12; 13; 18; 17]%N
  | None => False
  end.
Proof. vm_compute. repeat split; reflexivity. Qed.

(* DropCalm holds of every script that injects no Drop fault, however == lies *)
Example C02_example_DropCalm : DropCalm (env_map C02_sc_never) /\ DropCalm (env_set C02_sc_never).
Proof. split; split; intros; reflexivity. Qed.

(* DrainInv (Safety2; hypothesis of C02_drain_next_acct / C02_drain_drop_acct):
   the state of m3 after drain() and one next(): len 0, the cursor (1, 3) still
   owns the live slots 1 and 2 *)
Example C02_example_DrainInv : DrainInv (1, 3) (set_slot_m (set_len_m m3 0) 0 None).
Proof.
  split; [reflexivity|]. split; [cbn; lia|].
  intros j Hj. cbn [fst snd] in Hj. destruct j as [|[|[|j]]]; try lia; eexists; reflexivity.
Qed.
