(* EntrySpec.v — under a lawful environment the entry API of Model/EntryOps.v
   is equivalent to the direct map operations (the list machine of Spec.v). *)
Require Import Model.Base Model.Slots Model.MapOps Model.EntryOps Proofs.Hoare Proofs.Inv Proofs.Safety Proofs.Safety3 Proofs.Spec Proofs.Lawful Proofs.Lawful2.
Section EntrySpec.
Context {K V Q T : Type} (E : env K V Q T) (debug : bool).
Context (ck : K -> N) (cq : Q -> N) (HL : Lawful E ck cq).
Notation M := (M K V T). Notation world := (world K V T). Notation map := (map K V). Notation kv := (K * V)%type.

(* ---- helpers ---- *)

(* a present key sits in a live slot *)
Lemma find_idx_slot (m : map) c i :
  WF m -> find_idx ck c (elems m) = Some i ->
  i < len m /\ exists p, nth_error (elems m) i = Some p /\ nth_error (slots m) i = Some (Some p) /\ ck (fst p) = c.
Proof.
  intros Hw Hf. destruct (find_idx_inv ck c _ _ Hf) as [[p [Hp Hc]] _].
  destruct (elems_nth_slot _ _ _ Hw Hp) as [Hi Hsl].
  split; [exact Hi | exists p; auto].
Qed.

Lemma logged_trans (w1 w2 w3 : world) e1 e2 :
  logged w1 w2 e1 -> logged w2 w3 e2 -> logged w1 w3 (e1 ++ e2).
Proof. unfold logged. intros H1 H2. rewrite H2, H1, app_assoc. reflexivity. Qed.

Lemma logged_same (w1 w2 w3 : world) e :
  logged w1 w2 e -> log w3 = log w2 -> logged w1 w3 e.
Proof. unfold logged. intros H1 H2. congruence. Qed.

Lemma logged_from (w1 w2 w3 : world) e :
  log w2 = log w1 -> logged w2 w3 e -> logged w1 w3 e.
Proof. unfold logged. intros H1 H2. congruence. Qed.

(* unchecked re-borrow of a live slot *)
Lemma occ_ref_lawful i (w : world) :
  WF (self w) -> i < len (self w) ->
  wp (occ_into_mut i) (fun j w' => j = i /\ w' = w) (fun _ => False) w.
Proof.
  intros Hw Hi. destruct (WF_live _ _ Hw Hi) as [p Hp]. unfold occ_into_mut.
  apply wp_bind. eapply wp_p_ref; [exact Hp|]. apply wp_ret. auto.
Qed.

(* ---- 1. entry_of ---- *)
Lemma entry_of_lawful k (w : world) :
  WF (self w) ->
  wp (entry_of E k)
     (fun e w' => self w' = self w /\
                  match find_idx ck (ck k) (elems (self w)) with
                  | Some i => e = Occupied i /\ logged w w' (ev_drops (idK E k))
                  | None => e = Vacant k /\ log w' = log w
                  end)
     (fun _ => False) w.
Proof.
  intros Hw. unfold entry_of. apply wp_bind. apply wp_on_unwind_nopanic.
  eapply wp_mono; [apply (scan_lawful ck (test_k E k) (ck k)); [apply (cls_test_k E ck cq HL) | exact Hw] | | intros w' []]; cbn beta.
  intros r w1 [[Hs1 Hl1] ->].
  destruct (find_idx ck (ck k) (elems (self w))) as [i|].
  - apply wp_bind. eapply wp_mono; [apply (drop_key_lawful E ck cq HL) | | intros w' []]; cbn beta.
    intros _ w2 [Hs2 Hl2]. apply wp_ret.
    split; [congruence|]. split; [reflexivity|]. unfold logged in *. congruence.
  - apply wp_ret. auto.
Qed.

(* ---- 2. OccupiedEntry::insert ---- *)
Lemma occ_insert_lawful i v (w : world) :
  WF (self w) -> forall k0 v0, nth_error (elems (self w)) i = Some (k0, v0) ->
  wp (occ_insert i v)
     (fun r w' => WF (self w') /\ cap (self w') = cap (self w) /\ log w' = log w /\ r = v0 /\
                  elems (self w') = upd (elems (self w)) i (k0, v))
     (fun _ => False) w.
Proof.
  intros Hw k0 v0 Hp. destruct (elems_nth_slot _ _ _ Hw Hp) as [Hi Hsl].
  assert (Hic : i < cap (self w)) by (apply live_lt_cap; eexists; exact Hsl).
  unfold occ_insert. apply wp_bind. eapply wp_p_replace; [exact Hsl|].
  apply wp_ret. simp_w. cbn [fst snd].
  split; [apply WF_set_slot_some; auto|]. split; [apply cap_set_slot|].
  split; [reflexivity|]. split; [reflexivity|].
  apply elems_set_slot; auto.
Qed.

Lemma occ_insert_is_insert (l : list kv) k v i k0 v0 :
  find_idx ck (ck k) l = Some i -> nth_error l i = Some (k0, v0) ->
  fst (fst (l_insert ck l k v false)) = upd l i (k0, v) /\
  snd (l_insert ck l k v false) = Some (k, v0).
Proof. intros Hf Hp. unfold l_insert. rewrite Hf, Hp. cbn [fst snd]. split; reflexivity. Qed.

(* ---- 3. OccupiedEntry::remove_entry / remove ---- *)
Lemma occ_remove_entry_lawful i (w : world) :
  WF (self w) -> i < len (self w) ->
  wp (occ_remove_entry debug i)
     (fun p w' => WF (self w') /\ cap (self w') = cap (self w) /\ log w' = log w /\
                  nth_error (elems (self w)) i = Some p /\
                  elems (self w') = swap_remove (elems (self w)) i)
     (fun _ => False) w.
Proof.
  intros Hw Hi. unfold occ_remove_entry.
  eapply wp_mono; [apply remove_index_read_elems; assumption | | intros w' []]; cbn beta.
  intros p w' (H1 & H2 & H3 & _ & H4 & H5). auto.
Qed.

Lemma occ_remove_lawful i (w : world) :
  WF (self w) -> i < len (self w) ->
  wp (occ_remove E debug i)
     (fun v w' => WF (self w') /\ cap (self w') = cap (self w) /\
                  exists k0, nth_error (elems (self w)) i = Some (k0, v) /\
                             elems (self w') = swap_remove (elems (self w)) i /\
                             logged w w' (ev_drops (idK E k0)))
     (fun _ => False) w.
Proof.
  intros Hw Hi. unfold occ_remove. apply wp_bind.
  eapply wp_mono; [apply remove_index_read_elems; assumption | | intros w' []]; cbn beta.
  intros [k0 v0] w1 (H1 & H2 & H3 & _ & H4 & H5). cbn [fst snd].
  apply wp_bind. eapply wp_mono; [apply (drop_key_lawful E ck cq HL) | | intros w' []]; cbn beta.
  intros _ w2 [Hs2 Hl2]. apply wp_ret. rewrite Hs2.
  split; [exact H1|]. split; [exact H2|]. exists k0.
  split; [exact H4|]. split; [exact H5|]. unfold logged in *. congruence.
Qed.

(* the list transformation of remove / remove_entry, for comparison *)
Lemma occ_remove_is_remove (l : list kv) c i :
  find_idx ck c l = Some i -> l_remove ck l c = (swap_remove l i, nth_error l i).
Proof. intros Hf. unfold l_remove. rewrite Hf. reflexivity. Qed.

(* ---- 4. VacantEntry::insert ---- *)
Lemma vac_insert_lawful k v (w : world) :
  WF (self w) -> find_idx ck (ck k) (elems (self w)) = None ->
  wp (vac_insert E debug k v)
     (fun i w' => WF (self w') /\ cap (self w') = cap (self w) /\ log w' = log w /\
                  elems (self w') = elems (self w) ++ [(k, v)] /\ i = length (elems (self w)) /\
                  len (self w) < cap (self w))
     (fun w' => self w' = self w /\ logged w w' (ev_drops (idV E v ++ idK E k)) /\
                len (self w) = cap (self w)) w.
Proof.
  intros Hw Hf. unfold vac_insert. apply wp_bind.
  eapply wp_mono; [apply (insert_ii_lawful E debug ck cq HL k v false w Hw) | |]; cbn beta.
  - intros [index e] w1 (Hw1 & Hc1 & Hl1 & Hins & Hlt). cbn [fst snd] in Hins.
    unfold l_insert in Hins. rewrite Hf in Hins.
    injection Hins as He Hidx Hel. subst index e.
    apply wp_bind. apply wp_ret.
    assert (Hi : length (elems (self w)) < len (self w1)).
    { rewrite <- (elems_length _ Hw1), He, app_length. cbn [length]. lia. }
    destruct (WF_live _ _ Hw1 Hi) as [p Hp].
    apply wp_bind. eapply wp_p_ref; [exact Hp|]. apply wp_ret.
    split; [exact Hw1|]. split; [exact Hc1|]. split; [exact Hl1|]. split; [exact He|].
    split; [reflexivity | exact (Hlt Hf)].
  - intros w' (Hs & Hlg & _ & Hc). auto.
Qed.

(* ---- 5. Entry::or_insert ---- *)
Lemma or_insert_lawful k v (w : world) :
  WF (self w) ->
  wp (e <- entry_of E k ;; or_insert E debug e v)
     (fun i w' => WF (self w') /\ cap (self w') = cap (self w) /\
                  match find_idx ck (ck k) (elems (self w)) with
                  | Some j => i = j /\ self w' = self w /\
                              logged w w' (ev_drops (idK E k) ++ ev_drops (idV E v))
                  | None => i = length (elems (self w)) /\
                            elems (self w') = elems (self w) ++ [(k, v)] /\ log w' = log w
                  end)
     (fun w' => self w' = self w /\ logged w w' (ev_drops (idV E v ++ idK E k)) /\
                find_idx ck (ck k) (elems (self w)) = None /\
                len (self w) = cap (self w)) w.
Proof.
  intros Hw. apply wp_bind.
  eapply wp_mono; [apply entry_of_lawful; exact Hw | | intros w' []]; cbn beta.
  intros e w1 [Hs1 He].
  destruct (find_idx ck (ck k) (elems (self w))) as [j|] eqn:Hf.
  - destruct He as [-> Hl1]. cbn [or_insert].
    destruct (find_idx_slot _ _ _ Hw Hf) as [Hj _].
    apply wp_bind.
    eapply wp_mono; [apply occ_ref_lawful; rewrite Hs1; assumption | | intros w' []]; cbn beta.
    intros i w2 [-> ->].
    apply wp_bind. eapply wp_mono; [apply (drop_val_lawful E ck cq HL) | | intros w' []]; cbn beta.
    intros _ w3 [Hs3 Hl3]. apply wp_ret.
    assert (Hs : self w3 = self w) by congruence. rewrite Hs.
    split; [exact Hw|]. split; [reflexivity|]. split; [reflexivity|]. split; [reflexivity|].
    eapply logged_trans; eassumption.
  - destruct He as [-> Hl1]. cbn [or_insert].
    eapply wp_mono; [apply vac_insert_lawful; rewrite Hs1; assumption | |]; cbn beta; rewrite Hs1.
    + intros i w2 (Hw2 & Hc2 & Hl2 & He2 & Hi2 & _).
      split; [exact Hw2|]. split; [exact Hc2|]. split; [exact Hi2|]. split; [exact He2 | congruence].
    + intros w2 (Hs2 & Hlg2 & Hc). split; [congruence|].
      split; [eapply logged_from; eassumption | auto].
Qed.

(* ---- 6. Entry::or_insert_with / or_insert_with_key ---- *)
Lemma call_mk_lawful (f : T -> option V * T) (w : world) :
  (forall s, exists v s', f s = (Some v, s')) ->
  wp (call_mk f) (fun v w' => self w' = self w /\ logged w w' [EvCall 2] /\
                               exists s s', f s = (Some v, s')) (fun _ => False) w.
Proof.
  intros Hf. unfold call_mk. apply wp_bind. apply wp_emit. apply wp_cbo_eq. simp_w.
  destruct (Hf (cb w)) as (v & s' & Hfs). rewrite Hfs. cbn [fst snd]. simp_w.
  split; [reflexivity|]. split; [reflexivity|]. exists (cb w), s'. exact Hfs.
Qed.

Lemma or_insert_with_lawful k (f : T -> option V * T) (w : world) :
  WF (self w) ->
  (forall s, exists v s', f s = (Some v, s')) ->
  wp (e <- entry_of E k ;; or_insert_with E debug e f)
     (fun i w' => WF (self w') /\ cap (self w') = cap (self w) /\
                  match find_idx ck (ck k) (elems (self w)) with
                  | Some j => i = j /\ self w' = self w /\ logged w w' (ev_drops (idK E k))
                  | None => i = length (elems (self w)) /\
                            (exists v, elems (self w') = elems (self w) ++ [(k, v)]) /\
                            logged w w' [EvCall 2]
                  end)
     (fun w' => self w' = self w /\
                (exists v s s', f s = (Some v, s') /\
                   logged w w' ([EvCall 2] ++ ev_drops (idV E v ++ idK E k))) /\
                find_idx ck (ck k) (elems (self w)) = None /\
                len (self w) = cap (self w)) w.
Proof.
  intros Hw Hfn. apply wp_bind.
  eapply wp_mono; [apply entry_of_lawful; exact Hw | | intros w' []]; cbn beta.
  intros e w1 [Hs1 He].
  destruct (find_idx ck (ck k) (elems (self w))) as [j|] eqn:Hf.
  - destruct He as [-> Hl1]. cbn [or_insert_with].
    destruct (find_idx_slot _ _ _ Hw Hf) as [Hj _].
    eapply wp_mono; [apply occ_ref_lawful; rewrite Hs1; assumption | | intros w' []]; cbn beta.
    intros i w2 [-> ->]. rewrite Hs1. auto.
  - destruct He as [-> Hl1]. cbn [or_insert_with].
    apply wp_bind. apply wp_on_unwind_nopanic. eapply wp_mono; [apply call_mk_lawful; exact Hfn | | intros w' []]; cbn beta.
    intros v w2 (Hs2 & Hl2 & Hfv).
    assert (Hs : self w2 = self w) by congruence.
    eapply wp_mono; [apply vac_insert_lawful; rewrite Hs; assumption | |]; cbn beta; rewrite Hs.
    + intros i w3 (Hw3 & Hc3 & Hl3 & He3 & Hi3 & _).
      split; [exact Hw3|]. split; [exact Hc3|]. split; [exact Hi3|].
      split; [exists v; exact He3|]. unfold logged in *. congruence.
    + intros w3 (Hs3 & Hlg3 & Hc). split; [congruence|]. split; [|auto].
      destruct Hfv as (s0 & s0' & Hfv). exists v, s0, s0'. split; [exact Hfv|].
      eapply logged_trans; [eapply logged_from; [exact Hl1 | exact Hl2] | exact Hlg3].
Qed.

Lemma or_insert_with_key_lawful k (f : K -> T -> option V * T) (w : world) :
  WF (self w) ->
  (forall s, exists v s', f k s = (Some v, s')) ->
  wp (e <- entry_of E k ;; or_insert_with_key E debug e f)
     (fun i w' => WF (self w') /\ cap (self w') = cap (self w) /\
                  match find_idx ck (ck k) (elems (self w)) with
                  | Some j => i = j /\ self w' = self w /\ logged w w' (ev_drops (idK E k))
                  | None => i = length (elems (self w)) /\
                            (exists v, elems (self w') = elems (self w) ++ [(k, v)]) /\
                            logged w w' [EvCall 2]
                  end)
     (fun w' => self w' = self w /\
                (exists v s s', f k s = (Some v, s') /\
                   logged w w' ([EvCall 2] ++ ev_drops (idV E v ++ idK E k))) /\
                find_idx ck (ck k) (elems (self w)) = None /\
                len (self w) = cap (self w)) w.
Proof.
  intros Hw Hfn. apply wp_bind.
  eapply wp_mono; [apply entry_of_lawful; exact Hw | | intros w' []]; cbn beta.
  intros e w1 [Hs1 He].
  destruct (find_idx ck (ck k) (elems (self w))) as [j|] eqn:Hf.
  - destruct He as [-> Hl1]. cbn [or_insert_with_key].
    destruct (find_idx_slot _ _ _ Hw Hf) as [Hj _].
    eapply wp_mono; [apply occ_ref_lawful; rewrite Hs1; assumption | | intros w' []]; cbn beta.
    intros i w2 [-> ->]. rewrite Hs1. auto.
  - destruct He as [-> Hl1]. cbn [or_insert_with_key].
    apply wp_bind. apply wp_on_unwind_nopanic. eapply wp_mono; [apply call_mk_lawful; exact Hfn | | intros w' []]; cbn beta.
    intros v w2 (Hs2 & Hl2 & Hfv).
    assert (Hs : self w2 = self w) by congruence.
    eapply wp_mono; [apply vac_insert_lawful; rewrite Hs; assumption | |]; cbn beta; rewrite Hs.
    + intros i w3 (Hw3 & Hc3 & Hl3 & He3 & Hi3 & _).
      split; [exact Hw3|]. split; [exact Hc3|]. split; [exact Hi3|].
      split; [exists v; exact He3|]. unfold logged in *. congruence.
    + intros w3 (Hs3 & Hlg3 & Hc). split; [congruence|]. split; [|auto].
      destruct Hfv as (s0 & s0' & Hfv). exists v, s0, s0'. split; [exact Hfv|].
      eapply logged_trans; [eapply logged_from; [exact Hl1 | exact Hl2] | exact Hlg3].
Qed.

(* ---- 7. Entry::and_modify ---- *)
Lemma call_modf_lawful (f : modf_t) g i (w : world) :
  WF (self w) -> (forall s v, fst (f s v) = (false, g v)) ->
  forall k0 v0, nth_error (elems (self w)) i = Some (k0, v0) ->
  wp (call_modf f i)
     (fun _ w' => WF (self w') /\ cap (self w') = cap (self w) /\
                  elems (self w') = upd (elems (self w)) i (k0, g v0) /\ logged w w' [EvCall 3])
     (fun _ => False) w.
Proof.
  intros Hw Hfg k0 v0 Hp. destruct (elems_nth_slot _ _ _ Hw Hp) as [Hi Hsl].
  assert (Hic : i < cap (self w)) by (apply live_lt_cap; eexists; exact Hsl).
  unfold call_modf. apply wp_bind. eapply wp_p_ref; [exact Hsl|].
  unfold wp. cbn [fst snd]. pose proof (Hfg (cb w) v0) as Hf0.
  destruct (f (cb w) v0) as [[boom v'] s]. cbn [fst] in Hf0. injection Hf0 as -> ->.
  cbn [self log].
  change {| len := len (self w); slots := upd (slots (self w)) i (Some (k0, g v0)) |}
    with (set_slot_m (self w) i (Some (k0, g v0))).
  split; [apply WF_set_slot_some; auto|]. split; [apply cap_set_slot|].
  split; [apply elems_set_slot; auto | reflexivity].
Qed.

Lemma and_modify_lawful k (f : modf_t) g (w : world) :
  WF (self w) -> (forall s v, fst (f s v) = (false, g v)) ->
  wp (e <- entry_of E k ;; and_modify e f)
     (fun e' w' => WF (self w') /\ cap (self w') = cap (self w) /\
                   match find_idx ck (ck k) (elems (self w)) with
                   | Some j => e' = Occupied j /\
                               (exists k0 v0, nth_error (elems (self w)) j = Some (k0, v0) /\
                                              elems (self w') = upd (elems (self w)) j (k0, g v0)) /\
                               logged w w' (ev_drops (idK E k) ++ [EvCall 3])
                   | None => e' = Vacant k /\ self w' = self w /\ log w' = log w
                   end)
     (fun _ => False) w.
Proof.
  intros Hw Hfg. apply wp_bind.
  eapply wp_mono; [apply entry_of_lawful; exact Hw | | intros w' []]; cbn beta.
  intros e w1 [Hs1 He].
  destruct (find_idx ck (ck k) (elems (self w))) as [j|] eqn:Hf.
  - destruct He as [-> Hl1]. cbn [and_modify].
    destruct (find_idx_slot _ _ _ Hw Hf) as [Hj [[k0 v0] [Hp _]]].
    apply wp_bind.
    eapply wp_mono; [apply (occ_ref_lawful j w1); rewrite Hs1; assumption | | intros w' []]; cbn beta.
    intros i w2 [-> ->].
    apply wp_bind.
    eapply wp_mono; [apply (call_modf_lawful f g j w1); [rewrite Hs1; exact Hw | exact Hfg | rewrite Hs1; exact Hp] | | intros w' []]; cbn beta.
    intros _ w3 (Hw3 & Hc3 & He3 & Hl3). apply wp_ret. rewrite Hs1 in *.
    split; [exact Hw3|]. split; [exact Hc3|]. split; [reflexivity|].
    split; [exists k0, v0; auto|]. eapply logged_trans; eassumption.
  - destruct He as [-> Hl1]. cbn [and_modify]. apply wp_ret. rewrite Hs1. auto.
Qed.

(* ---- 8. Entry::key ---- *)
Lemma entry_key_lawful k (w : world) :
  WF (self w) ->
  wp (e <- entry_of E k ;; entry_key e)
     (fun r w' => self w' = self w /\
                  match find_idx ck (ck k) (elems (self w)) with
                  | Some j => r = inl j
                  | None => r = inr k
                  end)
     (fun _ => False) w.
Proof.
  intros Hw. apply wp_bind.
  eapply wp_mono; [apply entry_of_lawful; exact Hw | | intros w' []]; cbn beta.
  intros e w1 [Hs1 He].
  destruct (find_idx ck (ck k) (elems (self w))) as [j|] eqn:Hf.
  - destruct He as [-> Hl1]. cbn [entry_key].
    destruct (find_idx_slot _ _ _ Hw Hf) as [Hj _].
    apply wp_bind.
    eapply wp_mono; [apply (occ_ref_lawful j w1); rewrite Hs1; assumption | | intros w' []]; cbn beta.
    intros i w2 [-> ->]. apply wp_ret. auto.
  - destruct He as [-> Hl1]. cbn [entry_key]. apply wp_ret. auto.
Qed.

(* ---- 9. the stored key survives or_insert on an occupied entry ---- *)
Lemma or_insert_keeps_key k v j (w : world) :
  WF (self w) -> find_idx ck (ck k) (elems (self w)) = Some j ->
  wp (e <- entry_of E k ;; or_insert E debug e v)
     (fun i w' => i = j /\ elems (self w') = elems (self w) /\
                  nth_error (elems (self w')) j = nth_error (elems (self w)) j /\
                  exists k0 v0, nth_error (elems (self w')) j = Some (k0, v0) /\ ck k0 = ck k)
     (fun _ => False) w.
Proof.
  intros Hw Hf.
  eapply wp_mono; [apply or_insert_lawful; exact Hw | |]; cbn beta; rewrite Hf.
  - intros i w' (_ & _ & -> & Hs & _). rewrite Hs.
    split; [reflexivity|]. split; [reflexivity|]. split; [reflexivity|].
    destruct (find_idx_slot _ _ _ Hw Hf) as [_ [[k0 v0] (Hp & _ & Hc)]].
    exists k0, v0. auto.
  - intros w' (_ & _ & Hn & _). discriminate.
Qed.

End EntrySpec.
