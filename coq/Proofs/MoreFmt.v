(* MoreFmt.v — closes the audit findings on C19 (formatting) and C20 (serde).

   WHAT IS ASSUMED ABOUT ELEMENT Debug / Display IMPLS.  In the model the rendering of a
   key / value is a Gallina function [dk : K -> str], [dv : V -> str] of the OBJECT (for the
   interpreter: [dbg_key], [dbg_val], [dsp_key], [dsp_val], functions of the identity, class
   and payload): it is PURE (no callback state is read or written, nothing is logged, the
   container is not reachable from it), TOTAL (it cannot panic or diverge) and DETERMINISTIC
   (the same object renders the same way every time).  Element impls that panic, mutate
   through interior mutability, or answer differently each time are OUTSIDE the model; this
   is why [format_m_pure] / [format_s_pure] are close to definitional: the only things they
   really establish are (a) the checked slice [..len] does not panic on a well-formed
   container, (b) the raw slot reading is the live prefix, (c) the world is returned as is.

   WIDTH / PRECISION / FILL / SIGN FLAGS.  [display_map] / [display_set] / [debug_*] take no
   formatter flags: "{:>10}", "{:.3}" ... are outside every statement here.  In the crate,
   Display for Set calls k.fmt(f) (the caller's flags are forwarded to every element) while
   Display for Map uses write!(f, "{k}: {v}") (the caller's flags are discarded); the flagless
   model cannot express that asymmetry.  Debug goes through core::fmt's builders, which hand the
   formatter to the elements; the runtime oracle FMT_SHAPE exercises flags for Debug.  The only
   flag modelled is '#' (alternate), the [alt] argument.

   PART 1  the alternate form {:#?} characterised (PadAdapter), newline-free and general.
   PART 2  Debug of every borrowing / owning iterator kind down to the rendered string.
   PART 3  Debug of the set-algebra adaptors.
   PART 4  order clause of format_m / format_s tied to the iteration protocol.
   PART 5  serde: the emitted sequence, the one-theorem round trip, the Set overflow twin. *)
Require Import Model.Base Model.Slots Model.MapOps Model.EntryOps Model.SetOps Model.Fmt Model.Exec.
Require Import Proofs.Hoare Proofs.Inv Proofs.Safety Proofs.Safety2 Proofs.Safety3 Proofs.Spec Proofs.Lawful Proofs.Lawful2 Proofs.Lawful3 Proofs.IterSpec Proofs.EqClone Proofs.Algebra Proofs.Algebra2 Proofs.FmtSerde Proofs.Legacy Proofs.Gaps Proofs.ExecSafe Proofs.ExecView.
From Coq Require Import Permutation.

(* ======================================================================== *)
(* PART 1 — the alternate form                                               *)
(* ======================================================================== *)

Definition nlfree (s : str) : Prop := ~ In ch_nl s.

Lemma nlfree_app s t : nlfree (s ++ t) <-> nlfree s /\ nlfree t.
Proof. unfold nlfree. rewrite in_app_iff. tauto. Qed.

Lemma nlfree_cons c s : nlfree (c :: s) <-> c <> ch_nl /\ nlfree s.
Proof. unfold nlfree. cbn [In]. split; [intros H; split; [intros ->|]; tauto | intros [H1 H2] [H|H]; [congruence | tauto]]. Qed.

Lemma nlfree_nil : nlfree [].
Proof. intros []. Qed.

(* inside a line the adapter copies *)
Lemma pad_from_false_nlfree s : nlfree s -> pad_from false s = s.
Proof.
  induction s as [|c s IH]; intros H; [reflexivity|].
  apply nlfree_cons in H. destruct H as [Hc Hs]. cbn [pad_from app].
  destruct (N.eqb_spec c ch_nl) as [->|_]; [congruence|]. rewrite (IH Hs). reflexivity.
Qed.

(* at the start of a line it writes the indent once, if anything is written *)
Lemma pad_from_true_nlfree s : nlfree s -> s <> [] -> pad_from true s = s_indent ++ s.
Proof.
  destruct s as [|c s]; intros H Hne; [congruence|].
  apply nlfree_cons in H. destruct H as [Hc Hs]. cbn [pad_from].
  destruct (N.eqb_spec c ch_nl) as [->|_]; [congruence|]. rewrite (pad_from_false_nlfree s Hs). reflexivity.
Qed.

Lemma end_flag_nlfree b s : nlfree s -> s <> [] -> end_flag b s = false.
Proof.
  revert b; induction s as [|c s IH]; intros b H Hne; [congruence|].
  apply nlfree_cons in H. destruct H as [Hc Hs]. cbn [end_flag].
  destruct s as [|d s']; [cbn [end_flag]; apply N.eqb_neq; exact Hc|].
  apply IH; [exact Hs | discriminate].
Qed.

(* one complete line written through the adapter: indent, the line, newline.
   (An EMPTY line is indented too, as in core::fmt::builders::PadAdapter.) *)
Lemma pad_line t : nlfree t -> pad (t ++ [ch_nl]) = s_indent ++ t ++ [ch_nl].
Proof.
  intros H. unfold pad. destruct t as [|c t'].
  - reflexivity.
  - rewrite pad_from_app, (pad_from_true_nlfree _ H) by discriminate.
    rewrite (end_flag_nlfree true _ H) by discriminate.
    rewrite <- app_assoc. reflexivity.
Qed.

(* ---- the general case: any string, line by line ---- *)
(* [lns] are the complete lines (without their '\n'), [last] the unterminated rest *)
Definition unlines_nl (lns : list str) (last : str) : str :=
  concat (List.map (fun ln => ln ++ [ch_nl]) lns) ++ last.
Definition indent_lines (lns : list str) (last : str) : str :=
  concat (List.map (fun ln => s_indent ++ ln ++ [ch_nl]) lns) ++
  match last with [] => [] | _ => s_indent ++ last end.

Lemma pad_from_true_last last : nlfree last ->
  pad_from true last = match last with [] => [] | _ => s_indent ++ last end.
Proof. intros H. destruct last as [|c t]; [reflexivity|]. apply pad_from_true_nlfree; [exact H | discriminate]. Qed.

Lemma pad_lines lns last :
  Forall nlfree lns -> nlfree last ->
  pad (unlines_nl lns last) = indent_lines lns last.
Proof.
  intros Hl Hlast. unfold pad, unlines_nl, indent_lines.
  induction Hl as [|ln lns Hln Hlns IH]; cbn [List.map concat app].
  - apply pad_from_true_last. exact Hlast.
  - rewrite <- (app_assoc (ln ++ [ch_nl])). rewrite pad_from_app, end_flag_nl.
    change (pad_from true (ln ++ [ch_nl])) with (pad (ln ++ [ch_nl])).
    rewrite (pad_line ln Hln), IH, <- !app_assoc. reflexivity.
Qed.

(* every string has exactly one such decomposition *)
Fixpoint split_nl (s : str) : list str * str :=
  match s with
  | [] => ([], [])
  | c :: s' =>
      let '(lns, last) := split_nl s' in
      if N.eqb c ch_nl then ([] :: lns, last)
      else match lns with
           | [] => ([], c :: last)
           | ln :: lns' => ((c :: ln) :: lns', last)
           end
  end.

Lemma split_nl_spec s :
  unlines_nl (fst (split_nl s)) (snd (split_nl s)) = s /\
  Forall nlfree (fst (split_nl s)) /\ nlfree (snd (split_nl s)).
Proof.
  induction s as [|c s (IH1 & IH2 & IH3)]; [split; [reflexivity | split; [constructor | apply nlfree_nil]]|].
  cbn [split_nl]. destruct (split_nl s) as [lns last]. cbn [fst snd] in *.
  destruct (N.eqb_spec c ch_nl) as [->|Hc]; cbn [fst snd].
  - split; [unfold unlines_nl in *; cbn [List.map concat app]; rewrite IH1; reflexivity|].
    split; [constructor; [apply nlfree_nil | exact IH2] | exact IH3].
  - destruct lns as [|ln lns']; cbn [fst snd].
    + split; [unfold unlines_nl in *; cbn [List.map concat app] in *; rewrite IH1; reflexivity|].
      split; [constructor | apply nlfree_cons; auto].
    + split; [unfold unlines_nl in *; cbn [List.map concat app] in *; rewrite <- IH1; reflexivity|].
      inversion IH2 as [|x l Hx Hl]; subst.
      split; [constructor; [apply nlfree_cons; auto | exact Hl] | exact IH3].
Qed.

(* GENERAL characterisation of the PadAdapter: every line of what is written
   through it is prefixed by four spaces (also empty lines; an unterminated
   last line too, unless it is empty) *)
Lemma pad_indent_lines s :
  pad s = indent_lines (fst (split_nl s)) (snd (split_nl s)).
Proof.
  destruct (split_nl_spec s) as (H1 & H2 & H3).
  rewrite <- H1 at 1. apply pad_lines; assumption.
Qed.

(* ---- shapes of the builders in alternate form ---- *)

(* DebugList / DebugSet / DebugTuple, entries without newline *)
Lemma dbg_seq_alt_nlfree op cl items :
  (forall s, In s items -> nlfree s) ->
  dbg_seq op cl true items =
  match items with
  | [] => [op; cl]
  | _ => [op; ch_nl] ++ concat (List.map (fun s => s_indent ++ s ++ s_comma_nl) items) ++ [cl]
  end.
Proof.
  intros H. unfold dbg_seq. destruct items as [|x t]; [reflexivity|].
  set (l := x :: t) in *. clearbody l. f_equal. f_equal. f_equal.
  apply map_ext_in. intros s Hs.
  change (s ++ s_comma_nl) with (s ++ [ch_comma] ++ [ch_nl]). rewrite app_assoc.
  rewrite pad_line; [rewrite <- app_assoc; reflexivity|].
  apply nlfree_app. split; [apply H; exact Hs|]. apply nlfree_cons. split; [discriminate | apply nlfree_nil].
Qed.

(* the builder applied to [map f l], given what the adapter does to each entry *)
Lemma dbg_seq_alt_map {A} (f g : A -> str) op cl (l : list A) :
  (forall x, In x l -> pad (f x ++ s_comma_nl) = g x) ->
  dbg_seq op cl true (List.map f l) =
  match l with
  | [] => [op; cl]
  | _ => [op; ch_nl] ++ concat (List.map g l) ++ [cl]
  end.
Proof.
  intros H. destruct l as [|x t]; [reflexivity|]. cbv beta iota.
  remember (x :: t) as l eqn:El in *.
  unfold dbg_seq. destruct (List.map f l) eqn:E; [subst l; discriminate E|]. rewrite <- E.
  rewrite map_map. f_equal. f_equal. f_equal. apply map_ext_in. exact H.
Qed.

(* general: each entry followed by ",\n" is written through the adapter, i.e.
   every line of it is indented *)
Lemma dbg_seq_alt_lines op cl items :
  dbg_seq op cl true items =
  match items with
  | [] => [op; cl]
  | _ => [op; ch_nl] ++
         concat (List.map (fun s => indent_lines (fst (split_nl (s ++ s_comma_nl)))
                                                 (snd (split_nl (s ++ s_comma_nl)))) items) ++ [cl]
  end.
Proof.
  unfold dbg_seq. destruct items as [|x t]; [reflexivity|].
  set (l := x :: t) in *. clearbody l. f_equal. f_equal. f_equal.
  apply map_ext. intros s. apply pad_indent_lines.
Qed.

Lemma dbg_map_alt_nlfree items :
  (forall kv, In kv items -> nlfree (fst kv ++ snd kv)) ->
  dbg_map true items =
  match items with
  | [] => [ch_lbrace; ch_rbrace]
  | _ => [ch_lbrace; ch_nl] ++
         concat (List.map (fun kv => s_indent ++ fst kv ++ s_colon_sp ++ snd kv ++ s_comma_nl) items) ++
         [ch_rbrace]
  end.
Proof.
  intros H. unfold dbg_map. destruct items as [|x t]; [reflexivity|].
  set (l := x :: t) in *. clearbody l. f_equal. f_equal. f_equal.
  apply map_ext_in. intros kv Hkv. specialize (H kv Hkv). apply nlfree_app in H. destruct H as [Hk Hv].
  change (snd kv ++ s_comma_nl) with (snd kv ++ [ch_comma] ++ [ch_nl]).
  replace (fst kv ++ s_colon_sp ++ snd kv ++ [ch_comma] ++ [ch_nl])
    with ((fst kv ++ s_colon_sp ++ snd kv ++ [ch_comma]) ++ [ch_nl])
    by (rewrite <- !app_assoc; reflexivity).
  rewrite pad_line; [rewrite <- !app_assoc; reflexivity|].
  apply nlfree_app. split; [exact Hk|]. apply nlfree_app. split.
  - apply nlfree_cons. split; [discriminate|]. apply nlfree_cons. split; [discriminate | apply nlfree_nil].
  - apply nlfree_app. split; [exact Hv|]. apply nlfree_cons. split; [discriminate | apply nlfree_nil].
Qed.

Lemma dbg_map_alt_lines items :
  dbg_map true items =
  match items with
  | [] => [ch_lbrace; ch_rbrace]
  | _ => [ch_lbrace; ch_nl] ++
         concat (List.map (fun kv =>
                   indent_lines (fst (split_nl (fst kv ++ s_colon_sp ++ snd kv ++ s_comma_nl)))
                                (snd (split_nl (fst kv ++ s_colon_sp ++ snd kv ++ s_comma_nl)))) items) ++
         [ch_rbrace]
  end.
Proof.
  unfold dbg_map. destruct items as [|x t]; [reflexivity|].
  set (l := x :: t) in *. clearbody l. f_equal. f_equal. f_equal.
  apply map_ext. intros kv. apply pad_indent_lines.
Qed.

Section AltShapes.
Context {K V : Type} (dk : K -> str) (dv : V -> str).

(* Map {:#?}:  "{}"  or  "{\n" ++ "    k: v,\n" per entry ++ "}" *)
Lemma debug_map_alt l :
  (forall p, In p l -> ~ In ch_nl (dk (fst p) ++ dv (snd p))) ->
  debug_map dk dv true l =
  match l with
  | [] => [ch_lbrace; ch_rbrace]
  | _ => [ch_lbrace; ch_nl] ++
         concat (List.map (fun p => s_indent ++ dk (fst p) ++ s_colon_sp ++ dv (snd p) ++ s_comma_nl) l) ++
         [ch_rbrace]
  end.
Proof.
  intros H. unfold debug_map. rewrite dbg_map_alt_nlfree.
  - destruct l as [|p t]; [reflexivity|]. cbn [List.map]. rewrite map_map. reflexivity.
  - intros kv Hkv. apply in_map_iff in Hkv. destruct Hkv as [p [<- Hp]]. exact (H p Hp).
Qed.

(* general form: entries may contain newlines (nested pretty printing): every
   line of "k: v,\n" is indented *)
Lemma debug_map_alt_lines l :
  debug_map dk dv true l =
  match l with
  | [] => [ch_lbrace; ch_rbrace]
  | _ => [ch_lbrace; ch_nl] ++
         concat (List.map (fun p =>
                   let e := dk (fst p) ++ s_colon_sp ++ dv (snd p) ++ s_comma_nl in
                   indent_lines (fst (split_nl e)) (snd (split_nl e))) l) ++
         [ch_rbrace]
  end.
Proof.
  unfold debug_map. rewrite dbg_map_alt_lines.
  destruct l as [|p t]; [reflexivity|]. cbn [List.map]. rewrite map_map. reflexivity.
Qed.

(* Set {:#?}:  "{}"  or  "{\n" ++ "    k,\n" per element ++ "}" *)
Lemma debug_set_alt (l : list K) :
  (forall k, In k l -> ~ In ch_nl (dk k)) ->
  debug_set dk true l =
  match l with
  | [] => [ch_lbrace; ch_rbrace]
  | _ => [ch_lbrace; ch_nl] ++ concat (List.map (fun k => s_indent ++ dk k ++ s_comma_nl) l) ++ [ch_rbrace]
  end.
Proof.
  intros H. unfold debug_set, dbg_set. rewrite dbg_seq_alt_nlfree.
  - destruct l as [|p t]; [reflexivity|]. cbn [List.map]. rewrite map_map. reflexivity.
  - intros s Hs. apply in_map_iff in Hs. destruct Hs as [k [<- Hk]]. exact (H k Hk).
Qed.

Lemma debug_set_alt_lines (l : list K) :
  debug_set dk true l =
  match l with
  | [] => [ch_lbrace; ch_rbrace]
  | _ => [ch_lbrace; ch_nl] ++
         concat (List.map (fun k => indent_lines (fst (split_nl (dk k ++ s_comma_nl)))
                                                 (snd (split_nl (dk k ++ s_comma_nl)))) l) ++ [ch_rbrace]
  end.
Proof.
  unfold debug_set, dbg_set. rewrite dbg_seq_alt_lines.
  destruct l as [|p t]; [reflexivity|]. cbn [List.map]. rewrite map_map. reflexivity.
Qed.

(* Keys / IntoKeys / set adaptors {:#?}:  "[]"  or  "[\n" ++ "    k,\n" ... ++ "]" *)
Lemma debug_keys_alt (l : list K) :
  (forall k, In k l -> ~ In ch_nl (dk k)) ->
  debug_keys dk true l =
  match l with
  | [] => [ch_lbrack; ch_rbrack]
  | _ => [ch_lbrack; ch_nl] ++ concat (List.map (fun k => s_indent ++ dk k ++ s_comma_nl) l) ++ [ch_rbrack]
  end.
Proof.
  intros H. unfold debug_keys, dbg_list. rewrite dbg_seq_alt_nlfree.
  - destruct l as [|p t]; [reflexivity|]. cbn [List.map]. rewrite map_map. reflexivity.
  - intros s Hs. apply in_map_iff in Hs. destruct Hs as [k [<- Hk]]. exact (H k Hk).
Qed.

Lemma debug_values_alt (l : list V) :
  (forall v, In v l -> ~ In ch_nl (dv v)) ->
  debug_values dv true l =
  match l with
  | [] => [ch_lbrack; ch_rbrack]
  | _ => [ch_lbrack; ch_nl] ++ concat (List.map (fun v => s_indent ++ dv v ++ s_comma_nl) l) ++ [ch_rbrack]
  end.
Proof.
  intros H. unfold debug_values, dbg_list. rewrite dbg_seq_alt_nlfree.
  - destruct l as [|p t]; [reflexivity|]. cbn [List.map]. rewrite map_map. reflexivity.
  - intros s Hs. apply in_map_iff in Hs. destruct Hs as [k [<- Hk]]. exact (H k Hk).
Qed.

(* the 2-tuple in alternate form: "(\n    k,\n    v,\n)" *)
Lemma dbg_tuple_alt (a b : str) : nlfree a -> nlfree b ->
  dbg_tuple true a b =
  [ch_lpar; ch_nl] ++ (s_indent ++ a ++ s_comma_nl) ++ (s_indent ++ b ++ s_comma_nl) ++ [ch_rpar].
Proof.
  intros Ha Hb. unfold dbg_tuple. rewrite dbg_seq_alt_nlfree.
  - cbn [List.map concat]. rewrite app_nil_r, <- !app_assoc. reflexivity.
  - intros s [<-|[<-|[]]]; assumption.
Qed.

(* Iter / IterMut / Drain / IntoIter {:#?}: a list of pretty-printed tuples,
   each tuple's four lines indented once more:
   "[\n" ++ ( "    (\n" "        k,\n" "        v,\n" "    ),\n" )* ++ "]" *)
Lemma debug_pairs_alt (l : list (K * V)) :
  (forall p, In p l -> ~ In ch_nl (dk (fst p) ++ dv (snd p))) ->
  debug_pairs dk dv true l =
  match l with
  | [] => [ch_lbrack; ch_rbrack]
  | _ => [ch_lbrack; ch_nl] ++
         concat (List.map (fun p =>
                   (s_indent ++ [ch_lpar; ch_nl]) ++
                   (s_indent ++ s_indent ++ dk (fst p) ++ s_comma_nl) ++
                   (s_indent ++ s_indent ++ dv (snd p) ++ s_comma_nl) ++
                   (s_indent ++ [ch_rpar] ++ s_comma_nl)) l) ++
         [ch_rbrack]
  end.
Proof.
  intros H. unfold debug_pairs, dbg_list.
  apply (dbg_seq_alt_map (fun p => dbg_tuple true (dk (fst p)) (dv (snd p)))). intros p Hp.
  specialize (H p Hp). apply nlfree_app in H. destruct H as [Hk Hv].
  rewrite (dbg_tuple_alt _ _ Hk Hv).
  (* the four lines *)
  set (a := dk (fst p)) in *. set (b := dv (snd p)) in *.
  transitivity (pad (unlines_nl [[ch_lpar]; s_indent ++ a ++ [ch_comma]; s_indent ++ b ++ [ch_comma];
                                 [ch_rpar; ch_comma]] [])).
  - f_equal. unfold unlines_nl. cbn [List.map concat]. rewrite <- !app_assoc. cbn [app]. reflexivity.
  - rewrite pad_lines.
    + unfold indent_lines. cbn [List.map concat]. rewrite <- !app_assoc. cbn [app]. reflexivity.
    + assert (Hsp : nlfree s_indent).
      { unfold s_indent. repeat (apply nlfree_cons; split; [discriminate|]). apply nlfree_nil. }
      assert (Hcm : nlfree [ch_comma]) by (apply nlfree_cons; split; [discriminate | apply nlfree_nil]).
      repeat constructor.
      * apply nlfree_cons; split; [discriminate | apply nlfree_nil].
      * apply nlfree_app; split; [exact Hsp|]. apply nlfree_app; split; assumption.
      * apply nlfree_app; split; [exact Hsp|]. apply nlfree_app; split; assumption.
      * apply nlfree_cons; split; [discriminate | exact Hcm].
    + apply nlfree_nil.
Qed.

(* general: whatever the element renderings contain, a list entry is the tuple's
   rendering followed by ",\n", every line indented *)
Lemma debug_pairs_alt_lines (l : list (K * V)) :
  debug_pairs dk dv true l =
  match l with
  | [] => [ch_lbrack; ch_rbrack]
  | _ => [ch_lbrack; ch_nl] ++
         concat (List.map (fun p =>
                   let e := dbg_tuple true (dk (fst p)) (dv (snd p)) ++ s_comma_nl in
                   indent_lines (fst (split_nl e)) (snd (split_nl e))) l) ++ [ch_rbrack]
  end.
Proof.
  unfold debug_pairs, dbg_list. rewrite dbg_seq_alt_lines.
  destruct l as [|p t]; [reflexivity|]. cbn [List.map]. rewrite map_map. reflexivity.
Qed.

End AltShapes.

(* the interpreter's element renderings contain no newline: the newline-free
   characterisations apply to everything the interpreter formats *)
Definition is_digit (c : N) : Prop := (48 <= c <= 57)%N.

Lemma dec_fuel_digits fuel : forall n acc, Forall is_digit acc -> Forall is_digit (dec_fuel fuel n acc).
Proof.
  induction fuel as [|f IH]; intros n acc Ha; cbn [dec_fuel]; [exact Ha|].
  assert (Hd : is_digit (48 + N.modulo n 10)%N).
  { unfold is_digit. pose proof (N.mod_lt n 10 ltac:(discriminate)) as Hm.
    generalize dependent (N.modulo n 10). intros m Hm. lia. }
  destruct (N.eqb (N.div n 10) 0); [constructor; assumption|].
  apply IH. constructor; assumption.
Qed.

Lemma dec_nlfree n : nlfree (dec n).
Proof.
  unfold dec. pose proof (dec_fuel_digits 25 n [] (Forall_nil _)) as H.
  intros Hin. rewrite Forall_forall in H. specialize (H _ Hin). unfold is_digit, ch_nl in H. lia.
Qed.

Lemma dbg_key_nlfree k : nlfree (dbg_key k).
Proof.
  unfold dbg_key. apply nlfree_cons. split; [discriminate|]. apply nlfree_app. split; [apply dec_nlfree|].
  apply nlfree_cons. split; [discriminate|]. apply dec_nlfree.
Qed.

Lemma dbg_val_nlfree v : nlfree (dbg_val v).
Proof.
  unfold dbg_val. apply nlfree_cons. split; [discriminate|]. apply nlfree_app. split; [apply dec_nlfree|].
  apply nlfree_cons. split; [discriminate|]. apply dec_nlfree.
Qed.

Lemma dbg_kv_nlfree (p : key * vobj) : ~ In ch_nl (dbg_key (fst p) ++ dbg_val (snd p)).
Proof. apply nlfree_app. split; [apply dbg_key_nlfree | apply dbg_val_nlfree]. Qed.

(* what `format!("{:#?}", map)` / `format!("{:#?}", set)` returns in the interpreter *)
Lemma format_m_alt_shape (w : world key vobj cstate) : WF (self w) ->
  format_m 2 w =
  Ok (r_str match Spec.elems (self w) with
            | [] => [ch_lbrace; ch_rbrace]
            | _ => [ch_lbrace; ch_nl] ++
                   concat (List.map (fun p => s_indent ++ dbg_key (fst p) ++ s_colon_sp ++
                                              dbg_val (snd p) ++ s_comma_nl) (Spec.elems (self w))) ++
                   [ch_rbrace]
            end) w.
Proof.
  intros Hw. rewrite (format_m_pure 2 w Hw). change (N.eqb 2 0) with false. change (N.eqb 2 2) with true.
  cbv beta iota. rewrite debug_map_alt; [reflexivity|]. intros p _. apply dbg_kv_nlfree.
Qed.

Lemma format_s_alt_shape (w : world key unit cstate) : WF (self w) ->
  format_s 2 w =
  Ok (r_str match List.map fst (Spec.elems (self w)) with
            | [] => [ch_lbrace; ch_rbrace]
            | _ => [ch_lbrace; ch_nl] ++
                   concat (List.map (fun k => s_indent ++ dbg_key k ++ s_comma_nl)
                                    (List.map fst (Spec.elems (self w)))) ++
                   [ch_rbrace]
            end) w.
Proof.
  intros Hw. rewrite (format_s_pure 2 w Hw). change (N.eqb 2 0) with false. change (N.eqb 2 2) with true.
  cbv beta iota. rewrite debug_set_alt; [reflexivity|]. intros k _. apply dbg_key_nlfree.
Qed.

(* ======================================================================== *)
(* PART 2 — Debug of a partly consumed iterator, every kind, as a string     *)
(* ======================================================================== *)

(* the renderers are pure functions of the current world: they return it as is *)
Lemma dbg_iter_pure kind alt c (w : world key vobj cstate) :
  dbg_iter kind alt c w =
  Ok (r_str (if N.eqb kind 2 then debug_keys dbg_key alt (List.map fst (range_list (self w) c))
             else if N.eqb kind 3 || N.eqb kind 4
                  then debug_values dbg_val alt (List.map snd (range_list (self w) c))
                  else debug_pairs dbg_key dbg_val alt (range_list (self w) c))) w.
Proof. reflexivity. Qed.

Lemma dbg_into_pure kind alt (w : world key vobj cstate) :
  dbg_into kind alt w =
  Ok (r_str (if N.eqb kind 1 then debug_keys dbg_key alt (List.map fst (Spec.elems (self w)))
             else if N.eqb kind 2 then debug_values dbg_val alt (List.map snd (Spec.elems (self w)))
                  else debug_pairs dbg_key dbg_val alt (Spec.elems (self w)))) w.
Proof. unfold dbg_into. rewrite exec_elems_eq. reflexivity. Qed.

Lemma dbg_range_pure {V} (dk : key -> str) (dv : V -> str) alt c (w : world key V cstate) :
  dbg_range dk dv alt c w = Ok (r_str (debug_pairs dk dv alt (range_list (self w) c))) w.
Proof. reflexivity. Qed.

(* Borrowing iterators on a Map.  kind: 0 Iter | 1 IterMut | 2 Keys | 3 Values |
   4 ValuesMut.  After iter() and n calls of next() the Debug output (plain or
   alternate) is the debug_list rendering of exactly the entries not yet
   yielded, [skipn n elems], in iteration order — keys only / values only /
   "(k, v)" tuples according to the kind — and the world is LITERALLY the
   initial one (container, log, callback state). *)
Lemma iter_debug_rest_render kind alt n (w : world key vobj cstate) :
  WF (self w) ->
  wp (c <- iter ;; r <- iter_run n c ;; dbg_iter kind alt (snd r))
     (fun s w' =>
        w' = w /\
        s = r_str (if N.eqb kind 2
                   then debug_keys dbg_key alt (List.map fst (skipn n (Spec.elems (self w))))
                   else if N.eqb kind 3 || N.eqb kind 4
                        then debug_values dbg_val alt (List.map snd (skipn n (Spec.elems (self w))))
                        else debug_pairs dbg_key dbg_val alt (skipn n (Spec.elems (self w)))))
     (fun _ => False) w.
Proof.
  intros Hw.
  apply (wp_bind_assoc iter (fun c => iter_run n c) (fun r => dbg_iter kind alt (snd r))).
  apply wp_bind.
  eapply wp_mono; [apply wp_conj; [apply iter_run_exact; exact Hw | apply iter_debug_rest; exact Hw] | |];
    cbn beta; [|tauto].
  intros r w' [(-> & _ & _) (_ & _ & _ & H)].
  unfold wp. rewrite dbg_iter_pure, H. split; reflexivity.
Qed.

(* the same for ANY value type (Set = Map<T,()> included) and any element
   renderings, for the "(k, v)"-tuple Debug of Iter / IterMut (Exec.dbg_range) *)
Lemma iter_debug_rest_render_pairs {V} (dk : key -> str) (dv : V -> str) alt n (w : world key V cstate) :
  WF (self w) ->
  wp (c <- iter ;; r <- iter_run n c ;; dbg_range dk dv alt (snd r))
     (fun s w' => w' = w /\ s = r_str (debug_pairs dk dv alt (skipn n (Spec.elems (self w)))))
     (fun _ => False) w.
Proof.
  intros Hw.
  apply (wp_bind_assoc iter (fun c => iter_run n c) (fun r => dbg_range dk dv alt (snd r))).
  apply wp_bind.
  eapply wp_mono; [apply wp_conj; [apply iter_run_exact; exact Hw | apply iter_debug_rest; exact Hw] | |];
    cbn beta; [|tauto].
  intros r w' [(-> & _ & _) (_ & _ & _ & H)].
  unfold wp. rewrite dbg_range_pure, H. split; reflexivity.
Qed.

(* Owning iterators.  kind: 0 IntoIter | 1 IntoKeys | 2 IntoValues.  They pop
   from the BACK (yielded = firstn n (rev elems)); their Debug formats the
   wrapped map, so it lists the not-yet-yielded entries in SLOT order: the
   first len - min n len entries of the original content.  In the state w1
   reached after n calls of next(), formatting returns that string and w1 itself. *)
Lemma into_debug_rest_render_at kind alt n (w : world key vobj cstate) :
  WF (self w) ->
  wp (into_run n)
     (fun r w1 =>
        r = firstn n (rev (Spec.elems (self w))) /\
        let rest := firstn (len (self w) - Nat.min n (len (self w))) (Spec.elems (self w)) in
        dbg_into kind alt w1 =
        Ok (r_str (if N.eqb kind 1 then debug_keys dbg_key alt (List.map fst rest)
                   else if N.eqb kind 2 then debug_values dbg_val alt (List.map snd rest)
                        else debug_pairs dbg_key dbg_val alt rest)) w1)
     (fun _ => False) w.
Proof.
  intros Hw. eapply wp_mono; [apply into_run_spec; exact Hw | | auto]; cbn beta.
  intros r w1 (_ & _ & _ & Hr & _ & He). split; [exact Hr|]. cbv zeta.
  rewrite dbg_into_pure, He. reflexivity.
Qed.

Lemma into_debug_rest_render kind alt n (w : world key vobj cstate) :
  WF (self w) ->
  wp (_ <- into_run n ;; dbg_into kind alt)
     (fun s w' =>
        let rest := firstn (len (self w) - Nat.min n (len (self w))) (Spec.elems (self w)) in
        s = r_str (if N.eqb kind 1 then debug_keys dbg_key alt (List.map fst rest)
                   else if N.eqb kind 2 then debug_values dbg_val alt (List.map snd rest)
                        else debug_pairs dbg_key dbg_val alt rest) /\
        WF (self w') /\ Spec.elems (self w') = rest /\ cap (self w') = cap (self w) /\ log w' = log w)
     (fun _ => False) w.
Proof.
  intros Hw. apply wp_bind.
  eapply wp_mono; [apply into_run_spec; exact Hw | | auto]; cbn beta.
  intros r w1 (Hw1 & Hc & Hl & _ & _ & He). unfold wp. rewrite dbg_into_pure. cbv zeta.
  rewrite He. auto.
Qed.

(* ---- the interpreter's own sessions (with what they do between the steps) ---- *)

(* consuming sessions: into_keys destroys the value of each popped pair,
   into_values the key (user Drop code: any script, it may panic — then the
   session is over and nothing is claimed) *)
Lemma into_steps_item_self sc kind p (w : world key vobj cstate) :
  wp (into_steps_item sc kind p) (fun _ w' => self w' = self w) (fun _ => True) w.
Proof.
  unfold into_steps_item. destruct (N.eqb kind 1); [|destruct (N.eqb kind 2)].
  - apply wp_bind. unfold drop_val. apply wp_bind. apply wp_emit. apply wp_bind. apply wp_cbd.
    intros b s. destruct b; [apply wp_panic; exact I | apply wp_ret; apply wp_ret; reflexivity].
  - apply wp_bind. unfold drop_key. apply wp_bind. apply wp_emit. apply wp_bind. apply wp_cbd.
    intros b s. destruct b; [apply wp_panic; exact I | apply wp_ret; apply wp_ret; reflexivity].
  - apply wp_ret. reflexivity.
Qed.

Lemma into_steps_rest sc kind n : forall acc (w : world key vobj cstate),
  WF (self w) ->
  wp (into_steps sc kind n acc)
     (fun _ w1 => WF (self w1) /\
        Spec.elems (self w1) = firstn (len (self w) - Nat.min n (len (self w))) (Spec.elems (self w)))
     (fun _ => True) w.
Proof.
  induction n as [|n IH]; intros acc w Hw; cbn [into_steps].
  - apply wp_ret. split; [exact Hw|]. rewrite Nat.min_0_l, Nat.sub_0_r, <- (elems_length _ Hw).
    symmetry. apply firstn_all.
  - apply wp_bind. apply wp_get_len. apply wp_bind.
    eapply wp_mono; [apply into_iter_next_exact; exact Hw | | intros ? []]; cbn beta.
    intros [p|] w1 (Hw1 & _ & _ & H1).
    + destruct H1 as [Hlen He]. apply wp_bind.
      eapply wp_mono; [apply into_steps_item_self | | auto]; cbn beta.
      intros it w2 Hs2.
      assert (Hw2 : WF (self w2)) by (rewrite Hs2; exact Hw1).
      eapply wp_mono; [apply (IH _ w2 Hw2) | | auto]; cbn beta.
      intros _ w3 [Hw3 He3]. split; [exact Hw3|]. rewrite He3, Hs2, He.
      pose proof (elems_length _ Hw1) as HL1.
      replace (len (self w) - Nat.min (S n) (len (self w)))
        with (len (self w1) - Nat.min n (len (self w1))) by lia.
      rewrite firstn_app.
      replace (len (self w1) - Nat.min n (len (self w1)) - length (Spec.elems (self w1))) with 0 by lia.
      cbn [firstn]. rewrite app_nil_r. reflexivity.
    + destruct H1 as [Hlen He].
      eapply wp_mono; [apply (IH _ w1 Hw1) | | auto]; cbn beta.
      intros _ w3 [Hw3 He3]. split; [exact Hw3|]. rewrite He3, He, Hlen. reflexivity.
Qed.

(* Exec.into_session up to its Debug observation, any script, any kind *)
Lemma into_steps_debug_rest sc kind alt n acc (w : world key vobj cstate) :
  WF (self w) ->
  wp (into_steps sc kind n acc)
     (fun _ w1 =>
        let rest := firstn (len (self w) - Nat.min n (len (self w))) (Spec.elems (self w)) in
        dbg_into kind alt w1 =
        Ok (r_str (if N.eqb kind 1 then debug_keys dbg_key alt (List.map fst rest)
                   else if N.eqb kind 2 then debug_values dbg_val alt (List.map snd rest)
                        else debug_pairs dbg_key dbg_val alt rest)) w1)
     (fun _ => True) w.
Proof.
  intros Hw. eapply wp_mono; [apply into_steps_rest; exact Hw | | auto]; cbn beta.
  intros _ w1 [_ He]. cbv zeta. rewrite dbg_into_pure, He. reflexivity.
Qed.

(* borrowing sessions as the interpreter runs them: the mutable kinds (1 IterMut,
   4 ValuesMut) WRITE a new payload through every reference they are handed;
   the entries not yet yielded are untouched by that, so the Debug output is
   still the rendering of [skipn n] of the ORIGINAL content *)
Lemma iter_steps_rest kind wd n : forall j lo acc (w : world key vobj cstate),
  WF (self w) -> lo <= len (self w) ->
  wp (iter_steps kind wd n j (lo, len (self w)) acc)
     (fun r w' =>
        let lo' := lo + Nat.min n (len (self w) - lo) in
        WF (self w') /\ len (self w') = len (self w) /\ cap (self w') = cap (self w) /\
        snd r = (lo', len (self w)) /\
        skipn lo' (Spec.elems (self w')) = skipn lo' (Spec.elems (self w)) /\
        log w' = log w /\ cb w' = cb w)
     (fun _ => False) w.
Proof.
  induction n as [|n IH]; intros j lo acc w Hw Hlo; cbn [iter_steps].
  - apply wp_ret. cbv zeta. cbn [snd]. rewrite Nat.min_0_l, Nat.add_0_r. auto 10.
  - apply wp_bind.
    eapply wp_mono; [apply iter_next_exact; [exact Hw | lia] | | auto]; cbn beta.
    intros r0 w0 [-> ->]. destruct (Nat.ltb_spec lo (len (self w))) as [Hlt|Hge]; cbv beta iota.
    + destruct (WF_live _ _ Hw Hlt) as [p Hp].
      apply wp_bind. eapply wp_p_ref; [exact Hp|]. apply wp_bind.
      set (p' := (fst p, {| vid := vid (snd p); vdat := wd + nn j |})).
      assert (Hstep : forall w1 : world key vobj cstate,
                 (w1 = w \/ w1 = with_self w (set_slot_m (self w) lo (Some p'))) ->
                 wp (iter_steps kind wd n (S j) (S lo, len (self w))
                       (acc ++ [nn (cursor_len (lo, len (self w))); nn (cursor_len (lo, len (self w)));
                                nn (cursor_len (lo, len (self w))); 1%N; nn lo] ++ r_item kind p))
                    (fun r w' =>
                       let lo' := lo + Nat.min (S n) (len (self w) - lo) in
                       WF (self w') /\ len (self w') = len (self w) /\ cap (self w') = cap (self w) /\
                       snd r = (lo', len (self w)) /\
                       skipn lo' (Spec.elems (self w')) = skipn lo' (Spec.elems (self w)) /\
                       log w' = log w /\ cb w' = cb w)
                    (fun _ => False) w1).
      { intros w1 Hw1.
        assert (H1 : WF (self w1) /\ len (self w1) = len (self w) /\ cap (self w1) = cap (self w) /\
                     log w1 = log w /\ cb w1 = cb w /\
                     forall k, lo < k -> skipn k (Spec.elems (self w1)) = skipn k (Spec.elems (self w))).
        { destruct Hw1 as [->| ->]; [auto 10|]. simp_w.
          split; [apply WF_set_slot_some; [exact Hw | pose proof (WF_len_le_cap _ Hw); lia]|].
          split; [reflexivity|]. split; [apply cap_set_slot|]. split; [reflexivity|]. split; [reflexivity|].
          intros k Hk. rewrite elems_set_slot by assumption. apply skipn_upd_lt. exact Hk. }
        destruct H1 as (Hwf1 & Hl1 & Hc1 & Hg1 & Hb1 & Hsk1).
        rewrite <- Hl1.
        eapply wp_mono; [apply (IH (S j) (S lo) _ w1 Hwf1); lia | | auto]; cbn beta.
        intros r w' (Hw' & Hl' & Hc' & Hr & Hsk & Hg' & Hb'). cbv zeta in *. rewrite Hl1 in *.
        replace (lo + Nat.min (S n) (len (self w) - lo))
          with (S lo + Nat.min n (len (self w) - S lo)) by lia.
        split; [exact Hw'|]. split; [exact Hl'|]. split; [congruence|]. split; [exact Hr|].
        split; [rewrite Hsk; apply Hsk1; lia|]. split; congruence. }
      destruct (is_mut_kind kind).
      * unfold set_dat. apply wp_bind. eapply wp_p_replace; [exact Hp|]. apply wp_ret.
        apply Hstep. right. reflexivity.
      * apply wp_ret. apply Hstep. left. reflexivity.
    + eapply wp_mono; [apply (IH (S j) lo _ w Hw Hlo) | | auto]; cbn beta.
      intros r w' H. cbv zeta in *.
      replace (Nat.min (S n) (len (self w) - lo)) with (Nat.min n (len (self w) - lo)) by lia. exact H.
Qed.

(* Exec.iter_session up to its Debug observation: any kind, any written payload *)
Lemma iter_steps_debug_rest kind wd alt n (w : world key vobj cstate) :
  WF (self w) ->
  wp (c <- iter ;; r <- iter_steps kind wd n 0 c [] ;; dbg_iter kind alt (snd r))
     (fun s w' =>
        s = r_str (if N.eqb kind 2
                   then debug_keys dbg_key alt (List.map fst (skipn n (Spec.elems (self w))))
                   else if N.eqb kind 3 || N.eqb kind 4
                        then debug_values dbg_val alt (List.map snd (skipn n (Spec.elems (self w))))
                        else debug_pairs dbg_key dbg_val alt (skipn n (Spec.elems (self w)))) /\
        log w' = log w /\ cb w' = cb w /\ len (self w') = len (self w) /\
        skipn n (Spec.elems (self w')) = skipn n (Spec.elems (self w)))
     (fun _ => False) w.
Proof.
  intros Hw. apply wp_bind.
  eapply wp_mono; [apply iter_exact; exact Hw | | auto]; cbn beta.
  intros c w0 [-> ->]. apply wp_bind.
  eapply wp_mono; [apply (iter_steps_rest kind wd n 0 0 [] w Hw); lia | | auto]; cbn beta.
  intros r w' (Hw' & Hl' & _ & Hr & Hsk & Hg & Hb). cbv zeta in *.
  rewrite Nat.sub_0_r in *. cbn [Nat.add] in *.
  assert (Hrl : range_list (self w') (snd r) = skipn n (Spec.elems (self w))).
  { rewrite Hr, <- Hl'. rewrite range_list_rest; [|exact Hw' | rewrite Hl'; apply Nat.le_min_r].
    rewrite Hl', Hsk. rewrite <- (elems_length _ Hw). apply skipn_min_length. }
  unfold wp. rewrite dbg_iter_pure, Hrl. split; [reflexivity|]. split; [exact Hg|]. split; [exact Hb|].
  split; [exact Hl'|].
  rewrite <- (skipn_min_length (Spec.elems (self w')) n), <- (skipn_min_length (Spec.elems (self w)) n).
  rewrite (elems_length _ Hw'), (elems_length _ Hw), Hl'. exact Hsk.
Qed.

(* ======================================================================== *)
(* PART 3 — Debug of the set-algebra adaptors                                *)
(* ======================================================================== *)
(* Difference / DifferenceRef (kind 0 and any kind > 3), Intersection (1),
   Union (2), SymmetricDifference (3).  Their Debug impl is
   f.debug_list().entries(self.clone()).finish(): a CLONE of the adaptor is run
   to exhaustion (calling ==, i.e. the user's PartialEq) and the keys it yields
   are rendered as a list.  In the interpreter: [alg_fold] (what the clone
   yields: (side, slot) items) followed by [alg_debug]. *)

Notation smap := (map key unit).

(* the items an adaptor in state [st] still has to yield, by the specification
   of Proofs/Algebra.v, Algebra2.v *)
Definition alg_items (kind : N) (a b : smap) (st : astate) : list (bool * nat) :=
  match st with
  | ACur c => List.map (fun i => (false, i)) (sel kcls a b (N.eqb kind 1) (fst c) (cursor_len c))
  | AChain u => if N.eqb kind 2 then union_items kcls a b u else symdiff_items kcls a b u
  end.

(* the keys those items designate ((false, i) = entry i of a, (true, i) = entry i of b) *)
Definition alg_keys (a b : smap) (items : list (bool * nat)) : list key :=
  flat_map (fun x => match item_pair a b x with Some p => [fst p] | None => [] end) items.

Lemma alg_keys_resolved (a b : smap) items ps :
  List.map (item_pair a b) items = List.map Some ps -> alg_keys a b items = List.map fst ps.
Proof.
  revert ps; induction items as [|x t IH]; intros [|p ps] H; cbn [List.map] in H; try discriminate; [reflexivity|].
  injection H as Hx Ht. unfold alg_keys. cbn [flat_map List.map]. rewrite Hx. cbn [app].
  f_equal. apply IH. exact Ht.
Qed.

Lemma alg_debug_keys (a b : smap) items alt :
  WF a -> WF b -> Forall (side_ok a b) items ->
  alg_debug a b items alt = r_str (debug_keys dbg_key alt (alg_keys a b items)) /\
  length (alg_keys a b items) = length items.
Proof.
  intros Ha Hb Hs. unfold alg_debug, alg_keys.
  assert (H : flat_map (fun x : bool * nat =>
                 match nth_error (slots (if fst x then b else a)) (snd x) with
                 | Some (Some p) => [fst p] | _ => [] end) items
              = flat_map (fun x => match item_pair a b x with Some p => [fst p] | None => [] end) items
              /\ length (flat_map (fun x => match item_pair a b x with Some p => [fst p] | None => [] end) items)
                 = length items).
  { induction Hs as [|x t Hx Ht IH]; [split; reflexivity|]. cbn [flat_map]. destruct IH as [IH1 IH2].
    rewrite IH1, app_length, IH2.
    assert (Hm : WF (if fst x then b else a)) by (destruct (fst x); assumption).
    assert (Hi : snd x < len (if fst x then b else a)).
    { unfold side_ok in Hx. destruct (fst x); exact Hx. }
    destruct (WF_live _ _ Hm Hi) as [p Hp]. rewrite Hp.
    unfold item_pair. rewrite (proj2 (elems_nth _ _ p Hm Hi) Hp). split; reflexivity. }
  destruct H as [H1 H2]. rewrite H1. split; [reflexivity | exact H2].
Qed.

(* under the honest script the clone's fold computes exactly the specified
   item list and leaves container and log alone *)
Lemma alg_fold_lawful sc kind (a b : smap) st (w : world key unit cstate) :
  honest sc -> WF a -> WF b -> ast_ok a b kind st ->
  wp (alg_fold sc kind a b st)
     (fun l w' => stable w w' /\ l = alg_items kind a b st) (fun _ => False) w.
Proof.
  intros Hh Ha Hb Hst. pose proof (env_set_lawful sc Hh) as HL.
  destruct st as [c|u]; cbn [alg_fold ast_ok alg_items] in *.
  - destruct Hst as [H1 H2]. apply wp_bind.
    destruct (N.eqb kind 1); unfold inter_fold, diff_fold;
      (eapply wp_mono;
       [apply (filter_fold_lawful (env_set sc) kcls qcls HL a b _ (cursor_len c) (fst c) [] w Ha Hb);
        unfold cursor_len; lia | | auto]); cbn beta;
      intros r w' [Hs ->]; apply wp_ret; (split; [exact Hs | reflexivity]).
  - destruct (N.eqb kind 2).
    + apply (union_fold_lawful (env_set sc) kcls qcls HL a b u w Ha Hb Hst).
    + apply (symdiff_fold_lawful (env_set sc) kcls qcls HL a b u w Ha Hb Hst).
Qed.

(* ---- what formatting an adaptor does to the callback state: only the
        comparison counter moves (every script, honest or not) ---- *)
Definition eq_only (s s' : cstate) : Prop :=
  n_clone s' = n_clone s /\ n_call s' = n_call s /\ next_id s' = next_id s /\ (n_eq s <= n_eq s')%N.

Lemma eq_only_refl s : eq_only s s.
Proof. unfold eq_only. repeat split; lia. Qed.
Lemma eq_only_trans s1 s2 s3 : eq_only s1 s2 -> eq_only s2 s3 -> eq_only s1 s3.
Proof. unfold eq_only. intros (A1 & A2 & A3 & A4) (B1 & B2 & B3 & B4). repeat split; try congruence; lia. Qed.

Lemma eq_answer_eq_only sc s t : eq_only s (snd (eq_answer sc s t)).
Proof.
  unfold eq_answer. destruct (N.eqb (sc_fk sc) 1 && N.eqb (sc_fa sc) (n_eq s)); cbn [snd];
    unfold eq_only; cbn [n_eq n_clone n_call next_id]; repeat split; lia.
Qed.

Definition cbpres {A} (c : Ms A) : Prop :=
  forall w, match c w with
            | Ok _ w' => eq_only (cb w) (cb w')
            | Panic w' => eq_only (cb w) (cb w')
            | UB => True
            end.

Lemma cbpres_ret {A} (a : A) : cbpres (ret a).
Proof. intros w. apply eq_only_refl. Qed.
Lemma cbpres_bind {A B} (c : Ms A) (f : A -> Ms B) :
  cbpres c -> (forall a, cbpres (f a)) -> cbpres (bind c f).
Proof.
  intros Hc Hf w. unfold bind. specialize (Hc w). destruct (c w) as [a w1|w1|]; [|exact Hc|exact I].
  specialize (Hf a w1). destruct (f a w1) as [x w2|w2|]; [| |exact I]; eapply eq_only_trans; eauto.
Qed.
Lemma cbpres_same {A} (c : Ms A) :
  (forall w, match c w with Ok _ w' => cb w' = cb w | Panic w' => cb w' = cb w | UB => True end) -> cbpres c.
Proof. intros H w. specialize (H w). destruct (c w); try rewrite H; try apply eq_only_refl; exact I. Qed.
Lemma cbpres_on_map {A} (m : smap) (c : Ms A) : cbpres c -> cbpres (on_map m c).
Proof.
  intros Hc w. unfold on_map. specialize (Hc {| cb := cb w; log := log w; self := m |}).
  destruct (c _) as [a w1|w1|]; cbn [cb] in *; assumption.
Qed.
Lemma cbpres_test_k sc k p : cbpres (test_k (env_set sc) k p).
Proof.
  intros w. unfold test_k, cbk. cbn [env_set eqK].
  pose proof (eq_answer_eq_only sc (cb w) (cls_truth sc (kcls (fst p)) (kcls k))) as H.
  destruct (eq_answer sc (cb w) _) as [an s]. cbn [snd] in H. destruct an; cbn [cb]; exact H.
Qed.
Lemma cbpres_p_ref i : cbpres (@p_ref key unit cstate i).
Proof. apply cbpres_same. intros w. unfold p_ref. destruct (nth_error _ _) as [[p|]|]; auto. Qed.

Lemma cbpres_scan_loop sc k n : forall i, cbpres (scan_loop (test_k (env_set sc) k) n i).
Proof.
  induction n as [|n IH]; intros i; cbn [scan_loop]; [apply cbpres_ret|].
  apply cbpres_bind; [apply cbpres_p_ref|]. intros p.
  apply cbpres_bind; [apply cbpres_test_k|]. intros [|]; [apply cbpres_ret | apply IH].
Qed.

Lemma cbpres_contains_in sc (b : smap) k : cbpres (contains_in (env_set sc) b k).
Proof.
  unfold contains_in. apply cbpres_on_map. apply cbpres_bind; [|intros r; apply cbpres_ret].
  unfold scan. apply cbpres_bind.
  - apply cbpres_same. intros w. unfold p_prefix, bind, get_len, get_cap.
    destruct (len (self w) <=? cap (self w)); reflexivity.
  - intros _. apply cbpres_bind; [apply cbpres_same; intros w; reflexivity|]. intros n.
    apply cbpres_scan_loop.
Qed.

Lemma cbpres_filter_fold sc (a b : smap) want n : forall lo acc,
  cbpres (filter_fold (env_set sc) a b want n lo acc).
Proof.
  induction n as [|n IH]; intros lo acc; cbn [filter_fold]; [apply cbpres_ret|].
  destruct (nth_error (slots a) lo) as [[[k u]|]|]; try (intros w; exact I).
  apply cbpres_bind; [apply cbpres_contains_in|]. intros inb. apply IH.
Qed.

Lemma cbpres_siter_fold (b : smap) n : forall lo acc, cbpres (@siter_fold key cstate b n lo acc).
Proof.
  induction n as [|n IH]; intros lo acc; cbn [siter_fold]; [apply cbpres_ret|].
  destruct (nth_error (slots b) lo) as [[p|]|]; try (intros w; exact I). apply IH.
Qed.

Lemma cbpres_alg_fold sc kind (a b : smap) st : cbpres (alg_fold sc kind a b st).
Proof.
  destruct st as [c|u]; cbn [alg_fold].
  - apply cbpres_bind; [|intros l; apply cbpres_ret].
    destruct (N.eqb kind 1); apply cbpres_filter_fold.
  - destruct (N.eqb kind 2).
    + unfold union_fold. apply cbpres_bind.
      * destruct (front u); [apply cbpres_siter_fold | apply cbpres_ret].
      * intros acc. apply cbpres_bind; [apply cbpres_filter_fold | intros l; apply cbpres_ret].
    + unfold symdiff_fold. apply cbpres_bind.
      * destruct (front u); [apply cbpres_filter_fold | apply cbpres_ret].
      * intros l1. apply cbpres_bind; [apply cbpres_filter_fold | intros l; apply cbpres_ret].
Qed.

Lemma wp_cbpres {A} (c : Ms A) Qn Qp w :
  wp c Qn Qp w -> cbpres c ->
  wp c (fun a w' => Qn a w' /\ eq_only (cb w) (cb w')) (fun w' => Qp w' /\ eq_only (cb w) (cb w')) w.
Proof. unfold wp. intros H Hc. specialize (Hc w). destruct (c w); auto. Qed.

(* THE THEOREM.  Formatting ({:?} or {:#?}) an adaptor that is in any reachable
   state [st] over well-formed operands a (= self of the left set) and b:
   - returns normally (the honest == never panics);
   - the string is the debug_list rendering of the keys of exactly the items
     still to come, [alg_items kind a b st], in the order the adaptor would
     yield them; no item is lost ([length] clause);
   - the world is [stable]: the register and the event log are unchanged
     (nothing cloned or dropped: only the CURSOR is cloned); the operands a, b
     and the adaptor state st are values here, so they cannot change at all —
     in particular the iterator's position is not advanced;
   - of the callback state only the comparison counter n_eq moves (it counts
     the == calls of the clone's run); n_clone, n_call, next_id are unchanged. *)
Lemma alg_debug_spec sc kind (a b : smap) st alt (w : world key unit cstate) :
  honest sc -> WF a -> WF b -> ast_ok a b kind st ->
  wp (l <- alg_fold sc kind a b st ;; ret (alg_debug a b l alt))
     (fun s w' =>
        s = r_str (debug_keys dbg_key alt (alg_keys a b (alg_items kind a b st))) /\
        length (alg_keys a b (alg_items kind a b st)) = length (alg_items kind a b st) /\
        stable w w' /\ eq_only (cb w) (cb w'))
     (fun _ => False) w.
Proof.
  intros Hh Ha Hb Hst. apply wp_bind.
  eapply wp_mono;
    [apply wp_cbpres;
     [apply wp_conj; [apply (alg_fold_lawful sc kind a b st w Hh Ha Hb Hst)
                     | apply (alg_fold_spec sc kind a b st w Ha Hb Hst)]
     | apply cbpres_alg_fold] | |]; cbn beta; [|tauto].
  intros l w' [[[Hs ->] [_ Hok]] Hcb]. apply wp_ret.
  destruct (alg_debug_keys a b _ alt Ha Hb Hok) as [H1 H2]. auto.
Qed.

(* any script (adversarial ==, injected faults): no UB, the register is
   unchanged also when == panics, only n_eq moves *)
Lemma alg_debug_any_script sc kind (a b : smap) st alt (w : world key unit cstate) :
  WF a -> WF b -> ast_ok a b kind st ->
  wp (l <- alg_fold sc kind a b st ;; ret (alg_debug a b l alt))
     (fun _ w' => self w' = self w /\ eq_only (cb w) (cb w'))
     (fun w' => self w' = self w /\ eq_only (cb w) (cb w')) w.
Proof.
  intros Ha Hb Hst. apply wp_bind.
  eapply wp_mono; [apply wp_cbpres; [apply (alg_fold_spec sc kind a b st w Ha Hb Hst) | apply cbpres_alg_fold] | |];
    cbn beta; [|auto].
  intros l w' [[Hs _] Hcb]. apply wp_ret. auto.
Qed.

(* ---- the position: each next() pops the head of [alg_items] ---- *)
Lemma alg_next_items sc kind (a b : smap) st (w : world key unit cstate) :
  honest sc -> WF a -> WF b -> ast_ok a b kind st ->
  wp (alg_next sc kind a b st)
     (fun r w' => stable w w' /\ ast_ok a b kind (snd r) /\ yield_ok a b (fst r) /\
                  fst r = hd_error (alg_items kind a b st) /\
                  alg_items kind a b (snd r) = tl (alg_items kind a b st))
     (fun _ => False) w.
Proof.
  intros Hh Ha Hb Hst. pose proof (env_set_lawful sc Hh) as HL.
  assert (Hmain : wp (alg_next sc kind a b st)
                     (fun r w' => stable w w' /\ fst r = hd_error (alg_items kind a b st) /\
                                  alg_items kind a b (snd r) = tl (alg_items kind a b st))
                     (fun _ => False) w).
  2: { eapply wp_mono; [apply wp_conj; [exact Hmain | apply (alg_next_spec sc kind a b st w Ha Hb Hst)] | |];
         cbn beta.
       - intros r w' [(H1 & H2 & H3) (_ & H4 & H5)]. split; [exact H1|]. split; [exact H4|].
         split; [exact H5|]. split; [exact H2 | exact H3].
       - intros w' [[] _]. }
  destruct st as [c|u]; cbn [alg_next ast_ok alg_items] in *.
  - destruct Hst as [H1 H2]. apply wp_bind.
    assert (Hc : fst c + cursor_len c = snd c) by (unfold cursor_len; lia).
    assert (Hn : wp (if N.eqb kind 1 then inter_next (env_set sc) a b c else diff_next (env_set sc) a b c)
                    (fun r w' => stable w w' /\
                       fst r = hd_error (sel kcls a b (N.eqb kind 1) (fst c) (cursor_len c)) /\
                       snd r = match hd_error (sel kcls a b (N.eqb kind 1) (fst c) (cursor_len c)) with
                               | Some i => (S i, fst c + cursor_len c)
                               | None => (fst c + cursor_len c, fst c + cursor_len c)
                               end)
                    (fun _ => False) w).
    { destruct (N.eqb kind 1); unfold inter_next, diff_next;
        apply (filter_next_lawful (env_set sc) kcls qcls HL); try assumption; lia. }
    eapply wp_mono; [exact Hn | | auto]; cbn beta.
    intros [o c'] w' (Hs & Ho & Hc'). cbn [fst snd] in Ho, Hc'. apply wp_ret.
    unfold tag_left. cbn [fst snd]. split; [exact Hs|]. subst o c'.
    destruct (sel kcls a b (N.eqb kind 1) (fst c) (cursor_len c)) as [|i rest] eqn:Hsel;
      cbn [hd_error option_map List.map tl].
    + split; [reflexivity|]. cbn [alg_items fst snd].
      replace (cursor_len (fst c + cursor_len c, fst c + cursor_len c)) with 0
        by (unfold cursor_len; cbn [fst snd]; lia).
      reflexivity.
    + destruct (sel_cons kcls a b _ _ _ _ _ Hsel) as [Hi Hrest].
      split; [reflexivity|]. cbn [alg_items fst snd].
      change (cursor_len (S i, fst c + cursor_len c)) with (fst c + cursor_len c - S i).
      rewrite <- Hrest. reflexivity.
  - apply wp_bind. destruct (N.eqb kind 2) eqn:E2.
    + eapply wp_mono; [apply (union_next_lawful (env_set sc) kcls qcls HL a b u w Ha Hb Hst) | | auto];
        cbn beta.
      intros [o u'] w' (Hs & _ & Ho & Hu'). cbn [fst snd] in *. apply wp_ret. cbn [fst snd alg_items].
      rewrite E2. auto.
    + eapply wp_mono; [apply (symdiff_next_lawful (env_set sc) kcls qcls HL a b u w Ha Hb Hst) | | auto];
        cbn beta.
      intros [o u'] w' (Hs & _ & Ho & Hu'). cbn [fst snd] in *. apply wp_ret. cbn [fst snd alg_items].
      rewrite E2. auto.
Qed.

Lemma r_side_same (a b : smap) x (w : world key unit cstate) :
  WF a -> WF b -> side_ok a b x -> wp (r_side a b x) (fun _ w' => w' = w) (fun _ => False) w.
Proof.
  intros Ha Hb Hx. destruct x as [t i]. unfold side_ok in Hx. cbn [fst snd] in Hx.
  unfold r_side. cbn [fst snd]. destruct t.
  - destruct (WF_live _ _ Hb Hx) as [p Hp]. rewrite Hp. apply wp_ret. reflexivity.
  - destruct (WF_live _ _ Ha Hx) as [p Hp]. rewrite Hp. apply wp_ret. reflexivity.
Qed.

(* n steps of the interpreter's session leave exactly [skipn n] of the items *)
Lemma alg_steps_items sc kind (a b : smap) : honest sc -> WF a -> WF b ->
  forall n st acc (w : world key unit cstate), ast_ok a b kind st ->
  wp (alg_steps sc kind a b n st acc)
     (fun r w' => stable w w' /\ ast_ok a b kind (snd r) /\
                  alg_items kind a b (snd r) = skipn n (alg_items kind a b st))
     (fun _ => False) w.
Proof.
  intros Hh Ha Hb. induction n as [|n IH]; intros st acc w Hst; cbn [alg_steps].
  - apply wp_ret. cbn [snd skipn]. split; [apply stable_refl | auto].
  - destruct (alg_hint kind a b st) as [lo hi]. apply wp_bind.
    eapply wp_mono; [apply (alg_next_items sc kind a b st w Hh Ha Hb Hst) | | auto]; cbn beta.
    intros [o st'] w1 (Hs1 & Hst' & Hy & Ho & Hit). cbn [fst snd] in *.
    assert (Hsk : skipn n (alg_items kind a b st') = skipn (S n) (alg_items kind a b st)).
    { rewrite Hit. destruct (alg_items kind a b st); [destruct n; reflexivity | reflexivity]. }
    destruct o as [x|].
    + apply wp_bind. eapply wp_mono; [apply (r_side_same a b x w1 Ha Hb Hy) | | auto]; cbn beta.
      intros h w2 ->.
      eapply wp_mono; [apply (IH st' _ w1 Hst') | | auto]; cbn beta.
      intros r w3 (Hs3 & Hok & Hi). split; [eapply stable_trans; eauto|]. split; [exact Hok|].
      rewrite Hi. exact Hsk.
    + eapply wp_mono; [apply (IH st' _ w1 Hst') | | auto]; cbn beta.
      intros r w3 (Hs3 & Hok & Hi). split; [eapply stable_trans; eauto|]. split; [exact Hok|].
      rewrite Hi. exact Hsk.
Qed.

(* ---- the content at creation ---- *)
(* what each adaptor yields in all, in order, as entries of the operands:
   Union (2): all of b, then the entries of a not in b;  SymmetricDifference (3):
   a \ b then b \ a;  Intersection (1): the entries of a that are in b;
   Difference / DifferenceRef (others): the entries of a not in b *)
Definition alg_spec_list (kind : N) (a b : smap) : list (key * unit) :=
  if N.eqb kind 2 then
    Spec.elems b ++ filter (fun p => negb (mem kcls b (fst p))) (Spec.elems a)
  else if N.eqb kind 3 then
    filter (fun p => negb (mem kcls b (fst p))) (Spec.elems a) ++
    filter (fun p => negb (mem kcls a (fst p))) (Spec.elems b)
  else if N.eqb kind 1 then filter (fun p => mem kcls b (fst p)) (Spec.elems a)
  else filter (fun p => negb (mem kcls b (fst p))) (Spec.elems a).

Definition alg_st0 (kind : N) (a b : smap) : astate :=
  if N.eqb kind 2 then AChain (union_init a b)
  else if N.eqb kind 3 then AChain (symdiff_init a b)
  else ACur (0, len a).

Lemma alg_init_lawful kind (a b : smap) (w : world key unit cstate) :
  WF a -> WF b ->
  wp (alg_init kind a b)
     (fun st w' => stable w w' /\ st = alg_st0 kind a b /\ ast_ok a b kind st) (fun _ => False) w.
Proof.
  intros Ha Hb. unfold alg_init, alg_st0. destruct (N.eqb kind 2) eqn:E2.
  - apply wp_bind. eapply wp_mono; [apply union_lawful; assumption | | auto]; cbn beta.
    intros u w' (Hs & -> & Hok). apply wp_ret. split; [exact Hs|]. split; [reflexivity|].
    cbn [ast_ok]. rewrite E2. exact Hok.
  - destruct (N.eqb kind 3) eqn:E3.
    + apply wp_bind. eapply wp_mono; [apply symdiff_lawful; assumption | | auto]; cbn beta.
      intros u w' (Hs & -> & Hok). apply wp_ret. split; [exact Hs|]. split; [reflexivity|].
      cbn [ast_ok]. rewrite E2. exact Hok.
    + apply wp_bind. eapply wp_mono; [apply difference_lawful; assumption | | auto]; cbn beta.
      intros c w' (Hs & ->). apply wp_ret. split; [exact Hs|]. split; [reflexivity|].
      cbn [ast_ok fst snd]. lia.
Qed.

Lemma filter_eqb_true_id (b : smap) (l : list (key * unit)) :
  filter (fun p => Bool.eqb (mem kcls b (fst p)) true) l = filter (fun p => mem kcls b (fst p)) l.
Proof. apply filter_ext. intros p. destruct (mem kcls b (fst p)); reflexivity. Qed.

Lemma alg_items_init kind (a b : smap) :
  WF a -> WF b ->
  List.map (item_pair a b) (alg_items kind a b (alg_st0 kind a b)) = List.map Some (alg_spec_list kind a b).
Proof.
  intros Ha Hb. unfold alg_st0, alg_spec_list. destruct (N.eqb kind 2) eqn:E2.
  - cbn [alg_items]. rewrite E2. apply union_elems; assumption.
  - destruct (N.eqb kind 3) eqn:E3.
    + cbn [alg_items]. rewrite E2. apply symdiff_elems; assumption.
    + cbn [alg_items fst]. unfold cursor_len. cbn [fst snd]. rewrite Nat.sub_0_r, map_map.
      unfold item_pair. cbn [fst snd]. rewrite (sel_elems kcls a b (N.eqb kind 1) Ha).
      destruct (N.eqb kind 1); [rewrite filter_eqb_true_id | rewrite filter_eqb_false_negb]; reflexivity.
Qed.

Lemma alg_keys_skipn (a b : smap) items ps n :
  List.map (item_pair a b) items = List.map Some ps ->
  alg_keys a b (skipn n items) = skipn n (List.map fst ps).
Proof.
  intros H. rewrite skipn_map. apply alg_keys_resolved.
  rewrite <- !skipn_map. rewrite H. reflexivity.
Qed.

(* ---- callback state over the whole session ---- *)
Lemma cbpres_filter_next sc (a b : smap) want n : forall lo,
  cbpres (filter_next (env_set sc) a b want n lo).
Proof.
  induction n as [|n IH]; intros lo; cbn [filter_next]; [apply cbpres_ret|].
  destruct (nth_error (slots a) lo) as [[[k u]|]|]; try (intros w; exact I).
  apply cbpres_bind; [apply cbpres_contains_in|]. intros inb.
  destruct (Bool.eqb inb want); [apply cbpres_ret | apply IH].
Qed.

Lemma cbpres_iter_next c : cbpres (@iter_next key unit cstate c).
Proof.
  apply cbpres_same. intros w. destruct c as [lo hi]. unfold iter_next.
  destruct (lo <? hi); [|reflexivity]. unfold bind, p_ref.
  destruct (nth_error (slots (self w)) lo) as [[p|]|]; auto. reflexivity.
Qed.

Lemma cbpres_iter : cbpres (@iter key unit cstate).
Proof.
  apply cbpres_same. intros w. unfold iter, p_prefix, bind, get_len, get_cap.
  destruct (len (self w) <=? cap (self w)); reflexivity.
Qed.

Lemma cbpres_back sc (x y : smap) bk (g : nat -> bool * nat) :
  cbpres ('(r2, k') <- diff_next (env_set sc) x y bk ;;
          ret (option_map g r2, {| front := None; back := k' |})).
Proof.
  apply cbpres_bind; [unfold diff_next; apply cbpres_filter_next|]. intros [r2 k']. apply cbpres_ret.
Qed.

Lemma cbpres_alg_next sc kind (a b : smap) st : cbpres (alg_next sc kind a b st).
Proof.
  destruct st as [c|u]; cbn [alg_next].
  - apply cbpres_bind; [|intros r; apply cbpres_ret].
    destruct (N.eqb kind 1); unfold inter_next, diff_next; apply cbpres_filter_next.
  - apply cbpres_bind; [|intros [o u']; apply cbpres_ret].
    destruct (N.eqb kind 2).
    + unfold union_next. destruct (front u) as [c|]; [|apply cbpres_back].
      apply cbpres_bind; [unfold siter_next; apply cbpres_on_map; apply cbpres_iter_next|].
      intros [r c']. destruct r; [apply cbpres_ret | apply cbpres_back].
    + unfold symdiff_next. destruct (front u) as [c|]; [|apply cbpres_back].
      apply cbpres_bind; [unfold diff_next; apply cbpres_filter_next|].
      intros [r c']. destruct r; [apply cbpres_ret | apply cbpres_back].
Qed.

Lemma cbpres_r_side (a b : smap) x : cbpres (r_side a b x).
Proof.
  apply cbpres_same. intros w. unfold r_side.
  destruct (nth_error (slots (if fst x then b else a)) (snd x)) as [[p|]|]; [reflexivity | exact I | exact I].
Qed.

Lemma cbpres_alg_steps sc kind (a b : smap) n : forall st acc, cbpres (alg_steps sc kind a b n st acc).
Proof.
  induction n as [|n IH]; intros st acc; cbn [alg_steps]; [apply cbpres_ret|].
  destruct (alg_hint kind a b st) as [lo hi].
  apply cbpres_bind; [apply cbpres_alg_next|]. intros [o st']. destruct o as [x|]; [|apply IH].
  apply cbpres_bind; [apply cbpres_r_side|]. intros h. apply IH.
Qed.

Lemma cbpres_alg_init kind (a b : smap) : cbpres (alg_init kind a b).
Proof.
  unfold alg_init, union, symdiff, difference.
  destruct (N.eqb kind 2); [|destruct (N.eqb kind 3)];
    repeat first [apply cbpres_ret | apply cbpres_on_map; apply cbpres_iter
                 | apply cbpres_bind; [|intros ?]].
Qed.

(* THE SESSION.  Create an adaptor over two well-formed sets, call next() n
   times, then format it: the string is the debug_list rendering of the keys
   of [skipn n] of everything the adaptor yields in all (alg_spec_list), i.e.
   exactly the elements still to come, in order; register and log unchanged;
   only the comparison counter moved. *)
Lemma alg_session_debug sc kind (a b : smap) n alt (w : world key unit cstate) :
  honest sc -> WF a -> WF b ->
  wp (st <- alg_init kind a b ;;
      r <- alg_steps sc kind a b n st [] ;;
      l <- alg_fold sc kind a b (snd r) ;;
      ret (alg_debug a b l alt))
     (fun s w' =>
        s = r_str (debug_keys dbg_key alt (skipn n (List.map fst (alg_spec_list kind a b)))) /\
        stable w w' /\ eq_only (cb w) (cb w'))
     (fun _ => False) w.
Proof.
  intros Hh Ha Hb.
  assert (Hcb : cbpres (st <- alg_init kind a b ;;
                        r <- alg_steps sc kind a b n st [] ;;
                        l <- alg_fold sc kind a b (snd r) ;;
                        ret (alg_debug a b l alt))).
  { apply cbpres_bind; [apply cbpres_alg_init|]. intros st.
    apply cbpres_bind; [apply cbpres_alg_steps|]. intros r.
    apply cbpres_bind; [apply cbpres_alg_fold|]. intros l. apply cbpres_ret. }
  assert (Hmain : wp (st <- alg_init kind a b ;;
                      r <- alg_steps sc kind a b n st [] ;;
                      l <- alg_fold sc kind a b (snd r) ;;
                      ret (alg_debug a b l alt))
                     (fun s w' =>
                        s = r_str (debug_keys dbg_key alt (skipn n (List.map fst (alg_spec_list kind a b)))) /\
                        stable w w')
                     (fun _ => False) w).
  2: { eapply wp_mono; [apply (wp_cbpres _ _ _ _ Hmain Hcb) | |]; cbn beta.
       - intros s w' [[H1 H3] H2]. auto.
       - intros w' [[] _]. }
  apply wp_bind.
  eapply wp_mono; [apply (alg_init_lawful kind a b w Ha Hb) | | auto]; cbn beta.
  intros st w1 (Hs1 & -> & Hok). apply wp_bind.
  eapply wp_mono; [apply (alg_steps_items sc kind a b Hh Ha Hb n _ [] w1 Hok) | | auto]; cbn beta.
  intros r w2 (Hs2 & Hok2 & Hit).
  eapply wp_mono; [apply (alg_debug_spec sc kind a b (snd r) alt w2 Hh Ha Hb Hok2) | | auto]; cbn beta.
  intros s w3 (-> & _ & Hs3 & _). split.
  - rewrite Hit. rewrite (alg_keys_skipn a b _ _ n (alg_items_init kind a b Ha Hb)). reflexivity.
  - eapply stable_trans; [exact Hs1|]. eapply stable_trans; eauto.
Qed.

(* ======================================================================== *)
(* PART 4 — the order clause: formatting renders [map render elems], and      *)
(*          elems is the sequence the iteration protocol yields               *)
(* ======================================================================== *)

(* reading the slots 0, 1, ..., len-1 of a well-formed container gives exactly
   its elems, in that order *)
Lemma slots_seq_elems {K V} (m : map K V) :
  WF m ->
  List.map (fun i => nth_error (slots m) i) (seq 0 (len m)) =
  List.map (fun p => Some (Some p)) (Spec.elems m).
Proof.
  intros Hw. rewrite <- (elems_length m Hw).
  transitivity (List.map (fun i => option_map Some (nth_error (Spec.elems m) i))
                         (seq 0 (length (Spec.elems m)))).
  - apply map_ext_in. intros i Hi. apply in_seq in Hi. rewrite (elems_length m Hw) in Hi.
    assert (Hi' : i < len m) by lia.
    destruct (WF_live _ _ Hw Hi') as [p Hp]. rewrite Hp.
    rewrite (proj2 (elems_nth m i p Hw Hi') Hp). reflexivity.
  - rewrite <- (map_map (fun i => nth_error (Spec.elems m) i) (option_map Some)).
    rewrite map_nth_error_seq, map_map. reflexivity.
Qed.

(* iter() followed by len calls of next(): yields the slots 0..len-1, each once,
   in order; the entries they hold are [Spec.elems], in order; the iterator is
   then exhausted; the world is untouched.  ([iter_run_spec] instantiated at
   n = len and composed with the representation lemma.) *)
Lemma iter_yields_elems {K V T} (w : world K V T) :
  WF (self w) ->
  wp (c <- iter ;; iter_run (len (self w)) c)
     (fun r w' => w' = w /\ fst r = seq 0 (len (self w)) /\ cursor_len (snd r) = 0 /\
        List.map (fun i => nth_error (slots (self w)) i) (fst r) =
        List.map (fun p => Some (Some p)) (Spec.elems (self w)))
     (fun _ => False) w.
Proof.
  intros Hw. eapply wp_mono; [apply iter_run_exact; exact Hw | | auto]; cbn beta.
  intros r w' (-> & H1 & H2). rewrite Nat.min_id in H1, H2.
  split; [reflexivity|]. split; [exact H1|]. split; [rewrite H2; unfold cursor_len; cbn [fst snd]; lia|].
  rewrite H1. apply slots_seq_elems. exact Hw.
Qed.

(* format! on a Map register, all three styles, fully explicit: the rendered
   entries are [List.map render (Spec.elems (self w))] — slot order = iteration
   order — between the brackets, separated as the style says *)
Lemma format_m_explicit style (w : world key vobj cstate) :
  WF (self w) ->
  format_m style w =
  Ok (r_str
        (if N.eqb style 0 then
           [ch_lbrace] ++
           join s_comma_sp (List.map (fun p => dsp_key (fst p) ++ s_colon_sp ++ dsp_val (snd p))
                                     (Spec.elems (self w))) ++ [ch_rbrace]
         else if N.eqb style 2 then
           match Spec.elems (self w) with
           | [] => [ch_lbrace; ch_rbrace]
           | _ => [ch_lbrace; ch_nl] ++
                  concat (List.map (fun p => s_indent ++ dbg_key (fst p) ++ s_colon_sp ++
                                             dbg_val (snd p) ++ s_comma_nl) (Spec.elems (self w))) ++
                  [ch_rbrace]
           end
         else
           [ch_lbrace] ++
           join s_comma_sp (List.map (fun p => dbg_key (fst p) ++ s_colon_sp ++ dbg_val (snd p))
                                     (Spec.elems (self w))) ++ [ch_rbrace])) w.
Proof.
  intros Hw. rewrite (format_m_pure style w Hw). f_equal. f_equal.
  destruct (N.eqb style 0); [apply display_map_spec|].
  destruct (N.eqb style 2); [|apply debug_map_plain].
  apply debug_map_alt. intros p _. apply dbg_kv_nlfree.
Qed.

Lemma format_s_explicit style (w : world key unit cstate) :
  WF (self w) ->
  format_s style w =
  Ok (r_str
        (if N.eqb style 0 then
           [ch_lbrace] ++ join s_comma_sp (List.map dsp_key (List.map fst (Spec.elems (self w)))) ++ [ch_rbrace]
         else if N.eqb style 2 then
           match List.map fst (Spec.elems (self w)) with
           | [] => [ch_lbrace; ch_rbrace]
           | _ => [ch_lbrace; ch_nl] ++
                  concat (List.map (fun k => s_indent ++ dbg_key k ++ s_comma_nl)
                                   (List.map fst (Spec.elems (self w)))) ++ [ch_rbrace]
           end
         else
           [ch_lbrace] ++ join s_comma_sp (List.map dbg_key (List.map fst (Spec.elems (self w)))) ++ [ch_rbrace])) w.
Proof.
  intros Hw. rewrite (format_s_pure style w Hw). f_equal. f_equal.
  destruct (N.eqb style 0); [apply display_set_spec|].
  destruct (N.eqb style 2); [|apply debug_set_plain].
  apply debug_set_alt. intros k _. apply dbg_key_nlfree.
Qed.

(* the order clause in one statement: walking the container with iter()/next()
   visits slots 0..len-1 in order, changes nothing, the entries met are
   [Spec.elems (self w)], and format! renders precisely that list *)
Lemma format_m_order style (w : world key vobj cstate) :
  WF (self w) ->
  wp (c <- iter ;; iter_run (len (self w)) c)
     (fun r w' =>
        w' = w /\ fst r = seq 0 (len (self w)) /\
        List.map (fun i => nth_error (slots (self w)) i) (fst r) =
        List.map (fun p => Some (Some p)) (Spec.elems (self w)) /\
        format_m style w' =
        Ok (r_str (if N.eqb style 0 then display_map dsp_key dsp_val (Spec.elems (self w))
                   else debug_map dbg_key dbg_val (N.eqb style 2) (Spec.elems (self w)))) w')
     (fun _ => False) w.
Proof.
  intros Hw. eapply wp_mono; [apply iter_yields_elems; exact Hw | | auto]; cbn beta.
  intros r w' (-> & H1 & _ & H2). split; [reflexivity|]. split; [exact H1|]. split; [exact H2|].
  apply format_m_pure. exact Hw.
Qed.

Lemma format_s_order style (w : world key unit cstate) :
  WF (self w) ->
  wp (c <- iter ;; iter_run (len (self w)) c)
     (fun r w' =>
        w' = w /\ fst r = seq 0 (len (self w)) /\
        List.map (fun i => nth_error (slots (self w)) i) (fst r) =
        List.map (fun p => Some (Some p)) (Spec.elems (self w)) /\
        format_s style w' =
        Ok (r_str (if N.eqb style 0 then display_set dsp_key (List.map fst (Spec.elems (self w)))
                   else debug_set dbg_key (N.eqb style 2) (List.map fst (Spec.elems (self w))))) w')
     (fun _ => False) w.
Proof.
  intros Hw. eapply wp_mono; [apply iter_yields_elems; exact Hw | | auto]; cbn beta.
  intros r w' (-> & H1 & _ & H2). split; [reflexivity|]. split; [exact H1|]. split; [exact H2|].
  apply format_s_pure. exact Hw.
Qed.

(* ======================================================================== *)
(* PART 5 — serde                                                            *)
(* ======================================================================== *)

(* The serializer (src/serialization.rs, src/set/serialization.rs) is
     let mut m = s.serialize_map(Some(self.len()))?;  for (k, v) in self.iter() { m.serialize_entry(k, v)?; }
   In the interpreter (ops OSerde / SSerde) the announced length is [len src]
   and the emitted sequence is [Exec.elems src] (a Set emits [map fst] of it).
   This lemma ties that list to the iteration protocol: running iter() and
   next() [len src] times on the source yields the slots 0..len-1, each once, in
   order, then the iterator is exhausted; the world is unchanged; the entries
   held by the yielded slots are, in order, exactly the emitted list; that
   list is the specification's [Spec.elems src]; and its length is the
   announced [len src]. *)
Lemma ser_emits {V T} (src : map key V) (w : world key V T) :
  WF src -> self w = src ->
  wp (c <- iter ;; iter_run (len src) c)
     (fun r w' =>
        w' = w /\ fst r = seq 0 (len src) /\ cursor_len (snd r) = 0 /\
        List.map (fun i => nth_error (slots src) i) (fst r) =
        List.map (fun p => Some (Some p)) (Exec.elems src) /\
        Exec.elems src = Spec.elems src /\
        length (Exec.elems src) = len src)
     (fun _ => False) w.
Proof.
  intros Hw Hs. subst src.
  eapply wp_mono; [apply iter_yields_elems; exact Hw | | auto]; cbn beta.
  intros r w' (-> & H1 & H2 & H3). rewrite exec_elems_eq.
  split; [reflexivity|]. split; [exact H1|]. split; [exact H2|]. split; [exact H3|].
  split; [reflexivity | apply elems_length; exact Hw].
Qed.

(* ROUND TRIP, one theorem.  For the honest script, EVERY well-formed source with
   pairwise different keys (any content, any internal order, any capacity — not
   only sources built by a particular history), every target capacity
   cp >= len src, both build modes, any callback state and log: decoding what
   the serializer emitted ([Exec.elems src], as in op OSerde) into a fresh
   container of capacity cp returns normally, and then the crate's own ==
   between the source and the decoded container returns true (and never
   panics).  [Uniq] cannot be dropped: a source holding the same key twice
   (unreachable with a lawful ==, C01/C05) would decode to a shorter map. *)
Lemma serde_roundtrip_map_equal debug sc (src : map key vobj) cp s lg :
  honest sc -> WF src -> Uniq kcls (Spec.elems src) -> len src <= cp ->
  wp (_ <- finally_drop (env_map sc) (visit_map debug sc (Exec.elems src)) ;;
      m' <- get_self ;;
      map_eq (env_map sc) src m')
     (fun r w' => r = true /\
                  WF (self w') /\ len (self w') = len src /\ cap (self w') = cp /\
                  Uniq kcls (Spec.elems (self w')) /\ log w' = lg)
     (fun _ => False)
     {| cb := s; log := lg; self := new_map cp |}.
Proof.
  intros Hh Hsrc Hu Hle. rewrite exec_elems_eq. apply wp_bind.
  apply EqClone.wp_finally_drop_nopanic.
  eapply wp_mono; [apply (visit_map_spec debug sc (Spec.elems src) _ Hh) | | intros ? []]; cbn [self log].
  - apply WF_new.
  - rewrite elems_new. constructor.
  - exact Hu.
  - intros p _. rewrite elems_new. reflexivity.
  - cbn [len new_map]. rewrite cap_new, (elems_length _ Hsrc). lia.
  - cbn beta. intros _ w1 (Hw1 & Hc1 & (fresh & He & Hf) & Hlg1).
    rewrite elems_new in He. cbn [app] in He. rewrite cap_new in Hc1.
    assert (Hf' : Forall2 (fun p p' => kcls (fst p') = kcls (fst p) /\
                                       (fun a b => N.eqb (vdat a) (vdat b)) (snd p') (snd p) = true)
                          (Spec.elems src) (Spec.elems (self w1))).
    { rewrite He. eapply Forall2_impl'; [|exact Hf]. cbn beta.
      intros a b [H1 H2]. split; [exact H1 | apply N.eqb_eq; exact H2]. }
    destruct (clone_equal kcls (fun a b => N.eqb (vdat a) (vdat b)) _ _ Hu Hf') as [Hu' Hb].
    assert (Hlen : len (self w1) = len src).
    { rewrite <- (elems_length _ Hw1), <- (Forall2_length_eq _ _ _ Hf'). apply elems_length; exact Hsrc. }
    apply wp_bind. apply wp_get_self.
    eapply wp_mono; [apply (serde_roundtrip_map_eq sc src (self w1) w1 Hh Hsrc Hw1 Hlen Hb) | | auto];
      cbn beta.
    intros r w2 [[Hs2 Hl2] ->]. rewrite Hs2. split; [reflexivity|].
    split; [exact Hw1|]. split; [exact Hlen|]. split; [exact Hc1|]. split; [exact Hu'|]. congruence.
Qed.

Lemma serde_roundtrip_set_equal debug sc (src : map key unit) cp s lg :
  honest sc -> WF src -> Uniq kcls (Spec.elems src) -> len src <= cp ->
  wp (_ <- finally_drop (env_set sc) (visit_seq debug sc (List.map fst (Exec.elems src))) ;;
      m' <- get_self ;;
      map_eq (env_set sc) src m')
     (fun r w' => r = true /\
                  WF (self w') /\ len (self w') = len src /\ cap (self w') = cp /\
                  Uniq kcls (Spec.elems (self w')) /\ log w' = lg)
     (fun _ => False)
     {| cb := s; log := lg; self := new_map cp |}.
Proof.
  intros Hh Hsrc Hu Hle. rewrite exec_elems_eq. apply wp_bind.
  apply EqClone.wp_finally_drop_nopanic.
  eapply wp_mono; [apply (visit_seq_spec debug sc (List.map fst (Spec.elems src)) _ Hh) | | intros ? []];
    cbn [self log].
  - apply WF_new.
  - rewrite elems_new. constructor.
  - rewrite map_map. exact Hu.
  - intros p _. rewrite elems_new. reflexivity.
  - cbn [len new_map]. rewrite cap_new, map_length, (elems_length _ Hsrc). lia.
  - cbn beta. intros _ w1 (Hw1 & Hc1 & (fresh & He & Hf) & Hlg1).
    rewrite elems_new in He. cbn [app] in He. rewrite cap_new in Hc1.
    assert (Hf' : Forall2 (fun p p' => kcls (fst p') = kcls (fst p) /\
                                       (fun _ _ : unit => true) (snd p') (snd p) = true)
                          (Spec.elems src) (Spec.elems (self w1))).
    { rewrite He. apply Forall2_map_l in Hf. eapply Forall2_impl'; [|exact Hf]. cbn beta.
      intros a b H1. split; [exact H1 | reflexivity]. }
    destruct (clone_equal kcls (fun _ _ : unit => true) _ _ Hu Hf') as [Hu' Hb].
    assert (Hlen : len (self w1) = len src).
    { rewrite <- (elems_length _ Hw1), <- (Forall2_length_eq _ _ _ Hf'). apply elems_length; exact Hsrc. }
    apply wp_bind. apply wp_get_self.
    eapply wp_mono; [apply (serde_roundtrip_set_eq sc src (self w1) w1 Hh Hsrc Hw1 Hlen Hb) | | auto];
      cbn beta.
    intros r w2 [[Hs2 Hl2] ->]. rewrite Hs2. split; [reflexivity|].
    split; [exact Hw1|]. split; [exact Hlen|]. split; [exact Hc1|]. split; [exact Hu'|]. congruence.
Qed.

(* Set twin of FmtSerde.serde_overflow: a target that is too small makes the
   visitor unwind (the insert into the full local set panics); no normal
   return, no UB (the partly built set is well formed when its destructor runs) *)
Lemma serde_overflow_set debug sc (src : map key unit) cp s lg :
  honest sc -> WF src -> Uniq kcls (Spec.elems src) -> cp < len src ->
  wp (finally_drop (env_set sc) (visit_seq debug sc (List.map fst (Spec.elems src))))
     (fun _ _ => False) (fun _ => True)
     {| cb := s; log := lg; self := new_map cp |}.
Proof.
  intros Hh Hsrc Hu Hlt. apply Safety3.wp_finally_drop.
  apply (visit_seq_overflow debug sc (List.map fst (Spec.elems src)) _ Hh); cbn [self].
  - apply WF_new.
  - rewrite map_map. exact Hu.
  - intros p _. rewrite elems_new. reflexivity.
  - cbn [len new_map]. rewrite cap_new, map_length, (elems_length _ Hsrc). lia.
Qed.

(* both overflow theorems with the list the interpreter really passes (Exec.elems) *)
Lemma serde_overflow_map_exec debug sc (src : map key vobj) cp s lg :
  honest sc -> WF src -> Uniq kcls (Spec.elems src) -> cp < len src ->
  wp (finally_drop (env_map sc) (visit_map debug sc (Exec.elems src)))
     (fun _ _ => False) (fun _ => True)
     {| cb := s; log := lg; self := new_map cp |}.
Proof. intros. rewrite exec_elems_eq. apply serde_overflow; assumption. Qed.

Lemma serde_overflow_set_exec debug sc (src : map key unit) cp s lg :
  honest sc -> WF src -> Uniq kcls (Spec.elems src) -> cp < len src ->
  wp (finally_drop (env_set sc) (visit_seq debug sc (List.map fst (Exec.elems src))))
     (fun _ _ => False) (fun _ => True)
     {| cb := s; log := lg; self := new_map cp |}.
Proof. intros. rewrite exec_elems_eq. apply serde_overflow_set; assumption. Qed.

(* ======================================================================== *)
(* ROUND 2                                                                   *)
(* ======================================================================== *)
Require Import Proofs.ExecUniq Proofs.MoreEq.

(* ---- C19 (4): Drain's Debug returns the world it was given, for EVERY cursor,
        every world (well formed or not) ---- *)
Lemma dbg_range_world {V} (dk : key -> str) (dv : V -> str) alt c (w : world key V cstate) :
  dbg_range dk dv alt c w = Ok (r_str (debug_pairs dk dv alt (range_list (self w) c))) w.
Proof. reflexivity. Qed.

(* session level: drain(), n calls of next(), then format: in the state w1 reached
   (container already emptied by drain(), first n entries moved out) formatting
   returns the rendering of the entries not yet yielded AND w1 itself *)
Lemma drain_debug_rest_render_at {V} (dk : key -> str) (dv : V -> str) alt n (w : world key V cstate) :
  WF (self w) ->
  wp (c <- drain ;; drain_run n c)
     (fun r w1 =>
        fst r = firstn n (Spec.elems (self w)) /\
        len (self w1) = 0 /\ cap (self w1) = cap (self w) /\ log w1 = log w /\
        dbg_range dk dv alt (snd r) w1 =
        Ok (r_str (debug_pairs dk dv alt (skipn n (Spec.elems (self w))))) w1)
     (fun _ => False) w.
Proof.
  intros Hw.
  eapply wp_mono; [apply wp_conj; [apply drain_debug_rest; exact Hw | apply drain_run_strong; exact Hw] | |];
    cbn beta; [|tauto].
  intros r w1 [(H & _ & Hr) (_ & _ & _ & _ & Hc & Hl & Hz)].
  split; [exact Hr|]. split; [exact Hz|]. split; [exact Hc|]. split; [exact Hl|].
  rewrite dbg_range_world, H. reflexivity.
Qed.

(* ---- C20: the decoded container, both directions of ==, the interpreter's step ---- *)
Definition dec_rel (p p' : key * vobj) : Prop :=
  kcls (fst p') = kcls (fst p) /\ vdat (snd p') = vdat (snd p).
Definition dec_rel_s (p p' : key * unit) : Prop := kcls (fst p') = kcls (fst p).

Lemma Forall2_map_same {A B C} (f : A -> C) (g : B -> C) (R : A -> B -> Prop) l l' :
  (forall a b, R a b -> g b = f a) -> Forall2 R l l' -> List.map g l' = List.map f l.
Proof. intros H. induction 1; cbn [List.map]; [reflexivity|]. f_equal; auto. Qed.

(* the visitor under finally_drop, from the fresh container of capacity cp *)
Lemma serde_decode_map debug sc (src : map key vobj) cp s lg :
  honest sc -> WF src -> Uniq kcls (Spec.elems src) -> len src <= cp ->
  wp (finally_drop (env_map sc) (visit_map debug sc (Exec.elems src)))
     (fun _ w' => WF (self w') /\ cap (self w') = cp /\ len (self w') = len src /\
                  Forall2 dec_rel (Spec.elems src) (Spec.elems (self w')) /\ log w' = lg)
     (fun _ => False) {| cb := s; log := lg; self := new_map cp |}.
Proof.
  intros Hh Hsrc Hu Hle. rewrite exec_elems_eq. apply EqClone.wp_finally_drop_nopanic.
  eapply wp_mono; [apply (visit_map_spec debug sc (Spec.elems src) _ Hh) | | intros ? []]; cbn [self log].
  - apply WF_new.
  - rewrite elems_new. constructor.
  - exact Hu.
  - intros p _. rewrite elems_new. reflexivity.
  - cbn [len new_map]. rewrite cap_new, (elems_length _ Hsrc). lia.
  - cbn beta. intros _ w1 (Hw1 & Hc1 & (fresh & He & Hf) & Hlg1).
    rewrite elems_new in He. cbn [app] in He. rewrite cap_new in Hc1. rewrite <- He in Hf.
    split; [exact Hw1|]. split; [exact Hc1|]. split; [|split; [exact Hf | exact Hlg1]].
    rewrite <- (elems_length _ Hw1), <- (Forall2_length_eq _ _ _ Hf). apply elems_length; exact Hsrc.
Qed.

Lemma serde_decode_set debug sc (src : map key unit) cp s lg :
  honest sc -> WF src -> Uniq kcls (Spec.elems src) -> len src <= cp ->
  wp (finally_drop (env_set sc) (visit_seq debug sc (List.map fst (Exec.elems src))))
     (fun _ w' => WF (self w') /\ cap (self w') = cp /\ len (self w') = len src /\
                  Forall2 dec_rel_s (Spec.elems src) (Spec.elems (self w')) /\ log w' = lg)
     (fun _ => False) {| cb := s; log := lg; self := new_map cp |}.
Proof.
  intros Hh Hsrc Hu Hle. rewrite exec_elems_eq. apply EqClone.wp_finally_drop_nopanic.
  eapply wp_mono; [apply (visit_seq_spec debug sc (List.map fst (Spec.elems src)) _ Hh) | | intros ? []];
    cbn [self log].
  - apply WF_new.
  - rewrite elems_new. constructor.
  - rewrite map_map. exact Hu.
  - intros p _. rewrite elems_new. reflexivity.
  - cbn [len new_map]. rewrite cap_new, map_length, (elems_length _ Hsrc). lia.
  - cbn beta. intros _ w1 (Hw1 & Hc1 & (fresh & He & Hf) & Hlg1).
    rewrite elems_new in He. cbn [app] in He. rewrite cap_new in Hc1. rewrite <- He in Hf.
    apply Forall2_map_l in Hf.
    split; [exact Hw1|]. split; [exact Hc1|]. split; [|split; [exact Hf | exact Hlg1]].
    rewrite <- (elems_length _ Hw1), <- (Forall2_length_eq _ _ _ Hf). apply elems_length; exact Hsrc.
Qed.

(* a container related to the source entry by entry (fresh objects, same class,
   same payload) has pairwise different keys and compares equal to it with the
   crate's ==, IN BOTH DIRECTIONS, from any world; == changes nothing *)
Lemma decoded_eq_both_map sc (src m' : map key vobj) (w : world key vobj cstate) :
  honest sc -> WF src -> WF m' -> Uniq kcls (Spec.elems src) ->
  Forall2 dec_rel (Spec.elems src) (Spec.elems m') ->
  Uniq kcls (Spec.elems m') /\
  exists w1 w2, map_eq (env_map sc) src m' w = Ok true w1 /\ map_eq (env_map sc) m' src w = Ok true w2 /\
                stable w w1 /\ stable w w2.
Proof.
  intros Hh Hsrc Hm Hu Hf. set (veq := fun a b : vobj => N.eqb (vdat a) (vdat b)).
  assert (Hf' : Forall2 (fun p p' => kcls (fst p') = kcls (fst p) /\ veq (snd p') (snd p) = true)
                        (Spec.elems src) (Spec.elems m')).
  { eapply Forall2_impl'; [|exact Hf]. cbn beta. intros a b [H1 H2]. split; [exact H1|].
    unfold veq. apply N.eqb_eq. exact H2. }
  destruct (clone_equal kcls veq _ _ Hu Hf') as [Hu' Hb]. split; [exact Hu'|].
  pose proof (env_map_lawful sc Hh) as HL.
  destruct (map_eq_run (env_map sc) kcls qcls HL veq (env_map_eqV sc Hh) src m' w Hsrc Hm) as (w1 & H1 & Hs1).
  destruct (map_eq_run (env_map sc) kcls qcls HL veq (env_map_eqV sc Hh) m' src w Hm Hsrc) as (w2 & H2 & Hs2).
  rewrite Hb in H1.
  rewrite <- (map_eq_sym kcls veq (Spec.elems src) (Spec.elems m') Hu Hu'
                (fun x y => N.eqb_sym (vdat x) (vdat y))), Hb in H2.
  exists w1, w2. auto.
Qed.

Lemma decoded_eq_both_set sc (src m' : map key unit) (w : world key unit cstate) :
  honest sc -> WF src -> WF m' -> Uniq kcls (Spec.elems src) ->
  Forall2 dec_rel_s (Spec.elems src) (Spec.elems m') ->
  Uniq kcls (Spec.elems m') /\
  exists w1 w2, map_eq (env_set sc) src m' w = Ok true w1 /\ map_eq (env_set sc) m' src w = Ok true w2 /\
                stable w w1 /\ stable w w2.
Proof.
  intros Hh Hsrc Hm Hu Hf. set (veq := fun _ _ : unit => true).
  assert (Hf' : Forall2 (fun p p' => kcls (fst p') = kcls (fst p) /\ veq (snd p') (snd p) = true)
                        (Spec.elems src) (Spec.elems m')).
  { eapply Forall2_impl'; [|exact Hf]. cbn beta. intros a b H1. split; [exact H1 | reflexivity]. }
  destruct (clone_equal kcls veq _ _ Hu Hf') as [Hu' Hb]. split; [exact Hu'|].
  pose proof (env_set_lawful sc Hh) as HL.
  destruct (map_eq_run (env_set sc) kcls qcls HL veq (env_set_eqV sc) src m' w Hsrc Hm) as (w1 & H1 & Hs1).
  destruct (map_eq_run (env_set sc) kcls qcls HL veq (env_set_eqV sc) m' src w Hm Hsrc) as (w2 & H2 & Hs2).
  rewrite Hb in H1.
  rewrite <- (map_eq_sym kcls veq (Spec.elems src) (Spec.elems m') Hu Hu' (fun x y => eq_refl)), Hb in H2.
  exists w1, w2. auto.
Qed.

(* (2) the round trip with BOTH comparisons: original == decoded and decoded == original *)
Lemma serde_roundtrip_map_equal_sym debug sc (src : map key vobj) cp s lg :
  honest sc -> WF src -> Uniq kcls (Spec.elems src) -> len src <= cp ->
  wp (_ <- finally_drop (env_map sc) (visit_map debug sc (Exec.elems src)) ;;
      m' <- get_self ;;
      r1 <- map_eq (env_map sc) src m' ;;
      r2 <- map_eq (env_map sc) m' src ;;
      ret (r1, r2))
     (fun r w' => r = (true, true) /\
                  WF (self w') /\ len (self w') = len src /\ cap (self w') = cp /\
                  Uniq kcls (Spec.elems (self w')) /\ log w' = lg)
     (fun _ => False)
     {| cb := s; log := lg; self := new_map cp |}.
Proof.
  intros Hh Hsrc Hu Hle. apply wp_bind.
  eapply wp_mono; [apply (serde_decode_map debug sc src cp s lg Hh Hsrc Hu Hle) | | auto]; cbn beta.
  intros _ w1 (Hw1 & Hc1 & Hl1 & Hf & Hg1). apply wp_bind. apply wp_get_self. apply wp_bind.
  destruct (decoded_eq_both_map sc src (self w1) w1 Hh Hsrc Hw1 Hu Hf) as (Hu' & w2 & _ & H12 & _ & Hs2 & _).
  unfold wp at 1. rewrite H12. apply wp_bind.
  destruct Hs2 as [Hs2 Hlg2].
  destruct (decoded_eq_both_map sc src (self w1) w2 Hh Hsrc Hw1 Hu Hf) as (_ & _ & w3 & _ & H23 & _ & Hs3).
  unfold wp at 1. rewrite H23. apply wp_ret. destruct Hs3 as [Hs3 Hlg3].
  split; [reflexivity|]. rewrite Hs3, Hs2.
  split; [exact Hw1|]. split; [exact Hl1|]. split; [exact Hc1|]. split; [exact Hu'|]. congruence.
Qed.

Lemma serde_roundtrip_set_equal_sym debug sc (src : map key unit) cp s lg :
  honest sc -> WF src -> Uniq kcls (Spec.elems src) -> len src <= cp ->
  wp (_ <- finally_drop (env_set sc) (visit_seq debug sc (List.map fst (Exec.elems src))) ;;
      m' <- get_self ;;
      r1 <- map_eq (env_set sc) src m' ;;
      r2 <- map_eq (env_set sc) m' src ;;
      ret (r1, r2))
     (fun r w' => r = (true, true) /\
                  WF (self w') /\ len (self w') = len src /\ cap (self w') = cp /\
                  Uniq kcls (Spec.elems (self w')) /\ log w' = lg)
     (fun _ => False)
     {| cb := s; log := lg; self := new_map cp |}.
Proof.
  intros Hh Hsrc Hu Hle. apply wp_bind.
  eapply wp_mono; [apply (serde_decode_set debug sc src cp s lg Hh Hsrc Hu Hle) | | auto]; cbn beta.
  intros _ w1 (Hw1 & Hc1 & Hl1 & Hf & Hg1). apply wp_bind. apply wp_get_self. apply wp_bind.
  destruct (decoded_eq_both_set sc src (self w1) w1 Hh Hsrc Hw1 Hu Hf) as (Hu' & w2 & _ & H12 & _ & Hs2 & _).
  unfold wp at 1. rewrite H12. apply wp_bind.
  destruct Hs2 as [Hs2 Hlg2].
  destruct (decoded_eq_both_set sc src (self w1) w2 Hh Hsrc Hw1 Hu Hf) as (_ & _ & w3 & _ & H23 & _ & Hs3).
  unfold wp at 1. rewrite H23. apply wp_ret. destruct Hs3 as [Hs3 Hlg3].
  split; [reflexivity|]. rewrite Hs3, Hs2.
  split; [exact Hw1|]. split; [exact Hl1|]. split; [exact Hc1|]. split; [exact Hu'|]. congruence.
Qed.

(* ---- replace_with: the register receives what [build] made from a fresh
        container of the same capacity; the old value is then destroyed (lawful
        Drop: no panic); the body is returned as given ---- *)
Lemma replace_with_build {V} (E : env key V query cstate) ck cq (HL : Lawful E ck cq)
      (build : M key V cstate unit) (body : list N) (w : world key V cstate) (Q : map key V -> Prop) :
  WF (self w) ->
  wp build (fun _ w1 => Q (self w1)) (fun _ => False) (with_self w (new_map (cap (self w)))) ->
  wp (replace_with E build body) (fun r w' => r = body /\ Q (self w')) (fun _ => False) w.
Proof.
  intros Hw Hb. unfold replace_with. apply wp_bind. apply wp_get_cap. apply wp_bind.
  apply wp_swap_self.
  eapply wp_mono; [exact Hb | | auto]; cbn beta.
  intros [] w1 HQ. apply wp_bind. apply wp_get_self. apply wp_bind. apply wp_put_self. apply wp_bind.
  apply wp_swap_self. simp_w.
  eapply wp_mono; [apply (drop_map_lawful E ck cq HL); simp_w; exact Hw | | auto]; cbn beta.
  intros [] w2 _. apply wp_ret. simp_w. auto.
Qed.

Lemma get_m_put_m_same r m c x : get_m r (put_m r m c x) = m.
Proof. unfold get_m, put_m. destruct (N.eqb r 0); reflexivity. Qed.
Lemma get_s_put_s_same r m c x : get_s r (put_s r m c x) = m.
Proof. unfold get_s, put_s. destruct (N.eqb r 2); reflexivity. Qed.
Lemma xdead_put_m r m c x : xdead (put_m r m c x) = xdead x.
Proof. unfold put_m. destruct (N.eqb r 0); reflexivity. Qed.
Lemma xdead_put_s r m c x : xdead (put_s r m c x) = xdead x.
Proof. unfold put_s. destruct (N.eqb r 2); reflexivity. Qed.

(* (1) + (3) THE STEP OSerde r r' of the interpreter, honest script, every reachable-shaped
   state (WFx), source with pairwise different keys, target register large enough:
   - the observation (what the correspondence check compares with the real crate) is
       1 (returned normally), len src (the length the serializer ANNOUNCED),
       len src (the number of entries it EMITTED), then the rendering of the new target
       register and the drop/clone events — "emits exactly len() entries";
   - the target register afterwards: well formed, same capacity as before, the
     source's length, pairwise different keys, same (class, payload) view in the
     same order; it compares equal to the source in both directions from any world;
   - if r' is another register than r, the source register is literally unchanged;
   - the interpreter is not dead. *)
Theorem step_OSerde_ok debug sc r r' x :
  honest sc -> WFx x -> Uniq kcls (Spec.elems (get_m r x)) -> len (get_m r x) <= cap (get_m r' x) ->
  let src := get_m r x in
  let res := step debug sc (OSerde r r') x in
  let m' := get_m r' (snd res) in
  (exists lg, fst res = [1%N; nn (len src); nn (len src)] ++ post_m m' ++ events lg) /\
  WF m' /\ cap m' = cap (get_m r' x) /\ len m' = len src /\ Uniq kcls (Spec.elems m') /\
  mview m' = mview src /\
  (forall w : world key vobj cstate, exists w1 w2,
      map_eq (env_map sc) src m' w = Ok true w1 /\ map_eq (env_map sc) m' src w = Ok true w2 /\
      stable w w1 /\ stable w w2) /\
  (~ same_m r' r -> get_m r (snd res) = src) /\
  xdead (snd res) = false.
Proof.
  intros Hh Hx Hu Hle. cbv zeta.
  assert (Hd : xdead x = false) by apply Hx.
  pose proof (WFx_get_m r x Hx) as Hsrc. pose proof (WFx_get_m r' x Hx) as Htg.
  unfold step. rewrite Hd. unfold run_m.
  set (w0 := {| cb := xcb x; log := []; self := get_m r' x |}).
  pose proof (replace_with_build (env_map sc) kcls qcls (env_map_lawful sc Hh)
                (finally_drop (env_map sc) (visit_map debug sc (Exec.elems (get_m r x))))
                [nn (len (get_m r x)); nn (length (Exec.elems (get_m r x)))] w0
                (fun m => WF m /\ cap m = cap (get_m r' x) /\ len m = len (get_m r x) /\
                          Forall2 dec_rel (Spec.elems (get_m r x)) (Spec.elems m)) Htg) as H.
  assert (Hb : wp (finally_drop (env_map sc) (visit_map debug sc (Exec.elems (get_m r x))))
                  (fun _ w1 => WF (self w1) /\ cap (self w1) = cap (get_m r' x) /\
                               len (self w1) = len (get_m r x) /\
                               Forall2 dec_rel (Spec.elems (get_m r x)) (Spec.elems (self w1)))
                  (fun _ => False) (with_self w0 (new_map (cap (self w0))))).
  { eapply wp_mono;
      [apply (serde_decode_map debug sc (get_m r x) (cap (get_m r' x)) (xcb x) [] Hh Hsrc Hu Hle) | | auto];
      cbn beta. intros _ w1 (A & B & C & D & _). auto. }
  specialize (H Hb). unfold wp in H.
  destruct (replace_with _ _ _ w0) as [body w1|w1|]; [|contradiction|contradiction].
  destruct H as (-> & Hw1 & Hc1 & Hl1 & Hf). cbn [finish fst snd].
  rewrite get_m_put_m_same.
  split.
  { exists (log w1). rewrite exec_elems_eq, (elems_length _ Hsrc). reflexivity. }
  split; [exact Hw1|]. split; [exact Hc1|]. split; [exact Hl1|].
  split; [apply (decoded_eq_both_map sc (get_m r x) (self w1) w0 Hh Hsrc Hw1 Hu Hf)|].
  split.
  { unfold mview. apply (Forall2_map_same _ _ dec_rel); [|exact Hf].
    intros a b [H1 H2]. rewrite H1, H2. reflexivity. }
  split.
  { intros w. apply (decoded_eq_both_map sc (get_m r x) (self w1) w Hh Hsrc Hw1 Hu Hf). }
  split; [intros Hn; apply get_m_put_m_other; exact Hn|].
  rewrite xdead_put_m. exact Hd.
Qed.

Theorem step_SSerde_ok debug sc r r' x :
  honest sc -> WFx x -> Uniq kcls (Spec.elems (get_s r x)) -> len (get_s r x) <= cap (get_s r' x) ->
  let src := get_s r x in
  let res := step debug sc (SSerde r r') x in
  let m' := get_s r' (snd res) in
  (exists lg, fst res = [1%N; nn (len src); nn (len src)] ++ post_s m' ++ events lg) /\
  WF m' /\ cap m' = cap (get_s r' x) /\ len m' = len src /\ Uniq kcls (Spec.elems m') /\
  sview m' = sview src /\
  (forall w : world key unit cstate, exists w1 w2,
      map_eq (env_set sc) src m' w = Ok true w1 /\ map_eq (env_set sc) m' src w = Ok true w2 /\
      stable w w1 /\ stable w w2) /\
  (~ same_s r' r -> get_s r (snd res) = src) /\
  xdead (snd res) = false.
Proof.
  intros Hh Hx Hu Hle. cbv zeta.
  assert (Hd : xdead x = false) by apply Hx.
  pose proof (WFx_get_s r x Hx) as Hsrc. pose proof (WFx_get_s r' x Hx) as Htg.
  unfold step. rewrite Hd. unfold run_s.
  set (w0 := {| cb := xcb x; log := []; self := get_s r' x |}).
  pose proof (replace_with_build (env_set sc) kcls qcls (env_set_lawful sc Hh)
                (finally_drop (env_set sc) (visit_seq debug sc (List.map fst (Exec.elems (get_s r x)))))
                [nn (len (get_s r x)); nn (length (Exec.elems (get_s r x)))] w0
                (fun m => WF m /\ cap m = cap (get_s r' x) /\ len m = len (get_s r x) /\
                          Forall2 dec_rel_s (Spec.elems (get_s r x)) (Spec.elems m)) Htg) as H.
  assert (Hb : wp (finally_drop (env_set sc) (visit_seq debug sc (List.map fst (Exec.elems (get_s r x)))))
                  (fun _ w1 => WF (self w1) /\ cap (self w1) = cap (get_s r' x) /\
                               len (self w1) = len (get_s r x) /\
                               Forall2 dec_rel_s (Spec.elems (get_s r x)) (Spec.elems (self w1)))
                  (fun _ => False) (with_self w0 (new_map (cap (self w0))))).
  { eapply wp_mono;
      [apply (serde_decode_set debug sc (get_s r x) (cap (get_s r' x)) (xcb x) [] Hh Hsrc Hu Hle) | | auto];
      cbn beta. intros _ w1 (A & B & C & D & _). auto. }
  specialize (H Hb). unfold wp in H.
  destruct (replace_with _ _ _ w0) as [body w1|w1|]; [|contradiction|contradiction].
  destruct H as (-> & Hw1 & Hc1 & Hl1 & Hf). cbn [finish fst snd].
  rewrite get_s_put_s_same.
  split.
  { exists (log w1). rewrite exec_elems_eq, (elems_length _ Hsrc). reflexivity. }
  split; [exact Hw1|]. split; [exact Hc1|]. split; [exact Hl1|].
  split; [apply (decoded_eq_both_set sc (get_s r x) (self w1) w0 Hh Hsrc Hw1 Hu Hf)|].
  split.
  { unfold sview. apply (Forall2_map_same _ _ dec_rel_s); [|exact Hf].
    intros a b H1. rewrite H1. reflexivity. }
  split.
  { intros w. apply (decoded_eq_both_set sc (get_s r x) (self w1) w Hh Hsrc Hw1 Hu Hf). }
  split; [intros Hn; apply get_s_put_s_other; exact Hn|].
  rewrite xdead_put_s. exact Hd.
Qed.

(* the announced prefix alone, in the form the audit asked for *)
Corollary step_OSerde_emits debug sc r r' x :
  honest sc -> WFx x -> Uniq kcls (Spec.elems (get_m r x)) -> len (get_m r x) <= cap (get_m r' x) ->
  exists t, fst (step debug sc (OSerde r r') x) = 1%N :: nn (len (get_m r x)) :: nn (len (get_m r x)) :: t.
Proof.
  intros Hh Hx Hu Hle. destruct (step_OSerde_ok debug sc r r' x Hh Hx Hu Hle) as [[lg H] _].
  rewrite H. eexists. reflexivity.
Qed.
Corollary step_SSerde_emits debug sc r r' x :
  honest sc -> WFx x -> Uniq kcls (Spec.elems (get_s r x)) -> len (get_s r x) <= cap (get_s r' x) ->
  exists t, fst (step debug sc (SSerde r r') x) = 1%N :: nn (len (get_s r x)) :: nn (len (get_s r x)) :: t.
Proof.
  intros Hh Hx Hu Hle. destruct (step_SSerde_ok debug sc r r' x Hh Hx Hu Hle) as [[lg H] _].
  rewrite H. eexists. reflexivity.
Qed.

(* (3) as two steps of the interpreter: OSerde r r' with r' another register, then
   OEq in either direction: the comparison returns normally (1) and answers true (1) *)
Theorem step_OSerde_then_OEq debug sc r r' x :
  honest sc -> WFx x -> Uniq kcls (Spec.elems (get_m r x)) -> len (get_m r x) <= cap (get_m r' x) ->
  ~ same_m r' r ->
  let x1 := snd (step debug sc (OSerde r r') x) in
  get_m r x1 = get_m r x /\
  (exists t, fst (step debug sc (OEq r r') x1) = 1%N :: 1%N :: t) /\
  (exists t, fst (step debug sc (OEq r' r) x1) = 1%N :: 1%N :: t).
Proof.
  intros Hh Hx Hu Hle Hn. cbv zeta.
  destruct (step_OSerde_ok debug sc r r' x Hh Hx Hu Hle) as (_ & _ & _ & _ & _ & _ & Heq & Hr & Hd).
  specialize (Hr Hn). split; [exact Hr|].
  set (x1 := snd (step debug sc (OSerde r r') x)) in *.
  split; unfold step; rewrite Hd; unfold run_m, bind; rewrite Hr.
  - destruct (Heq {| cb := xcb x1; log := []; self := get_m r x |}) as (w1 & _ & H1 & _). rewrite H1.
    cbn [finish fst ret r_bool app]. eexists. reflexivity.
  - destruct (Heq {| cb := xcb x1; log := []; self := get_m r' x1 |}) as (_ & w2 & _ & H2 & _). rewrite H2.
    cbn [finish fst ret r_bool app]. eexists. reflexivity.
Qed.

Theorem step_SSerde_then_SEq debug sc r r' x :
  honest sc -> WFx x -> Uniq kcls (Spec.elems (get_s r x)) -> len (get_s r x) <= cap (get_s r' x) ->
  ~ same_s r' r ->
  let x1 := snd (step debug sc (SSerde r r') x) in
  get_s r x1 = get_s r x /\
  (exists t, fst (step debug sc (SEq r r') x1) = 1%N :: 1%N :: t) /\
  (exists t, fst (step debug sc (SEq r' r) x1) = 1%N :: 1%N :: t).
Proof.
  intros Hh Hx Hu Hle Hn. cbv zeta.
  destruct (step_SSerde_ok debug sc r r' x Hh Hx Hu Hle) as (_ & _ & _ & _ & _ & _ & Heq & Hr & Hd).
  specialize (Hr Hn). split; [exact Hr|].
  set (x1 := snd (step debug sc (SSerde r r') x)) in *.
  split; unfold step; rewrite Hd; unfold run_s, bind; rewrite Hr.
  - destruct (Heq {| cb := xcb x1; log := []; self := get_s r x |}) as (w1 & _ & H1 & _). rewrite H1.
    cbn [finish fst ret r_bool app]. eexists. reflexivity.
  - destruct (Heq {| cb := xcb x1; log := []; self := get_s r' x1 |}) as (_ & w2 & _ & H2 & _). rewrite H2.
    cbn [finish fst ret r_bool app]. eexists. reflexivity.
Qed.
