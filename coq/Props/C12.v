(* ========================================================================
   C12  Stored-key identity: insert keeps the old key, insert_key_value /
        replace swap it

   STATEMENT (properties.jsonl):
     "When a key equal to a stored key is supplied, insert, checked_insert,
      Set::insert and the entry API keep the originally stored key object and
      discard the supplied one, whereas insert_key_value and Set::replace store
      the supplied key and hand back the old one. get_key_value, Set::get,
      take, remove_entry and iteration always expose the key object that is
      actually stored."
   QUANTIFIER:
     "all histories over keys that compare equal yet are distinguishable, on
      every insertion path including the full-container replace-only path"

   (Proofs/SetDict.vo was present when this file was written, so the three
    Set theorems s_insert / s_replace / s_take ARE included.)

   VOCABULARY
     K is an arbitrary type of key OBJECTS; ck : K -> N gives the equality class
     of a key.  Two keys k, k0 with ck k = ck k0 "compare equal" (Lawful E ck cq:
     == is equality of classes) and may still be different objects (k <> k0,
     different ledger identities idK E k).  All statements are about the objects
     stored in Spec.elems (the content in slot order), so they do distinguish
     equal-but-different keys.

   HOW l_insert ENCODES THE KEY POLICY (Proofs/Spec.v)
     l_insert ck l k v update_key =
       match find_idx ck (ck k) l with
       | Some i =>                      (a stored key k0 equal to k sits at index i,
           match nth_error l i with      with value v0)
           | Some (k0, v0) =>
               if update_key
               then (upd l i (k,  v), i, Some (k0, v0))   (* true : SWAP  *)
               else (upd l i (k0, v), i, Some (k,  v0))   (* false: KEEP  *)
           | None => (l, i, None)        (impossible: i comes from find_idx)
           end
       | None => (l ++ [(k, v)], length l, None)           (absent: append)
       end
     - update_key = false: the new content has (k0, v) at index i — the ORIGINALLY
       STORED key object k0 with the new value — and the "displaced" pair handed to
       the caller is (k, v0): the SUPPLIED key object together with the old value.
       Map::insert then destroys that k (keep_value: `logged ... ev_drops (idK E k')`
       with k' = k) and returns v0.
     - update_key = true: the new content has (k, v) — the SUPPLIED key object is
       stored — and the displaced pair is (k0, v0): the OLD stored key object and
       old value, returned to the caller by insert_key_value, not destroyed
       (log w' = log w).
     In both cases every other index of the content is unchanged (upd).

   READING GUIDE (clause -> theorem)
   * "insert, checked_insert ... keep the originally stored key object and
     discard the supplied one":
       C12_insert_ii_lawful          the common core computes l_insert ... u for
                                     both policies u (also when the map is full and
                                     the key present: it panics only for an ABSENT
                                     key in a full map; then the container is untouched
                                     and the rejected k and v are destroyed exactly once
                                     by unwinding — same panic clause in C12_insert_lawful,
                                     C12_insert_key_value_lawful, C12_s_insert_lawful,
                                     C12_s_replace_lawful)
       C12_insert_lawful             insert = l_insert ... false; the displaced key
                                     (the supplied object) is destroyed, old value
                                     returned
       C12_checked_insert_lawful     present key: l_insert ... false whether or not
                                     the map is full (the full-container
                                     replace-only path), supplied key destroyed
       C12_lookup_insert             dictionary view after insert: "first key
                                     object kept, last value wins"
   * "Set::insert keeps the stored element":  C12_s_insert_lawful (content
     unchanged when present)
   * "the entry API keeps the stored key":
       C12_or_insert_keeps_key       or_insert on a present key leaves the stored
                                     pair exactly as it was
       C12_entry_key_lawful          Entry::key on an occupied entry designates the
                                     slot of the STORED key (inl slot), not the
                                     supplied object
       C12_occ_insert_lawful         OccupiedEntry::insert replaces only the value:
                                     (k0, v) with the stored k0
   * "insert_key_value and Set::replace store the supplied key and hand back the
     old one":
       C12_insert_key_value_lawful   = l_insert ... true, result = displaced old
                                     pair, nothing destroyed
       C12_s_replace_lawful          content gets (k, tt) at the index found, result
                                     = the old stored key object
   * "get_key_value, Set::get, take, remove_entry ... expose the key object that
     is actually stored":
       C12_get_key_value_lawful      returns the SLOT found (the reference points at
                                     the stored pair; Set::get is the same function
                                     get_key_value in the model)
       C12_remove_entry_lawful       returns nth_error content i: the stored pair
       C12_s_take_lawful             returns the stored key object of that pair

   PARTLY / NOT COVERED BY A THEOREM (left to the correspondence check)
   * "iteration always exposes the stored key": iterators yield slot indices and
     C09_iter_yield_is_elem says slot i holds entry i of Spec.elems; not restated
     here.
   * Set::insert "discards the supplied one": C12_s_insert_lawful has no log
     clause; the destruction of the supplied key is visible in C12_insert_lawful
     (Set::insert is insert k () in the model).
   * or_insert_with / or_insert_with_key on an occupied entry: container
     unchanged (self w' = self w) is in C11_or_insert_with*_lawful.
   * "all histories": the theorems are per operation on an arbitrary
     well-formed state; histories compose them (Dict.run_refines, C01).
   ======================================================================== *)
Require Import Model.Base Model.Slots Model.MapOps Model.EntryOps Model.SetOps Model.Exec.
Require Import Proofs.Hoare Proofs.Inv Proofs.Spec Proofs.Lawful Proofs.Lawful2 Proofs.Lawful3
               Proofs.EntrySpec Proofs.Bulk Proofs.SetDict Proofs.FmtSerde Proofs.Legacy.

(* ---------------------------------------------------------------------- *)
(* insertion paths                                                          *)
(* ---------------------------------------------------------------------- *)

Theorem C12_insert_lawful :
  forall (K V Q T : Type) (E : env K V Q T) (debug : bool) (ck : K -> N) (cq : Q -> N)
         (HL : Lawful E ck cq) (k : K) (v : V) (w : world K V T),
    WF (self w) ->
    wp (insert E debug k v)
       (fun (r : option V) (w' : world K V T) =>
          WF (self w') /\ cap (self w') = cap (self w) /\
          Spec.elems (self w') = fst (fst (l_insert ck (Spec.elems (self w)) k v false)) /\
          r = option_map snd (snd (l_insert ck (Spec.elems (self w)) k v false)) /\
          logged w w'
            match snd (l_insert ck (Spec.elems (self w)) k v false) with
            | Some (k', _) => ev_drops (idK E k')
            | None => []
            end)
       (fun w' : world K V T =>
          self w' = self w /\
          logged w w' (ev_drops (idK E k ++ idV E v)) /\
          find_idx ck (ck k) (Spec.elems (self w)) = None /\ len (self w) = cap (self w)) w.
Proof. exact (fun K V Q T E debug ck cq HL => insert_lawful E debug ck cq HL). Qed.
Print Assumptions C12_insert_lawful.

Theorem C12_insert_key_value_lawful :
  forall (K V Q T : Type) (E : env K V Q T) (debug : bool) (ck : K -> N) (cq : Q -> N)
         (HL : Lawful E ck cq) (k : K) (v : V) (w : world K V T),
    WF (self w) ->
    wp (insert_key_value E debug k v)
       (fun (r : option (K * V)) (w' : world K V T) =>
          WF (self w') /\ cap (self w') = cap (self w) /\ log w' = log w /\
          Spec.elems (self w') = fst (fst (l_insert ck (Spec.elems (self w)) k v true)) /\
          r = snd (l_insert ck (Spec.elems (self w)) k v true))
       (fun w' : world K V T =>
          self w' = self w /\
          logged w w' (ev_drops (idK E k ++ idV E v)) /\
          find_idx ck (ck k) (Spec.elems (self w)) = None /\ len (self w) = cap (self w)) w.
Proof. exact (fun K V Q T E debug ck cq HL => insert_key_value_lawful E debug ck cq HL). Qed.
Print Assumptions C12_insert_key_value_lawful.

Theorem C12_checked_insert_lawful :
  forall (K V Q T : Type) (E : env K V Q T) (debug : bool) (ck : K -> N) (cq : Q -> N)
         (HL : Lawful E ck cq) (k : K) (v : V) (w : world K V T),
    WF (self w) ->
    wp (checked_insert E debug k v)
       (fun (r : option (option V)) (w' : world K V T) =>
          WF (self w') /\ cap (self w') = cap (self w) /\
          match find_idx ck (ck k) (Spec.elems (self w)) with
          | Some _ =>
              Spec.elems (self w') = fst (fst (l_insert ck (Spec.elems (self w)) k v false)) /\
              r = Some (option_map snd (snd (l_insert ck (Spec.elems (self w)) k v false))) /\
              logged w w' (ev_drops (idK E k))
          | None =>
              if len (self w) <? cap (self w)
              then Spec.elems (self w') = Spec.elems (self w) ++ [(k, v)] /\
                   r = Some None /\ log w' = log w
              else Spec.elems (self w') = Spec.elems (self w) /\ self w' = self w /\
                   r = None /\ logged w w' (ev_drops (idK E k ++ idV E v))
          end)
       (fun _ : world K V T => False) w.
Proof. exact (fun K V Q T E debug ck cq HL => checked_insert_lawful E debug ck cq HL). Qed.
Print Assumptions C12_checked_insert_lawful.

Theorem C12_insert_ii_lawful :
  forall (K V Q T : Type) (E : env K V Q T) (debug : bool) (ck : K -> N) (cq : Q -> N)
         (HL : Lawful E ck cq) (k : K) (v : V) (u : bool) (w : world K V T),
    WF (self w) ->
    wp (insert_ii E debug k v u)
       (fun (r : nat * option (K * V)) (w' : world K V T) =>
          WF (self w') /\ cap (self w') = cap (self w) /\ log w' = log w /\
          (Spec.elems (self w'), fst r, snd r) = l_insert ck (Spec.elems (self w)) k v u /\
          (find_idx ck (ck k) (Spec.elems (self w)) = None -> len (self w) < cap (self w)))
       (fun w' : world K V T =>
          self w' = self w /\
          logged w w' (ev_drops (idK E k ++ idV E v)) /\
          find_idx ck (ck k) (Spec.elems (self w)) = None /\ len (self w) = cap (self w)) w.
Proof. exact (fun K V Q T E debug ck cq HL => insert_ii_lawful E debug ck cq HL). Qed.
Print Assumptions C12_insert_ii_lawful.

(* first key object kept, last value wins *)
Theorem C12_lookup_insert :
  forall (K V : Type) (ck : K -> N) (l : list (K * V)) (k : K) (v : V) (c : N),
    lookup ck (fst (fst (l_insert ck l k v false))) c =
    (if N.eqb (ck k) c
     then Some (match lookup ck l c with Some (k0, _) => k0 | None => k end, v)
     else lookup ck l c).
Proof. exact (fun K V => @lookup_insert K V). Qed.
Print Assumptions C12_lookup_insert.

(* ---------------------------------------------------------------------- *)
(* entry API                                                                *)
(* ---------------------------------------------------------------------- *)

Theorem C12_or_insert_keeps_key :
  forall (K V Q T : Type) (E : env K V Q T) (debug : bool) (ck : K -> N) (cq : Q -> N)
         (HL : Lawful E ck cq) (k : K) (v : V) (j : nat) (w : world K V T),
    WF (self w) ->
    find_idx ck (ck k) (Spec.elems (self w)) = Some j ->
    wp (e <- entry_of E k ;; or_insert E debug e v)
       (fun (i : nat) (w' : world K V T) =>
          i = j /\
          Spec.elems (self w') = Spec.elems (self w) /\
          nth_error (Spec.elems (self w')) j = nth_error (Spec.elems (self w)) j /\
          exists (k0 : K) (v0 : V),
            nth_error (Spec.elems (self w')) j = Some (k0, v0) /\ ck k0 = ck k)
       (fun _ : world K V T => False) w.
Proof. exact (fun K V Q T E debug ck cq HL => or_insert_keeps_key E debug ck cq HL). Qed.
Print Assumptions C12_or_insert_keeps_key.

Theorem C12_entry_key_lawful :
  forall (K V Q T : Type) (E : env K V Q T) (ck : K -> N) (cq : Q -> N) (HL : Lawful E ck cq)
         (k : K) (w : world K V T),
    WF (self w) ->
    wp (e <- entry_of E k ;; entry_key e)
       (fun (r : nat + K) (w' : world K V T) =>
          self w' = self w /\
          match find_idx ck (ck k) (Spec.elems (self w)) with
          | Some j => r = inl j
          | None => r = inr k
          end)
       (fun _ : world K V T => False) w.
Proof. exact (fun K V Q T E ck cq HL => entry_key_lawful E ck cq HL). Qed.
Print Assumptions C12_entry_key_lawful.

Theorem C12_occ_insert_lawful :
  forall (K V T : Type) (i : nat) (v : V) (w : world K V T),
    WF (self w) ->
    forall (k0 : K) (v0 : V),
      nth_error (Spec.elems (self w)) i = Some (k0, v0) ->
      wp (occ_insert i v)
         (fun (r : V) (w' : world K V T) =>
            WF (self w') /\ cap (self w') = cap (self w) /\ log w' = log w /\ r = v0 /\
            Spec.elems (self w') = upd (Spec.elems (self w)) i (k0, v))
         (fun _ : world K V T => False) w.
Proof. exact (fun K V T => @occ_insert_lawful K V T). Qed.
Print Assumptions C12_occ_insert_lawful.

(* ---------------------------------------------------------------------- *)
(* accessors that expose the stored key                                     *)
(* ---------------------------------------------------------------------- *)

Theorem C12_get_key_value_lawful :
  forall (K V Q T : Type) (E : env K V Q T) (ck : K -> N) (cq : Q -> N) (HL : Lawful E ck cq)
         (q : Q) (w : world K V T),
    WF (self w) ->
    wp (get_key_value E q)
       (fun (r : option nat) (w' : world K V T) =>
          stable w w' /\ r = find_idx ck (cq q) (Spec.elems (self w)))
       (fun _ : world K V T => False) w.
Proof. exact (fun K V Q T E ck cq HL => get_key_value_lawful E ck cq HL). Qed.
Print Assumptions C12_get_key_value_lawful.

Theorem C12_remove_entry_lawful :
  forall (K V Q T : Type) (E : env K V Q T) (debug : bool) (ck : K -> N) (cq : Q -> N)
         (HL : Lawful E ck cq) (q : Q) (w : world K V T),
    WF (self w) ->
    wp (remove_entry E debug q)
       (fun (r : option (K * V)) (w' : world K V T) =>
          WF (self w') /\ cap (self w') = cap (self w) /\ log w' = log w /\
          Spec.elems (self w') = fst (l_remove ck (Spec.elems (self w)) (cq q)) /\
          r = snd (l_remove ck (Spec.elems (self w)) (cq q)))
       (fun _ : world K V T => False) w.
Proof. exact (fun K V Q T E debug ck cq HL => remove_entry_lawful E debug ck cq HL). Qed.
Print Assumptions C12_remove_entry_lawful.

(* ---------------------------------------------------------------------- *)
(* Set (Proofs/SetDict.v)                                                   *)
(* ---------------------------------------------------------------------- *)

Theorem C12_s_insert_lawful :
  forall (K Q T : Type) (E : env K unit Q T) (debug : bool) (ck : K -> N) (cq : Q -> N)
         (HL : Lawful E ck cq) (k : K) (w : world K unit T),
    WF (self w) ->
    wp (s_insert E debug k)
       (fun (r : bool) (w' : world K unit T) =>
          WF (self w') /\ cap (self w') = cap (self w) /\
          r = match find_idx ck (ck k) (Spec.elems (self w)) with
              | Some _ => false
              | None => true
              end /\
          Spec.elems (self w') =
            match find_idx ck (ck k) (Spec.elems (self w)) with
            | Some _ => Spec.elems (self w)
            | None => Spec.elems (self w) ++ [(k, tt)]
            end /\
          (find_idx ck (ck k) (Spec.elems (self w)) = None -> len (self w) < cap (self w)))
       (fun w' : world K unit T =>
          self w' = self w /\
          logged w w' (ev_drops (idK E k ++ idV E tt)) /\
          find_idx ck (ck k) (Spec.elems (self w)) = None /\ len (self w) = cap (self w)) w.
Proof. exact (fun K Q T E debug ck cq HL => s_insert_lawful E debug ck cq HL). Qed.
Print Assumptions C12_s_insert_lawful.

Theorem C12_s_replace_lawful :
  forall (K Q T : Type) (E : env K unit Q T) (debug : bool) (ck : K -> N) (cq : Q -> N)
         (HL : Lawful E ck cq) (k : K) (w : world K unit T),
    WF (self w) ->
    wp (s_replace E debug k)
       (fun (r : option K) (w' : world K unit T) =>
          WF (self w') /\ cap (self w') = cap (self w) /\ log w' = log w /\
          r = option_map fst (lookup ck (Spec.elems (self w)) (ck k)) /\
          Spec.elems (self w') =
            match find_idx ck (ck k) (Spec.elems (self w)) with
            | Some i => upd (Spec.elems (self w)) i (k, tt)
            | None => Spec.elems (self w) ++ [(k, tt)]
            end /\
          (find_idx ck (ck k) (Spec.elems (self w)) = None -> len (self w) < cap (self w)))
       (fun w' : world K unit T =>
          self w' = self w /\
          logged w w' (ev_drops (idK E k ++ idV E tt)) /\
          find_idx ck (ck k) (Spec.elems (self w)) = None /\ len (self w) = cap (self w)) w.
Proof. exact (fun K Q T E debug ck cq HL => s_replace_lawful E debug ck cq HL). Qed.
Print Assumptions C12_s_replace_lawful.

Theorem C12_s_take_lawful :
  forall (K Q T : Type) (E : env K unit Q T) (debug : bool) (ck : K -> N) (cq : Q -> N)
         (HL : Lawful E ck cq) (q : Q) (w : world K unit T),
    WF (self w) ->
    wp (s_take E debug q)
       (fun (r : option K) (w' : world K unit T) =>
          WF (self w') /\ cap (self w') = cap (self w) /\ log w' = log w /\
          r = option_map fst (snd (l_remove ck (Spec.elems (self w)) (cq q))) /\
          Spec.elems (self w') = fst (l_remove ck (Spec.elems (self w)) (cq q)))
       (fun _ : world K unit T => False) w.
Proof. exact (fun K Q T E debug ck cq HL => s_take_lawful E debug ck cq HL). Qed.
Print Assumptions C12_s_take_lawful.

(* ---------------------------------------------------------------------- *)
(* non-vacuity                                                              *)
(* ---------------------------------------------------------------------- *)

(* hypotheses; and two keys that compare equal yet are distinguishable: the
   stored k_ 3 6 and the supplied k_ 90 6 *)
Example C12_example_hyps :
  let sc0 := {| sc_adv := false; sc_seed := 0; sc_fk := 0; sc_fa := 0 |} in
  WF (self (w_of m3)) /\ len m3 = cap m3 /\
  Lawful (env_map sc0) kcls qcls /\ Lawful (env_set sc0) kcls qcls /\
  kcls (k_ 90 6) = kcls (k_ 3 6) /\ k_ 90 6 <> k_ 3 6 /\
  find_idx kcls (kcls (k_ 90 6)) (Spec.elems m3) = Some 1.
Proof.
  intros sc0. assert (Hh : honest sc0) by (split; reflexivity).
  split; [exact m3_WF|]. split; [reflexivity|].
  split; [exact (env_map_lawful sc0 Hh)|]. split; [exact (env_set_lawful sc0 Hh)|].
  split; [reflexivity|]. split; [discriminate | reflexivity].
Qed.

(* the list machine on that pair of keys *)
Example C12_example_l_insert :
  l_insert kcls (Spec.elems m3) (k_ 90 6) (v_ 91 0) false
    = ([(k_ 1 5, v_ 2 7); (k_ 3 6, v_ 91 0); (k_ 5 7, v_ 6 9)], 1, Some (k_ 90 6, v_ 4 8)) /\
  l_insert kcls (Spec.elems m3) (k_ 90 6) (v_ 91 0) true
    = ([(k_ 1 5, v_ 2 7); (k_ 90 6, v_ 91 0); (k_ 5 7, v_ 6 9)], 1, Some (k_ 3 6, v_ 4 8)).
Proof. split; reflexivity. Qed.

(* concrete runs on the FULL map m3 (len = cap = 3: the replace-only path):
   insert / checked_insert keep key object 3 and destroy the supplied object 90;
   insert_key_value stores object 90 and hands back (object 3, old value),
   destroying nothing; remove_entry afterwards returns the stored object *)
Example C12_example_runs :
  let E := env_map {| sc_adv := false; sc_seed := 0; sc_fk := 0; sc_fa := 0 |} in
  match insert E true (k_ 90 6) (v_ 91 0) (w_of m3) with
  | Ok r w' => r = Some (v_ 4 8) /\ log w' = [EvDrop 90] /\
               Spec.elems (self w') = [(k_ 1 5, v_ 2 7); (k_ 3 6, v_ 91 0); (k_ 5 7, v_ 6 9)]
  | _ => False
  end /\
  match checked_insert E true (k_ 90 6) (v_ 91 0) (w_of m3) with
  | Ok r w' => r = Some (Some (v_ 4 8)) /\ log w' = [EvDrop 90] /\
               Spec.elems (self w') = [(k_ 1 5, v_ 2 7); (k_ 3 6, v_ 91 0); (k_ 5 7, v_ 6 9)]
  | _ => False
  end /\
  match insert_key_value E true (k_ 90 6) (v_ 91 0) (w_of m3) with
  | Ok r w' => r = Some (k_ 3 6, v_ 4 8) /\ log w' = [] /\
               Spec.elems (self w') = [(k_ 1 5, v_ 2 7); (k_ 90 6, v_ 91 0); (k_ 5 7, v_ 6 9)]
  | _ => False
  end /\
  match (_ <- insert_key_value E true (k_ 90 6) (v_ 91 0) ;; remove_entry E true (QCls 6)) (w_of m3) with
  | Ok r w' => r = Some (k_ 90 6, v_ 91 0)
  | _ => False
  end.
Proof. vm_compute. repeat split; reflexivity. Qed.

(* Set: insert keeps the stored element (id 2), replace swaps it and returns it,
   take returns the stored one *)
Example C12_example_set_runs :
  let E := env_set {| sc_adv := false; sc_seed := 0; sc_fk := 0; sc_fa := 0 |} in
  let a : map key unit :=
    {| len := 2; slots := [Some (k_ 1 5, tt); Some (k_ 2 6, tt)] |} in
  let w : world key unit cstate := {| cb := cs0; log := []; self := a |} in
  match s_insert E true (k_ 90 6) w with
  | Ok r w' => r = false /\ Spec.elems (self w') = [(k_ 1 5, tt); (k_ 2 6, tt)]
  | _ => False
  end /\
  match s_replace E true (k_ 90 6) w with
  | Ok r w' => r = Some (k_ 2 6) /\ Spec.elems (self w') = [(k_ 1 5, tt); (k_ 90 6, tt)] /\ log w' = []
  | _ => False
  end /\
  match s_take E true (QCls 6) w with
  | Ok r w' => r = Some (k_ 2 6) /\ Spec.elems (self w') = [(k_ 1 5, tt)]
  | _ => False
  end.
Proof. vm_compute. repeat split; reflexivity. Qed.
