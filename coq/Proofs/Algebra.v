(* Algebra.v — under a lawful environment the set-algebra adaptors of
   Model/SetOps.v (Difference, Intersection, their folds, size hints and the
   subset / disjoint predicates) yield exactly the mathematical result. *)
Require Import Model.Base Model.Slots Model.MapOps Model.SetOps Proofs.Hoare Proofs.Inv Proofs.Safety Proofs.Safety3 Proofs.Spec Proofs.Lawful.
From Coq Require Import Permutation.

(* ------------------------------------------------------------------ *)
(* pure list helpers                                                   *)
(* ------------------------------------------------------------------ *)
Section ListHelpers.
Context {A B : Type}.

Lemma filter_length_le' (f : A -> bool) (l : list A) : length (filter f l) <= length l.
Proof.
  induction l as [|x t IH]; cbn [filter length]; [lia|].
  destruct (f x); cbn [length]; lia.
Qed.

Lemma filter_length_split (f : A -> bool) (l : list A) :
  length (filter f l) + length (filter (fun x => negb (f x)) l) = length l.
Proof.
  induction l as [|x t IH]; cbn [filter length]; [reflexivity|].
  destruct (f x); cbn [negb length]; lia.
Qed.

Lemma filter_ext_in' (f g : A -> bool) (l : list A) :
  (forall x, In x l -> f x = g x) -> filter f l = filter g l.
Proof.
  induction l as [|x t IH]; intros H; cbn [filter]; [reflexivity|].
  rewrite (H x (or_introl eq_refl)). rewrite IH; [reflexivity|].
  intros y Hy. apply H. right. exact Hy.
Qed.

Lemma NoDup_map_filter (g : A -> B) (f : A -> bool) (l : list A) :
  NoDup (List.map g l) -> NoDup (List.map g (filter f l)).
Proof.
  induction l as [|x t IH]; intros H; cbn [filter List.map] in *; [exact H|].
  inversion H as [|y l' Hn Hd]; subst.
  destruct (f x); cbn [List.map]; [|apply IH; exact Hd].
  constructor; [|apply IH; exact Hd].
  intros Hin. apply Hn. apply in_map_iff in Hin. destruct Hin as [z [Hz Hzin]].
  apply in_map_iff. exists z. split; [exact Hz|]. apply filter_In in Hzin. apply Hzin.
Qed.

Lemma NoDup_map_inj_on (g : A -> B) (l : list A) :
  NoDup l -> (forall x y, In x l -> In y l -> g x = g y -> x = y) -> NoDup (List.map g l).
Proof.
  induction l as [|x t IH]; intros Hd Hinj; cbn [List.map]; [constructor|].
  inversion Hd as [|y l' Hn Hd']; subst. constructor.
  - intros Hin. apply in_map_iff in Hin. destruct Hin as [z [Hz Hzin]].
    assert (z = x) by (apply Hinj; [right; exact Hzin | left; reflexivity | exact Hz]).
    subst z. apply Hn. exact Hzin.
  - apply IH; [exact Hd'|]. intros y z Hy Hz. apply Hinj; right; assumption.
Qed.

(* walking a list by index = walking the list *)
Lemma filter_seq_nth (h : option A -> bool) (g : A -> bool) :
  (forall x, h (Some x) = g x) ->
  forall (l pre : list A),
    List.map (fun i => nth_error (pre ++ l) i)
             (filter (fun i => h (nth_error (pre ++ l) i)) (seq (length pre) (length l)))
    = List.map Some (filter g l).
Proof.
  intros Hh. induction l as [|x t IH]; intros pre; [reflexivity|].
  cbn [length seq filter].
  assert (Hx : nth_error (pre ++ x :: t) (length pre) = Some x).
  { rewrite nth_error_app2 by lia. rewrite Nat.sub_diag. reflexivity. }
  assert (Hrest :
    List.map (fun i => nth_error (pre ++ x :: t) i)
             (filter (fun i => h (nth_error (pre ++ x :: t) i)) (seq (S (length pre)) (length t)))
    = List.map Some (filter g t)).
  { specialize (IH (pre ++ [x])). rewrite <- app_assoc in IH. cbn [app] in IH.
    rewrite app_length in IH. cbn [length] in IH. rewrite Nat.add_1_r in IH. exact IH. }
  rewrite Hx, Hh. destruct (g x); cbn [List.map]; [rewrite Hx|]; rewrite Hrest; reflexivity.
Qed.

Lemma forallb_seq_nth (h : option A -> bool) (g : A -> bool) :
  (forall x, h (Some x) = g x) ->
  forall (l pre : list A),
    forallb (fun i => h (nth_error (pre ++ l) i)) (seq (length pre) (length l)) = forallb g l.
Proof.
  intros Hh. induction l as [|x t IH]; intros pre; [reflexivity|].
  cbn [length seq forallb].
  assert (Hx : nth_error (pre ++ x :: t) (length pre) = Some x).
  { rewrite nth_error_app2 by lia. rewrite Nat.sub_diag. reflexivity. }
  rewrite Hx, Hh. f_equal.
  specialize (IH (pre ++ [x])). rewrite <- app_assoc in IH. cbn [app] in IH.
  rewrite app_length in IH. cbn [length] in IH. rewrite Nat.add_1_r in IH. exact IH.
Qed.

End ListHelpers.

(* ------------------------------------------------------------------ *)
Section Algebra.
Context {K Q T : Type} (E : env K unit Q T) (debug : bool).
Context (ck : K -> N) (cq : Q -> N) (HL : Lawful E ck cq).
Notation M := (M K unit T). Notation world := (world K unit T). Notation smap := (map K unit). Notation kv := (K * unit)%type.

Definition mem (b : smap) (k : K) : bool := match find_idx ck (ck k) (elems b) with Some _ => true | None => false end.
Definition memi (a b : smap) (i : nat) : bool := match nth_error (elems a) i with Some p => mem b (fst p) | None => false end.
Definition sel (a b : smap) (want : bool) (lo n : nat) : list nat := filter (fun i => Bool.eqb (memi a b i) want) (seq lo n).

Notation cls := (fun p : kv => ck (fst p)).

(* ---- running on a shared-borrowed operand, keeping track of the log ---- *)
Lemma wp_on_map_stable {A} (m : smap) (c : M A) (R : A -> Prop) (w : world) :
  (forall w0 : world, self w0 = m -> wp c (fun a w' => stable w0 w' /\ R a) (fun _ => False) w0) ->
  wp (on_map m c) (fun a w' => stable w w' /\ R a) (fun _ => False) w.
Proof.
  intros H. unfold wp, on_map.
  specialize (H {| cb := cb w; log := log w; self := m |} eq_refl). unfold wp in H.
  destruct (c {| cb := cb w; log := log w; self := m |}) as [x w'| |]; auto.
  destruct H as [[_ Hlog] HR]. cbn [log] in Hlog.
  split; [split; cbn [self log]; [reflexivity | exact Hlog] | exact HR].
Qed.

(* 1 *)
Lemma contains_in_lawful (b : smap) (k : K) (w : world) :
  WF b ->
  wp (contains_in E b k) (fun r w' => stable w w' /\ r = mem b k) (fun _ => False) w.
Proof.
  intros Hb. unfold contains_in. apply wp_on_map_stable. intros w0 Hs.
  apply wp_bind.
  eapply wp_mono; [apply (scan_lawful ck (test_k E k) (ck k) w0);
                   [apply (cls_test_k E ck cq HL) | rewrite Hs; exact Hb] | | auto]; cbn beta.
  intros r w' [Hst ->]. apply wp_ret. split; [exact Hst|]. rewrite Hs. unfold mem, is_some. reflexivity.
Qed.

(* the key stored in slot lo of a well-formed operand decides memi *)
Lemma memi_slot (a b : smap) lo k u :
  WF a -> lo < len a -> nth_error (slots a) lo = Some (Some (k, u)) -> memi a b lo = mem b k.
Proof.
  intros Ha Hlo Hp. unfold memi.
  apply (elems_nth a lo (k, u) Ha Hlo) in Hp. rewrite Hp. reflexivity.
Qed.

Lemma sel_S (a b : smap) want lo n :
  sel a b want lo (S n) =
  if Bool.eqb (memi a b lo) want then lo :: sel a b want (S lo) n else sel a b want (S lo) n.
Proof. unfold sel. cbn [seq filter]. reflexivity. Qed.

Lemma sel_0 (a b : smap) want lo : sel a b want lo 0 = [].
Proof. reflexivity. Qed.

(* 2 *)
Lemma filter_fold_lawful (a b : smap) want n : forall lo acc (w : world),
  WF a -> WF b -> lo + n <= len a ->
  wp (filter_fold E a b want n lo acc)
     (fun r w' => stable w w' /\ r = acc ++ sel a b want lo n) (fun _ => False) w.
Proof.
  induction n as [|n IH]; intros lo acc w Ha Hb Hn; cbn [filter_fold].
  - apply wp_ret. split; [apply stable_refl|]. rewrite sel_0, app_nil_r. reflexivity.
  - assert (Hlo : lo < len a) by lia.
    destruct (WF_live _ _ Ha Hlo) as [[k u] Hp]. rewrite Hp. cbn beta iota.
    apply wp_bind. eapply wp_mono; [apply contains_in_lawful; exact Hb | | auto]; cbn beta.
    intros inb w' [Hst ->].
    eapply wp_mono; [apply IH; [exact Ha | exact Hb | lia] | | auto]; cbn beta.
    intros r w'' [Hst' ->]. split; [eapply stable_trans; eauto|].
    rewrite sel_S, (memi_slot a b lo k u Ha Hlo Hp).
    destruct (Bool.eqb (mem b k) want); [rewrite <- app_assoc|]; reflexivity.
Qed.

(* 3 *)
Lemma filter_next_lawful (a b : smap) want n : forall lo (w : world),
  WF a -> WF b -> lo + n <= len a ->
  wp (filter_next E a b want n lo)
     (fun r w' => stable w w' /\ fst r = hd_error (sel a b want lo n) /\
                  snd r = match hd_error (sel a b want lo n) with
                          | Some i => (S i, lo + n)
                          | None => (lo + n, lo + n)
                          end)
     (fun _ => False) w.
Proof.
  induction n as [|n IH]; intros lo w Ha Hb Hn; cbn [filter_next].
  - apply wp_ret. split; [apply stable_refl|]. rewrite sel_0. cbn [hd_error fst snd].
    split; [reflexivity | f_equal; lia].
  - assert (Hlo : lo < len a) by lia.
    destruct (WF_live _ _ Ha Hlo) as [[k u] Hp]. rewrite Hp. cbn beta iota.
    apply wp_bind. eapply wp_mono; [apply contains_in_lawful; exact Hb | | auto]; cbn beta.
    intros inb w' [Hst ->].
    rewrite sel_S, (memi_slot a b lo k u Ha Hlo Hp).
    destruct (Bool.eqb (mem b k) want).
    + apply wp_ret. cbn [hd_error fst snd]. split; [exact Hst|]. split; [reflexivity | f_equal; lia].
    + eapply wp_mono; [apply IH; [exact Ha | exact Hb | lia] | | auto]; cbn beta.
      intros r w'' (Hst' & Hr1 & Hr2). split; [eapply stable_trans; eauto|].
      split; [exact Hr1|]. rewrite Hr2.
      destruct (hd_error (sel a b want (S lo) n)); f_equal; lia.
Qed.

(* 4 *)
Fixpoint filter_run (a b : smap) (want : bool) (fuel : nat) (c : cursor) : M (list nat) :=
  match fuel with
  | 0 => ret []
  | S f => x <- filter_next E a b want (cursor_len c) (fst c) ;;
           match fst x with None => ret [] | Some i => r <- filter_run a b want f (snd x) ;; ret (i :: r) end
  end.

Lemma sel_cons (a b : smap) want n : forall lo i rest,
  sel a b want lo n = i :: rest ->
  lo <= i < lo + n /\ rest = sel a b want (S i) (lo + n - S i).
Proof.
  induction n as [|n IH]; intros lo i rest H; [rewrite sel_0 in H; discriminate|].
  rewrite sel_S in H. destruct (Bool.eqb (memi a b lo) want).
  - injection H as <- <-. split; [lia|]. replace (lo + S n - S lo) with n by lia. reflexivity.
  - destruct (IH (S lo) i rest H) as [Hi Hr]. split; [lia|].
    replace (lo + S n - S i) with (S lo + n - S i) by lia. exact Hr.
Qed.

Lemma sel_length_le (a b : smap) want lo n : length (sel a b want lo n) <= n.
Proof. unfold sel. etransitivity; [apply filter_length_le'|]. rewrite seq_length. lia. Qed.

Lemma filter_run_steps (a b : smap) want : forall j (c : cursor) (w : world),
  WF a -> WF b -> fst c <= snd c -> snd c <= len a ->
  wp (filter_run a b want j c)
     (fun r w' => stable w w' /\ r = firstn j (sel a b want (fst c) (cursor_len c)))
     (fun _ => False) w.
Proof.
  induction j as [|j IH]; intros c w Ha Hb H1 H2; cbn [filter_run].
  - apply wp_ret. split; [apply stable_refl | reflexivity].
  - assert (Hc : fst c + cursor_len c = snd c) by (unfold cursor_len; lia).
    apply wp_bind.
    eapply wp_mono; [apply filter_next_lawful; [exact Ha | exact Hb | lia] | | auto]; cbn beta.
    intros x w' (Hst & Hx1 & Hx2). rewrite Hx1.
    destruct (sel a b want (fst c) (cursor_len c)) as [|i rest] eqn:Hsel; cbn [hd_error] in *.
    + apply wp_ret. split; [exact Hst | reflexivity].
    + destruct (sel_cons a b want _ _ _ _ Hsel) as [Hi Hrest].
      apply wp_bind.
      eapply wp_mono; [apply (IH (snd x) w'); [exact Ha | exact Hb | |] | | auto];
        try (rewrite Hx2; cbn [fst snd]; lia); cbn beta.
      intros r w'' [Hst' ->]. apply wp_ret. split; [eapply stable_trans; eauto|].
      cbn [firstn]. f_equal. rewrite Hx2. unfold cursor_len at 1. cbn [fst snd].
      rewrite Hrest. reflexivity.
Qed.

Lemma filter_run_lawful (a b : smap) want (c : cursor) (w : world) :
  WF a -> WF b -> fst c <= snd c -> snd c <= len a ->
  wp (filter_run a b want (S (cursor_len c)) c)
     (fun r w' => stable w w' /\ r = sel a b want (fst c) (cursor_len c))
     (fun _ => False) w.
Proof.
  intros Ha Hb H1 H2.
  eapply wp_mono; [apply filter_run_steps; assumption | | auto]; cbn beta.
  intros r w' [Hst ->]. split; [exact Hst|].
  apply firstn_all2. pose proof (sel_length_le a b want (fst c) (cursor_len c)). lia.
Qed.

(* stepping diff_next / inter_next to exhaustion = diff_fold / inter_fold *)
Lemma diff_run_is_fold (a b : smap) (c : cursor) (w1 w2 : world) :
  WF a -> WF b -> fst c <= snd c -> snd c <= len a ->
  wp (filter_run a b false (S (cursor_len c)) c)
     (fun r _ => wp (diff_fold E a b c []) (fun r' _ => r' = r) (fun _ => False) w2)
     (fun _ => False) w1.
Proof.
  intros Ha Hb H1 H2.
  eapply wp_mono; [apply filter_run_lawful; assumption | | auto]; cbn beta.
  intros r w' [_ ->]. unfold diff_fold.
  eapply wp_mono; [apply filter_fold_lawful; [exact Ha | exact Hb | unfold cursor_len; lia] | | auto];
    cbn beta.
  intros r' w'' [_ ->]. reflexivity.
Qed.

Lemma inter_run_is_fold (a b : smap) (c : cursor) (w1 w2 : world) :
  WF a -> WF b -> fst c <= snd c -> snd c <= len a ->
  wp (filter_run a b true (S (cursor_len c)) c)
     (fun r _ => wp (inter_fold E a b c []) (fun r' _ => r' = r) (fun _ => False) w2)
     (fun _ => False) w1.
Proof.
  intros Ha Hb H1 H2.
  eapply wp_mono; [apply filter_run_lawful; assumption | | auto]; cbn beta.
  intros r w' [_ ->]. unfold inter_fold.
  eapply wp_mono; [apply filter_fold_lawful; [exact Ha | exact Hb | unfold cursor_len; lia] | | auto];
    cbn beta.
  intros r' w'' [_ ->]. reflexivity.
Qed.

(* ------------------------------------------------------------------ *)
(* 5. mathematical content of the selection                            *)
(* ------------------------------------------------------------------ *)
Lemma sel_elems (a b : smap) want :
  WF a ->
  List.map (fun i => nth_error (elems a) i) (sel a b want 0 (len a))
  = List.map Some (filter (fun p => Bool.eqb (mem b (fst p)) want) (elems a)).
Proof.
  intros Ha. rewrite <- (elems_length a Ha). unfold sel, memi.
  apply (filter_seq_nth
           (fun o : option kv => Bool.eqb (match o with Some p => mem b (fst p) | None => false end) want)
           (fun p : kv => Bool.eqb (mem b (fst p)) want)
           (fun x => eq_refl) (elems a) []).
Qed.

Lemma mem_true_iff (b : smap) (k : K) :
  mem b k = true <-> In (ck k) (List.map cls (elems b)).
Proof.
  unfold mem. split.
  - destruct (find_idx ck (ck k) (elems b)) as [x|] eqn:Hf; [intros _ | discriminate].
    destruct (find_idx_inv ck _ _ _ Hf) as [[q [Hq Hc]] _].
    apply in_map_iff. exists q. split; [exact Hc | eapply nth_error_In; exact Hq].
  - intros Hin. apply in_map_iff in Hin. destruct Hin as [q [Hc Hq]].
    destruct (find_idx ck (ck k) (elems b)) as [x|] eqn:Hf; [reflexivity|].
    exfalso. destruct (In_nth_error _ _ Hq) as [j Hj].
    exact (find_idx_none_inv ck _ _ Hf j q Hj Hc).
Qed.

Lemma mem_false_iff (b : smap) (k : K) :
  mem b k = false <-> ~ In (ck k) (List.map cls (elems b)).
Proof.
  rewrite <- mem_true_iff. destruct (mem b k); split; intros H.
  - discriminate H.
  - exfalso. apply H. reflexivity.
  - intros H'. discriminate H'.
  - reflexivity.
Qed.

Lemma Uniq_filter (f : kv -> bool) (l : list kv) : Uniq ck l -> Uniq ck (filter f l).
Proof. unfold Uniq. apply NoDup_map_filter. Qed.

Lemma difference_spec (a b : smap) :
  WF a -> Uniq ck (elems a) ->
  let res := filter (fun p => negb (mem b (fst p))) (elems a) in
  Uniq ck res /\ (forall p, In p res <-> In p (elems a) /\ mem b (fst p) = false).
Proof.
  intros Ha Hu res. split; [apply Uniq_filter; exact Hu|].
  intros p. unfold res. rewrite filter_In, Bool.negb_true_iff. reflexivity.
Qed.

Lemma intersection_spec (a b : smap) :
  WF a -> Uniq ck (elems a) ->
  let res := filter (fun p => mem b (fst p)) (elems a) in
  Uniq ck res /\ (forall p, In p res <-> In p (elems a) /\ mem b (fst p) = true).
Proof.
  intros Ha Hu res. split; [apply Uniq_filter; exact Hu|].
  intros p. unfold res. rewrite filter_In. reflexivity.
Qed.

(* ------------------------------------------------------------------ *)
(* 6. size hints                                                       *)
(* ------------------------------------------------------------------ *)
Lemma sel_split (a b : smap) lo n :
  length (sel a b true lo n) + length (sel a b false lo n) = n.
Proof.
  unfold sel.
  rewrite (filter_ext_in' (fun i => Bool.eqb (memi a b i) true) (fun i => memi a b i))
    by (intros i _; destruct (memi a b i); reflexivity).
  rewrite (filter_ext_in' (fun i => Bool.eqb (memi a b i) false) (fun i => negb (memi a b i)))
    by (intros i _; destruct (memi a b i); reflexivity).
  rewrite filter_length_split. apply seq_length.
Qed.

Lemma sel_In (a b : smap) want lo n i :
  In i (sel a b want lo n) <-> lo <= i < lo + n /\ memi a b i = want.
Proof.
  unfold sel. rewrite filter_In, in_seq. rewrite Bool.eqb_true_iff. reflexivity.
Qed.

(* at most [len b] of the items of [a] occur in [b] *)
Lemma sel_true_le_len (a b : smap) lo n :
  WF a -> WF b -> Uniq ck (elems a) -> lo + n <= len a ->
  length (sel a b true lo n) <= len b.
Proof.
  intros Ha Hb Hu Hn.
  set (ca := List.map cls (elems a)). set (cb := List.map cls (elems b)).
  assert (Hlen : length ca = len a) by (unfold ca; rewrite map_length; apply elems_length; exact Ha).
  set (L := List.map (fun i => nth i ca 0%N) (sel a b true lo n)).
  assert (HL1 : length L = length (sel a b true lo n)) by (unfold L; apply map_length).
  assert (HL2 : length cb = len b) by (unfold cb; rewrite map_length; apply elems_length; exact Hb).
  rewrite <- HL1, <- HL2. apply NoDup_incl_length.
  - unfold L. apply NoDup_map_inj_on.
    + unfold sel. apply NoDup_filter. apply seq_NoDup.
    + intros i j Hi Hj Heq. apply sel_In in Hi. apply sel_In in Hj.
      apply (proj1 (NoDup_nth ca 0%N) Hu); [lia | lia | exact Heq].
  - intros c Hc. unfold L in Hc. apply in_map_iff in Hc. destruct Hc as [i [Hi Hin]].
    apply sel_In in Hin. destruct Hin as [Hr Hm]. unfold memi in Hm.
    destruct (nth_error (elems a) i) as [p|] eqn:Hp; [|discriminate].
    assert (Hci : nth i ca 0%N = ck (fst p)).
    { apply nth_error_nth. unfold ca. rewrite nth_error_map, Hp. reflexivity. }
    rewrite <- Hi, Hci. apply mem_true_iff. exact Hm.
Qed.

Lemma diff_hint_brackets (a b : smap) (c : cursor) :
  WF a -> WF b -> Uniq ck (elems a) -> Uniq ck (elems b) -> fst c <= snd c -> snd c <= len a ->
  fst (diff_size_hint b c) <= length (sel a b false (fst c) (cursor_len c)) <= snd (diff_size_hint b c).
Proof.
  intros Ha Hb Hua Hub H1 H2. unfold diff_size_hint. cbn [fst snd].
  pose proof (sel_split a b (fst c) (cursor_len c)) as Hsp.
  assert (Hle : length (sel a b true (fst c) (cursor_len c)) <= len b).
  { apply sel_true_le_len; auto. unfold cursor_len. lia. }
  split; [|apply sel_length_le].
  destruct (Nat.ltb_spec (len b) (cursor_len c)); lia.
Qed.

Lemma inter_hint_brackets (a b : smap) (c : cursor) :
  WF a -> WF b -> Uniq ck (elems a) -> Uniq ck (elems b) -> fst c <= snd c -> snd c <= len a ->
  fst (inter_size_hint b c) <= length (sel a b true (fst c) (cursor_len c)) <= snd (inter_size_hint b c).
Proof.
  intros Ha Hb Hua Hub H1 H2. unfold inter_size_hint. cbn [fst snd].
  assert (Hle : length (sel a b true (fst c) (cursor_len c)) <= len b).
  { apply sel_true_le_len; auto. unfold cursor_len. lia. }
  pose proof (sel_length_le a b true (fst c) (cursor_len c)). lia.
Qed.

(* ------------------------------------------------------------------ *)
(* 7. predicates                                                       *)
(* ------------------------------------------------------------------ *)
Lemma all_in_lawful (a b : smap) want n : forall lo (w : world),
  WF a -> WF b -> lo + n <= len a ->
  wp (all_in E a b want n lo)
     (fun r w' => stable w w' /\ r = forallb (fun i => Bool.eqb (memi a b i) want) (seq lo n))
     (fun _ => False) w.
Proof.
  induction n as [|n IH]; intros lo w Ha Hb Hn; cbn [all_in].
  - apply wp_ret. split; [apply stable_refl | reflexivity].
  - assert (Hlo : lo < len a) by lia.
    destruct (WF_live _ _ Ha Hlo) as [[k u] Hp]. rewrite Hp. cbn beta iota.
    apply wp_bind. eapply wp_mono; [apply contains_in_lawful; exact Hb | | auto]; cbn beta.
    intros inb w' [Hst ->]. cbn [seq forallb]. rewrite (memi_slot a b lo k u Ha Hlo Hp).
    destruct (Bool.eqb (mem b k) want); cbn [andb].
    + eapply wp_mono; [apply IH; [exact Ha | exact Hb | lia] | | auto]; cbn beta.
      intros r w'' [Hst' ->]. split; [eapply stable_trans; eauto | reflexivity].
    + apply wp_ret. split; [exact Hst | reflexivity].
Qed.

Lemma on_map_iter_lawful (a : smap) (w : world) :
  WF a ->
  wp (on_map a (@iter K unit T)) (fun c w' => stable w w' /\ c = (0, len a)) (fun _ => False) w.
Proof.
  intros Ha. apply wp_on_map_stable. intros w0 Hs. unfold iter.
  apply wp_bind. apply wp_p_prefix.
  - intros _. apply wp_bind. apply wp_get_len. apply wp_ret. rewrite Hs.
    split; [apply stable_refl | reflexivity].
  - intros Hc. rewrite Hs in Hc. pose proof (WF_len_le_cap a Ha). lia.
Qed.

Lemma iter_all_lawful (a b : smap) want (w : world) :
  WF a -> WF b ->
  wp (iter_all E a b want)
     (fun r w' => stable w w' /\ r = forallb (fun p => Bool.eqb (mem b (fst p)) want) (elems a))
     (fun _ => False) w.
Proof.
  intros Ha Hb. unfold iter_all. apply wp_bind.
  eapply wp_mono; [apply on_map_iter_lawful; exact Ha | | auto]; cbn beta.
  intros c w' [Hst ->]. unfold cursor_len. cbn [fst snd].
  eapply wp_mono; [apply all_in_lawful; [exact Ha | exact Hb | lia] | | auto]; cbn beta.
  intros r w'' [Hst' ->]. split; [eapply stable_trans; eauto|].
  rewrite Nat.sub_0_r. rewrite <- (elems_length a Ha). unfold memi.
  apply (forallb_seq_nth
           (fun o : option kv => Bool.eqb (match o with Some p => mem b (fst p) | None => false end) want)
           (fun p : kv => Bool.eqb (mem b (fst p)) want)
           (fun x => eq_refl) (elems a) []).
Qed.

Lemma forallb_ext' {X} (f g : X -> bool) (l : list X) :
  (forall x, f x = g x) -> forallb f l = forallb g l.
Proof.
  intros H. induction l as [|x t IH]; cbn [forallb]; [reflexivity|]. rewrite H, IH. reflexivity.
Qed.

Lemma is_subset_lawful (a b : smap) (w : world) :
  WF a -> WF b ->
  wp (is_subset E a b)
     (fun r w' => stable w w' /\
                  r = (len a <=? len b) && forallb (fun p => mem b (fst p)) (elems a))
     (fun _ => False) w.
Proof.
  intros Ha Hb. unfold is_subset. destruct (len a <=? len b); cbn [andb].
  - eapply wp_mono; [apply iter_all_lawful; assumption | | auto]; cbn beta.
    intros r w' [Hst ->]. split; [exact Hst|].
    apply forallb_ext'. intros p. destruct (mem b (fst p)); reflexivity.
  - apply wp_ret. split; [apply stable_refl | reflexivity].
Qed.

Lemma is_superset_lawful (a b : smap) (w : world) :
  WF a -> WF b ->
  wp (is_superset E a b)
     (fun r w' => stable w w' /\
                  r = (len b <=? len a) && forallb (fun p => mem a (fst p)) (elems b))
     (fun _ => False) w.
Proof. intros Ha Hb. unfold is_superset. apply is_subset_lawful; assumption. Qed.

Lemma is_disjoint_lawful (a b : smap) (w : world) :
  WF a -> WF b ->
  wp (is_disjoint E a b)
     (fun r w' => stable w w' /\
                  r = if len a <=? len b
                      then forallb (fun p => negb (mem b (fst p))) (elems a)
                      else forallb (fun p => negb (mem a (fst p))) (elems b))
     (fun _ => False) w.
Proof.
  intros Ha Hb. unfold is_disjoint. destruct (len a <=? len b).
  - eapply wp_mono; [apply iter_all_lawful; assumption | | auto]; cbn beta.
    intros r w' [Hst ->]. split; [exact Hst|].
    apply forallb_ext'. intros p. destruct (mem b (fst p)); reflexivity.
  - eapply wp_mono; [apply iter_all_lawful; assumption | | auto]; cbn beta.
    intros r w' [Hst ->]. split; [exact Hst|].
    apply forallb_ext'. intros p. destruct (mem a (fst p)); reflexivity.
Qed.

(* the mathematical truth *)
Lemma subset_truth (a b : smap) :
  WF a -> WF b -> Uniq ck (elems a) -> Uniq ck (elems b) ->
  ((len a <=? len b) && forallb (fun p => mem b (fst p)) (elems a) = true
   <-> (forall p, In p (elems a) -> mem b (fst p) = true)).
Proof.
  intros Ha Hb Hua Hub. rewrite Bool.andb_true_iff, forallb_forall. split.
  - intros [_ H]. exact H.
  - intros H. split; [|exact H]. apply Nat.leb_le.
    rewrite <- (elems_length a Ha), <- (elems_length b Hb).
    rewrite <- (map_length cls (elems a)), <- (map_length cls (elems b)).
    apply NoDup_incl_length; [exact Hua|].
    intros c Hc. apply in_map_iff in Hc. destruct Hc as [p [Hpc Hp]].
    rewrite <- Hpc. apply (mem_true_iff b (fst p)). apply H. exact Hp.
Qed.

Lemma disjoint_sym (a b : smap) :
  (forall q, In q (elems b) -> mem a (fst q) = false) <->
  (forall p, In p (elems a) -> mem b (fst p) = false).
Proof.
  assert (Hgen : forall x y : smap,
             (forall q, In q (elems y) -> mem x (fst q) = false) ->
             forall p, In p (elems x) -> mem y (fst p) = false).
  { intros x y H p Hp. apply mem_false_iff. intros Hin.
    apply in_map_iff in Hin. destruct Hin as [q [Hc Hq]].
    specialize (H q Hq). apply mem_false_iff in H. apply H.
    cbn beta in Hc. rewrite Hc. apply in_map_iff. exists p. split; [reflexivity | exact Hp]. }
  split; apply Hgen.
Qed.

Lemma disjoint_truth (a b : smap) :
  WF a -> WF b -> Uniq ck (elems a) -> Uniq ck (elems b) ->
  ((if len a <=? len b
    then forallb (fun p => negb (mem b (fst p))) (elems a)
    else forallb (fun p => negb (mem a (fst p))) (elems b)) = true
   <-> (forall p, In p (elems a) -> mem b (fst p) = false)).
Proof.
  intros Ha Hb Hua Hub. destruct (len a <=? len b).
  - rewrite forallb_forall. split; intros H p Hp; specialize (H p Hp);
      [apply Bool.negb_true_iff in H | apply Bool.negb_true_iff]; exact H.
  - rewrite forallb_forall. rewrite <- disjoint_sym.
    split; intros H p Hp; specialize (H p Hp);
      [apply Bool.negb_true_iff in H | apply Bool.negb_true_iff]; exact H.
Qed.

End Algebra.
