(* Dict.v — property C01: for every history of safe Map operations the
   container answers, and afterwards contains, exactly what an ideal finite
   dictionary of the same capacity does.  Both build profiles ([debug] is a
   section variable), every capacity. *)
Require Import Model.Base Model.Slots Model.MapOps Proofs.Hoare Proofs.Inv Proofs.Safety Proofs.Safety2 Proofs.Spec Proofs.Lawful Proofs.Lawful2 Proofs.Lawful3.
From Coq Require Import Permutation.

Section Dict.
Context {K V Q T : Type} (E : env K V Q T) (debug : bool).
Context (ck : K -> N) (cq : Q -> N) (HL : Lawful E ck cq).
Notation M := (M K V T). Notation world := (world K V T). Notation map := (map K V). Notation kv := (K * V)%type.

(* ======================================================================== *)
(* 1. The ideal dictionary: an association list whose keys have pairwise
      different classes, observed up to order.                               *)

Definition dict := list kv.
Definition d_find (d : dict) (c : N) : option kv := find (fun p => N.eqb (ck (fst p)) c) d.
Definition d_del (d : dict) (c : N) : dict := filter (fun p => negb (N.eqb (ck (fst p)) c)) d.
Definition d_set (d : dict) (c : N) (f : kv -> kv) : dict :=
  List.map (fun p => if N.eqb (ck (fst p)) c then f p else p) d.

Inductive dop :=
| DInsert (k : K) (v : V) | DInsertKV (k : K) (v : V) | DCheckedInsert (k : K) (v : V)
| DGet (q : Q) | DGetMut (q : Q) (v' : V) | DGetKV (q : Q) | DContains (q : Q)
| DIndex (q : Q) | DIndexMut (q : Q) (v' : V)
| DRemove (q : Q) | DRemoveEntry (q : Q)
| DRetain (g : K -> V -> bool * V) | DClear.

Inductive dres := RNone | RVal (v : V) | RPair (p : kv) | RSomeNone | RBool (b : bool) | RUnit | RPanic.

(* what retain's closure does to one association *)
Definition d_keep (g : K -> V -> bool * V) (p : kv) : list kv :=
  let '(keep, v') := g (fst p) (snd p) in if keep then [(fst p, v')] else [].

(* the specification; [n] is the capacity *)
Definition dstep (n : nat) (o : dop) (d : dict) : dres * dict :=
  match o with
  | DInsert k v =>
      match d_find d (ck k) with
      | Some (k0, v0) => (RVal v0, d_set d (ck k) (fun p => (fst p, v)))   (* keeps the stored key *)
      | None => if length d <? n then (RNone, d ++ [(k, v)]) else (RPanic, d)
      end
  | DInsertKV k v =>
      match d_find d (ck k) with
      | Some (k0, v0) => (RPair (k0, v0), d_set d (ck k) (fun _ => (k, v)))
      | None => if length d <? n then (RNone, d ++ [(k, v)]) else (RPanic, d)
      end
  | DCheckedInsert k v =>
      match d_find d (ck k) with
      | Some (k0, v0) => (RVal v0, d_set d (ck k) (fun p => (fst p, v)))
      | None => if length d <? n then (RSomeNone, d ++ [(k, v)]) else (RNone, d)
      end
  | DGet q =>
      match d_find d (cq q) with Some (k0, v0) => (RVal v0, d) | None => (RNone, d) end
  | DGetMut q v' =>
      match d_find d (cq q) with
      | Some (k0, v0) => (RVal v0, d_set d (cq q) (fun p => (fst p, v')))
      | None => (RNone, d)
      end
  | DGetKV q =>
      match d_find d (cq q) with Some p => (RPair p, d) | None => (RNone, d) end
  | DContains q =>
      (RBool (match d_find d (cq q) with Some _ => true | None => false end), d)
  | DIndex q =>
      match d_find d (cq q) with Some (k0, v0) => (RVal v0, d) | None => (RPanic, d) end
  | DIndexMut q v' =>
      match d_find d (cq q) with
      | Some (k0, v0) => (RVal v0, d_set d (cq q) (fun p => (fst p, v')))
      | None => (RPanic, d)
      end
  | DRemove q =>
      match d_find d (cq q) with Some (k0, v0) => (RVal v0, d_del d (cq q)) | None => (RNone, d) end
  | DRemoveEntry q =>
      match d_find d (cq q) with Some p => (RPair p, d_del d (cq q)) | None => (RNone, d) end
  | DRetain g => (RUnit, flat_map (d_keep g) d)
  | DClear => (RUnit, [])
  end.

(* ======================================================================== *)
(* 2. The model side, built from the MapOps functions.  DGetMut / DIndexMut
      write v' through the returned reference.                               *)

Definition mstep (o : dop) : M dres :=
  match o with
  | DInsert k v => r <- insert E debug k v ;; ret (match r with None => RNone | Some v0 => RVal v0 end)
  | DInsertKV k v => r <- insert_key_value E debug k v ;; ret (match r with None => RNone | Some p => RPair p end)
  | DCheckedInsert k v =>
      r <- checked_insert E debug k v ;;
      ret (match r with None => RNone | Some None => RSomeNone | Some (Some v0) => RVal v0 end)
  | DGet q => r <- get E q ;; match r with None => ret RNone | Some i => p <- p_ref i ;; ret (RVal (snd p)) end
  | DGetMut q v' =>
      r <- get_mut E q ;;
      match r with
      | None => ret RNone
      | Some i => old <- p_replace i (fun p => (fst p, v')) ;; ret (RVal (snd old))
      end
  | DGetKV q => r <- get_key_value E q ;; match r with None => ret RNone | Some i => p <- p_ref i ;; ret (RPair p) end
  | DContains q => b <- contains_key E q ;; ret (RBool b)
  | DIndex q => i <- index E q ;; p <- p_ref i ;; ret (RVal (snd p))
  | DIndexMut q v' => i <- index_mut E q ;; old <- p_replace i (fun p => (fst p, v')) ;; ret (RVal (snd old))
  | DRemove q => r <- remove E debug q ;; ret (match r with None => RNone | Some v0 => RVal v0 end)
  | DRemoveEntry q => r <- remove_entry E debug q ;; ret (match r with None => RNone | Some p => RPair p end)
  | DRetain g => retain E debug (fun s k v => ((Some (fst (g k v)), snd (g k v)), s)) ;; ret RUnit
  | DClear => clear E ;; ret RUnit
  end.

(* ======================================================================== *)
(* 3. The abstraction relation.                                              *)

Definition Abs (m : map) (d : dict) : Prop := WF m /\ Uniq ck (elems m) /\ Permutation (elems m) d.

(* ======================================================================== *)
(* Pure list facts: the dictionary does not depend on the order.            *)

Lemma d_Uniq_cons (h : kv) (t : list kv) :
  Uniq ck (h :: t) <-> ~ In (ck (fst h)) (List.map (fun p => ck (fst p)) t) /\ Uniq ck t.
Proof. unfold Uniq. cbn [List.map]. apply NoDup_cons_iff. Qed.

Lemma d_Uniq_perm (l l' : list kv) : Permutation l l' -> Uniq ck l -> Uniq ck l'.
Proof.
  intros Hp. unfold Uniq. apply Permutation_NoDup.
  apply (Permutation_map (fun p : kv => ck (fst p))). exact Hp.
Qed.

Lemma d_In_class (l : list kv) p : In p l -> In (ck (fst p)) (List.map (fun p => ck (fst p)) l).
Proof. intros H. apply (in_map (fun p : kv => ck (fst p))). exact H. Qed.

Lemma d_lookup_cons (p : kv) t c :
  lookup ck (p :: t) c = if N.eqb (ck (fst p)) c then Some p else lookup ck t c.
Proof.
  unfold lookup. cbn [find_idx]. destruct (N.eqb (ck (fst p)) c); [reflexivity|].
  destruct (find_idx ck c t) as [i|]; reflexivity.
Qed.

(* on one and the same list, d_find is the list machine's lookup *)
Lemma d_find_lookup (l : list kv) c : d_find l c = lookup ck l c.
Proof.
  induction l as [|h t IH]; [reflexivity|]. rewrite d_lookup_cons.
  unfold d_find in *. cbn [find]. rewrite IH. reflexivity.
Qed.

Lemma d_find_some (l : list kv) c p : d_find l c = Some p -> In p l /\ ck (fst p) = c.
Proof.
  intros H. apply find_some in H. destruct H as [H1 H2].
  split; [exact H1 | apply N.eqb_eq; exact H2].
Qed.

Lemma d_find_none (l : list kv) c : d_find l c = None -> forall p, In p l -> ck (fst p) <> c.
Proof.
  intros H p Hp. pose proof (find_none _ _ H p Hp) as Hb. cbn beta in Hb.
  apply N.eqb_neq. exact Hb.
Qed.

Lemma d_find_uniq_in (l : list kv) p : Uniq ck l -> In p l -> d_find l (ck (fst p)) = Some p.
Proof.
  induction l as [|h t IH]; intros Hu Hin; [destruct Hin|].
  apply d_Uniq_cons in Hu. destruct Hu as [Hn Hu].
  unfold d_find. cbn [find]. destruct Hin as [->|Hin].
  - rewrite N.eqb_refl. reflexivity.
  - destruct (N.eqb_spec (ck (fst h)) (ck (fst p))) as [Heq|Hne].
    + exfalso. apply Hn. rewrite Heq. apply d_In_class. exact Hin.
    + apply IH; assumption.
Qed.

Lemma d_find_perm (l d : list kv) c : Uniq ck l -> Permutation l d -> d_find l c = d_find d c.
Proof.
  intros Hu Hp. assert (Hu' : Uniq ck d) by (eapply d_Uniq_perm; eauto).
  destruct (d_find l c) as [p|] eqn:Hl.
  - apply d_find_some in Hl. destruct Hl as [Hin <-]. symmetry.
    apply d_find_uniq_in; [exact Hu'|]. eapply Permutation_in; eauto.
  - symmetry. destruct (d_find d c) as [p|] eqn:Hd; [|reflexivity]. exfalso.
    apply d_find_some in Hd. destruct Hd as [Hin Hc]. apply (d_find_none l c Hl p); [|exact Hc].
    eapply Permutation_in; [apply Permutation_sym; exact Hp | exact Hin].
Qed.

(* what the scan finds is what the dictionary holds *)
Lemma d_abs_some (l d : list kv) c i :
  Uniq ck l -> Permutation l d -> find_idx ck c l = Some i ->
  exists p, nth_error l i = Some p /\ ck (fst p) = c /\ d_find d c = Some p.
Proof.
  intros Hu Hp Hf. destruct (find_idx_inv ck c l i Hf) as [[p [Hpi Hpc]] _].
  exists p. split; [exact Hpi|]. split; [exact Hpc|].
  rewrite <- (d_find_perm l d c Hu Hp), d_find_lookup. unfold lookup. rewrite Hf. exact Hpi.
Qed.

Lemma d_abs_none (l d : list kv) c :
  Uniq ck l -> Permutation l d -> find_idx ck c l = None ->
  d_find d c = None /\ forall p, In p l -> ck (fst p) <> c.
Proof.
  intros Hu Hp Hf. assert (Hl : d_find l c = None).
  { rewrite d_find_lookup. unfold lookup. rewrite Hf. reflexivity. }
  split; [rewrite <- (d_find_perm l d c Hu Hp); exact Hl | apply d_find_none; exact Hl].
Qed.

(* ---- d_set is the in-place update ---- *)
Lemma d_set_id (l : list kv) c f : (forall p, In p l -> ck (fst p) <> c) -> d_set l c f = l.
Proof.
  induction l as [|h t IH]; intros H; [reflexivity|]. unfold d_set in *. cbn [List.map].
  destruct (N.eqb_spec (ck (fst h)) c) as [Heq|Hne].
  - exfalso. apply (H h); [left; reflexivity | exact Heq].
  - f_equal. apply IH. intros p Hp. apply H. right. exact Hp.
Qed.

Lemma d_del_id (l : list kv) c : (forall p, In p l -> ck (fst p) <> c) -> d_del l c = l.
Proof.
  induction l as [|h t IH]; intros H; [reflexivity|]. unfold d_del in *. cbn [filter].
  destruct (N.eqb_spec (ck (fst h)) c) as [Heq|Hne]; cbn [negb].
  - exfalso. apply (H h); [left; reflexivity | exact Heq].
  - f_equal. apply IH. intros p Hp. apply H. right. exact Hp.
Qed.

Lemma d_set_upd (l : list kv) i p c f :
  Uniq ck l -> nth_error l i = Some p -> ck (fst p) = c -> d_set l c f = upd l i (f p).
Proof.
  revert i; induction l as [|h t IH]; intros i Hu Hi Hc; [destruct i; discriminate|].
  apply d_Uniq_cons in Hu. destruct Hu as [Hn Hu].
  destruct i as [|i]; cbn [nth_error] in Hi.
  - injection Hi as ->. unfold d_set. cbn [List.map upd]. rewrite Hc, N.eqb_refl. f_equal.
    apply d_set_id. intros q Hq Hqc. apply Hn. rewrite Hc, <- Hqc. apply d_In_class. exact Hq.
  - unfold d_set. cbn [List.map upd]. destruct (N.eqb_spec (ck (fst h)) c) as [Heq|Hne].
    + exfalso. apply Hn. rewrite Heq, <- Hc. apply d_In_class. eapply nth_error_In. exact Hi.
    + f_equal. apply IH; assumption.
Qed.

Lemma d_map_upd {A B} (g : A -> B) (l : list A) i x : List.map g (upd l i x) = upd (List.map g l) i (g x).
Proof.
  revert i; induction l as [|h t IH]; intros [|i]; cbn [upd List.map]; try reflexivity.
  f_equal. apply IH.
Qed.

Lemma d_upd_same {A} (l : list A) i x : nth_error l i = Some x -> upd l i x = l.
Proof.
  revert i; induction l as [|h t IH]; intros [|i] H; cbn [nth_error] in H; cbn [upd]; try discriminate.
  - injection H as ->. reflexivity.
  - f_equal. apply IH. exact H.
Qed.

Lemma d_abs_set (l d : list kv) c i p f :
  Uniq ck l -> Permutation l d -> nth_error l i = Some p -> ck (fst p) = c -> ck (fst (f p)) = c ->
  Uniq ck (upd l i (f p)) /\ Permutation (upd l i (f p)) (d_set d c f).
Proof.
  intros Hu Hp Hi Hc Hfc. split.
  - unfold Uniq. rewrite d_map_upd. rewrite d_upd_same; [exact Hu|].
    rewrite Hfc, <- Hc. apply (map_nth_error (fun p : kv => ck (fst p))). exact Hi.
  - rewrite <- (d_set_upd l i p c f Hu Hi Hc). unfold d_set. apply Permutation_map. exact Hp.
Qed.

(* ---- append ---- *)
Lemma d_abs_app (l d : list kv) k v :
  Uniq ck l -> Permutation l d -> (forall p, In p l -> ck (fst p) <> ck k) ->
  Uniq ck (l ++ [(k, v)]) /\ Permutation (l ++ [(k, v)]) (d ++ [(k, v)]).
Proof.
  intros Hu Hp Hn. split.
  - unfold Uniq. rewrite map_app. cbn [List.map fst].
    eapply Permutation_NoDup; [apply Permutation_cons_append|].
    apply NoDup_cons; [|exact Hu]. intros Hin. apply in_map_iff in Hin.
    destruct Hin as (p & Hpc & Hpi). apply (Hn p Hpi Hpc).
  - apply Permutation_app_tail. exact Hp.
Qed.

(* ---- swap_remove is deletion ---- *)
Lemma d_swap_remove_snoc (l' : list kv) z i :
  swap_remove (l' ++ [z]) i = if i =? length l' then l' else upd l' i z.
Proof.
  unfold swap_remove. rewrite app_length. cbn [length].
  replace (length l' + 1 - 1) with (length l') by lia.
  rewrite nth_error_app2 by lia. rewrite Nat.sub_diag. cbn [nth_error].
  rewrite removelast_last. reflexivity.
Qed.

Lemma d_upd_perm (l : list kv) i p x : nth_error l i = Some p -> Permutation (x :: l) (p :: upd l i x).
Proof.
  revert i; induction l as [|h t IH]; intros i H; [destruct i; discriminate|].
  destruct i as [|i]; cbn [nth_error] in H; cbn [upd].
  - injection H as ->. apply perm_swap.
  - eapply perm_trans; [apply perm_swap|].
    eapply perm_trans; [apply perm_skip; apply (IH i H)|]. apply perm_swap.
Qed.

Lemma d_rev_case {A} (t : list A) : t = [] \/ exists t' z, t = t' ++ [z].
Proof. destruct t as [|z t' _] using rev_ind; [left; reflexivity | right; eauto]. Qed.

Lemma d_swap_remove_perm (l : list kv) i p :
  nth_error l i = Some p -> Permutation l (p :: swap_remove l i).
Proof.
  intros H. destruct (d_rev_case l) as [->|[l' [z ->]]]; [destruct i; discriminate|].
  assert (Hi : i < length (l' ++ [z])) by (apply nth_error_Some; rewrite H; discriminate).
  rewrite app_length in Hi. cbn [length] in Hi.
  rewrite d_swap_remove_snoc. destruct (Nat.eqb_spec i (length l')) as [->|Hne].
  - rewrite nth_error_app2 in H by lia. rewrite Nat.sub_diag in H. cbn [nth_error] in H.
    injection H as <-. apply Permutation_sym. apply Permutation_cons_append.
  - rewrite nth_error_app1 in H by lia.
    eapply perm_trans; [apply Permutation_sym; apply Permutation_cons_append|].
    apply d_upd_perm. exact H.
Qed.

Lemma d_filter_perm (f : kv -> bool) (l d : list kv) :
  Permutation l d -> Permutation (filter f l) (filter f d).
Proof.
  induction 1 as [|x l d _ IH|x y l|l1 l2 l3 _ IH1 _ IH2]; cbn [filter].
  - apply perm_nil.
  - destruct (f x); [apply perm_skip|]; exact IH.
  - destruct (f x), (f y); try apply Permutation_refl. apply perm_swap.
  - eapply perm_trans; eassumption.
Qed.

Lemma d_abs_del (l d : list kv) c i p :
  Uniq ck l -> Permutation l d -> nth_error l i = Some p -> ck (fst p) = c ->
  Uniq ck (swap_remove l i) /\ Permutation (swap_remove l i) (d_del d c).
Proof.
  intros Hu Hp Hi Hc. pose proof (d_swap_remove_perm l i p Hi) as Hsr.
  pose proof (d_Uniq_perm _ _ Hsr Hu) as Hu2. apply d_Uniq_cons in Hu2. destruct Hu2 as [Hn Hu2].
  split; [exact Hu2|].
  assert (Hid : d_del (p :: swap_remove l i) c = swap_remove l i).
  { unfold d_del. cbn [filter]. rewrite Hc, N.eqb_refl. cbn [negb].
    apply d_del_id. intros q Hq Hqc. apply Hn. rewrite Hc, <- Hqc. apply d_In_class. exact Hq. }
  rewrite <- Hid. unfold d_del. apply d_filter_perm.
  eapply perm_trans; [apply Permutation_sym; exact Hsr | exact Hp].
Qed.

(* ---- retain: l_retain is the flat_map, up to order ---- *)
Lemma d_upd_app (l1 : list kv) p t x : upd (l1 ++ p :: t) (length l1) x = l1 ++ x :: t.
Proof. induction l1 as [|h l1 IH]; cbn [app length upd]; [reflexivity | f_equal; exact IH]. Qed.

Lemma d_nth_app (l1 : list kv) p t : nth_error (l1 ++ p :: t) (length l1) = Some p.
Proof. induction l1 as [|h l1 IH]; cbn [app length nth_error]; [reflexivity | exact IH]. Qed.

(* the entries before position [length l1] are already processed *)
Lemma d_retain_perm g : forall fuel (l1 l2 : list kv),
  length l2 <= fuel ->
  Permutation (l_retain g fuel (length l1) (l1 ++ l2)) (l1 ++ flat_map (d_keep g) l2).
Proof.
  induction fuel as [|fuel IH]; intros l1 l2 Hf.
  - destruct l2 as [|a t]; [|cbn [length] in Hf; lia]. cbn [l_retain flat_map]. apply Permutation_refl.
  - cbn [l_retain]. destruct l2 as [|[k v] t].
    + rewrite app_nil_r.
      assert (Hn : nth_error l1 (length l1) = None) by (apply nth_error_None; lia).
      rewrite Hn. cbn [flat_map]. rewrite app_nil_r. apply Permutation_refl.
    + cbn [length] in Hf. rewrite d_nth_app. cbn iota beta. cbn [flat_map]. unfold d_keep at 1. cbn [fst snd].
      destruct (g k v) as [keep v']. destruct keep; rewrite d_upd_app.
      * replace (l1 ++ (k, v') :: t) with ((l1 ++ [(k, v')]) ++ t) by (rewrite <- app_assoc; reflexivity).
        replace (S (length l1)) with (length (l1 ++ [(k, v')])) by (rewrite app_length; cbn [length]; lia).
        eapply perm_trans; [apply IH; lia|]. rewrite <- app_assoc. apply Permutation_refl.
      * destruct (d_rev_case t) as [->|[t' [z ->]]].
        -- rewrite (d_swap_remove_snoc l1 (k, v') (length l1)), Nat.eqb_refl.
           pose proof (IH l1 [] ltac:(cbn [length]; lia)) as IH0. rewrite app_nil_r in IH0.
           exact IH0.
        -- rewrite app_length in Hf. cbn [length] in Hf.
           replace (l1 ++ (k, v') :: t' ++ [z]) with ((l1 ++ (k, v') :: t') ++ [z])
             by (rewrite <- app_assoc; reflexivity).
           rewrite d_swap_remove_snoc.
           destruct (Nat.eqb_spec (length l1) (length (l1 ++ (k, v') :: t'))) as [He|_];
             [rewrite app_length in He; cbn [length] in He; lia|].
           rewrite d_upd_app.
           eapply perm_trans; [apply (IH l1 (z :: t')); cbn [length]; lia|].
           apply Permutation_app_head. cbn [app]. rewrite flat_map_app. cbn [flat_map].
           rewrite app_nil_r. apply Permutation_app_comm.
Qed.

Lemma d_keep_classes g (l : list kv) c :
  In c (List.map (fun p => ck (fst p)) (flat_map (d_keep g) l)) -> In c (List.map (fun p => ck (fst p)) l).
Proof.
  induction l as [|[k v] t IH]; cbn [flat_map]; [auto|].
  rewrite map_app, in_app_iff. cbn [List.map In fst]. intros [H|H].
  - unfold d_keep in H. cbn [fst snd] in H. destruct (g k v) as [[|] v']; cbn [List.map In fst] in H.
    + destruct H as [H|[]]. left. exact H.
    + destruct H.
  - right. apply IH. exact H.
Qed.

Lemma d_keep_uniq g (l : list kv) : Uniq ck l -> Uniq ck (flat_map (d_keep g) l).
Proof.
  induction l as [|[k v] t IH]; intros Hu; cbn [flat_map]; [exact Hu|].
  apply d_Uniq_cons in Hu. destruct Hu as [Hn Hu]. cbn [fst] in Hn.
  unfold d_keep at 1. cbn [fst snd]. destruct (g k v) as [[|] v']; cbn [app].
  - apply d_Uniq_cons. cbn [fst]. split; [|apply IH; exact Hu].
    intros Hin. apply Hn. eapply d_keep_classes. exact Hin.
  - apply IH. exact Hu.
Qed.

Lemma d_abs_retain g (l d : list kv) :
  Uniq ck l -> Permutation l d ->
  Uniq ck (l_retain g (length l) 0 l) /\ Permutation (l_retain g (length l) 0 l) (flat_map (d_keep g) d).
Proof.
  intros Hu Hp. pose proof (d_retain_perm g (length l) [] l (le_n _)) as Hr. cbn [app length] in Hr.
  split.
  - eapply d_Uniq_perm; [apply Permutation_sym; exact Hr | apply d_keep_uniq; exact Hu].
  - eapply perm_trans; [exact Hr|]. apply Permutation_flat_map. exact Hp.
Qed.

(* ======================================================================== *)
(* 4. One step of the container refines one step of the dictionary.         *)

Definition step_ok (n : nat) (o : dop) (d : dict) (r : dres) (w' : world) : Prop :=
  fst (dstep n o d) = r /\ Abs (self w') (snd (dstep n o d)) /\ cap (self w') = n.
Definition step_panic (n : nat) (o : dop) (d : dict) (w w' : world) : Prop :=
  fst (dstep n o d) = RPanic /\ snd (dstep n o d) = d /\ self w' = self w.

(* writing a pair of the same class into the slot the scan found *)
Lemma d_abs_replace (m : map) (d : dict) c i p f :
  Abs m d -> nth_error (elems m) i = Some p -> ck (fst p) = c -> ck (fst (f p)) = c ->
  Abs (set_slot_m m i (Some (f p))) (d_set d c f) /\ cap (set_slot_m m i (Some (f p))) = cap m.
Proof.
  intros (Hw & Hu & Hp) Hi Hc Hfc. destruct (elems_nth_slot _ _ _ Hw Hi) as [Hlt Hsl].
  assert (Hic : i < cap m) by (apply live_lt_cap; eexists; exact Hsl).
  split; [|apply cap_set_slot]. split; [apply WF_set_slot_some; assumption|].
  rewrite elems_set_slot by assumption. apply d_abs_set; assumption.
Qed.

(* the shape shared by get / get_key_value / get_mut / index / index_mut:
   after a read-only scan that found slot i, read or overwrite slot i *)
Lemma d_wp_ref_at (w w1 : world) i p (Qn : kv -> world -> Prop) (Qp : world -> Prop) :
  WF (self w) -> self w1 = self w -> nth_error (elems (self w)) i = Some p ->
  Qn p w1 -> wp (p_ref i) Qn Qp w1.
Proof.
  intros Hw Hs Hi HQ. destruct (elems_nth_slot _ _ _ Hw Hi) as [_ Hsl].
  eapply wp_p_ref; [rewrite Hs; exact Hsl | exact HQ].
Qed.

Lemma d_wp_replace_at (w w1 : world) i p f (Qn : kv -> world -> Prop) (Qp : world -> Prop) :
  WF (self w) -> self w1 = self w -> nth_error (elems (self w)) i = Some p ->
  Qn p (with_self w1 (set_slot_m (self w) i (Some (f p)))) -> wp (p_replace i f) Qn Qp w1.
Proof.
  intros Hw Hs Hi HQ. destruct (elems_nth_slot _ _ _ Hw Hi) as [_ Hsl].
  eapply wp_p_replace; [rewrite Hs; exact Hsl | rewrite Hs; exact HQ].
Qed.

Lemma step_insert n k v w d :
  Abs (self w) d -> cap (self w) = n ->
  wp (mstep (DInsert k v)) (step_ok n (DInsert k v) d) (step_panic n (DInsert k v) d w) w.
Proof.
  intros (Hw & Hu & Hp) Hc. cbn [mstep]. apply wp_bind.
  eapply wp_mono; [apply (insert_lawful E debug ck cq HL k v w Hw) | |]; cbn beta.
  - intros r w' (Hw' & Hc' & He & Hr & _). apply wp_ret. unfold step_ok. cbn [dstep].
    unfold l_insert in He, Hr.
    destruct (find_idx ck (ck k) (elems (self w))) as [i|] eqn:Hf.
    + destruct (d_abs_some _ _ _ _ Hu Hp Hf) as ([k0 v0] & Hpi & Hpc & Hd). rewrite Hd.
      rewrite Hpi in He, Hr. cbn [fst snd option_map] in *. subst r.
      split; [reflexivity|]. split; [|congruence]. split; [exact Hw'|]. rewrite He.
      apply (d_abs_set _ _ _ _ (k0, v0) (fun p => (fst p, v))); assumption.
    + destruct (d_abs_none _ _ _ Hu Hp Hf) as [Hd Hn]. rewrite Hd.
      cbn [fst snd option_map] in *. subst r.
      assert (Hlt : length d < n).
      { pose proof (elems_length _ Hw') as Hl. rewrite He, app_length in Hl. cbn [length] in Hl.
        pose proof (WF_len_le_cap _ Hw'). rewrite <- (Permutation_length Hp). lia. }
      destruct (Nat.ltb_spec (length d) n) as [_|Hge]; [|lia]. cbn [fst snd].
      split; [reflexivity|]. split; [|congruence]. split; [exact Hw'|]. rewrite He.
      apply d_abs_app; assumption.
  - intros w' (Hs & _ & Hf & Hlen). unfold step_panic. cbn [dstep].
    destruct (d_abs_none _ _ _ Hu Hp Hf) as [Hd _]. rewrite Hd.
    assert (Hge : n <= length d).
    { rewrite <- (Permutation_length Hp), (elems_length _ Hw). lia. }
    destruct (Nat.ltb_spec (length d) n) as [Hlt|_]; [lia|]. cbn [fst snd].
    split; [reflexivity|]. split; [reflexivity | exact Hs].
Qed.

Lemma step_insert_kv n k v w d :
  Abs (self w) d -> cap (self w) = n ->
  wp (mstep (DInsertKV k v)) (step_ok n (DInsertKV k v) d) (step_panic n (DInsertKV k v) d w) w.
Proof.
  intros (Hw & Hu & Hp) Hc. cbn [mstep]. apply wp_bind.
  eapply wp_mono; [apply (insert_key_value_lawful E debug ck cq HL k v w Hw) | |]; cbn beta.
  - intros r w' (Hw' & Hc' & _ & He & Hr). apply wp_ret. unfold step_ok. cbn [dstep].
    unfold l_insert in He, Hr.
    destruct (find_idx ck (ck k) (elems (self w))) as [i|] eqn:Hf.
    + destruct (d_abs_some _ _ _ _ Hu Hp Hf) as ([k0 v0] & Hpi & Hpc & Hd). rewrite Hd.
      rewrite Hpi in He, Hr. cbn [fst snd] in *. subst r.
      split; [reflexivity|]. split; [|congruence]. split; [exact Hw'|]. rewrite He.
      apply (d_abs_set _ _ _ _ (k0, v0) (fun _ => (k, v))); auto.
    + destruct (d_abs_none _ _ _ Hu Hp Hf) as [Hd Hn]. rewrite Hd.
      cbn [fst snd] in *. subst r.
      assert (Hlt : length d < n).
      { pose proof (elems_length _ Hw') as Hl. rewrite He, app_length in Hl. cbn [length] in Hl.
        pose proof (WF_len_le_cap _ Hw'). rewrite <- (Permutation_length Hp). lia. }
      destruct (Nat.ltb_spec (length d) n) as [_|Hge]; [|lia]. cbn [fst snd].
      split; [reflexivity|]. split; [|congruence]. split; [exact Hw'|]. rewrite He.
      apply d_abs_app; assumption.
  - intros w' (Hs & _ & Hf & Hlen). unfold step_panic. cbn [dstep].
    destruct (d_abs_none _ _ _ Hu Hp Hf) as [Hd _]. rewrite Hd.
    assert (Hge : n <= length d).
    { rewrite <- (Permutation_length Hp), (elems_length _ Hw). lia. }
    destruct (Nat.ltb_spec (length d) n) as [Hlt|_]; [lia|]. cbn [fst snd].
    split; [reflexivity|]. split; [reflexivity | exact Hs].
Qed.

Lemma step_checked_insert n k v w d :
  Abs (self w) d -> cap (self w) = n ->
  wp (mstep (DCheckedInsert k v)) (step_ok n (DCheckedInsert k v) d) (step_panic n (DCheckedInsert k v) d w) w.
Proof.
  intros (Hw & Hu & Hp) Hc. cbn [mstep]. apply wp_bind.
  eapply wp_mono; [apply (checked_insert_lawful E debug ck cq HL k v w Hw) | | intros ? []]; cbn beta.
  intros r w' (Hw' & Hc' & Hm). apply wp_ret. unfold step_ok. cbn [dstep].
  assert (Hlen : length d = len (self w)).
  { rewrite <- (Permutation_length Hp). apply elems_length. exact Hw. }
  unfold l_insert in Hm.
  destruct (find_idx ck (ck k) (elems (self w))) as [i|] eqn:Hf.
  - destruct (d_abs_some _ _ _ _ Hu Hp Hf) as ([k0 v0] & Hpi & Hpc & Hd). rewrite Hd.
    rewrite Hpi in Hm. cbn [fst snd option_map] in Hm. destruct Hm as (He & -> & _). cbn [fst snd].
    split; [reflexivity|]. split; [|congruence]. split; [exact Hw'|]. rewrite He.
    apply (d_abs_set _ _ _ _ (k0, v0) (fun p => (fst p, v))); assumption.
  - destruct (d_abs_none _ _ _ Hu Hp Hf) as [Hd Hn]. rewrite Hd. rewrite Hlen, <- Hc.
    destruct (len (self w) <? cap (self w)).
    + destruct Hm as (He & -> & _). cbn [fst snd].
      split; [reflexivity|]. split; [|congruence]. split; [exact Hw'|]. rewrite He.
      apply d_abs_app; assumption.
    + destruct Hm as (He & Hs & -> & _). cbn [fst snd].
      split; [reflexivity|]. split; [|congruence]. split; [exact Hw'|]. rewrite He. split; assumption.
Qed.

Lemma step_get n q w d :
  Abs (self w) d -> cap (self w) = n ->
  wp (mstep (DGet q)) (step_ok n (DGet q) d) (step_panic n (DGet q) d w) w.
Proof.
  intros (Hw & Hu & Hp) Hc. cbn [mstep]. apply wp_bind.
  eapply wp_mono; [apply (get_lawful E ck cq HL q w Hw) | | intros ? []]; cbn beta.
  intros r w1 [[Hs1 _] ->]. unfold step_ok. cbn [dstep].
  destruct (find_idx ck (cq q) (elems (self w))) as [i|] eqn:Hf.
  - destruct (d_abs_some _ _ _ _ Hu Hp Hf) as ([k0 v0] & Hpi & Hpc & Hd). rewrite Hd.
    apply wp_bind. eapply d_wp_ref_at; [exact Hw | exact Hs1 | exact Hpi|]. apply wp_ret.
    cbn [fst snd]. rewrite Hs1. split; [reflexivity|]. split; [|exact Hc]. split; [exact Hw|]. split; assumption.
  - destruct (d_abs_none _ _ _ Hu Hp Hf) as [Hd _]. rewrite Hd. apply wp_ret.
    cbn [fst snd]. rewrite Hs1. split; [reflexivity|]. split; [|exact Hc]. split; [exact Hw|]. split; assumption.
Qed.

Lemma step_get_kv n q w d :
  Abs (self w) d -> cap (self w) = n ->
  wp (mstep (DGetKV q)) (step_ok n (DGetKV q) d) (step_panic n (DGetKV q) d w) w.
Proof.
  intros (Hw & Hu & Hp) Hc. cbn [mstep]. apply wp_bind.
  eapply wp_mono; [apply (get_key_value_lawful E ck cq HL q w Hw) | | intros ? []]; cbn beta.
  intros r w1 [[Hs1 _] ->]. unfold step_ok. cbn [dstep].
  destruct (find_idx ck (cq q) (elems (self w))) as [i|] eqn:Hf.
  - destruct (d_abs_some _ _ _ _ Hu Hp Hf) as (p & Hpi & Hpc & Hd). rewrite Hd.
    apply wp_bind. eapply d_wp_ref_at; [exact Hw | exact Hs1 | exact Hpi|]. apply wp_ret.
    cbn [fst snd]. rewrite Hs1. split; [reflexivity|]. split; [|exact Hc]. split; [exact Hw|]. split; assumption.
  - destruct (d_abs_none _ _ _ Hu Hp Hf) as [Hd _]. rewrite Hd. apply wp_ret.
    cbn [fst snd]. rewrite Hs1. split; [reflexivity|]. split; [|exact Hc]. split; [exact Hw|]. split; assumption.
Qed.

Lemma step_contains n q w d :
  Abs (self w) d -> cap (self w) = n ->
  wp (mstep (DContains q)) (step_ok n (DContains q) d) (step_panic n (DContains q) d w) w.
Proof.
  intros (Hw & Hu & Hp) Hc. cbn [mstep]. apply wp_bind.
  eapply wp_mono; [apply (contains_key_lawful E ck cq HL q w Hw) | | intros ? []]; cbn beta.
  intros r w1 [[Hs1 _] ->]. apply wp_ret. unfold step_ok. cbn [dstep fst snd]. rewrite Hs1.
  split; [|split; [split; [exact Hw | split; assumption] | exact Hc]]. f_equal.
  destruct (find_idx ck (cq q) (elems (self w))) as [i|] eqn:Hf.
  - destruct (d_abs_some _ _ _ _ Hu Hp Hf) as (p & _ & _ & Hd). rewrite Hd. reflexivity.
  - destruct (d_abs_none _ _ _ Hu Hp Hf) as [Hd _]. rewrite Hd. reflexivity.
Qed.

Lemma step_get_mut n q v' w d :
  Abs (self w) d -> cap (self w) = n ->
  wp (mstep (DGetMut q v')) (step_ok n (DGetMut q v') d) (step_panic n (DGetMut q v') d w) w.
Proof.
  intros Ha Hc. pose proof Ha as (Hw & Hu & Hp). cbn [mstep]. apply wp_bind.
  eapply wp_mono; [apply (get_mut_lawful E ck cq HL q w Hw) | | intros ? []]; cbn beta.
  intros r w1 [[Hs1 _] ->]. unfold step_ok. cbn [dstep].
  destruct (find_idx ck (cq q) (elems (self w))) as [i|] eqn:Hf.
  - destruct (d_abs_some _ _ _ _ Hu Hp Hf) as ([k0 v0] & Hpi & Hpc & Hd). rewrite Hd.
    apply wp_bind. eapply d_wp_replace_at; [exact Hw | exact Hs1 | exact Hpi|]. apply wp_ret.
    simp_w. cbn [fst snd].
    destruct (d_abs_replace (self w) d (cq q) i (k0, v0) (fun p => (fst p, v')) Ha Hpi Hpc Hpc) as [Ha' Hc'].
    cbn [fst] in Ha', Hc'. split; [reflexivity|]. split; [exact Ha' | congruence].
  - destruct (d_abs_none _ _ _ Hu Hp Hf) as [Hd _]. rewrite Hd. apply wp_ret.
    cbn [fst snd]. rewrite Hs1. split; [reflexivity|]. split; [exact Ha | exact Hc].
Qed.

Lemma step_index n q w d :
  Abs (self w) d -> cap (self w) = n ->
  wp (mstep (DIndex q)) (step_ok n (DIndex q) d) (step_panic n (DIndex q) d w) w.
Proof.
  intros Ha Hc. pose proof Ha as (Hw & Hu & Hp). cbn [mstep]. apply wp_bind.
  eapply wp_mono; [apply (index_lawful E ck cq HL q w Hw) | |]; cbn beta.
  - intros i w1 [[Hs1 _] Hf]. unfold step_ok. cbn [dstep].
    destruct (d_abs_some _ _ _ _ Hu Hp Hf) as ([k0 v0] & Hpi & Hpc & Hd). rewrite Hd.
    apply wp_bind. eapply d_wp_ref_at; [exact Hw | exact Hs1 | exact Hpi|]. apply wp_ret.
    cbn [fst snd]. rewrite Hs1. split; [reflexivity|]. split; [exact Ha | exact Hc].
  - intros w1 [[Hs1 _] Hf]. unfold step_panic. cbn [dstep].
    destruct (d_abs_none _ _ _ Hu Hp Hf) as [Hd _]. rewrite Hd. cbn [fst snd].
    split; [reflexivity|]. split; [reflexivity | exact Hs1].
Qed.

Lemma step_index_mut n q v' w d :
  Abs (self w) d -> cap (self w) = n ->
  wp (mstep (DIndexMut q v')) (step_ok n (DIndexMut q v') d) (step_panic n (DIndexMut q v') d w) w.
Proof.
  intros Ha Hc. pose proof Ha as (Hw & Hu & Hp). cbn [mstep]. apply wp_bind.
  eapply wp_mono; [apply (index_mut_lawful E ck cq HL q w Hw) | |]; cbn beta.
  - intros i w1 [[Hs1 _] Hf]. unfold step_ok. cbn [dstep].
    destruct (d_abs_some _ _ _ _ Hu Hp Hf) as ([k0 v0] & Hpi & Hpc & Hd). rewrite Hd.
    apply wp_bind. eapply d_wp_replace_at; [exact Hw | exact Hs1 | exact Hpi|]. apply wp_ret.
    simp_w. cbn [fst snd].
    destruct (d_abs_replace (self w) d (cq q) i (k0, v0) (fun p => (fst p, v')) Ha Hpi Hpc Hpc) as [Ha' Hc'].
    cbn [fst] in Ha', Hc'. split; [reflexivity|]. split; [exact Ha' | congruence].
  - intros w1 [[Hs1 _] Hf]. unfold step_panic. cbn [dstep].
    destruct (d_abs_none _ _ _ Hu Hp Hf) as [Hd _]. rewrite Hd. cbn [fst snd].
    split; [reflexivity|]. split; [reflexivity | exact Hs1].
Qed.

Lemma step_remove n q w d :
  Abs (self w) d -> cap (self w) = n ->
  wp (mstep (DRemove q)) (step_ok n (DRemove q) d) (step_panic n (DRemove q) d w) w.
Proof.
  intros Ha Hc. pose proof Ha as (Hw & Hu & Hp). cbn [mstep]. apply wp_bind.
  eapply wp_mono; [apply (remove_lawful E debug ck cq HL q w Hw) | | intros ? []]; cbn beta.
  intros r w' (Hw' & Hc' & He & Hr & _). apply wp_ret. unfold step_ok. cbn [dstep].
  unfold l_remove in He, Hr.
  destruct (find_idx ck (cq q) (elems (self w))) as [i|] eqn:Hf; cbn [fst snd] in He, Hr.
  - destruct (d_abs_some _ _ _ _ Hu Hp Hf) as ([k0 v0] & Hpi & Hpc & Hd). rewrite Hd.
    rewrite Hpi in Hr. cbn [option_map snd] in Hr. subst r. cbn [fst snd].
    split; [reflexivity|]. split; [|congruence]. split; [exact Hw'|]. rewrite He.
    apply (d_abs_del _ _ _ _ (k0, v0)); assumption.
  - destruct (d_abs_none _ _ _ Hu Hp Hf) as [Hd _]. rewrite Hd. cbn [option_map] in Hr. subst r.
    cbn [fst snd]. split; [reflexivity|]. split; [|congruence]. split; [exact Hw'|]. rewrite He.
    split; assumption.
Qed.

Lemma step_remove_entry n q w d :
  Abs (self w) d -> cap (self w) = n ->
  wp (mstep (DRemoveEntry q)) (step_ok n (DRemoveEntry q) d) (step_panic n (DRemoveEntry q) d w) w.
Proof.
  intros Ha Hc. pose proof Ha as (Hw & Hu & Hp). cbn [mstep]. apply wp_bind.
  eapply wp_mono; [apply (remove_entry_lawful E debug ck cq HL q w Hw) | | intros ? []]; cbn beta.
  intros r w' (Hw' & Hc' & _ & He & Hr). apply wp_ret. unfold step_ok. cbn [dstep].
  unfold l_remove in He, Hr.
  destruct (find_idx ck (cq q) (elems (self w))) as [i|] eqn:Hf; cbn [fst snd] in He, Hr.
  - destruct (d_abs_some _ _ _ _ Hu Hp Hf) as (p & Hpi & Hpc & Hd). rewrite Hd.
    rewrite Hpi in Hr. subst r. cbn [fst snd].
    split; [reflexivity|]. split; [|congruence]. split; [exact Hw'|]. rewrite He.
    apply (d_abs_del _ _ _ _ p); assumption.
  - destruct (d_abs_none _ _ _ Hu Hp Hf) as [Hd _]. rewrite Hd. subst r.
    cbn [fst snd]. split; [reflexivity|]. split; [|congruence]. split; [exact Hw'|]. rewrite He.
    split; assumption.
Qed.

Lemma step_retain n g w d :
  Abs (self w) d -> cap (self w) = n ->
  wp (mstep (DRetain g)) (step_ok n (DRetain g) d) (step_panic n (DRetain g) d w) w.
Proof.
  intros Ha Hc. pose proof Ha as (Hw & Hu & Hp). cbn [mstep]. apply wp_bind.
  eapply wp_mono;
    [apply (retain_lawful E debug ck cq HL (fun s k v => ((Some (fst (g k v)), snd (g k v)), s)) g w);
     [intros s k v; reflexivity | exact Hw] | | intros ? []]; cbn beta.
  intros _ w' (Hw' & Hc' & He). apply wp_ret. unfold step_ok. cbn [dstep fst snd].
  split; [reflexivity|]. split; [|congruence]. split; [exact Hw'|]. rewrite He.
  apply d_abs_retain; assumption.
Qed.

Lemma step_clear n w d :
  Abs (self w) d -> cap (self w) = n ->
  wp (mstep DClear) (step_ok n DClear d) (step_panic n DClear d w) w.
Proof.
  intros Ha Hc. pose proof Ha as (Hw & Hu & Hp). cbn [mstep]. apply wp_bind.
  eapply wp_mono; [apply (clear_lawful E ck cq HL w Hw) | | intros ? []]; cbn beta.
  intros _ w' (Hw' & Hc' & _ & He & _). apply wp_ret. unfold step_ok. cbn [dstep fst snd].
  split; [reflexivity|]. split; [|congruence]. split; [exact Hw'|]. rewrite He.
  split; [apply NoDup_nil | apply perm_nil].
Qed.

Lemma step_refines_wp n o w d :
  Abs (self w) d -> cap (self w) = n ->
  wp (mstep o) (step_ok n o d) (step_panic n o d w) w.
Proof.
  intros Ha Hc. destruct o.
  - apply step_insert; assumption.
  - apply step_insert_kv; assumption.
  - apply step_checked_insert; assumption.
  - apply step_get; assumption.
  - apply step_get_mut; assumption.
  - apply step_get_kv; assumption.
  - apply step_contains; assumption.
  - apply step_index; assumption.
  - apply step_index_mut; assumption.
  - apply step_remove; assumption.
  - apply step_remove_entry; assumption.
  - apply step_retain; assumption.
  - apply step_clear; assumption.
Qed.

(* Every operation: never UB; a normal return gives the dictionary's result and
   a container that abstracts to the dictionary's new state; a panic happens
   exactly where the dictionary says so and leaves the container untouched. *)
Theorem step_refines n o w d :
  Abs (self w) d -> cap (self w) = n ->
  match mstep o w with
  | Ok r w' => fst (dstep n o d) = r /\ Abs (self w') (snd (dstep n o d)) /\ cap (self w') = n
  | Panic w' => fst (dstep n o d) = RPanic /\ snd (dstep n o d) = d /\ self w' = self w
  | UB => False
  end.
Proof. intros Ha Hc. exact (step_refines_wp n o w d Ha Hc). Qed.

(* ======================================================================== *)
(* Histories.                                                                *)

(* results of running ops in sequence; a panic is recorded and the run continues
   on the world left by unwinding; UB is recorded as nothing more *)
Fixpoint mrun (ops : list dop) (w : world) : list dres :=
  match ops with
  | [] => []
  | o :: t => match mstep o w with
              | Ok r w' => r :: mrun t w'
              | Panic w' => RPanic :: mrun t w'
              | UB => []
              end
  end.

Fixpoint drun (n : nat) (ops : list dop) (d : dict) : list dres :=
  match ops with
  | [] => []
  | o :: t => let '(r, d') := dstep n o d in r :: drun n t d'
  end.

(* the world / the dictionary after the whole history *)
Fixpoint mfinal (ops : list dop) (w : world) : option world :=
  match ops with
  | [] => Some w
  | o :: t => match mstep o w with
              | Ok _ w' => mfinal t w'
              | Panic w' => mfinal t w'
              | UB => None
              end
  end.

Fixpoint dfinal (n : nat) (ops : list dop) (d : dict) : dict :=
  match ops with
  | [] => d
  | o :: t => dfinal n t (snd (dstep n o d))
  end.

Theorem run_refines n ops w d :
  Abs (self w) d -> cap (self w) = n -> mrun ops w = drun n ops d.
Proof.
  revert w d; induction ops as [|o t IH]; intros w d Ha Hc; [reflexivity|].
  cbn [mrun drun]. pose proof (step_refines n o w d Ha Hc) as Hs.
  destruct (dstep n o d) as [r' d'] eqn:Hd. cbn [fst snd] in Hs.
  destruct (mstep o w) as [r w'|w'|].
  - destruct Hs as (<- & Ha' & Hc'). f_equal. apply IH; assumption.
  - destruct Hs as (-> & -> & Hs'). f_equal. apply IH; rewrite Hs'; assumption.
  - destruct Hs.
Qed.

(* after ANY history there is a final world (no UB on the way), it still
   abstracts to the ideal dictionary's final state, and the capacity is the same *)
Theorem run_refines_state n ops w d :
  Abs (self w) d -> cap (self w) = n ->
  exists wf, mfinal ops w = Some wf /\ Abs (self wf) (dfinal n ops d) /\ cap (self wf) = n.
Proof.
  revert w d; induction ops as [|o t IH]; intros w d Ha Hc.
  - exists w. split; [reflexivity|]. split; assumption.
  - cbn [mfinal dfinal]. pose proof (step_refines n o w d Ha Hc) as Hs.
    destruct (mstep o w) as [r w'|w'|].
    + destruct Hs as (_ & Ha' & Hc'). apply IH; assumption.
    + destruct Hs as (_ & -> & Hs'). apply IH; rewrite Hs'; assumption.
    + destruct Hs.
Qed.

Lemma Abs_new n : Abs (@new_map K V n) [].
Proof.
  split; [apply WF_new|]. unfold elems, new_map; cbn [len slots take_live].
  split; [apply NoDup_nil | apply perm_nil].
Qed.

Theorem run_refines_new n ops s lg :
  mrun ops {| cb := s; log := lg; self := new_map n |} = drun n ops [].
Proof. apply run_refines; cbn [self]; [apply Abs_new | apply cap_new]. Qed.

Theorem run_refines_state_new n ops s lg :
  exists wf, mfinal ops {| cb := s; log := lg; self := new_map n |} = Some wf /\
             Abs (self wf) (dfinal n ops []) /\ cap (self wf) = n.
Proof. apply run_refines_state; cbn [self]; [apply Abs_new | apply cap_new]. Qed.

(* ======================================================================== *)
(* 5. What is observable of a container that abstracts to d.                *)

Lemma abs_len (w : world) d : Abs (self w) d -> len (self w) = length d.
Proof. intros (Hw & _ & Hp). rewrite <- (Permutation_length Hp). symmetry. apply elems_length. exact Hw. Qed.

Lemma abs_lookup (w : world) d q : Abs (self w) d -> d_find d (cq q) = lookup ck (elems (self w)) (cq q).
Proof. intros (_ & Hu & Hp). rewrite <- (d_find_perm _ _ _ Hu Hp). apply d_find_lookup. Qed.

(* iteration (slots 0..len in order) yields exactly the associations, each once *)
Lemma abs_iter (w : world) d :
  Abs (self w) d ->
  Permutation (elems (self w)) d /\ NoDup (List.map (fun p => ck (fst p)) (elems (self w))).
Proof. intros (_ & Hu & Hp). split; [exact Hp | exact Hu]. Qed.

Lemma abs_is_empty (w : world) d : Abs (self w) d -> ((len (self w) =? 0) = true <-> d = []).
Proof.
  intros Ha. rewrite (abs_len w d Ha). rewrite Nat.eqb_eq. destruct d; cbn [length]; split; intros H; try reflexivity; try discriminate.
Qed.

Lemma len_le_cap (w : world) d : Abs (self w) d -> len (self w) <= cap (self w).
Proof. intros (Hw & _). apply WF_len_le_cap. exact Hw. Qed.

(* the same, through the model's own observers *)
Lemma abs_len_op (w : world) d : Abs (self w) d -> @length_ K V T w = Ok (length d) w.
Proof. intros Ha. unfold length_, get_len. rewrite (abs_len w d Ha). reflexivity. Qed.

Lemma abs_is_empty_op (w : world) d :
  Abs (self w) d -> @is_empty K V T w = Ok (match d with [] => true | _ => false end) w.
Proof.
  intros Ha. unfold is_empty, bind, get_len, ret. rewrite (abs_len w d Ha). destruct d; reflexivity.
Qed.

Lemma abs_capacity_op (w : world) : @capacity K V T w = Ok (cap (self w)) w.
Proof. reflexivity. Qed.

(* drain(): the container is the empty dictionary at once, and the range handed
   to the Drain iterator holds exactly the former associations *)
Lemma drain_refines (w : world) d :
  Abs (self w) d ->
  wp (@drain K V T)
     (fun c w' => c = (0, length d) /\ Abs (self w') [] /\ cap (self w') = cap (self w) /\
                  Permutation (take_live (slots (self w')) (snd c)) d)
     (fun _ => False) w.
Proof.
  intros Ha. pose proof Ha as (Hw & Hu & Hp). unfold drain.
  apply wp_bind. apply wp_p_prefix; [intros _ | pose proof (WF_len_le_cap _ Hw); lia].
  apply wp_bind. apply wp_get_len. apply wp_bind. apply wp_set_len. apply wp_ret. simp_w.
  split; [rewrite (abs_len w d Ha); reflexivity|].
  split.
  { split; [split; simp_w; [lia | intros i Hi; lia]|]. unfold elems; simp_w. cbn [take_live].
    split; [apply NoDup_nil | apply perm_nil]. }
  split; [reflexivity|]. cbn [snd]. exact Hp.
Qed.

(* ======================================================================== *)
(* 6. Borrowed forms; indexing.                                              *)

Lemma d_wp_ok {A} (c : M A) (Qn : A -> world -> Prop) w :
  wp c Qn (fun _ => False) w -> exists a w', c w = Ok a w' /\ Qn a w'.
Proof. unfold wp. destruct (c w) as [a w'|w'|]; [eauto | intros [] | intros []]. Qed.

(* a lookup through any borrowed form of the same class answers exactly alike *)
Theorem borrowed_same q1 q2 w :
  WF (self w) -> cq q1 = cq q2 ->
  (exists r w1 w2, get E q1 w = Ok r w1 /\ get E q2 w = Ok r w2 /\ stable w w1 /\ stable w w2) /\
  (exists r w1 w2, get_key_value E q1 w = Ok r w1 /\ get_key_value E q2 w = Ok r w2 /\ stable w w1 /\ stable w w2) /\
  (exists r w1 w2, get_mut E q1 w = Ok r w1 /\ get_mut E q2 w = Ok r w2 /\ stable w w1 /\ stable w w2) /\
  (exists b w1 w2, contains_key E q1 w = Ok b w1 /\ contains_key E q2 w = Ok b w2 /\ stable w w1 /\ stable w w2) /\
  (exists r w1 w2, remove E debug q1 w = Ok r w1 /\ remove E debug q2 w = Ok r w2 /\
                   elems (self w1) = elems (self w2) /\ log w1 = log w2) /\
  (exists r w1 w2, remove_entry E debug q1 w = Ok r w1 /\ remove_entry E debug q2 w = Ok r w2 /\
                   elems (self w1) = elems (self w2) /\ log w1 = log w2).
Proof.
  intros Hw Hq. repeat split.
  - destruct (d_wp_ok _ _ _ (get_lawful E ck cq HL q1 w Hw)) as (r1 & w1 & H1 & Hs1 & Hr1).
    destruct (d_wp_ok _ _ _ (get_lawful E ck cq HL q2 w Hw)) as (r2 & w2 & H2 & Hs2 & Hr2).
    rewrite Hq in Hr1. subst r1 r2. eauto 10.
  - destruct (d_wp_ok _ _ _ (get_key_value_lawful E ck cq HL q1 w Hw)) as (r1 & w1 & H1 & Hs1 & Hr1).
    destruct (d_wp_ok _ _ _ (get_key_value_lawful E ck cq HL q2 w Hw)) as (r2 & w2 & H2 & Hs2 & Hr2).
    rewrite Hq in Hr1. subst r1 r2. eauto 10.
  - destruct (d_wp_ok _ _ _ (get_mut_lawful E ck cq HL q1 w Hw)) as (r1 & w1 & H1 & Hs1 & Hr1).
    destruct (d_wp_ok _ _ _ (get_mut_lawful E ck cq HL q2 w Hw)) as (r2 & w2 & H2 & Hs2 & Hr2).
    rewrite Hq in Hr1. subst r1 r2. eauto 10.
  - destruct (d_wp_ok _ _ _ (contains_key_lawful E ck cq HL q1 w Hw)) as (r1 & w1 & H1 & Hs1 & Hr1).
    destruct (d_wp_ok _ _ _ (contains_key_lawful E ck cq HL q2 w Hw)) as (r2 & w2 & H2 & Hs2 & Hr2).
    rewrite Hq in Hr1. subst r1 r2. eauto 10.
  - destruct (d_wp_ok _ _ _ (remove_lawful E debug ck cq HL q1 w Hw)) as (r1 & w1 & H1 & _ & _ & He1 & Hr1 & Hl1).
    destruct (d_wp_ok _ _ _ (remove_lawful E debug ck cq HL q2 w Hw)) as (r2 & w2 & H2 & _ & _ & He2 & Hr2 & Hl2).
    rewrite Hq in He1, Hr1, Hl1. subst r1 r2. unfold logged in Hl1, Hl2.
    exists (option_map snd (snd (l_remove ck (elems (self w)) (cq q2)))), w1, w2.
    split; [exact H1|]. split; [exact H2|]. split; congruence.
  - destruct (d_wp_ok _ _ _ (remove_entry_lawful E debug ck cq HL q1 w Hw)) as (r1 & w1 & H1 & _ & _ & Hl1 & He1 & Hr1).
    destruct (d_wp_ok _ _ _ (remove_entry_lawful E debug ck cq HL q2 w Hw)) as (r2 & w2 & H2 & _ & _ & Hl2 & He2 & Hr2).
    rewrite Hq in He1, Hr1. subst r1 r2.
    exists (snd (l_remove ck (elems (self w)) (cq q2))), w1, w2.
    split; [exact H1|]. split; [exact H2|]. split; congruence.
Qed.

(* in particular a borrowed form of key k finds the slot that holds k's class:
   the slot an insertion of k would overwrite *)
Lemma borrowed_as_key q k w :
  WF (self w) -> cq q = ck k ->
  exists w1, get E q w = Ok (find_idx ck (ck k) (elems (self w))) w1 /\ stable w w1.
Proof.
  intros Hw Hq. destruct (d_wp_ok _ _ _ (get_lawful E ck cq HL q w Hw)) as (r & w1 & H1 & Hs1 & Hr).
  rewrite Hq in Hr. subst r. eauto.
Qed.

(* Index / IndexMut panic exactly when the key is absent *)
Theorem index_panics_iff_absent q w :
  WF (self w) ->
  ((exists w', index E q w = Panic w') <-> find_idx ck (cq q) (elems (self w)) = None).
Proof.
  intros Hw. pose proof (index_lawful E ck cq HL q w Hw) as H. unfold wp in H.
  destruct (index E q w) as [i w'|w'|]; [| |destruct H].
  - destruct H as [_ Hf]. split; [intros [w'' Hx]; discriminate | intros Hn; congruence].
  - destruct H as [_ Hf]. split; [intros _; exact Hf | intros _; eauto].
Qed.

Theorem index_mut_panics_iff_absent q w :
  WF (self w) ->
  ((exists w', index_mut E q w = Panic w') <-> find_idx ck (cq q) (elems (self w)) = None).
Proof.
  intros Hw. pose proof (index_mut_lawful E ck cq HL q w Hw) as H. unfold wp in H.
  destruct (index_mut E q w) as [i w'|w'|]; [| |destruct H].
  - destruct H as [_ Hf]. split; [intros [w'' Hx]; discriminate | intros Hn; congruence].
  - destruct H as [_ Hf]. split; [intros _; exact Hf | intros _; eauto].
Qed.

End Dict.
