(* EntryOps.v — src/entry.rs.  DEFINITIONS ONLY. *)
Require Import Model.Base Model.Slots Model.MapOps.

Section EntryOps.
Context {K V Q T : Type} (E : env K V Q T) (debug : bool).
Notation M := (M K V T).

Local Notation p_ref := (@p_ref K V T).
Local Notation p_replace := (@p_replace K V T).
Local Notation scan := (@scan K V T).

Inductive entry :=
| Occupied (index : nat)
| Vacant (key : K).

(* src/entry.rs:23-39 *)
Definition entry_of (k : K) : M entry :=
  r <- on_unwind (unwind_key E k) (scan (test_k E k)) ;;
  match r with
  | Some i => drop_key E k ;; ret (Occupied i)   (* k is not kept: destroyed at function exit *)
  | None => ret (Vacant k)
  end.

(* OccupiedEntry accessors: unchecked slot access at the recorded index.
   Each returns the slot the reference points into. *)
Definition occ_key (i : nat) : M nat := _ <- p_ref i ;; ret i.        (* item_ref(index).0 *)
Definition occ_get (i : nat) : M nat := _ <- p_ref i ;; ret i.        (* item_ref(index).1 *)
Definition occ_get_mut (i : nat) : M nat := _ <- p_ref i ;; ret i.    (* value_mut(index) *)
Definition occ_into_mut (i : nat) : M nat := _ <- p_ref i ;; ret i.   (* value_mut(index) *)

(* mem::replace(self.get_mut(), value) *)
Definition occ_insert (i : nat) (v : V) : M V :=
  old <- p_replace i (fun p => (fst p, v)) ;; ret (snd old).

Definition occ_remove_entry (i : nat) : M (K * V) := remove_index_read debug i.

(* remove_index_read(index).1 : the key half of the temporary is destroyed *)
Definition occ_remove (i : nat) : M V :=
  p <- remove_index_read debug i ;; drop_key E (fst p) ;; ret (snd p).

(* VacantEntry::insert, src/entry.rs:393-396: the ordinary insert core, then
   an unchecked re-borrow of the written slot.  The Option returned by
   insert_ii is discarded. *)
Definition vac_insert (k : K) (v : V) : M nat :=
  '(index, e) <- insert_ii E debug k v false ;;
  (match e with Some p => drop_pair E p | None => ret tt end) ;;
  _ <- p_ref index ;;
  ret index.

(* a user closure producing a value *)
Definition call_mk (f : T -> option V * T) : M V :=
  emit [EvCall 2] ;; cbo f.

(* a user closure mutating a value in place; the new value is kept even when
   it panics *)
Definition modf_t := T -> V -> (bool * V) * T.   (* bool: true = panics *)
Definition call_modf (f : modf_t) (i : nat) : M unit :=
  p <- p_ref i ;;
  fun w => let '((boom, v'), s) := f (cb w) (snd p) in
           let w' := {| cb := s; log := log w ++ [EvCall 3];
                        self := {| len := len (self w);
                                   slots := upd (slots (self w)) i (Some (fst p, v')) |} |} in
           if boom then Panic w' else Ok tt w'.

(* Entry::and_modify *)
Definition and_modify (e : entry) (f : modf_t) : M entry :=
  match e with
  | Occupied i => _ <- occ_get_mut i ;; call_modf f i ;; ret e
  | Vacant _ => ret e
  end.

(* Entry::key: slot of the stored key, or the supplied key itself *)
Definition entry_key (e : entry) : M (nat + K) :=
  match e with
  | Occupied i => j <- occ_key i ;; ret (inl j)
  | Vacant k => ret (inr k)
  end.

(* Entry::or_insert: the unused default is destroyed when occupied *)
Definition or_insert (e : entry) (default : V) : M nat :=
  match e with
  | Occupied i => j <- occ_into_mut i ;; drop_val E default ;; ret j
  | Vacant k => vac_insert k default
  end.

(* Entry::or_insert_with / or_default: the closure runs only when vacant; the VacantEntry (which
   owns the key) is alive while the closure runs, so a panicking closure destroys the key on unwinding *)
Definition or_insert_with (e : entry) (f : T -> option V * T) : M nat :=
  match e with
  | Occupied i => occ_into_mut i
  | Vacant k => v <- on_unwind (unwind_key E k) (call_mk f) ;; vac_insert k v
  end.

Definition or_insert_with_key (e : entry) (f : K -> T -> option V * T) : M nat :=
  match e with
  | Occupied i => occ_into_mut i
  | Vacant k => v <- on_unwind (unwind_key E k) (call_mk (f k)) ;; vac_insert k v
  end.

End EntryOps.

Arguments Occupied {K}. Arguments Vacant {K}.
