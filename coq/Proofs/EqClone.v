(* EqClone.v — under a lawful environment: PartialEq for Map is extensional
   equality of the dictionaries (independent of slot order), and Clone builds an
   equal, independent copy with exactly one K::clone and one V::clone per entry. *)
Require Import Model.Base Model.Slots Model.MapOps Proofs.Hoare Proofs.Inv Proofs.Safety Proofs.Safety2 Proofs.Spec Proofs.Lawful.
From Coq Require Import Permutation.

Section EqClone.
Context {K V Q T : Type} (E : env K V Q T) (debug : bool).
Context (ck : K -> N) (cq : Q -> N) (HL : Lawful E ck cq).
Context (veq : V -> V -> bool) (HV : forall s a b, fst (eqV E s a b) = if veq a b then Yes else No).
Notation M := (M K V T). Notation world := (world K V T). Notation map := (map K V). Notation kv := (K * V)%type.

(* ------------------------------------------------------------------------ *)
(* lookup / find_idx / In / the class list                                   *)

Definition classes (l : list kv) : list N := List.map (fun p => ck (fst p)) l.

Lemma lookup_nil c : lookup ck (@nil kv) c = None.
Proof. reflexivity. Qed.

Lemma lookup_cons (p : kv) t c :
  lookup ck (p :: t) c = if N.eqb (ck (fst p)) c then Some p else lookup ck t c.
Proof.
  unfold lookup. cbn [find_idx]. destruct (N.eqb (ck (fst p)) c); [reflexivity|].
  destruct (find_idx ck c t) as [i|]; reflexivity.
Qed.

Lemma lookup_In (l : list kv) c p : lookup ck l c = Some p -> In p l /\ ck (fst p) = c.
Proof.
  induction l as [|h t IH]; [rewrite lookup_nil; discriminate|].
  rewrite lookup_cons. destruct (N.eqb_spec (ck (fst h)) c) as [Heq|Hne].
  - intros H. injection H as <-. split; [left; reflexivity | exact Heq].
  - intros H. destruct (IH H) as [H1 H2]. split; [right; exact H1 | exact H2].
Qed.

Lemma lookup_class (l : list kv) c p : lookup ck l c = Some p -> ck (fst p) = c.
Proof. intros H. apply (lookup_In l c p H). Qed.

Lemma lookup_None_iff (l : list kv) c : lookup ck l c = None <-> ~ In c (classes l).
Proof.
  induction l as [|h t IH]; [rewrite lookup_nil; cbn; tauto|].
  rewrite lookup_cons. unfold classes in *. cbn [List.map In].
  destruct (N.eqb_spec (ck (fst h)) c) as [Heq|Hne].
  - split; [discriminate | intros H; exfalso; apply H; left; exact Heq].
  - rewrite IH. tauto.
Qed.

Lemma lookup_Some_iff (l : list kv) c : (exists p, lookup ck l c = Some p) <-> In c (classes l).
Proof.
  destruct (lookup ck l c) as [p|] eqn:Hl.
  - split; [intros _ | intros _; exists p; reflexivity].
    destruct (lookup_In l c p Hl) as [Hin Hc]. unfold classes. rewrite <- Hc.
    apply (in_map (fun p => ck (fst p))). exact Hin.
  - apply lookup_None_iff in Hl. split; [intros [p Hp]; discriminate | intros H; contradiction].
Qed.

Lemma In_classes (l : list kv) p : In p l -> In (ck (fst p)) (classes l).
Proof. intros H. unfold classes. apply (in_map (fun p => ck (fst p))). exact H. Qed.

Lemma In_lookup (l : list kv) p : In p l -> exists p', lookup ck l (ck (fst p)) = Some p'.
Proof. intros H. apply lookup_Some_iff. apply In_classes. exact H. Qed.

Lemma Uniq_cons_inv (h : kv) t : Uniq ck (h :: t) -> ~ In (ck (fst h)) (classes t) /\ Uniq ck t.
Proof. unfold Uniq. cbn [List.map]. intros H. inversion H; subst. split; assumption. Qed.

Lemma lookup_uniq_In (l : list kv) p : Uniq ck l -> In p l -> lookup ck l (ck (fst p)) = Some p.
Proof.
  induction l as [|h t IH]; intros Hu Hin; [destruct Hin|].
  destruct (Uniq_cons_inv h t Hu) as [Hnin Hut].
  rewrite lookup_cons. destruct Hin as [->|Hin].
  - rewrite N.eqb_refl. reflexivity.
  - destruct (N.eqb_spec (ck (fst h)) (ck (fst p))) as [Heq|Hne].
    + exfalso. apply Hnin. rewrite Heq. apply In_classes. exact Hin.
    + apply IH; assumption.
Qed.

Lemma lookup_uniq_iff (l : list kv) c p :
  Uniq ck l -> (lookup ck l c = Some p <-> In p l /\ ck (fst p) = c).
Proof.
  intros Hu. split; [apply lookup_In|]. intros [Hin <-]. apply lookup_uniq_In; assumption.
Qed.

Lemma classes_perm (l l' : list kv) : Permutation l l' -> Permutation (classes l) (classes l').
Proof. apply Permutation_map. Qed.

Lemma Uniq_perm (l l' : list kv) : Permutation l l' -> Uniq ck l -> Uniq ck l'.
Proof. intros Hp. unfold Uniq. apply Permutation_NoDup. apply classes_perm. exact Hp. Qed.

(* the dictionary view does not depend on the order of the entries *)
Lemma lookup_perm (l l' : list kv) c : Uniq ck l -> Permutation l l' -> lookup ck l c = lookup ck l' c.
Proof.
  intros Hu Hp. pose proof (Uniq_perm l l' Hp Hu) as Hu'.
  destruct (lookup ck l c) as [p|] eqn:Hl.
  - symmetry. apply (lookup_uniq_iff l' c p Hu').
    destruct (lookup_In l c p Hl) as [Hin Hc]. split; [|exact Hc].
    eapply Permutation_in; eauto.
  - symmetry. apply lookup_None_iff. apply lookup_None_iff in Hl.
    intros Hin. apply Hl. eapply Permutation_in; [apply Permutation_sym; apply classes_perm; exact Hp | exact Hin].
Qed.

Lemma classes_length (l : list kv) : length (classes l) = length l.
Proof. apply map_length. Qed.

(* ------------------------------------------------------------------------ *)
(* Goal A: equality is extensional                                           *)

Definition entry_ok_in (lb : list kv) (p : kv) : bool :=
  match lookup ck lb (ck (fst p)) with Some (_, v') => veq v' (snd p) | None => false end.

(* the two dictionaries agree at class c *)
Definition agree_at (la lb : list kv) (c : N) : Prop :=
  match lookup ck la c, lookup ck lb c with
  | Some (_, v), Some (_, v') => veq v' v = true
  | None, None => True
  | _, _ => False
  end.

Lemma entry_ok_incl (la lb : list kv) :
  forallb (entry_ok_in lb) la = true -> incl (classes la) (classes lb).
Proof.
  intros Hf c Hc. unfold classes in Hc. apply in_map_iff in Hc. destruct Hc as (p & <- & Hin).
  rewrite forallb_forall in Hf. specialize (Hf p Hin). unfold entry_ok_in in Hf.
  destruct (lookup ck lb (ck (fst p))) as [q|] eqn:Hq; [|discriminate].
  apply lookup_Some_iff. exists q. exact Hq.
Qed.

Lemma map_eq_extensional (la lb : list kv) : Uniq ck la -> Uniq ck lb ->
  ((length la =? length lb) && forallb (entry_ok_in lb) la = true <->
   (forall c, match lookup ck la c, lookup ck lb c with
              | Some (_, v), Some (_, v') => veq v' v = true
              | None, None => True
              | _, _ => False
              end)).
Proof.
  intros Hua Hub. split.
  - intros H. apply andb_true_iff in H. destruct H as [Hlen Hf]. apply Nat.eqb_eq in Hlen.
    pose proof (entry_ok_incl la lb Hf) as Hincl.
    assert (Hincl' : incl (classes lb) (classes la)).
    { apply NoDup_length_incl; [exact Hua | rewrite !classes_length; lia | exact Hincl]. }
    intros c. destruct (lookup ck la c) as [[k v]|] eqn:Hla.
    + destruct (lookup_In la c (k, v) Hla) as [Hin Hc]. cbn [fst] in Hc.
      rewrite forallb_forall in Hf. specialize (Hf (k, v) Hin). unfold entry_ok_in in Hf.
      cbn [fst snd] in Hf. rewrite Hc in Hf.
      destruct (lookup ck lb c) as [[k' v']|]; [exact Hf | discriminate].
    + destruct (lookup ck lb c) as [[k' v']|] eqn:Hlb; [|exact I].
      apply lookup_None_iff in Hla. apply Hla. apply Hincl'.
      apply lookup_Some_iff. exists (k', v'). exact Hlb.
  - intros H. apply andb_true_iff. split.
    + apply Nat.eqb_eq. rewrite <- (classes_length la), <- (classes_length lb).
      assert (H1 : incl (classes la) (classes lb)).
      { intros c Hc. apply lookup_Some_iff in Hc. destruct Hc as [p Hp]. specialize (H c). rewrite Hp in H.
        apply lookup_Some_iff. destruct p as [k v]. destruct (lookup ck lb c) as [q|]; [exists q; reflexivity | destruct H]. }
      assert (H2 : incl (classes lb) (classes la)).
      { intros c Hc. apply lookup_Some_iff in Hc. destruct Hc as [p Hp]. specialize (H c). rewrite Hp in H.
        apply lookup_Some_iff. destruct (lookup ck la c) as [q|]; [exists q; reflexivity | destruct H]. }
      apply Nat.le_antisymm; apply NoDup_incl_length; assumption.
    + apply forallb_forall. intros [k v] Hin. unfold entry_ok_in. cbn [fst snd].
      specialize (H (ck k)). pose proof (lookup_uniq_In la (k, v) Hua Hin) as Hl.
      cbn [fst] in Hl. rewrite Hl in H.
      destruct (lookup ck lb (ck k)) as [[k' v']|]; [exact H | destruct H].
Qed.

Lemma map_eq_refl (la : list kv) : Uniq ck la -> (forall v, veq v v = true) ->
  (length la =? length la) && forallb (entry_ok_in la) la = true.
Proof.
  intros Hu Hr. rewrite Nat.eqb_refl. cbn [andb]. apply forallb_forall. intros p Hin.
  unfold entry_ok_in. rewrite (lookup_uniq_In la p Hu Hin). destruct p as [k v]. apply Hr.
Qed.

Lemma bool_eq_of_iff (a b : bool) : (a = true <-> b = true) -> a = b.
Proof.
  destruct a, b; intros [H1 H2]; try reflexivity;
    [symmetry; apply H1; reflexivity | apply H2; reflexivity].
Qed.

Lemma map_eq_sym (la lb : list kv) : Uniq ck la -> Uniq ck lb -> (forall x y, veq x y = veq y x) ->
  (length la =? length lb) && forallb (entry_ok_in lb) la = (length lb =? length la) && forallb (entry_ok_in la) lb.
Proof.
  intros Hua Hub Hs. apply bool_eq_of_iff.
  rewrite (map_eq_extensional la lb Hua Hub), (map_eq_extensional lb la Hub Hua).
  split; intros H c; specialize (H c);
    destruct (lookup ck la c) as [[k v]|]; destruct (lookup ck lb c) as [[k' v']|]; auto;
    rewrite Hs; exact H.
Qed.

Lemma map_eq_perm (la la' lb : list kv) : Uniq ck la -> Uniq ck lb -> Permutation la la' ->
  (length la =? length lb) && forallb (entry_ok_in lb) la = (length la' =? length lb) && forallb (entry_ok_in lb) la'.
Proof.
  intros Hua Hub Hp. pose proof (Uniq_perm la la' Hp Hua) as Hua'. apply bool_eq_of_iff.
  rewrite (map_eq_extensional la lb Hua Hub), (map_eq_extensional la' lb Hua' Hub).
  split; intros H c; specialize (H c).
  - rewrite <- (lookup_perm la la' c Hua Hp). exact H.
  - rewrite (lookup_perm la la' c Hua Hp). exact H.
Qed.

Lemma map_eq_perm_r (la lb lb' : list kv) : Uniq ck la -> Uniq ck lb -> Permutation lb lb' ->
  (length la =? length lb) && forallb (entry_ok_in lb) la = (length la =? length lb') && forallb (entry_ok_in lb') la.
Proof.
  intros Hua Hub Hp. pose proof (Uniq_perm lb lb' Hp Hub) as Hub'. apply bool_eq_of_iff.
  rewrite (map_eq_extensional la lb Hua Hub), (map_eq_extensional la lb' Hua Hub').
  split; intros H c; specialize (H c).
  - rewrite <- (lookup_perm lb lb' c Hub Hp). exact H.
  - rewrite (lookup_perm lb lb' c Hub Hp). exact H.
Qed.

(* ------------------------------------------------------------------------ *)
(* A1: the model's PartialEq computes that boolean                           *)

Lemma skipn_nth_cons {A} (l : list A) i p : nth_error l i = Some p -> skipn i l = p :: skipn (S i) l.
Proof.
  revert i; induction l as [|h t IH]; intros [|i] H; cbn [nth_error] in H; try discriminate.
  - injection H as ->. reflexivity.
  - cbn [skipn]. rewrite (IH i H). reflexivity.
Qed.

Lemma skipn_all_ge {A} (l : list A) i : length l <= i -> skipn i l = [].
Proof.
  revert i; induction l as [|h t IH]; intros [|i] H; cbn [length] in H; cbn [skipn]; try reflexivity; try lia.
  apply IH. lia.
Qed.

Lemma eq_loop_lawful a b : WF a -> WF b -> forall n i w,
  i + n = len a ->
  wp (eq_loop E a b n i)
     (fun r w' => stable w w' /\ r = forallb (entry_ok_in (elems b)) (skipn i (elems a)))
     (fun _ => False) w.
Proof.
  intros Ha Hb. induction n as [|n IH]; intros i w Hn; cbn [eq_loop].
  - apply wp_ret. split; [apply stable_refl|].
    rewrite skipn_all_ge; [reflexivity | rewrite (elems_length a Ha); lia].
  - assert (Hi : i < len a) by lia.
    destruct (WF_live _ _ Ha Hi) as [[k v] Hp]. rewrite Hp.
    assert (Hel : nth_error (elems a) i = Some (k, v)) by (apply (elems_nth a i (k, v) Ha Hi); exact Hp).
    rewrite (skipn_nth_cons _ _ _ Hel). cbn [forallb].
    apply wp_bind. apply wp_on_map.
    eapply wp_mono;
      [apply (scan_lawful ck (test_k E k) (ck k) (with_self w b));
         [apply (cls_test_k E ck cq HL) | simp_w; exact Hb] | | auto]; cbn beta.
    intros r w1 [[Hs1 Hl1] ->]. simp_w.
    assert (Hst1 : forall s, stable w (with_cb (with_self w1 (self w)) s)).
    { intros s. split; simp_w; [reflexivity | exact Hl1]. }
    unfold entry_ok_in at 1. unfold lookup. cbn [fst snd].
    destruct (find_idx ck (ck k) (elems b)) as [j|] eqn:Hj.
    + destruct (find_idx_inv ck _ _ _ Hj) as [[[k' v'] [Hq Hc]] _].
      destruct (elems_nth_slot b j (k', v') Hb Hq) as [Hjl Hq']. rewrite Hq, Hq'.
      apply wp_bind. apply wp_cbk_eq. simp_w. rewrite HV. destruct (veq v' v); cbn [andb].
      * eapply wp_mono; [apply IH; lia | | auto]; cbn beta.
        intros r w2 [Hst ->]. split; [|reflexivity].
        eapply stable_trans; [apply Hst1 | exact Hst].
      * apply wp_ret. split; [apply Hst1 | reflexivity].
    + apply wp_ret. split; [|reflexivity]. split; simp_w; [reflexivity | exact Hl1].
Qed.

Lemma map_eq_lawful a b w : WF a -> WF b ->
  wp (map_eq E a b)
     (fun r w' => stable w w' /\ r = (len a =? len b) && forallb (entry_ok_in (elems b)) (elems a))
     (fun _ => False) w.
Proof.
  intros Ha Hb. unfold map_eq. destruct (len a =? len b); cbn [andb].
  - pose proof (WF_len_le_cap _ Ha) as Hle.
    destruct (Nat.leb_spec (len a) (cap a)) as [_|Hgt]; [|lia].
    eapply wp_mono; [apply (eq_loop_lawful a b Ha Hb (len a) 0 w); lia | | auto]; cbn beta.
    intros r w' [Hst ->]. split; [exact Hst | reflexivity].
  - apply wp_ret. split; [apply stable_refl | reflexivity].
Qed.

(* ------------------------------------------------------------------------ *)
(* Goal B: clone                                                             *)
Context (HCK : forall s k, exists k' s', cloneK E s k = (Some k', s') /\ ck k' = ck k).
Context (HCV : forall s v, exists v' s', cloneV E s v = (Some v', s') /\ veq v' v = true).

Local Notation clone_rel := (fun p p' : kv => ck (fst p') = ck (fst p) /\ veq (snd p') (snd p) = true).
Local Notation clone_evs := (fun p : kv => List.map EvCloneK (idK E (fst p)) ++ List.map EvCloneV (idV E (snd p))).

Lemma wp_finally_drop_nopanic {A} (c : M A) (Qn : A -> world -> Prop) (Qp : world -> Prop) w :
  wp c Qn (fun _ => False) w -> wp (finally_drop E c) Qn Qp w.
Proof.
  unfold wp at 1 2. unfold finally_drop. destruct (c w) as [a w'|w'|]; auto. intros [].
Qed.

Lemma clone_pair_lawful p w :
  wp (clone_pair E p)
     (fun p' w' => self w' = self w /\ clone_rel p p' /\ logged w w' (clone_evs p))
     (fun _ => False) w.
Proof.
  unfold clone_pair. apply wp_bind. apply wp_emit.
  apply wp_bind. apply wp_cbo_eq. simp_w.
  destruct (HCK (cb w) (fst p)) as (k' & s1 & Hk & Hck). rewrite Hk. cbn [fst snd].
  apply wp_bind. apply wp_emit.
  (* under HCV the value clone never panics: the unwinding wrapper is inert *)
  apply wp_bind. apply wp_on_unwind_nopanic. apply wp_cbo_eq. simp_w.
  destruct (HCV s1 (snd p)) as (v' & s2 & Hv & Hcv). rewrite Hv. cbn [fst snd].
  apply wp_ret. simp_w. split; [reflexivity|]. split; [split; assumption|].
  unfold logged. simp_w. rewrite app_assoc. reflexivity.
Qed.

Lemma clone_loop_lawful src : WF src -> forall n i w,
  WF (self w) -> len (self w) = i -> i + n <= cap (self w) -> i + n = len src ->
  wp (clone_loop E src n i)
     (fun _ w' => WF (self w') /\ cap (self w') = cap (self w) /\ len (self w') = i + n /\
                  (exists l', elems (self w') = elems (self w) ++ l' /\
                              Forall2 clone_rel (skipn i (elems src)) l') /\
                  logged w w' (flat_map clone_evs (skipn i (elems src))))
     (fun _ => False) w.
Proof.
  intros Hsrc. induction n as [|n IH]; intros i w Hw Hl Hc Hn; cbn [clone_loop].
  - apply wp_ret. rewrite skipn_all_ge by (rewrite (elems_length src Hsrc); lia).
    split; [exact Hw|]. split; [reflexivity|]. split; [lia|]. split.
    + exists []. rewrite app_nil_r. split; [reflexivity | constructor].
    + unfold logged. cbn [flat_map]. rewrite app_nil_r. reflexivity.
  - assert (Hi : i < len src) by lia.
    destruct (WF_live _ _ Hsrc Hi) as [p Hp]. rewrite Hp.
    assert (Hel : nth_error (elems src) i = Some p) by (apply (elems_nth src i p Hsrc Hi); exact Hp).
    rewrite (skipn_nth_cons _ _ _ Hel).
    apply wp_bind. eapply wp_mono; [apply clone_pair_lawful | | auto]; cbn beta.
    intros p' w1 (Hs1 & Hrel & Hlog1).
    apply wp_bind. apply wp_p_write; [rewrite Hs1; lia|].
    apply wp_bind. apply wp_set_len. simp_w. rewrite Hs1.
    set (w2 := with_self _ _).
    assert (Hself2 : self w2 = set_len_m (set_slot_m (self w) (len (self w)) (Some p')) (S (len (self w)))).
    { unfold w2. simp_w. rewrite Hl. reflexivity. }
    assert (Hcl : len (self w) < cap (self w)) by lia.
    assert (Hw2 : WF (self w2)) by (rewrite Hself2; apply WF_append; assumption).
    assert (Hc2 : cap (self w2) = cap (self w)) by (rewrite Hself2, cap_set_len, cap_set_slot; reflexivity).
    assert (Hl2 : len (self w2) = S i) by (unfold w2; reflexivity).
    assert (He2 : elems (self w2) = elems (self w) ++ [p']) by (rewrite Hself2; apply elems_append; assumption).
    assert (Hlog2 : log w2 = log w1) by reflexivity.
    eapply wp_mono; [apply (IH (S i) w2 Hw2 Hl2); [rewrite Hc2; lia | lia] | | auto]; cbn beta.
    intros _ w3 (Hw3 & Hc3 & Hl3 & (l' & He3 & Hf3) & Hlog3).
    split; [exact Hw3|]. split; [congruence|]. split; [lia|]. split.
    + exists (p' :: l'). split.
      * rewrite He3, He2, <- app_assoc. reflexivity.
      * constructor; assumption.
    + unfold logged in *. rewrite Hlog3, Hlog2, Hlog1. cbn [flat_map]. rewrite <- app_assoc. reflexivity.
Qed.

Lemma clone_lawful src w : WF src -> WF (self w) -> len (self w) = 0 -> cap (self w) = cap src ->
  wp (clone_from_src E src)
     (fun _ w' => WF (self w') /\ cap (self w') = cap src /\ len (self w') = len src /\
                  Forall2 (fun p p' => ck (fst p') = ck (fst p) /\ veq (snd p') (snd p) = true) (elems src) (elems (self w')) /\
                  logged w w' (flat_map (fun p : kv => List.map EvCloneK (idK E (fst p)) ++ List.map EvCloneV (idV E (snd p))) (elems src)))
     (fun _ => False) w.
Proof.
  intros Hsrc Hw Hl Hc. unfold clone_from_src. apply wp_finally_drop_nopanic.
  apply wp_bind. apply wp_get_cap.
  pose proof (WF_len_le_cap _ Hsrc) as Hle.
  destruct (Nat.leb_spec (len src) (cap src)) as [_|Hgt]; [|lia].
  replace (Nat.min (cap (self w)) (len src)) with (len src) by lia.
  eapply wp_mono; [apply (clone_loop_lawful src Hsrc (len src) 0 w Hw Hl); lia | | auto]; cbn beta.
  intros _ w' (Hw' & Hc' & Hl' & (l' & He & Hf) & Hlog). cbn [skipn] in Hf, Hlog.
  split; [exact Hw'|]. split; [congruence|]. split; [lia|]. split; [|exact Hlog].
  assert (He0 : elems (self w) = []) by (unfold elems; rewrite Hl; destruct (slots (self w)); reflexivity).
  rewrite He, He0. exact Hf.
Qed.

(* B2: a list related entry by entry to a Uniq list is Uniq and compares equal *)
Lemma Forall2_length_eq {A B} (R : A -> B -> Prop) l l' : Forall2 R l l' -> length l = length l'.
Proof. induction 1; cbn [length]; congruence. Qed.

Lemma clone_classes (la lb : list kv) :
  Forall2 (fun p p' => ck (fst p') = ck (fst p) /\ veq (snd p') (snd p) = true) la lb ->
  classes lb = classes la.
Proof.
  induction 1 as [|p p' la lb [Hc _] _ IH]; [reflexivity|].
  unfold classes in *. cbn [List.map]. rewrite Hc, IH. reflexivity.
Qed.

Lemma clone_agree (la lb : list kv) :
  Forall2 (fun p p' => ck (fst p') = ck (fst p) /\ veq (snd p') (snd p) = true) la lb ->
  forall c, match lookup ck la c, lookup ck lb c with
            | Some (_, v), Some (_, v') => veq v' v = true
            | None, None => True
            | _, _ => False
            end.
Proof.
  induction 1 as [|[k v] [k' v'] la lb [Hc Hv] _ IH]; intros c.
  - rewrite !lookup_nil. exact I.
  - rewrite !lookup_cons. cbn [fst snd] in *. rewrite Hc.
    destruct (N.eqb (ck k) c); [exact Hv | apply IH].
Qed.

Lemma clone_equal (la lb : list kv) : Uniq ck la ->
  Forall2 (fun p p' => ck (fst p') = ck (fst p) /\ veq (snd p') (snd p) = true) la lb ->
  Uniq ck lb /\ (length la =? length lb) && forallb (entry_ok_in lb) la = true.
Proof.
  intros Hu Hf.
  assert (Hub : Uniq ck lb) by (unfold Uniq; fold (classes lb); rewrite (clone_classes la lb Hf); exact Hu).
  split; [exact Hub|]. apply (map_eq_extensional la lb Hu Hub). apply clone_agree. exact Hf.
Qed.

End EqClone.
